import numpy as np, warnings
warnings.filterwarnings('ignore')
import jesse.helpers as jh
from jesse.strategies import Strategy
from jesse.config import config as jc, set_config
from jesse.routes import router
from jesse.store import store
from jesse.research.backtest import _format_config
from jesse.modes.backtest_mode import _prepare_routes
from jesse.models import Order
from jesse.enums import order_types, sides

class P(Strategy):
    def should_long(self): return False
    def go_long(self): pass

def session(typ='spot', fee=0.0, lev=1, mode='cross', ex='Binance Spot', bal=1000):
    jc['app']['trading_mode']='backtest'
    cfg={'starting_balance':bal,'fee':fee,'type':typ,'futures_leverage':lev,'futures_leverage_mode':mode,'exchange':ex,'warm_up_candles':0}
    set_config(_format_config(cfg))
    router.initiate([{'exchange':ex,'strategy':P,'symbol':'BTC-USDT','timeframe':'1m'}], [])
    store.candles.init_storage(50)
    store.app.time = 1609459200000+60000
    store.candles.add_candle(np.array([1609459200000,100,100,100,100,1.0]), ex,'BTC-USDT','1m',with_execution=False,with_generation=False)
    _prepare_routes(None)
    p = store.positions.storage[f'{ex}-BTC-USDT']; p.current_price=100.0
    return store.exchanges.storage[ex], p

def order(ex, side, typ, qty, price, ro=False):
    o = Order({'id':jh.generate_unique_id(),'symbol':'BTC-USDT','exchange':ex,'side':side,'type':typ,'reduce_only':ro,'qty':jh.prepare_qty(qty,side),'price':price})
    store.orders.add_order(o); return o

e,p = session('spot')
b = order(e.name,'buy','MARKET',5,100.0); b.execute()
print('assets', e.assets, 'pos', p.qty)
s1 = order(e.name,'sell','STOP',3,90.0); print('stop sum', e.stop_orders_sum)
s1.cancel(); print('after cancel stop sum', e.stop_orders_sum)
try:
    s2 = order(e.name,'sell','STOP',8,90.0); print('ACCEPTED oversell 8 > 5; stop sum', e.stop_orders_sum)
    s2.execute(); print('assets', e.assets, 'pos', p.qty)
except Exception as ex_: print('rejected', type(ex_).__name__)
