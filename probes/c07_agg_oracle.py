import numpy as np, warnings, sys, collections
warnings.filterwarnings('ignore')
from jesse.research import backtest
from jesse.strategies import Strategy
import jesse.helpers as jh
TFM={'1m':1,'3m':3,'5m':5,'15m':15,'30m':30,'1h':60}
issues=collections.Counter(); examples={}
checks=0
def agg(rows):
    return [rows[0][0],rows[0][1],rows[-1][2],rows[:,3].max(),rows[:,4].min(),rows[:,5].sum()]
class S(Strategy):
    tfs=[]; fillstyle=0
    def should_long(self): return self.index % 7 == 3
    def go_long(self):
        self.buy = 1, self.price - 1          # limit below: fills mid-candle
        self.stop_loss = 1, self.price - 4
        self.take_profit = 1, self.price + 2
    def should_cancel_entry(self): return self.index % 3 == 0
    def _obs(self, where):
        global checks
        m1 = self.get_candles(self.exchange, self.symbol, '1m')
        for tf in S.tfs:
            n=TFM[tf]
            try:
                c = self.get_candles(self.exchange, self.symbol, tf)
            except Exception as e:
                issues[(where,tf,'EXC '+type(e).__name__)]+=1; continue
            checks+=1
            t0 = m1[0][0]
            # expected windows aligned to t0 (session/warmup start aligned by construction)
            exp=[]
            k=0
            while k < len(m1):
                exp.append(agg(m1[k:k+n])); k+=n
            exp=np.array(exp)
            if len(c)!=len(exp):
                key=(where,tf,'COUNT'); issues[key]+=1; examples.setdefault(key,(self.index,len(c),len(exp),len(m1)))
                continue
            if not np.array_equal(c,exp):
                bad=np.where(~(c==exp).all(axis=1))[0]
                key=(where,tf,'ROW last' if bad[0]==len(exp)-1 else 'ROW old'); issues[key]+=1
                examples.setdefault(key,(self.index,int(bad[0]),len(exp),c[bad[0]].tolist(),exp[bad[0]].tolist()))
            try:
                cur = __import__('jesse').store.store.candles.get_current_candle(self.exchange, self.symbol, tf)
                if not np.array_equal(cur, exp[-1]):
                    key=(where,tf,'CUR'); issues[key]+=1; examples.setdefault(key,(self.index,cur.tolist(),exp[-1].tolist()))
            except Exception as e:
                issues[(where,tf,'CUR EXC')]+=1
    def before(self): self._obs('before')
    def on_open_position(self,o): self._obs('hook')
    def on_close_position(self,o): self._obs('hook')
def mk(n, seed, t0=1609459200000):
    rng=np.random.default_rng(seed)
    c=np.zeros((n,6)); p=100.0
    for i in range(n):
        o=p+int(rng.integers(-1,2))*(rng.random()<0.2); cl=o+int(rng.integers(-2,3)); h=max(o,cl)+int(rng.integers(0,3)); l=min(o,cl)-int(rng.integers(0,3))
        c[i]=[t0+i*60000,o,cl,h,l,int(rng.integers(1,100))]; p=cl
    return c
ex='Binance Perpetual Futures'
def run(trading_tf, data_tfs, n, warm, fast, seed):
    S.tfs=[trading_tf]+data_tfs
    cfg={'starting_balance':10000,'fee':0,'type':'futures','futures_leverage':2,'futures_leverage_mode':'cross','exchange':ex,'warm_up_candles':warm}
    routes=[{'exchange':ex,'strategy':S,'symbol':'BTC-USDT','timeframe':trading_tf}]
    dr=[{'exchange':ex,'symbol':'BTC-USDT','timeframe':t} for t in data_tfs]
    allc=mk(n+warm, seed)
    wc={f'{ex}-BTC-USDT':{'exchange':ex,'symbol':'BTC-USDT','candles':allc[:warm]}} if warm else None
    try:
        backtest(cfg,routes,dr,{f'{ex}-BTC-USDT':{'exchange':ex,'symbol':'BTC-USDT','candles':allc[warm:]}},warmup_candles=wc,fast_mode=fast)
    except Exception as e:
        issues[('RUN',trading_tf,tuple(data_tfs),warm,fast,type(e).__name__+':'+str(e)[:50])]+=1
seed=0
for fast in (False,True):
  for warm in (0,60):
    for ttf,dtf in (('1m',['5m','15m']),('5m',['15m']),('3m',['15m','1m']),('15m',['1h']),('1m',['3m'])):
      for n in (120,127,300):
        seed+=1; run(ttf,dtf,n,warm,fast,seed)
print('checks',checks)
for k,v in sorted(issues.items(), key=lambda x:-x[1]): print(v,k, examples.get(k,''))
