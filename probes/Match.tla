---- MODULE Match ----
EXTENDS Integers, Sequences, FiniteSets, TLC
CONSTANTS K, MaxOrders, MaxReact
Px == 1..K
Candles == {c \in [o : Px, c : Px, h : Px, l : Px] : c.l <= c.o /\ c.l <= c.c /\ c.o <= c.h /\ c.c <= c.h}
Min2(a,b) == IF a < b THEN a ELSE b
Max2(a,b) == IF a > b THEN a ELSE b
Abs(x) == IF x < 0 THEN -x ELSE x
Includes(c, p) == p >= c.l /\ p <= c.h
Bull(c) == c.c >= c.o
Bear(c) == c.c < c.o
Cd(o_, c_, h_, l_) == [o |-> o_, c |-> c_, h |-> h_, l |-> l_]

\* ---- services.candle.split_candle, branch by branch (returns <<earlier, later>>) ----
Split(cd, p) ==
  LET o == cd.o c == cd.c h == cd.h l == cd.l IN
  IF Bull(cd) /\ l < p /\ p < o THEN <<Cd(o,p,o,p), Cd(p,c,h,l)>>
  ELSE IF p = o THEN <<cd, cd>>
  ELSE IF Bear(cd) /\ o < p /\ p < h THEN <<Cd(o,p,p,o), Cd(p,c,h,l)>>
  ELSE IF Bear(cd) /\ l < p /\ p < c THEN <<Cd(o,p,h,p), Cd(p,c,c,l)>>
  ELSE IF Bull(cd) /\ c < p /\ p < h THEN <<Cd(o,p,p,l), Cd(p,c,h,c)>>
  ELSE IF Bear(cd) /\ p = c THEN <<Cd(o,c,h,c), Cd(p,p,p,l)>>
  ELSE IF Bull(cd) /\ p = c THEN <<Cd(o,c,c,l), Cd(p,p,h,p)>>
  ELSE IF Bear(cd) /\ p = h THEN <<Cd(o,h,h,o), Cd(h,c,h,l)>>
  ELSE IF Bull(cd) /\ p = l THEN <<Cd(o,l,o,l), Cd(l,c,h,l)>>
  ELSE IF Bear(cd) /\ p = l THEN <<Cd(o,l,h,l), Cd(l,c,c,l)>>
  ELSE IF Bull(cd) /\ p = h THEN <<Cd(o,h,h,l), Cd(h,c,h,c)>>
  ELSE IF Bear(cd) /\ c < p /\ p < o THEN <<Cd(o,p,h,p), Cd(p,c,p,l)>>
  ELSE IF Bull(cd) /\ o < p /\ p < c THEN <<Cd(o,p,p,l), Cd(p,c,h,p)>>
  ELSE <<cd, cd>>          \* unreachable when Includes(cd, p)

\* ---- canonical path of the REAL candle: position = leg*100 + distance travelled on the leg ----
Leg(cd, k) == IF Bull(cd) THEN (CASE k = 0 -> <<cd.o, cd.l>> [] k = 1 -> <<cd.l, cd.h>> [] k = 2 -> <<cd.h, cd.c>>)
                          ELSE (CASE k = 0 -> <<cd.o, cd.h>> [] k = 1 -> <<cd.h, cd.l>> [] k = 2 -> <<cd.l, cd.c>>)
OnLeg(g, p) == Min2(g[1], g[2]) <= p /\ p <= Max2(g[1], g[2])
NoReach == 999
Reaches(cd, from, p) == {k * 100 + Abs(p - Leg(cd,k)[1]) : k \in {kk \in 0..2 : OnLeg(Leg(cd,kk), p)}}
FirstReach(cd, from, p) == LET s == {x \in Reaches(cd, from, p) : x >= from} IN
                           IF s = {} THEN NoReach ELSE CHOOSE x \in s : \A y \in s : x <= y

\* ---- state ----
VARIABLES real, temp, ords, cands, cursor, pc, lastPos, nreact, bad
vars == <<real, temp, ords, cands, cursor, pc, lastPos, nreact, bad>>
Active(i) == ords[i].st = "A"

\* stable sort of a sequence of order indices by price (insertion sort; ties keep original order)
RECURSIVE InsAsc(_, _), SortAsc(_), InsDesc(_, _), SortDesc(_)
InsAsc(s, x) == IF s = <<>> THEN <<x>>
                ELSE IF ords[x].p < ords[Head(s)].p THEN <<x>> \o s ELSE <<Head(s)>> \o InsAsc(Tail(s), x)
\* build by inserting from the right so that equal keys keep their original relative order
SortAsc(s) == IF s = <<>> THEN <<>> ELSE
              LET rest == SortAsc(SubSeq(s, 1, Len(s) - 1)) x == s[Len(s)] IN
              \* insert x after all elements with key <= key(x)
              LET RECURSIVE Place(_)
                  Place(t) == IF t = <<>> THEN <<x>>
                              ELSE IF ords[Head(t)].p <= ords[x].p THEN <<Head(t)>> \o Place(Tail(t)) ELSE <<x>> \o t
              IN Place(rest)
SortDesc(s) == IF s = <<>> THEN <<>> ELSE
              LET rest == SortDesc(SubSeq(s, 1, Len(s) - 1)) x == s[Len(s)] IN
              LET RECURSIVE Place(_)
                  Place(t) == IF t = <<>> THEN <<x>>
                              ELSE IF ords[Head(t)].p >= ords[x].p THEN <<Head(t)>> \o Place(Tail(t)) ELSE <<x>> \o t
              IN Place(rest)
InsDesc(s, x) == s
FilterSeq(s, P(_)) == LET RECURSIVE F(_)
                          F(t) == IF t = <<>> THEN <<>> ELSE (IF P(Head(t)) THEN <<Head(t)>> ELSE <<>>) \o F(Tail(t))
                      IN F(s)
\* _get_executing_orders + _sort_execution_orders for a single candle
Select(os, cd) ==
  LET idx == [i \in 1..Len(os) |-> i]
      inc == FilterSeq(idx, LAMBDA i : os[i].st = "A" /\ Includes(cd, os[i].p))
  IN IF Len(inc) <= 1 THEN inc
     ELSE LET red == cd.o > cd.c
              onOpen == FilterSeq(inc, LAMBDA i : os[i].p = cd.o)
              above  == FilterSeq(inc, LAMBDA i : os[i].p > cd.o)
              below  == FilterSeq(inc, LAMBDA i : ~(os[i].p > cd.o))     \* includes price = open (as the code)
          IN onOpen \o (IF red THEN SortAsc(above) \o SortDesc(below) ELSE SortDesc(below) \o SortAsc(above))

Init == /\ real \in Candles /\ temp = real
        /\ \E n \in 0..MaxOrders : ords \in [1..n -> [p : Px, st : {"A"}, born : {0}]]
        /\ cands = <<>> /\ cursor = 0 /\ pc = "select" /\ lastPos = 0 /\ nreact = 0 /\ bad = "no"

Begin == /\ pc = "select" /\ cands' = Select(ords, temp) /\ cursor' = 1 /\ pc' = "loop"
         /\ UNCHANGED <<real, temp, ords, lastPos, nreact, bad>>

\* ghost: is filling order i now consistent with the canonical path?
From(i) == Max2(lastPos, ords[i].born)
FillVerdict(i) ==
  LET r == FirstReach(real, From(i), ords[i].p) IN
  IF r = NoReach THEN "fill-without-reach"
  ELSE IF \E j \in 1..Len(ords) : j # i /\ Active(j) /\ FirstReach(real, From(j), ords[j].p) < r THEN "skipped-earlier-order"
  ELSE "no"

Step ==
  /\ pc = "loop" /\ cursor <= Len(cands)
  /\ LET i == cands[cursor] IN
     IF ~Active(i) \/ ~Includes(temp, ords[i].p)
     THEN /\ cursor' = cursor + 1 /\ UNCHANGED <<real, temp, ords, cands, pc, lastPos, nreact, bad>>
     ELSE /\ temp' = Split(temp, ords[i].p)[2]
          /\ ords' = [ords EXCEPT ![i].st = "E"]
          /\ bad' = IF bad # "no" THEN bad ELSE FillVerdict(i)
          /\ lastPos' = LET r == FirstReach(real, From(i), ords[i].p) IN IF r = NoReach THEN lastPos ELSE r
          /\ pc' = "react" /\ UNCHANGED <<real, cands, cursor, nreact>>

\* environment inside order.execute(): hooks may submit or cancel
ReactSubmit(p) == /\ pc = "react" /\ nreact < MaxReact /\ Len(ords) < MaxOrders + MaxReact
                  /\ ords' = Append(ords, [p |-> p, st |-> "A", born |-> lastPos])
                  /\ nreact' = nreact + 1 /\ UNCHANGED <<real, temp, cands, cursor, pc, lastPos, bad>>
ReactCancel(j) == /\ pc = "react" /\ nreact < MaxReact /\ Active(j)
                  /\ ords' = [ords EXCEPT ![j].st = "C"]
                  /\ nreact' = nreact + 1 /\ UNCHANGED <<real, temp, cands, cursor, pc, lastPos, bad>>
Reselect == /\ pc = "react" /\ cands' = Select(ords, temp) /\ cursor' = 1 /\ pc' = "loop"
            /\ UNCHANGED <<real, temp, ords, lastPos, nreact, bad>>

Finish == /\ pc = "loop" /\ cursor > Len(cands) /\ pc' = "done"
          /\ bad' = IF bad # "no" THEN bad
                    ELSE IF \E j \in 1..Len(ords) : Active(j) /\ FirstReach(real, From(j), ords[j].p) # NoReach
                         THEN "missed-fill" ELSE "no"
          /\ UNCHANGED <<real, temp, ords, cands, cursor, lastPos, nreact>>

Next == Begin \/ Step \/ (\E p \in Px : ReactSubmit(p)) \/ (\E j \in 1..Len(ords) : ReactCancel(j)) \/ Reselect \/ Finish
Spec == Init /\ [][Next]_vars

PathOK == bad = "no"
\* split_candle contract on every split the loop performs is checked separately:
SplitOK == \A cd \in Candles, p \in Px : Includes(cd, p) =>
   LET s == Split(cd, p) e == s[1] r == s[2] IN
   /\ e \in Candles /\ r \in Candles /\ e.o = cd.o /\ r.c = cd.c
   /\ Max2(e.h, r.h) = cd.h /\ Min2(e.l, r.l) = cd.l
   /\ (p # cd.o => e.c = p /\ r.o = p)
ASSUME SplitOK
====
