import numpy as np, warnings, sys, collections
warnings.filterwarnings('ignore')
from jesse.research import backtest
from jesse.strategies import Strategy
from jesse.models import Order
from jesse.modes import backtest_mode as bm
from jesse.store import store
from jesse.routes import router
import jesse.helpers as jh
issues=collections.Counter(); ex_={}; nsub=0; nsamp=0
cur_strategy={}
_oi=Order.__init__
def oinit(self,*a,**k):
    global nsub
    _oi(self,*a,**k)
    # find the route's strategy
    r=[r for r in router.routes if r.symbol==self.symbol][0]; s=r.strategy
    ctx=S.ctx
    nsub+=1
    p=self.price; cur=s.price; side=self.side; pos=s.position
    near=abs(1-p/cur)<=0.00015
    kind=ctx.get('kind')
    if kind is None: return
    if kind=='entry':
        exp='MARKET' if near else ('STOP' if (side=='buy')==(p>cur) else 'LIMIT')
        ok = self.type==exp and not self.reduce_only
    elif kind=='exit':
        ps = 'long' if pos.qty>0 else 'short'
        exp='MARKET' if near else ('LIMIT' if (ps=='long')==(p>cur) else 'STOP')
        ok = self.type==exp and self.reduce_only and side==('sell' if ps=='long' else 'buy')
    else: return
    if not ok:
        key=(kind,self.type,exp,self.reduce_only); issues[key]+=1; ex_.setdefault(key,(p,cur,side,pos.qty,pos.entry_price,ctx))
Order.__init__=oinit
_sd=bm.save_daily_portfolio_balance
def sd(*a,**k):
    global nsamp
    _sd(*a,**k)
    e,=store.exchanges.storage.values()
    rec=store.app.daily_balance[-1]
    if e.type=='futures':
        exp=e.assets[jh.app_currency()]+sum(p.qty*(p.current_price-p.entry_price) for p in store.positions.storage.values() if p.qty!=0)
    else:
        free=e.assets[jh.app_currency()]
        reserved=sum(abs(o.qty)*o.price for key in store.orders.storage for o in store.orders.storage[key] if o.is_active and o.side=='buy')
        base=sum(e.assets[jh.base_asset(p.symbol)]*(p.current_price or 0) for p in store.positions.storage.values())
        exp=free+reserved+base
    nsamp+=1
    if abs(rec-exp)>1e-6:
        key=('equity',e.type,len(router.routes)); issues[key]+=1; ex_.setdefault(key,(len(store.app.daily_balance),rec,exp))
bm.save_daily_portfolio_balance=sd
class S(Strategy):
    ctx={}
    off=(0,0); seedv=0
    def should_long(self): return self.index % 11 == 2
    def should_short(self): return self.exchange_type=='futures' and self.index % 11 == 7
    def _rows(self, sign):
        r=np.random.default_rng(self.index*7+S.seedv+ord(self.symbol[0]))
        return [(1, self.price + sign*int(r.integers(-3,4))) for _ in range(int(r.integers(1,3)))]
    def go_long(self):
        S.ctx={'kind':'entry'}; self.buy=self._rows(1)
        if self.exchange_type=='futures':
            self.stop_loss=2, self.price-6; self.take_profit=[(1,self.price+5),(1,self.price+7)]
    def go_short(self):
        S.ctx={'kind':'entry'}; self.sell=self._rows(-1)
        self.stop_loss=2, self.price+6; self.take_profit=[(1,self.price-5),(1,self.price-7)]
    def should_cancel_entry(self): return self.index%2==0
    def before(self): S.ctx={'kind':None}
    def on_open_position(self,o):
        S.ctx={'kind':'exit'}
        if self.exchange_type=='spot':
            self.stop_loss=self.position.qty, self.price-6; self.take_profit=self.position.qty, self.price+5
    def update_position(self):
        S.ctx={'kind':'exit'}
        r=np.random.default_rng(self.index+S.seedv)
        if r.random()<0.3:
            d = -1 if self.is_long else 1
            self.stop_loss=abs(self.position.qty), self.price + d*int(r.integers(1,5))
        if r.random()<0.1: self.liquidate()
    def _on_open_position(self, order):
        # exits submitted by the framework from go_long declarations
        S.ctx={'kind':'exit_framework'}   # includes the wrong-side->market deviation, not judged
        super()._on_open_position(order)
def mk(n, seed, base=100):
    rng=np.random.default_rng(seed)
    c=np.zeros((n,6)); p=float(base)
    for i in range(n):
        o=p; cl=max(20,o+int(rng.integers(-2,3))); h=max(o,cl)+int(rng.integers(0,3)); l=min(o,cl)-int(rng.integers(0,3))
        c[i]=[1609459200000+i*60000,o,cl,h,l,int(rng.integers(1,100))]; p=cl
    return c
def run(typ, nroutes, n, seed, order=0):
    S.seedv=seed
    ex='Binance Perpetual Futures' if typ=='futures' else 'Binance Spot'
    cfg={'starting_balance':10000,'fee':1/1024,'type':typ,'futures_leverage':4,'futures_leverage_mode':'cross','exchange':ex,'warm_up_candles':0}
    syms=['BTC-USDT','ETH-USDT'][:nroutes]
    if order: syms=syms[::-1]
    routes=[{'exchange':ex,'strategy':S,'symbol':s,'timeframe':'1m'} for s in syms]
    cand={f'{ex}-{s}':{'exchange':ex,'symbol':s,'candles':mk(n,seed+i,100+50*i)} for i,s in enumerate(syms)}
    try: backtest(cfg,routes,[],cand)
    except Exception as e:
        issues[('RUN',typ,nroutes,type(e).__name__,str(e)[:70])]+=1
for seed in range(12):
    for typ in ('futures','spot'):
        for nr in (1,2):
            run(typ,nr,3000,seed*10,order=seed%2)
print('submits',nsub,'samples',nsamp)
for k,v in sorted(issues.items(), key=lambda x:-x[1]): print(v,k, ex_.get(k,''))
