SPECIFICATION Spec
VIEW View
CONSTRAINT Bound
CHECK_DEADLOCK FALSE
