---- MODULE DynArr ----
EXTENDS Integers, Sequences, FiniteSets, TLC
CONSTANTS Bucket, DropAt, MaxDepth, MaxLen      \* DropAt = 0 means no drop
None == -99

\* implementation state: idx (last used row, -1 = empty), buf (0-based via buf[i+1]), cap = Len(buf)
\* list = ideal growing list (ghost); nextv = value counter
VARIABLES idx, buf, list, nextv, err
vars == <<idx, buf, list, nextv, err>>
Zeros(n) == [i \in 1..n |-> 0]
Cap == Len(buf)
Visible == SubSeq(buf, 1, idx + 1)
Min2(a,b) == IF a < b THEN a ELSE b
Max2(a,b) == IF a > b THEN a ELSE b

Init == idx = -1 /\ buf = Zeros(Bucket) /\ list = <<>> /\ nextv = 1 /\ err = "none"

ShiftLeft(b, k) == [i \in 1..Len(b) |-> IF i + k <= Len(b) THEN b[i + k] ELSE 0]   \* np_shift(arr, -k)

DoAppend ==
  /\ err = "none" /\ Len(list) < MaxLen
  /\ LET i1 == idx + 1
         b1 == IF i1 # 0 /\ (i1 + 1) % Bucket = 0 THEN buf \o Zeros(Bucket) ELSE buf
         drop == DropAt # 0 /\ i1 # 0 /\ (i1 + 1) % DropAt = 0
         sh == DropAt \div 2
         i2 == IF drop THEN i1 - sh ELSE i1
         b2 == IF drop THEN ShiftLeft(b1, sh) ELSE b1
     IN IF i2 + 1 > Len(b2)
        THEN /\ err' = "IndexError in append" /\ UNCHANGED <<idx, buf, list, nextv>>
        ELSE /\ idx' = i2 /\ buf' = [b2 EXCEPT ![i2 + 1] = nextv]
             /\ list' = (IF drop THEN SubSeq(Append(list, nextv), sh + 1, Len(list) + 1) ELSE Append(list, nextv))
             /\ nextv' = nextv + 1 /\ UNCHANGED err

AppendMultiple(n) ==
  /\ err = "none" /\ Len(list) + n <= MaxLen
  /\ LET items == [k \in 1..n |-> nextv + k - 1]
         i1 == idx + n
         b1 == IF i1 # 0 /\ (i1 + 1) >= Len(buf) THEN buf \o Zeros(Max2(n, Bucket)) ELSE buf
         drop == DropAt # 0 /\ i1 # 0 /\ (i1 + 1) % DropAt = 0
         sh == DropAt \div 2
         i2 == IF drop THEN i1 - sh ELSE i1
         b2 == IF drop THEN ShiftLeft(b1, sh) ELSE b1
         lo == i2 - n + 1      \* 0-based start
     IN IF lo < 0 \/ i2 + 1 > Len(b2)
        THEN /\ err' = "shape error in append_multiple" /\ UNCHANGED <<idx, buf, list, nextv>>
        ELSE /\ idx' = i2
             /\ buf' = [j \in 1..Len(b2) |-> IF j - 1 >= lo /\ j - 1 <= i2 THEN items[j - lo] ELSE b2[j]]
             /\ list' = (IF drop THEN SubSeq(list \o items, sh + 1, Len(list) + n) ELSE list \o items)
             /\ nextv' = nextv + n /\ UNCHANGED err

\* delete(index, axis=0) with 0 <= index < len
Delete(k) ==
  /\ err = "none" /\ k \in 0..idx
  /\ LET b1 == SubSeq(buf, 1, k) \o SubSeq(buf, k + 2, Len(buf))
         b2 == IF Len(b1) <= Bucket THEN b1 \o Zeros(Bucket) ELSE b1
     IN /\ buf' = b2 /\ idx' = idx - 1
        /\ list' = SubSeq(list, 1, k) \o SubSeq(list, k + 2, Len(list))
  /\ UNCHANGED <<nextv, err>>

Flush == /\ err = "none" /\ idx' = -1 /\ buf' = Zeros(Bucket) /\ list' = <<>> /\ UNCHANGED <<nextv, err>>

Next == DoAppend \/ (\E n \in 1..3 : AppendMultiple(n)) \/ (\E k \in 0..idx : Delete(k)) \/ Flush
Spec == Init /\ [][Next]_vars
Depth == TLCGet("level") <= MaxDepth

\* ---------------- properties ----------------
N == idx + 1
\* with drop-oldest: visible = suffix of the ideal list, non-empty when list is
IsSuffix(s, t) == Len(s) <= Len(t) /\ s = SubSeq(t, Len(t) - Len(s) + 1, Len(t))
VisibleOK == Visible = list
NoError == err = "none"
CapOK == idx < Cap

\* python list semantics on the visible list
Clamp(i, n) == IF i < 0 THEN Max2(i + n, 0) ELSE Min2(i, n)
PySlice(s, a, b) == LET n == Len(s)
                        lo == IF a = None THEN 0 ELSE Clamp(a, n)
                        hi == IF b = None THEN n ELSE Clamp(b, n)
                    IN IF lo >= hi THEN <<>> ELSE SubSeq(s, lo + 1, hi)
\* transcription of __getitem__ for slices (numpy slicing of the padded buffer)
NpSlice(b, start, stop) == PySlice(b, start, stop)     \* numpy basic slicing = python slicing on the buffer
ImplGetSlice(a, b) == LET start == IF a = None THEN 0 ELSE a
                          stop0 == IF b = None THEN idx + 1 ELSE b
                          stop1 == IF stop0 < 0 THEN (idx + 1) - (-stop0) ELSE stop0
                          stop2 == Min2(stop1, idx + 1)
                      IN NpSlice(buf, start, stop2)
Bounds == {None} \cup (-(MaxLen + 1) .. (MaxLen + 1))
GetSliceOK == \A a \in Bounds, b \in Bounds : ImplGetSlice(a, b) = PySlice(Visible, a, b)
\* __getitem__ int
ImplGetItem(i) == LET j == IF i < 0 THEN (idx + 1) + i ELSE i
                  IN IF idx = -1 \/ j > idx \/ j < 0 THEN "IndexError" ELSE buf[j + 1]
PyGetItem(s, i) == LET n == Len(s)  j == IF i < 0 THEN i + n ELSE i
                   IN IF j < 0 \/ j >= n THEN "IndexError" ELSE s[j + 1]
GetItemOK == \A i \in -(MaxLen + 1) .. (MaxLen + 1) : ImplGetItem(i) = PyGetItem(Visible, i)
====
