---- MODULE Fut2 ----
EXTENDS Integers, Sequences, FiniteSets, TLC
CONSTANTS Qtys, Prices, Lev, FeeNum, FeeDen, Start, MaxDepth, MaxAct

Abs(x) == IF x < 0 THEN -x ELSE x
RECURSIVE Gcd(_,_)
Gcd(a,b) == IF b = 0 THEN a ELSE Gcd(b, a % b)
Norm(n,d) == LET g == Gcd(Abs(n), d) IN IF n = 0 THEN <<0,1>> ELSE <<n \div g, d \div g>>
RAdd(a,b) == Norm(a[1]*b[2] + b[1]*a[2], a[2]*b[2])
RSub(a,b) == Norm(a[1]*b[2] - b[1]*a[2], a[2]*b[2])
RMulI(a,k) == Norm(a[1]*k, a[2])
RDivI(a,k) == Norm(a[1], a[2]*k)
RI(k) == <<k,1>>
RLt(a,b) == a[1]*b[2] < b[1]*a[2]
RMax(a,b) == IF RLt(a,b) THEN b ELSE a

\* act: sequence of ACTIVE orders (final ones are garbage-collected), pending: indices are not stable,
\* so pending holds the order records themselves (market orders, unique by construction here)
VARIABLES act, pending, wallet, pq, entry, cur, resB, resS, lastFee, lastCash, rejected
vars == <<act, pending, wallet, pq, entry, cur, resB, resS, lastFee, lastCash, rejected>>

Sgn(side) == IF side = "buy" THEN 1 ELSE -1
Fee(q,p) == Norm(q*p*FeeNum, FeeDen)
PnlOf(q, e, c) == IF q = 0 THEN RI(0) ELSE RMulI(RSub(RI(c), e), q)
Cost == IF pq = 0 THEN RI(0) ELSE RDivI(RMulI(entry, Abs(pq)), Lev)
RECURSIVE SumQP(_)
SumQP(s) == IF s = <<>> THEN 0 ELSE Head(s)[1]*Head(s)[2] + SumQP(Tail(s))
Margin == RSub(RSub(RAdd(wallet, PnlOf(pq, entry, cur)), Cost),
               RMax(Norm(SumQP(resB), Lev), Norm(SumQP(resS), Lev)))
RemoveFirst(s, x) ==
  LET idx == {i \in 1..Len(s) : s[i] = x} IN
  IF idx = {} THEN s
  ELSE LET k == CHOOSE i \in idx : \A j \in idx : i <= j
       IN SubSeq(s, 1, k-1) \o SubSeq(s, k+1, Len(s))
RemoveAt(s, k) == SubSeq(s, 1, k-1) \o SubSeq(s, k+1, Len(s))

Init == /\ act = <<>> /\ pending = <<>> /\ wallet = RI(Start) /\ pq = 0 /\ entry = RI(0)
        /\ cur \in Prices /\ resB = <<>> /\ resS = <<>> /\ lastFee = RI(0) /\ lastCash = 0
        /\ rejected = FALSE

Release(o, rb, rs) ==
  IF o.ro THEN <<rb, rs>>
  ELSE IF o.side = "buy" THEN <<RemoveFirst(rb, <<o.q, o.p>>), rs>>
       ELSE <<rb, RemoveFirst(rs, <<o.q, o.p>>)>>
RECURSIVE ReleaseAll(_,_,_)
ReleaseAll(os, rb, rs) ==
  IF os = <<>> THEN <<rb, rs>>
  ELSE LET r == Release(Head(os), rb, rs) IN ReleaseAll(Tail(os), r[1], r[2])

NoGhost == lastFee' = RI(0) /\ lastCash' = 0

Submit(side, typ, q, p0, ro) ==
  LET p == IF typ = "MKT" THEN cur ELSE p0
      o == [side |-> side, typ |-> typ, q |-> q, p |-> p, ro |-> ro] IN
  /\ ~rejected /\ Len(act) < MaxAct
  /\ ro => (pq # 0 /\ Sgn(side) * pq < 0)
  /\ IF ~ro /\ RLt(Margin, Norm(q*p, Lev))
     THEN /\ rejected' = TRUE
          /\ UNCHANGED <<act, pending, wallet, pq, entry, cur, resB, resS>>
     ELSE /\ act' = Append(act, o)
          /\ pending' = IF typ = "MKT" THEN Append(pending, o) ELSE pending
          /\ resB' = IF ~ro /\ side = "buy" THEN Append(resB, <<q,p>>) ELSE resB
          /\ resS' = IF ~ro /\ side = "sell" THEN Append(resS, <<q,p>>) ELSE resS
          /\ UNCHANGED <<wallet, pq, entry, cur, rejected>>
  /\ NoGhost

Cancel(k) ==
  /\ ~rejected /\ k \in 1..Len(act)
  /\ LET o == act[k]  r == Release(o, resB, resS) IN
     /\ act' = RemoveAt(act, k) /\ resB' = r[1] /\ resS' = r[2]
     /\ pending' = RemoveFirst(pending, o)
  /\ NoGhost /\ UNCHANGED <<wallet, pq, entry, cur, rejected>>

ExecEffect(k) ==
  LET o == act[k]
      sq == Sgn(o.side) * o.q
      fee == Fee(o.q, o.p)
      w1 == RSub(wallet, fee)
      r0 == Release(o, resB, resS)
      act1 == RemoveAt(act, k)
      kind == IF pq = 0 THEN "open"
              ELSE IF pq + sq = 0 THEN "close"
              ELSE IF pq * sq > 0 THEN (IF o.ro THEN "none" ELSE "inc")
              ELSE IF Abs(sq) > Abs(pq) THEN (IF o.ro THEN "close" ELSE "flip")
              ELSE "red"
      realised(qclose) == RMulI(RSub(RI(o.p), entry), IF pq > 0 THEN qclose ELSE -qclose)
      closes == kind \in {"close", "flip"}
      rC == IF closes THEN ReleaseAll(act1, r0[1], r0[2]) ELSE r0
      qeff == CASE kind = "none" -> 0 [] kind = "close" -> -pq [] OTHER -> sq
  IN [ act |-> IF closes THEN <<>> ELSE act1, resB |-> rC[1], resS |-> rC[2],
       wallet |-> CASE kind = "red" -> RAdd(w1, realised(o.q))
                    [] closes -> RAdd(w1, realised(Abs(pq)))
                    [] OTHER -> w1,
       pq |-> CASE kind = "open" -> sq [] kind = "close" -> 0 [] kind = "none" -> pq [] OTHER -> pq + sq,
       entry |-> CASE kind = "open" -> RI(o.p) [] kind = "close" -> RI(0) [] kind = "flip" -> RI(o.p)
                   [] kind = "inc" -> RDivI(RAdd(RI(o.q*o.p), RMulI(entry, Abs(pq))), o.q + Abs(pq))
                   [] OTHER -> entry,
       fee |-> fee, cash |-> qeff * o.p, closes |-> closes ]

Apply(e) == /\ act' = e.act /\ resB' = e.resB /\ resS' = e.resS /\ wallet' = e.wallet
            /\ pq' = e.pq /\ entry' = e.entry /\ lastFee' = e.fee /\ lastCash' = e.cash

Execute(k) ==
  /\ ~rejected /\ k \in 1..Len(act) /\ act[k].typ # "MKT"
  /\ LET e == ExecEffect(k) IN
       /\ Apply(e) /\ cur' = act[k].p
       /\ pending' = IF e.closes THEN <<>> ELSE pending
  /\ UNCHANGED rejected

Flush ==
  /\ ~rejected /\ pending # <<>>
  /\ LET o == Head(pending)
         k == CHOOSE i \in 1..Len(act) : act[i] = o
         e == ExecEffect(k) IN
       /\ Apply(e)
       /\ pending' = IF e.closes THEN <<>> ELSE Tail(pending)
  /\ UNCHANGED <<cur, rejected>>

SetPrice(p) == /\ ~rejected /\ p # cur /\ cur' = p /\ NoGhost
               /\ UNCHANGED <<act, pending, wallet, pq, entry, resB, resS, rejected>>

Next == \/ \E s \in {"buy","sell"}, t \in {"MKT","LMT","STP"}, q \in Qtys, p \in Prices, ro \in BOOLEAN :
             (t = "MKT" => p = cur) /\ Submit(s, t, q, p, ro)
        \/ \E k \in 1..Len(act) : Cancel(k) \/ Execute(k)
        \/ Flush
        \/ \E p \in Prices : SetPrice(p)
Spec == Init /\ [][Next]_vars
Depth == TLCGet("level") <= MaxDepth

\* delta form of the mark-to-market identity: for every price c,
\* Equity'(c) - Equity(c) = -fee + (c*(pq'-pq) - cashDelta)
Eq(w, q, e, c) == RAdd(w, PnlOf(q, e, c))
MTMStep == [][\A c \in Prices :
               RSub(Eq(wallet', pq', entry', c), Eq(wallet, pq, entry, c))
                 = RSub(RI(c*(pq' - pq) - lastCash'), lastFee')]_vars
BagOf(s) == [x \in {s[i] : i \in 1..Len(s)} |-> Cardinality({i \in 1..Len(s) : s[i] = x})]
ActBag(side) == LET idx == {i \in 1..Len(act) : ~act[i].ro /\ act[i].side = side}
                    keys == {<<act[i].q, act[i].p>> : i \in idx}
                IN [x \in keys |-> Cardinality({i \in idx : <<act[i].q, act[i].p>> = x})]
ReservedBag == BagOf(resB) = ActBag("buy") /\ BagOf(resS) = ActBag("sell")
====
