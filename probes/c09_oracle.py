import numpy as np, warnings, collections, math
warnings.filterwarnings('ignore')
from jesse.research import backtest
from jesse.strategies import Strategy
from jesse.modes import backtest_mode as bm
from jesse.store import store
from jesse.services import selectors
issues=collections.Counter(); exs={}
checks=collections.Counter()
_cl=bm._check_for_liquidations
def cl(candle, exchange, symbol):
    p=selectors.get_position(exchange,symbol)
    before=store.app.total_liquidations
    pre=None
    if p is not None and p.qty!=0:
        pre=(p.qty,p.entry_price,p.liquidation_price,p.bankruptcy_price,p.mode,p.exchange.wallet_balance,p.exchange.fee_rate,p.leverage)
    _cl(candle,exchange,symbol)
    after=store.app.total_liquidations
    if pre is None:
        if after!=before: issues['liq-without-position']+=1
        return
    qty,entry,liq,bank,mode,wal,fee,lev=pre
    should = mode=='isolated' and (candle[4] <= liq <= candle[3])
    did = after==before+1
    checks[(mode,should)]+=1
    if should!=did: issues[('iff',mode,should,did)]+=1; exs.setdefault(('iff',mode,should,did),(candle.tolist(),pre))
    if did:
        w2=p.exchange.wallet_balance
        exp=wal - abs(qty)*entry/lev - abs(qty)*bank*fee
        if abs(w2-exp)>1e-6: issues['wallet-delta']+=1; exs.setdefault('wallet-delta',(w2,exp,pre))
        if p.qty!=0: issues['not-closed']+=1
        if store.orders.count_active_orders(exchange,symbol)!=0: issues['orders-left']+=1
    # formula/ordering
    if lev>1:
        ok = (bank<liq<entry) if qty>0 else (entry<liq<bank)
        if not ok: issues['ordering']+=1; exs.setdefault('ordering',pre)
bm._check_for_liquidations=cl
class S(Strategy):
    side=1; stop=False
    def should_long(self): return S.side==1 and self.index==2
    def should_short(self): return S.side==-1 and self.index==2
    def go_long(self):
        self.buy=[(1,self.price),(1,self.price-1)]
        if S.stop: self.stop_loss=2,self.price*0.5
    def go_short(self):
        self.sell=[(1,self.price),(1,self.price+1)]
        if S.stop: self.stop_loss=2,self.price*1.5
def series(path):
    rows=[]; prev=path[0]
    for i,c in enumerate(path):
        o=prev; rows.append([1609459200000+i*60000,o,c,max(o,c),min(o,c),10]); prev=c
    return np.array(rows,dtype=float)
ex='Binance Perpetual Futures'
def run(lev,mode,side,stop,path,fast=False):
    S.side=side; S.stop=stop
    import jesse.helpers as jh; jh.CACHED_CONFIG.clear()
    cfg={'starting_balance':10**7,'fee':1/1024,'type':'futures','futures_leverage':lev,'futures_leverage_mode':mode,'exchange':ex,'warm_up_candles':0}
    try:
        backtest(cfg,[{'exchange':ex,'strategy':S,'symbol':'BTC-USDT','timeframe':'1m'}],[],{f'{ex}-BTC-USDT':{'exchange':ex,'symbol':'BTC-USDT','candles':series(path)}},fast_mode=fast)
    except Exception as e:
        issues[('RUN',type(e).__name__,str(e)[:50])]+=1
for lev in (1,2,3,5,10,25,50,100,125):
    for side in (1,-1):
        for mode in ('isolated','cross'):
            for stop in (False,True):
                for fast in (False,True):
                    e=1000.0
                    liq = e*(1-1/lev+0.004) if side==1 else e*(1+1/lev-0.004)
                    # approach: flat, then move toward liq: stop one tick short, touch exactly, jump over
                    for variant in ('short','touch','jump'):
                        tgt = {'short': liq+side*0.5, 'touch': liq, 'jump': liq-side*e*0.2}[variant]
                        tgt=max(tgt,1.0)
                        path=[1000,1000,1000,1000,1000,(1000+tgt)/2,tgt,tgt,(1000+tgt)/2,1000,1000]
                        run(lev,mode,side,stop,path,fast)
print(dict(checks))
for k,v in sorted(issues.items(), key=lambda x:-x[1]): print(v,k, str(exs.get(k,''))[:300])
