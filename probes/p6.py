import numpy as np, warnings, time
warnings.filterwarnings('ignore')
from jesse.research import backtest
from jesse.strategies import Strategy
from jesse.models import Order
from jesse.modes import backtest_mode as bm
from jesse.store import store
ev=[]
def wrap(obj, name, pre=None, post=None):
    orig=getattr(obj,name)
    def w(*a,**k):
        if pre: pre(*a,**k)
        try:
            r=orig(*a,**k)
        except Exception as e:
            if post: post(None,e,*a,**k)
            raise
        if post: post(r,None,*a,**k)
        return r
    setattr(obj,name,w); return orig
wrap(Order,'__init__',post=lambda r,e,self,*a,**k: ev.append(('submit' if e is None else 'reject',self.type,self.side,self.qty,self.price,self.reduce_only,store.app.time)))
def pre_exec(self,*a,**k): self._v_pre=self.status
wrap(Order,'execute',pre=pre_exec,post=lambda r,e,self,*a,**k: ev.append(('execute',self.id[:4],self._v_pre,self.status,self.price,store.app.time)))
wrap(Order,'cancel',pre=pre_exec,post=lambda r,e,self,*a,**k: ev.append(('cancel',self.id[:4],self._v_pre,self.status)))
wrap(bm,'_simulate_price_change_effect',pre=lambda c,ex,s: ev.append(('minute',c.tolist())),post=lambda r,e,c,ex,s: ev.append(('minute_end',)))
wrap(bm,'_check_for_liquidations',pre=lambda c,ex,s: ev.append(('liqcheck',)))
class S(Strategy):
    def should_long(self): return self.index % 10 == 0
    def go_long(self):
        self.buy = [(1, self.price-1),(1,self.price-2)]
        self.stop_loss = 2, self.price-4
        self.take_profit = [(1, self.price+2),(1,self.price+3)]
    def before(self): ev.append(('before',self.index,self.price,self.position.qty))
    def on_open_position(self,o): ev.append(('hook_open',self.position.qty))
    def on_increased_position(self,o): ev.append(('hook_inc',self.position.qty))
    def on_reduced_position(self,o): ev.append(('hook_red',self.position.qty))
    def on_close_position(self,o): ev.append(('hook_close',self.position.qty))
def mk(n, seed=3):
    rng=np.random.default_rng(seed)
    c=np.zeros((n,6)); p=100.0
    for i in range(n):
        o=p; cl=o+int(rng.integers(-2,3)); h=max(o,cl)+int(rng.integers(0,3)); l=min(o,cl)-int(rng.integers(0,3))
        c[i]=[1609459200000+i*60000,o,cl,h,l,int(rng.integers(1,100))]; p=cl
    return c
ex='Binance Perpetual Futures'
cfg={'starting_balance':10000,'fee':1/1024,'type':'futures','futures_leverage':2,'futures_leverage_mode':'cross','exchange':ex,'warm_up_candles':0}
routes=[{'exchange':ex,'strategy':S,'symbol':'BTC-USDT','timeframe':'1m'}]
t=time.time()
r=backtest(cfg,routes,[],{f'{ex}-BTC-USDT':{'exchange':ex,'symbol':'BTC-USDT','candles':mk(40)}})
print(time.time()-t, len(ev))
for e in ev[:60]: print(e)
