import numpy as np, warnings, itertools, sys
warnings.filterwarnings('ignore')
import jesse.helpers as jh
from jesse.strategies import Strategy
from jesse.config import config as jc, set_config
from jesse.routes import router
from jesse.store import store
from jesse.research.backtest import _format_config
from jesse.modes import backtest_mode as bm
from jesse.models import Order

fills=[]
class P(Strategy):
    def should_long(self): return False
    def go_long(self): pass
EX='Binance Perpetual Futures'; SYM='BTC-USDT'
def session():
    jc['app']['trading_mode']='backtest'
    cfg={'starting_balance':10**9,'fee':0,'type':'futures','futures_leverage':1,'futures_leverage_mode':'cross','exchange':EX,'warm_up_candles':0}
    set_config(_format_config(cfg))
    router.initiate([{'exchange':EX,'strategy':P,'symbol':SYM,'timeframe':'1m'}], [])
    store.candles.init_storage(50)
    store.app.time = 60000*2
    store.candles.add_candle(np.array([60000.0,10,10,10,10,1.0]), EX,SYM,'1m',with_execution=False,with_generation=False)
    bm._prepare_routes(None)
    p = store.positions.storage[f'{EX}-{SYM}']; p.current_price=10.0
    class Stub:
        leverage=1; timeframe='1m'; name='stub'; trades_count=0
        def _on_updated_position(self, order): pass
    p.strategy=Stub()
def order(price, idx):
    o = Order({'id':f'{idx:04d}-'+jh.generate_unique_id(),'symbol':SYM,'exchange':EX,'side':'buy','type':'LIMIT','reduce_only':False,'qty':1.0,'price':float(price)})
    store.orders.add_order(o); return o
orig=Order.execute
def ex(self,*a,**k):
    if self.is_active: fills.append(int(self.id[:4]))
    return orig(self,*a,**k)
Order.execute=ex

def path(o,c,h,l):
    # canonical path as list of (leg, price) integer lattice points
    pts=[]
    def seg(a,b,leg):
        step = 1 if b>=a else -1
        for p in range(a,b+step,step): pts.append((leg,p))
    if c>=o: seg(o,l,0); seg(l,h,1); seg(h,c,2)
    else:    seg(o,h,0); seg(h,l,1); seg(l,c,2)
    return pts
def oracle(o,c,h,l,prices):
    pts=path(o,c,h,l); first={}
    for k,(leg,p) in enumerate(pts):
        first.setdefault(p,k)
    res=sorted([(first[p],i) for i,p in enumerate(prices) if p in first])
    return res  # list of (pos, idx)
K=5; bad=0; n=0; examples=[]
for l in range(1,K+1):
  for h in range(l,K+1):
    for o in range(l,h+1):
      for c in range(l,h+1):
        for k in (1,2,3):
          for prices in itertools.combinations_with_replacement(range(1,K+1),k):
            session(); fills.clear()
            for i,p in enumerate(prices): order(p,i)
            store.app.time=60000*3
            cand=np.array([120000.0,o,c,h,l,1.0])
            store.candles.add_candle(cand,EX,SYM,'1m',with_execution=False,with_generation=False)
            bm._simulate_price_change_effect(cand,EX,SYM)
            exp=oracle(o,c,h,l,prices)
            # compare: sequence of positions must be non-decreasing and set equal
            got=list(fills); n+=1
            exp_set=sorted(i for _,i in exp)
            posmap={i:pos for pos,i in exp}
            ok = sorted(got)==exp_set and all(posmap[got[j]]<=posmap[got[j+1]] for j in range(len(got)-1))
            if not ok:
                bad+=1
                if len(examples)<8: examples.append(((o,c,h,l),prices,got,exp))
print('scenarios',n,'mismatch',bad)
for e in examples: print(e)
