---- MODULE CStore ----
EXTENDS Integers, Sequences, FiniteSets, TLC
CONSTANTS TFs, MaxMin, MaxFills      \* TFs: set of timeframe minute counts, e.g. {2,3}

\* a 1m candle is <<minute index i (0-based), version>>; version 0 = full candle, k>0 = k-th partial
\* a timeframe candle is [ts |-> window start minute, src |-> sequence of 1m candles it was built from]
VARIABLES i, phase, m1, tf, fills
vars == <<i, phase, m1, tf, fills>>

Init == i = -1 /\ phase = "exec" /\ m1 = <<>> /\ tf = [T \in TFs |-> <<>>] /\ fills = 0

Last(s) == s[Len(s)]
\* add_candle semantics for the cases the simulator produces (new ts append, same ts replace)
Upsert1m(s, c) == IF s = <<>> \/ c[1] > Last(s)[1] THEN Append(s, c)
                  ELSE IF c[1] = Last(s)[1] THEN [s EXCEPT ![Len(s)] = c] ELSE s
UpsertTF(s, c) == IF s = <<>> \/ c.ts > Last(s).ts THEN Append(s, c)
                  ELSE IF c.ts = Last(s).ts THEN [s EXCEPT ![Len(s)] = c] ELSE s
Tail_(s, n) == SubSeq(s, Len(s) - n + 1, Len(s))

\* minute loop of _step_simulator
AddMinute == /\ phase = "exec" /\ i + 1 < MaxMin
             /\ i' = i + 1 /\ m1' = Upsert1m(m1, <<i + 1, 0>>) /\ phase' = "match" /\ fills' = 0
             /\ UNCHANGED tf
\* a fill inside the minute: _update_all_routes_a_partial_candle
Fill == /\ phase = "match" /\ fills < MaxFills
        /\ fills' = fills + 1
        /\ LET m1p == Upsert1m(m1, <<i, fills + 1>>) IN
           /\ m1' = m1p
           /\ tf' = [T \in TFs |->
                       LET need == (i % T) + 1
                           src == Tail_(m1p, IF need <= Len(m1p) THEN need ELSE Len(m1p))
                       IN UpsertTF(tf[T], [ts |-> src[1][1], src |-> src])]
        /\ UNCHANGED <<i, phase>>
\* end of matching: the real candle is stored again; then bigger timeframes are generated
EndMatch == /\ phase = "match"
            /\ m1' = Upsert1m(m1, <<i, 0>>)
            /\ tf' = [T \in TFs |->
                        IF (i + 1) % T = 0
                        THEN UpsertTF(tf[T], [ts |-> i - (T - 1), src |-> [k \in 1..T |-> <<i - (T - 1) + k - 1, 0>>]])
                        ELSE tf[T]]
            /\ phase' = "exec" /\ UNCHANGED <<i, fills>>
Next == AddMinute \/ Fill \/ EndMatch
Spec == Init /\ [][Next]_vars

\* ---- reads, transcribed from CandlesState.get_candles / get_current_candle ----
Forming(T, dif) == LET src == Tail_(m1, dif) IN [ts |-> src[1][1], src |-> src]
GetCandles(T) ==
  LET dif == Len(m1) % T  lc == Len(tf[T])  sc == Len(m1) IN
  IF dif = 0 /\ lc = 0 THEN [ok |-> TRUE, rows |-> <<>>]
  ELSE IF dif = 0 THEN [ok |-> TRUE, rows |-> tf[T]]
  ELSE IF lc = 0 THEN [ok |-> FALSE, rows |-> <<>>]
  ELSE IF Last(tf[T]).ts = m1[sc - dif + 1][1] THEN [ok |-> TRUE, rows |-> tf[T]]
  ELSE [ok |-> TRUE, rows |-> Append(tf[T], Forming(T, dif))]
GetCurrent(T) ==
  LET dif == Len(m1) % T IN
  IF dif # 0 THEN Forming(T, dif) ELSE IF tf[T] = <<>> THEN <<>> ELSE Last(tf[T])

\* ---- the property: one row per started window, each the aggregation of its stored minutes ----
Windows(T) == LET n == Len(m1)  k == (n + T - 1) \div T IN
              [w \in 1..k |-> LET lo == (w - 1) * T + 1  hi == IF w * T <= n THEN w * T ELSE n
                              IN [ts |-> m1[lo][1], src |-> SubSeq(m1, lo, hi)]]
Obs == phase = "exec" \/ fills > 0      \* strategy steps and fill hooks are the only observation points
CandlesOK == Obs => \A T \in TFs : GetCandles(T).ok => GetCandles(T).rows = Windows(T)
CurrentOK == Obs => \A T \in TFs : m1 # <<>> => GetCurrent(T) = Last(Windows(T))
NoIndexError == Obs => \A T \in TFs : GetCandles(T).ok
\* the same, but only looking at completed rows (to see what else is wrong besides the forming row)
CompletedOK == Obs => \A T \in TFs : LET g == GetCandles(T).rows w == Windows(T) IN
                 GetCandles(T).ok => /\ Len(g) = Len(w)
                                     /\ \A k \in 1..Len(w) - 1 : g[k] = w[k]
====
