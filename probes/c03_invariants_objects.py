import numpy as np, warnings, collections, random
warnings.filterwarnings('ignore')
import jesse.helpers as jh
from jesse.strategies import Strategy
from jesse.config import config as jc, set_config
from jesse.routes import router
from jesse.store import store
from jesse.research.backtest import _format_config
from jesse.modes import backtest_mode as bm
from jesse.models import Order
from jesse import exceptions
class P(Strategy):
    def should_long(self): return False
    def go_long(self): pass
EX='Binance Perpetual Futures'; SYMS=['BTC-USDT','ETH-USDT']
def session(lev, fee, nsym):
    jc['app']['trading_mode']='backtest'; jh.CACHED_CONFIG.clear()
    cfg={'starting_balance':60,'fee':fee,'type':'futures','futures_leverage':lev,'futures_leverage_mode':'cross','exchange':EX,'warm_up_candles':0}
    set_config(_format_config(cfg))
    router.initiate([{'exchange':EX,'strategy':P,'symbol':s,'timeframe':'1m'} for s in SYMS[:nsym]], [])
    store.candles.init_storage(50); store.app.time=120000
    for s in SYMS[:nsym]:
        store.candles.add_candle(np.array([60000.0,10,10,10,10,1.0]), EX,s,'1m',with_execution=False,with_generation=False)
    bm._prepare_routes(None)
    e=store.exchanges.storage[EX]
    class Stub:
        leverage=lev; timeframe='1m'; name='stub'; trades_count=0
        def __init__(self,sym): self.sym=sym
        def _on_updated_position(self, order):
            p=store.positions.storage[f'{EX}-{self.sym}']
            if p.qty==0:
                for o in list(store.orders.get_active_orders(EX,self.sym)):
                    if o.is_active: o.cancel()
                store.orders.reset_trade_orders(EX,self.sym)
    ps={}
    for s in SYMS[:nsym]:
        p=store.positions.storage[f'{EX}-{s}']; p.current_price=10.0; p.strategy=Stub(s); ps[s]=p
    return e,ps
issues=collections.Counter(); exs={}; nops=0; nrej=0
rnd=random.Random(1)
for trial in range(3000):
    lev=rnd.choice([1,2,4,5]); fee=rnd.choice([0,1/1024,0.001]); nsym=rnd.choice([1,2])
    e,ps=session(lev,fee,nsym)
    start=60.0; fees=0.0; cash={s:0.0 for s in ps}; orders=[]; pending=[]
    hist=[]
    for step in range(rnd.randint(3,25)):
        s=rnd.choice(list(ps)); p=ps[s]
        act=[o for o in orders if o.is_active and o.symbol==s and o.type!='MARKET']
        choice=rnd.random()
        try:
            if choice<0.15:
                p.current_price=float(rnd.choice([8,9,10,11,12,12.5])); hist.append(('price',s,p.current_price))
            elif choice<0.55 or not act:
                side=rnd.choice(['buy','sell']); typ=rnd.choice(['MARKET','LIMIT','STOP'])
                qty=rnd.choice([0.5,1,1.5,2,3,7.25]); price=p.current_price if typ=='MARKET' else float(rnd.choice([8,9,10,11,12,12.5]))
                ro = p.qty!=0 and ((p.qty>0)==(side=='sell')) and rnd.random()<0.5
                margin_before=e.available_margin
                try:
                    o=Order({'id':jh.generate_unique_id(),'symbol':s,'exchange':EX,'side':side,'type':typ,'reduce_only':ro,'qty':jh.prepare_qty(qty,side),'price':price})
                except exceptions.InsufficientMargin:
                    nrej+=1
                    if not (not ro and qty*price/lev > margin_before+1e-9):
                        issues['reject-not-iff']+=1
                    break
                if not ro and qty*price/lev > margin_before+1e-9: issues['accepted-over-margin']+=1; exs.setdefault('accepted-over-margin',(hist,qty,price,lev,margin_before))
                store.orders.add_order(o); orders.append(o); hist.append(('submit',s,side,typ,qty,price,ro))
                if typ=='MARKET': pending.append(o)
                # submit-cancel restore check occasionally
                if rnd.random()<0.2 and typ!='MARKET':
                    o.cancel(); hist.append(('cancel-last',))
                    if abs(e.available_margin-margin_before)>1e-9: issues['cancel-not-restore']+=1; exs.setdefault('cancel-not-restore',(hist,))
            elif choice<0.7:
                o=rnd.choice(act); o.cancel(); hist.append(('cancel',orders.index(o)))
            else:
                o=rnd.choice(act) if (not pending or rnd.random()<0.6) else pending.pop(0)
                if o.is_active:
                    q0=p.qty if o.symbol==s else ps[o.symbol].qty
                    pp=ps[o.symbol]; q0=pp.qty
                    fees+=abs(o.qty)*o.price*fee
                    if o.type!='MARKET': pp.current_price=o.price
                    o.execute(); hist.append(('exec',orders.index(o)))
                    qeff=pp.qty-q0; cash[o.symbol]+=qeff*o.price
                    if o.reduce_only and (abs(pp.qty)>abs(q0)+1e-12 or pp.qty*q0<0): issues['ro-increase-or-flip']+=1
        except Exception as ex:
            issues['EXC '+type(ex).__name__+' '+str(ex)[:60]]+=1; exs.setdefault('EXC',hist); break
        nops+=1
        # MTM identity at current prices
        eq=e.wallet_balance+sum(pp.qty*(pp.current_price-(pp.entry_price or 0)) for pp in ps.values())
        rhs=start-fees+sum(pp.current_price*pp.qty-cash[s2] for s2,pp in ps.items())
        if abs(eq-rhs)>1e-6: issues['MTM']+=1; exs.setdefault('MTM',(hist,eq,rhs)); break
        # reserved bag
        for s2 in ps:
            b=jh.base_asset(s2)
            rb=sorted(map(tuple,e.buy_orders[b][:].tolist())); rs=sorted(map(tuple,e.sell_orders[b][:].tolist()))
            ab=sorted((o.qty,o.price) for o in orders if o.is_active and not o.reduce_only and o.symbol==s2 and o.side=='buy')
            as_=sorted((o.qty,o.price) for o in orders if o.is_active and not o.reduce_only and o.symbol==s2 and o.side=='sell')
            if rb!=ab or rs!=as_: issues['BAG']+=1; exs.setdefault('BAG',(hist,rb,ab,rs,as_)); break
print('ops',nops,'rejections',nrej)
for k,v in sorted(issues.items(), key=lambda x:-x[1]): print(v,k, str(exs.get(k,''))[:600])
