---- MODULE TT ----
EXTENDS Naturals, Integers, Sequences, Json, IOUtils, TLC, TLCExt
Data == JsonDeserialize("tr.json")
Traces == Data.traces
N == Len(Traces)
VARIABLES tid, l, bal, verdict
vars == <<tid, l, bal, verdict>>
Init == /\ tid \in 1..N /\ l = 1 /\ bal = Traces[tid].hdr.start /\ verdict = "ok"
Dep(a) == bal' = bal + a
Wd(a) == a <= bal /\ bal' = bal - a
Step ==
  /\ verdict = "ok"
  /\ l <= Len(Traces[tid].ev)
  /\ LET e == Traces[tid].ev[l] IN
     \/ /\ e.k = "dep" /\ Dep(e.a)
        /\ verdict' = IF bal' = e.bal /\ e.ok THEN "ok" ELSE "dep:bal"
     \/ /\ e.k = "wd" /\ e.ok /\ Wd(e.a)
        /\ verdict' = IF bal' = e.bal THEN "ok" ELSE "wd:bal"
     \/ /\ e.k = "wd" /\ e.ok /\ ~ENABLED Wd(e.a) /\ UNCHANGED bal /\ verdict' = "wd:accepted-but-spec-rejects"
     \/ /\ e.k = "wd" /\ ~e.ok /\ UNCHANGED bal
        /\ verdict' = IF e.a > bal THEN "ok" ELSE "wd:rejected-but-spec-accepts"
  /\ l' = l + 1 /\ UNCHANGED tid
Done == /\ (verdict # "ok" \/ l > Len(Traces[tid].ev))
        /\ UNCHANGED vars
Next == Step
Spec == Init /\ [][Next]_vars
Report == (verdict # "ok" \/ l > Len(Traces[tid].ev)) => PrintT(<<"VERDICT", tid, l, verdict>>)
====
