import numpy as np, warnings
warnings.filterwarnings('ignore')
from jesse.libs import DynamicNumpyArray
a = DynamicNumpyArray((4,1))
for i in range(6): a.append(np.array([i+1.0]))
print('len',len(a),'cap',len(a.array))
print('a[-3:]', a[-3:].ravel(), 'expected [4,5,6]')
print('a[1:-1]', a[1:-1].ravel())
print('a[:-2]', a[:-2].ravel())
print('a[-2:-1]', a[-2:-1].ravel())
try:
    print('a[2:100]', a[2:100].ravel())
except Exception as e: print('ERR', e)
b = DynamicNumpyArray((3,1))
for i in range(3): b.append(np.array([i+1.0]))
print('b len', len(b), 'cap', len(b.array))
b.delete(0, axis=0); print('after delete len', len(b), 'cap', len(b.array), b[:].ravel())
b.append(np.array([9.0])); b.append(np.array([10.0])); b.append(np.array([11.0]))
print('len', len(b), 'cap', len(b.array), b[:].ravel())
c = DynamicNumpyArray((3,1), drop_at=6)
for i in range(14):
    c.append(np.array([i+1.0]))
print('drop', len(c), c[:].ravel())
d = DynamicNumpyArray((3,1))
d.append_multiple(np.array([[1.],[2.],[3.],[4.],[5.],[6.],[7.]]))
print('am', len(d), len(d.array), d[:].ravel())
d.append_multiple(np.array([[8.]])); print(len(d), len(d.array), d[:].ravel())
import jesse.helpers as jh
print(jh.max_timeframe(['1m','3D','1D']), jh.max_timeframe(['1W','4h']))
