---- MODULE Sess ----
EXTENDS Integers, Sequences, FiniteSets, TLC
CONSTANTS MaxCalls
Exs == {"A","B"}  Typs == {"spot","fut"}  Levs == {"1","5"}  Fees == {"f0","f1"}  Warms == {"w0","w60"}
Args == [ex : Exs, typ : Typs, lev : Levs, fee : Fees, warm : Warms]
Absent == "absent"
CKeys == {"type.A","type.B","lev.A","lev.B","feeT.A","feeT.B","warm","consEx"}

\* process-global state
VARIABLES cache,    \* helpers.CACHED_CONFIG: key -> value | Absent   (never invalidated outside pytest)
          cfg,      \* jesse.config.config (nested dicts are shared, reset_config() restores nothing)
          drivers,  \* services.api.api.drivers: "uninit" or set of exchange names
          st,       \* what the freshly built store holds: exchange type / leverage / fee
          phase, a, ncalls, seen   \* seen: effective values observed by the running simulation
vars == <<cache, cfg, drivers, st, phase, a, ncalls, seen>>

K(s, ex) == IF ex = "A" THEN s \o ".A" ELSE s \o ".B"
Init == /\ cache = [k \in CKeys |-> Absent]
        /\ cfg = [k \in CKeys |-> Absent]
        /\ drivers = {"uninit"} /\ st = [typ |-> Absent, lev |-> Absent, fee |-> Absent]
        /\ phase = "idle" /\ a \in Args /\ ncalls = 0 /\ seen = [x \in {} |-> 0]

\* jh.get_config(key): cached forever
GetCfg(key) == IF cache[key] # Absent THEN cache[key] ELSE cfg[key]
Cached(c, key) == IF c[key] # Absent THEN c ELSE [c EXCEPT ![key] = cfg[key]]

Begin(args) ==    \* set_config(_format_config(config))
  /\ phase = "idle" /\ ncalls < MaxCalls
  /\ a' = args /\ ncalls' = ncalls + 1
  /\ cfg' = [cfg EXCEPT ![K("type", args.ex)] = args.typ,
                        ![K("feeT", args.ex)] = args.fee,
                        ![K("lev", args.ex)] = IF args.typ = "fut" THEN args.lev ELSE Absent,
                        !["warm"] = args.warm]
  /\ phase' = "configured" /\ UNCHANGED <<cache, drivers, st, seen>>

RouterInitiate == \* router.initiate -> store.reset -> install_routes, ExchangesState()
  /\ phase = "configured"
  /\ LET cfg1 == [cfg EXCEPT !["consEx"] = a.ex]
         kt == K("type", a.ex)  kl == K("lev", a.ex)
         typ == IF cache[kt] # Absent THEN cache[kt] ELSE cfg1[kt]
         c1 == IF cache[kt] # Absent THEN cache ELSE [cache EXCEPT ![kt] = cfg1[kt]]
         lev == IF typ = "fut" THEN (IF c1[kl] # Absent THEN c1[kl] ELSE cfg1[kl]) ELSE Absent
         c2 == IF typ = "fut" /\ c1[kl] = Absent THEN [c1 EXCEPT ![kl] = cfg1[kl]] ELSE c1
     IN /\ cfg' = cfg1 /\ cache' = c2
        /\ st' = [typ |-> typ, lev |-> lev, fee |-> cfg1[K("feeT", a.ex)]]
  /\ phase' = "reset" /\ UNCHANGED <<drivers, a, ncalls, seen>>

PrepareRoutes ==  \* first Broker imports services.api: drivers for get_config('app.considering_exchanges')
  /\ phase = "reset"
  /\ IF drivers = {"uninit"}
     THEN /\ drivers' = {GetCfg("consEx")} /\ cache' = Cached(cache, "consEx")
     ELSE UNCHANGED <<drivers, cache>>
  /\ phase' = "prepared" /\ UNCHANGED <<cfg, st, a, ncalls, seen>>

Simulate ==
  /\ phase = "prepared"
  /\ seen' = [typ |-> st.typ, lev |-> st.lev, feePnl |-> st.fee,
              feeTrade |-> GetCfg(K("feeT", a.ex)), warm |-> GetCfg("warm"),
              driver |-> a.ex \in drivers]
  /\ cache' = Cached(Cached(cache, K("feeT", a.ex)), "warm")
  /\ phase' = "sim" /\ UNCHANGED <<cfg, drivers, st, a, ncalls>>

Finish == /\ phase = "sim" /\ phase' = "idle" /\ UNCHANGED <<cache, cfg, drivers, st, a, ncalls, seen>>
Crash  == /\ phase \in {"configured","reset","prepared","sim"} /\ phase' = "idle"
          /\ UNCHANGED <<cache, cfg, drivers, st, a, ncalls, seen>>

Next == (\E x \in Args : Begin(x)) \/ RouterInitiate \/ PrepareRoutes \/ Simulate \/ Finish \/ Crash
Spec == Init /\ [][Next]_vars

InSim == phase = "sim"
SeesType   == InSim => seen.typ = a.typ
SeesLev    == InSim => (a.typ = "fut" /\ seen.typ = "fut" => seen.lev = a.lev)
SeesFeePnl == InSim => seen.feePnl = a.fee
SeesFeeTr  == InSim => seen.feeTrade = a.fee
SeesWarm   == InSim => seen.warm = a.warm
HasDriver  == InSim => seen.driver
====
