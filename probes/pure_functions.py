import numpy as np, warnings, collections, itertools, math
from fractions import Fraction as F
warnings.filterwarnings('ignore')
import jesse.helpers as jh
from jesse.strategies import Strategy
from jesse.config import config as jc, set_config
from jesse.routes import router
from jesse.store import store
from jesse.research.backtest import _format_config
from jesse.modes import backtest_mode as bm
from jesse.models import ClosedTrade
from jesse.services import metrics
from jesse import utils
issues=collections.Counter(); exs={}
class P(Strategy):
    def should_long(self): return False
    def go_long(self): pass
EX='Binance Perpetual Futures'
def session(fee=0):
    jh.CACHED_CONFIG.clear(); jc['app']['trading_mode']='backtest'
    set_config(_format_config({'starting_balance':1000,'fee':fee,'type':'futures','futures_leverage':1,'futures_leverage_mode':'cross','exchange':EX,'warm_up_candles':0}))
    router.initiate([{'exchange':EX,'strategy':P,'symbol':'BTC-USDT','timeframe':'1m'}], [])
    store.candles.init_storage(50); store.app.time=1609459200000; store.app.starting_time=1609459200000
    bm._prepare_routes(None)
def trade(pnl, typ, hold=60):
    t=ClosedTrade(); t.id=jh.generate_unique_id(); t.exchange=EX; t.symbol='BTC-USDT'; t.type=typ; t.strategy_name='x'; t.timeframe='1m'; t.leverage=1
    t.opened_at=1609459200000; t.closed_at=t.opened_at+hold*1000
    entry=100.0; ex_=entry+pnl if typ=='long' else entry-pnl
    (t.buy_orders if typ=='long' else t.sell_orders).append(np.array([1.0,entry]))
    (t.sell_orders if typ=='long' else t.buy_orders).append(np.array([1.0,ex_]))
    return t
# ---- C16 identities on all trade lists up to length 4 ----
session()
n=0
for L in range(1,5):
    for combo in itertools.product([(-2,'long'),(-1,'short'),(0,'long'),(1,'short'),(2,'long'),(0,'short')],repeat=L):
        ts=[trade(p,t) for p,t in combo]; n+=1
        daily=[1000]; 
        for p,_ in combo: daily.append(daily[-1]+p)
        m=metrics.trades(ts,daily)
        pn=[p for p,_ in combo]; w=[p for p in pn if p>0]; l=[p for p in pn if p<0]; z=[p for p in pn if p==0]
        def chk(name,got,exp):
            if (isinstance(exp,float) and math.isnan(exp)): ok = isinstance(got,float) and math.isnan(got)
            else: ok = abs(got-exp)<1e-9
            if not ok: issues[('C16',name)]+=1; exs.setdefault(('C16',name),(combo,got,exp))
        chk('total',m['total'],len(pn)); chk('w+l+z',m['total_winning_trades']+m['total_losing_trades']+len(z),len(pn))
        chk('win_rate',m['win_rate'], (len(w)/(len(w)+len(l))) if w else 0)
        chk('net',m['net_profit'],sum(pn)); chk('gross',m['gross_profit']+m['gross_loss'],sum(pn))
        chk('npp',m['net_profit_percentage'],sum(pn)/1000*100)
        chk('longs+shorts',m['longs_count']+m['shorts_count'],len(pn)); chk('pct',m['longs_percentage']+m['shorts_percentage'],100)
        chk('largest_win',m['largest_winning_trade'],max(w) if w else 0); chk('largest_loss',m['largest_losing_trade'],min(l) if l else 0)
        if len(daily)>=2:
            eq=np.array(daily,float); dd=(eq/np.maximum.accumulate(eq)).min()-1
            chk('maxdd',m['max_drawdown'],dd*100)
            if m['max_drawdown']>1e-12: issues[('C16','maxdd>0')]+=1
print('C16 trade lists',n)
# ---- C19 dna ----
n=0
for mn,mx in [(0,10),(-5,5),(1,2),(0.5,2.5),(-3.5,-1),(10,200)]:
    for typ in (int,float):
        prev=None
        for g in range(40,120):
            v=jh.dna_to_hp([{'name':'x','type':typ,'min':mn,'max':mx,'default':mn}],chr(g))['x']; n+=1
            exact=F(mn).limit_denominator(1000)+F(g-40)*(F(mx).limit_denominator(1000)-F(mn).limit_denominator(1000))/79
            if typ is int:
                if not isinstance(v,int): issues[('C19','type')]+=1
                if v!=round(float(exact)): issues[('C19','int value')]+=1
            else:
                if abs(v-float(exact))>1e-9: issues[('C19','float value')]+=1
            if not (mn-1e-9<=v<=mx+1e-9): issues[('C19','range')]+=1; exs.setdefault(('C19','range'),(mn,mx,typ,g,v))
            if prev is not None and v<prev-1e-12: issues[('C19','monotone')]+=1
            prev=v
        a=jh.dna_to_hp([{'name':'x','type':typ,'min':mn,'max':mx,'default':mn}],'(')['x']; b=jh.dna_to_hp([{'name':'x','type':typ,'min':mn,'max':mx,'default':mn}],'w')['x']
        if typ is float and (abs(a-mn)>1e-9 or abs(b-mx)>1e-9): issues[('C19','endpoints')]+=1; exs.setdefault(('C19','endpoints'),(mn,mx,a,b))
        if typ is int and (a!=round(mn) or b!=round(mx)): issues[('C19','endpoints-int')]+=1; exs.setdefault(('C19','endpoints-int'),(mn,mx,a,b))
print('C19 decodes',n)
# ---- C20 fill absent ----
from jesse.modes.import_candles_mode import _fill_absent_candles
n=0
for L in range(1,8):
    for mask in range(1,2**L):
        start=1609459200000; end=start+(L-1)*60000
        given=[{'id':'x','exchange':'e','symbol':'s','timeframe':'1m','timestamp':start+i*60000,'open':10+i,'close':20+i,'high':30+i,'low':5+i,'volume':7+i} for i in range(L) if mask>>i&1]
        out=_fill_absent_candles(list(given),start,end); n+=1
        if len(out)!=L or [c['timestamp'] for c in out]!=[start+i*60000 for i in range(L)]: issues[('C20','grid')]+=1; continue
        lastclose=None; first_open=given[0]['open']
        for i,c in enumerate(out):
            if mask>>i&1:
                g=[x for x in given if x['timestamp']==c['timestamp']][0]
                if c is not g and any(c[k]!=g[k] for k in ('open','close','high','low','volume')): issues[('C20','changed')]+=1
                lastclose=c['close']
            else:
                ref=lastclose if lastclose is not None else first_open
                if not (c['open']==c['close']==c['high']==c['low']==ref and c['volume']==0): issues[('C20','flat')]+=1; exs.setdefault(('C20','flat'),(L,mask,i,c,ref))
print('C20 patterns',n)
# ---- C17 sizing on a decimal lattice (exact rational contract) ----
n=0
rng=np.random.default_rng(0)
for _ in range(200000):
    cap=int(rng.integers(100,100001))/100; price=int(rng.integers(1,10001))/100; prec=int(rng.integers(0,4)); fee=[0,0.0005,0.001,0.002][int(rng.integers(0,4))]
    q=utils.size_to_qty(cap,price,precision=prec,fee_rate=fee); n+=1
    k=round(q*10**prec)
    if abs(q-k/10**prec)>1e-12: issues[('C17','not multiple')]+=1; continue
    Fq=F(k,10**prec); Fp=F(round(price*100),100); Fc=F(round(cap*100),100); Ff=F(round(fee*10000),10000)
    cost=Fq*Fp*(1+Ff)
    if cost>Fc: issues[('C17','overspend')]+=1; exs.setdefault(('C17','overspend'),(cap,price,prec,fee,q,float(cost)))
    exactq=(Fc*(1-3*Ff))/Fp
    floor_exact=F(math.floor(exactq*10**prec),10**prec)
    if Fq<floor_exact-F(1,10**prec): issues[('C17','too small')]+=1; exs.setdefault(('C17','too small'),(cap,price,prec,fee,q,float(floor_exact)))
    if Fq>floor_exact: issues[('C17','above exact floor')]+=1; exs.setdefault(('C17','above exact floor'),(cap,price,prec,fee,q,float(floor_exact)))
print('C17 sizing',n)
for k,v in sorted(issues.items(), key=lambda x:-x[1]): print(v,k, str(exs.get(k,''))[:300])
