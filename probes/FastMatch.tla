---- MODULE FastMatch ----
EXTENDS Integers, Sequences, FiniteSets, TLC
CONSTANTS K, MaxOrders, ChunkLen
Px == 1..K
Candles == {c \in [o : Px, c : Px, h : Px, l : Px] : c.l <= c.o /\ c.l <= c.c /\ c.o <= c.h /\ c.c <= c.h}
Min2(a,b) == IF a < b THEN a ELSE b
Max2(a,b) == IF a > b THEN a ELSE b
Abs(x) == IF x < 0 THEN -x ELSE x
Includes(c, p) == p >= c.l /\ p <= c.h
Bull(c) == c.c >= c.o
Bear(c) == c.c < c.o
Cd(o_, c_, h_, l_) == [o |-> o_, c |-> c_, h |-> h_, l |-> l_]

\* ---- services.candle.split_candle, branch by branch (returns <<earlier, later>>) ----
Split(cd, p) ==
  LET o == cd.o c == cd.c h == cd.h l == cd.l IN
  IF Bull(cd) /\ l < p /\ p < o THEN <<Cd(o,p,o,p), Cd(p,c,h,l)>>
  ELSE IF p = o THEN <<cd, cd>>
  ELSE IF Bear(cd) /\ o < p /\ p < h THEN <<Cd(o,p,p,o), Cd(p,c,h,l)>>
  ELSE IF Bear(cd) /\ l < p /\ p < c THEN <<Cd(o,p,h,p), Cd(p,c,c,l)>>
  ELSE IF Bull(cd) /\ c < p /\ p < h THEN <<Cd(o,p,p,l), Cd(p,c,h,c)>>
  ELSE IF Bear(cd) /\ p = c THEN <<Cd(o,c,h,c), Cd(p,p,p,l)>>
  ELSE IF Bull(cd) /\ p = c THEN <<Cd(o,c,c,l), Cd(p,p,h,p)>>
  ELSE IF Bear(cd) /\ p = h THEN <<Cd(o,h,h,o), Cd(h,c,h,l)>>
  ELSE IF Bull(cd) /\ p = l THEN <<Cd(o,l,o,l), Cd(l,c,h,l)>>
  ELSE IF Bear(cd) /\ p = l THEN <<Cd(o,l,h,l), Cd(l,c,c,l)>>
  ELSE IF Bull(cd) /\ p = h THEN <<Cd(o,h,h,l), Cd(h,c,h,c)>>
  ELSE IF Bear(cd) /\ c < p /\ p < o THEN <<Cd(o,p,h,p), Cd(p,c,p,l)>>
  ELSE IF Bull(cd) /\ o < p /\ p < c THEN <<Cd(o,p,p,l), Cd(p,c,h,p)>>
  ELSE <<cd, cd>>          \* unreachable when Includes(cd, p)

\* ---- canonical path of the REAL candle: position = leg*100 + distance travelled on the leg ----
Leg(cd, k) == IF Bull(cd) THEN (CASE k = 0 -> <<cd.o, cd.l>> [] k = 1 -> <<cd.l, cd.h>> [] k = 2 -> <<cd.h, cd.c>>)
                          ELSE (CASE k = 0 -> <<cd.o, cd.h>> [] k = 1 -> <<cd.h, cd.l>> [] k = 2 -> <<cd.l, cd.c>>)
OnLeg(g, p) == Min2(g[1], g[2]) <= p /\ p <= Max2(g[1], g[2])
NoReach == 999
Reaches(cd, from, p) == {k * 100 + Abs(p - Leg(cd,k)[1]) : k \in {kk \in 0..2 : OnLeg(Leg(cd,kk), p)}}
FirstReach(cd, from, p) == LET s == {x \in Reaches(cd, from, p) : x >= from} IN
                           IF s = {} THEN NoReach ELSE CHOOSE x \in s : \A y \in s : x <= y


\* ---- state: a chunk of ChunkLen minutes handled by _simulate_price_change_effect_multiple_candles ----
VARIABLES mins, k, temp, ords, cands, cursor, pc, due, bad
vars == <<mins, k, temp, ords, cands, cursor, pc, due, bad>>
Active(i) == ords[i].st = "A"
RECURSIVE MaxH(_), MinL(_)
MaxH(s) == IF Len(s) = 1 THEN s[1].h ELSE Max2(s[1].h, MaxH(Tail(s)))
MinL(s) == IF Len(s) = 1 THEN s[1].l ELSE Min2(s[1].l, MinL(Tail(s)))
Chunk == Cd(mins[1].o, mins[Len(mins)].c, MaxH(mins), MinL(mins))
\* minute i as matched: range extended to the previous close (first minute already jump-fixed)
Ext(i) == IF i = 1 THEN mins[1]
          ELSE Cd(mins[i].o, mins[i].c, Max2(mins[i].h, mins[i-1].c), Min2(mins[i].l, mins[i-1].c))

FilterSeq(s, P(_)) == LET RECURSIVE F(_)
                          F(t) == IF t = <<>> THEN <<>> ELSE (IF P(Head(t)) THEN <<Head(t)>> ELSE <<>>) \o F(Tail(t))
                      IN F(s)
SortAscBy(os, s) == LET RECURSIVE S(_)
                        S(t) == IF t = <<>> THEN <<>> ELSE
                                LET rest == S(SubSeq(t, 1, Len(t) - 1)) x == t[Len(t)] IN
                                LET RECURSIVE Place(_)
                                    Place(u) == IF u = <<>> THEN <<x>>
                                                ELSE IF os[Head(u)].p <= os[x].p THEN <<Head(u)>> \o Place(Tail(u)) ELSE <<x>> \o u
                                IN Place(rest)
                    IN S(s)
SortDescBy(os, s) == LET RECURSIVE S(_)
                        S(t) == IF t = <<>> THEN <<>> ELSE
                                LET rest == S(SubSeq(t, 1, Len(t) - 1)) x == t[Len(t)] IN
                                LET RECURSIVE Place(_)
                                    Place(u) == IF u = <<>> THEN <<x>>
                                                ELSE IF os[Head(u)].p >= os[x].p THEN <<Head(u)>> \o Place(Tail(u)) ELSE <<x>> \o u
                                IN Place(rest)
                    IN S(s)
\* _get_executing_orders(real_candle): active orders inside the chunk range, in storage order
Executing(os) == FilterSeq([i \in 1..Len(os) |-> i], LAMBDA i : os[i].st = "A" /\ Includes(Chunk, os[i].p))
\* _sort_execution_orders(orders, short_candles): candle by candle, raw candles, early exit on length
RECURSIVE SortMulti(_, _, _, _)
SortMulti(os, sel, j, acc) ==
  IF j > Len(mins) \/ Len(acc) = Len(sel) THEN acc
  ELSE LET cd == mins[j]
           inc == FilterSeq(sel, LAMBDA i : Includes(cd, os[i].p))
           add == IF Len(inc) = 0 THEN <<>>
                  ELSE IF Len(inc) = 1 THEN inc
                  ELSE LET red == cd.o > cd.c
                           onOpen == FilterSeq(inc, LAMBDA i : os[i].p = cd.o)
                           above == FilterSeq(inc, LAMBDA i : os[i].p > cd.o)
                           below == FilterSeq(inc, LAMBDA i : ~(os[i].p > cd.o))
                       IN onOpen \o (IF red THEN SortAscBy(os, above) \o SortDescBy(os, below)
                                            ELSE SortDescBy(os, below) \o SortAscBy(os, above))
       IN SortMulti(os, sel, j + 1, acc \o add)

Init == /\ mins \in [1..ChunkLen -> Candles]
        /\ \E n \in 1..MaxOrders : ords \in [1..n -> [p : Px, st : {"A"}]]
        /\ k = 0 /\ temp = mins[1] /\ cands = <<>> /\ cursor = 0 /\ pc = "select" /\ due = {} /\ bad = "no"

Begin == /\ pc = "select"
         /\ LET ex == Executing(ords) IN
            IF Len(ex) = 0 THEN pc' = "done" /\ cands' = <<>> /\ UNCHANGED <<k, temp, cursor, due>>
            ELSE /\ cands' = (IF Len(ex) > 1 THEN SortMulti(ords, ex, 1, <<>>) ELSE ex)
                 /\ k' = 1 /\ temp' = Ext(1) /\ cursor' = 1 /\ pc' = "loop"
                 /\ due' = {i \in 1..Len(ords) : Active(i) /\ Includes(Ext(1), ords[i].p)}
         /\ UNCHANGED <<mins, ords, bad>>

Step ==
  /\ pc = "loop" /\ cursor <= Len(cands)
  /\ LET i == cands[cursor] IN
     IF ~Active(i) \/ ~Includes(temp, ords[i].p)
     THEN /\ cursor' = cursor + 1 /\ UNCHANGED <<mins, k, temp, ords, cands, pc, due, bad>>
     ELSE /\ temp' = Split(temp, ords[i].p)[2]
          /\ ords' = [ords EXCEPT ![i].st = "E"]
          /\ cands' = Executing(ords')            \* re-selected on the chunk candle, NOT re-sorted
          /\ cursor' = 1
          /\ UNCHANGED <<mins, k, pc, due, bad>>

EndMinute ==
  /\ pc = "loop" /\ cursor > Len(cands)
  /\ bad' = IF bad # "no" THEN bad
            ELSE IF \E i \in due : Active(i) THEN "missed-in-its-minute" ELSE "no"
  /\ IF k < ChunkLen
     THEN /\ k' = k + 1 /\ temp' = Ext(k + 1) /\ cursor' = 1
          /\ due' = {i \in 1..Len(ords) : Active(i) /\ Includes(Ext(k + 1), ords[i].p)}
          /\ UNCHANGED pc
     ELSE /\ pc' = "done" /\ UNCHANGED <<k, temp, cursor, due>>
  /\ UNCHANGED <<mins, ords, cands>>

Next == Begin \/ Step \/ EndMinute
Spec == Init /\ [][Next]_vars
MinuteOK == bad = "no"
\* consecutive minutes must be continuous after the jump fix only at the chunk edge; inside the chunk
\* the raw candles are used, so no constraint between mins[i].c and mins[i+1].o
====
