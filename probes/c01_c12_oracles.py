import numpy as np, warnings, collections, copy
warnings.filterwarnings('ignore')
from jesse.research import backtest
from jesse.strategies import Strategy
from jesse.models import Order
from jesse.store import store
import jesse.helpers as jh
log=[]
ids={}
def oid(o): return ids.setdefault(o.id,len(ids))
_oi=Order.__init__; _oe=Order.execute; _oc=Order.cancel
def oinit(self,*a,**k):
    _oi(self,*a,**k); log.append(('submit',int(store.app.time),oid(self),self.symbol,self.side,self.type,self.qty,float(self.price).hex(),self.reduce_only))
def oexec(self,*a,**k):
    act=self.is_active; r=_oe(self,*a,**k)
    if act: log.append(('exec',int(store.app.time),oid(self),self.type,self.side,self.qty,float(self.price).hex()))
    return r
def ocan(self,*a,**k):
    act=self.is_active; r=_oc(self,*a,**k)
    if act: log.append(('cancel',int(store.app.time),oid(self)))
    return r
Order.__init__=oinit; Order.execute=oexec; Order.cancel=ocan
class S(Strategy):
    seedv=0; tfs=[]; gap=3
    def rng(self,salt=0): return np.random.default_rng(self.index*13+S.seedv+salt)
    def _obs(self,where):
        row=[where,int(self.time),self.index,float(self.price).hex(),self.position.qty,
             None if self.position.entry_price is None else float(self.position.entry_price).hex(),
             float(self.balance).hex(), float(self.available_margin).hex()]
        for (sym,tf) in S.tfs:
            try:
                c=self.get_candles(self.exchange,sym,tf)
                row.append((sym,tf,len(c),tuple(float(x).hex() for x in c[-1]) if len(c) else None))
            except Exception as e:
                row.append((sym,tf,'EXC'))
        log.append(tuple(row))
    def before(self): self._obs('before')
    def should_long(self): return self.index % 7 == 1
    def should_short(self): return self.exchange_type=='futures' and self.index % 7 == 4
    def go_long(self):
        r=self.rng(); self.buy=1, self.price-int(r.integers(0,2))
        if self.exchange_type=='futures':
            self.stop_loss=1, self.price-S.gap; self.take_profit=1, self.price+S.gap
    def go_short(self):
        r=self.rng(1); self.sell=1, self.price+int(r.integers(0,2))
        self.stop_loss=1, self.price+S.gap; self.take_profit=1, self.price-S.gap
    def on_open_position(self,o):
        self._obs('open')
        if self.exchange_type=='spot':
            self.stop_loss=self.position.qty, self.price-S.gap; self.take_profit=self.position.qty, self.price+S.gap
    def on_close_position(self,o): self._obs('close')
    def should_cancel_entry(self): return True
def mk(n, seed, vol=2, wick=3):
    rng=np.random.default_rng(seed)
    c=np.zeros((n,6)); p=200.0
    for i in range(n):
        o=p; cl=max(50,o+int(rng.integers(-vol,vol+1))); h=max(o,cl)+int(rng.integers(0,wick)); l=min(o,cl)-int(rng.integers(0,wick))
        c[i]=[1609459200000+i*60000,o,cl,h,l,int(rng.integers(1,100))]; p=cl
    return c
def run(cand, typ, ttf, dtfs, fast, seed, nsym=1):
    S.seedv=seed; log.clear(); ids.clear()
    ex='Binance Perpetual Futures' if typ=='futures' else 'Binance Spot'
    syms=['BTC-USDT','ETH-USDT'][:nsym]
    S.tfs=[(s,t) for s in syms for t in [ttf]+dtfs]
    cfg={'starting_balance':100000,'fee':1/1024,'type':typ,'futures_leverage':2,'futures_leverage_mode':'cross','exchange':ex,'warm_up_candles':0}
    routes=[{'exchange':ex,'strategy':S,'symbol':s,'timeframe':ttf} for s in syms]
    dr=[{'exchange':ex,'symbol':s,'timeframe':t} for s in syms for t in dtfs]
    cd={f'{ex}-{s}':{'exchange':ex,'symbol':s,'candles':cand[i].copy()} for i,s in enumerate(syms)}
    try:
        res=backtest(cfg,routes,dr,cd,fast_mode=fast)
        return list(log), res['metrics']
    except Exception as e:
        return list(log)+[('EXC',type(e).__name__,str(e)[:60])], {}
issues=collections.Counter(); exs={}
TFM={'1m':1,'3m':3,'5m':5,'15m':15}
# ---- C01: paired runs ----
npairs=0
for seed in range(60):
    typ=['futures','spot'][seed%2]; ttf=['1m','3m','5m','15m'][seed%4]; dt=[[],['15m'],['5m','15m']][seed%3]; fast=bool((seed//2)%2); nsym=1+(seed%5==0)
    lcm=15 if (ttf=='15m' or '15m' in dt) else TFM[ttf]
    n=300
    A=[mk(n,seed*7+i) for i in range(nsym)]
    t=int(np.random.default_rng(seed).integers(40,250)); t-= t%lcm
    B=[a.copy() for a in A]
    for i in range(nsym):
        tail=mk(n-t,seed*7+100+i); tail[:,0]=A[i][t:,0]
        # keep continuity plausible: start tail near previous close
        B[i][t:]=tail
    la,_=run(A,typ,ttf,dt,fast,seed,nsym); lb,_=run(B,typ,ttf,dt,fast,seed,nsym)
    tcut=int(A[0][t][0])
    pa=[e for e in la if isinstance(e[1],int) and e[1]<=tcut]; pb=[e for e in lb if isinstance(e[1],int) and e[1]<=tcut]
    npairs+=1
    if pa!=pb:
        k=next((i for i,(x,y) in enumerate(zip(pa,pb)) if x!=y), min(len(pa),len(pb)))
        key=('C01',fast); issues[key]+=1; exs.setdefault(key,(typ,ttf,dt,t,pa[k] if k<len(pa) else None,pb[k] if k<len(pb) else None))
print('C01 pairs',npairs)
# ---- C12: fast vs normal ----
ncmp=0; nskip=0
for seed in range(80):
    typ=['futures','spot'][seed%2]; ttf=['1m','3m','5m','15m'][seed%4]; dt=[[],['15m']][seed%2] if ttf!='15m' else []
    S.gap=40   # exits far wider than a trading candle can move (vol 2, wick 2 per minute => <= 15*4=60? use small vol)
    n=600; n-= n%15
    A=[mk(n,seed*11,vol=1,wick=2)]
    ln,mn=run(A,typ,ttf,dt,False,seed); lf,mf=run(A,typ,ttf,dt,True,seed)
    en=[e for e in ln if e[0]=='exec']; ef=[e for e in lf if e[0]=='exec']
    # precondition: <=1 resting (LIMIT/STOP) fill per trading-candle span in the normal run
    span=TFM[ttf]*60000; t0=int(A[0][0][0])
    cnt=collections.Counter(((e[1]-t0-1)//span) for e in en if e[3]!='MARKET')
    if any(v>1 for v in cnt.values()): nskip+=1; continue
    ncmp+=1
    pn=[(e[3],e[4],e[5],e[6],e[1]) for e in en]; pf=[(e[3],e[4],e[5],e[6],e[1]) for e in ef]
    if pn!=pf or mn.get('finishing_balance')!=mf.get('finishing_balance'):
        k=next((i for i,(x,y) in enumerate(zip(pn,pf)) if x!=y), min(len(pn),len(pf)))
        key=('C12',typ,ttf,tuple(dt)); issues[key]+=1; exs.setdefault(key,(len(pn),len(pf),pn[k] if k<len(pn) else None,pf[k] if k<len(pf) else None, [e for e in lf if e[0]=='EXC']))
print('C12 compared',ncmp,'skipped (precondition)',nskip)
for k,v in sorted(issues.items(), key=lambda x:-x[1]): print(v,k, str(exs.get(k,''))[:400])
