---- MODULE G ----
EXTENDS Naturals, Sequences, TLC, Json
VARIABLES q, hist
MaxLen == 3
Vals == {1,2}
Init == q = <<>> /\ hist = <<>>
Push(v) == /\ Len(q) < MaxLen /\ q' = Append(q, v) /\ hist' = Append(hist, [op |-> "push", v |-> v, post |-> q'])
Pop == /\ q # <<>> /\ q' = Tail(q) /\ hist' = Append(hist, [op |-> "pop", v |-> Head(q), post |-> q'])
Edge == PrintT(<<"EDGE", ToJson(hist')>>)
Next == (\E v \in Vals : Push(v) \/ Pop) /\ Edge
Spec == Init /\ [][Next]_<<q, hist>>
View == q
Bound == Len(hist) <= 6
====
