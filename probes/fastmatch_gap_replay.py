exec(open('/verif/probes/p7b.py').read().split("K=5; bad=0")[0])
def chunk(cs, prices, prevc):
    session(); fills.clear()
    store.candles.add_candle(np.array([120000.0,prevc,prevc,prevc,prevc,1.0]),EX,SYM,'1m',with_execution=False,with_generation=False)
    for i,p in enumerate(prices): order(p,i)
    arr=np.array([[180000.0+60000*j,o,c,h,l,1.0] for j,(o,c,h,l) in enumerate(cs)])
    arr[0]=bm._get_fixed_jumped_candle(np.array([120000.0,prevc,prevc,prevc,prevc,1.0]), arr[0])
    store.app.time=180000
    bm._simulate_price_change_effect_multiple_candles(arr,EX,SYM)
    return list(fills)
print('two orders in the gap :', chunk([(1,1,1,1),(3,3,3,3)],[2,2],1))
print('one order in the gap  :', chunk([(1,1,1,1),(3,3,3,3)],[2],1))
print('step mode, two orders :', end=' ')
session(); fills.clear()
store.candles.add_candle(np.array([120000.0,1,1,1,1,1.0]),EX,SYM,'1m',with_execution=False,with_generation=False)
order(2,0); order(2,1)
prev=np.array([120000.0,1,1,1,1,1.0])
for j,(o,c,h,l) in enumerate([(1,1,1,1),(3,3,3,3)]):
    cand=np.array([180000.0+60000*j,o,c,h,l,1.0]); cand=bm._get_fixed_jumped_candle(prev,cand)
    store.app.time=240000+60000*j
    store.candles.add_candle(cand,EX,SYM,'1m',with_execution=False,with_generation=False)
    bm._simulate_price_change_effect(cand,EX,SYM); prev=cand
print(fills)
