import numpy as np, warnings, collections
warnings.filterwarnings('ignore')
from jesse.research import backtest
from jesse.strategies import Strategy
from jesse.models import Order
from jesse.store import store
import jesse.helpers as jh
issues=collections.Counter(); exs={}
fills=[]   # (oid, side, qty, price, reduce_only, time, qty_before, qty_after)
hooks=[]
_oe=Order.execute
def oexec(self,*a,**k):
    if not self.is_active: return _oe(self,*a,**k)
    p=store.positions.storage[f'{self.exchange}-{self.symbol}']; q0=p.qty
    idx=len(fills); fills.append(None)
    r=_oe(self,*a,**k)
    fills[idx]=(self.id,self.side,self.qty,self.price,self.reduce_only,store.app.time,q0,p.qty)
    return r
Order.execute=oexec
class S(Strategy):
    seedv=0; oversize=False
    def rng(self,salt=0): return np.random.default_rng(self.index*13+S.seedv+salt)
    def should_long(self): return self.index % 9 == 1
    def should_short(self): return self.index % 9 == 5
    def go_long(self):
        r=self.rng(); n=int(r.integers(1,3))
        self.buy=[(1, self.price-int(r.integers(0,3))) for _ in range(n)]
        tot=n
        self.stop_loss=(tot if S.oversize else 1, self.price-6) if S.oversize else [(1,self.price-6-j) for j in range(n)]
        self.take_profit=[(1,self.price+2+2*j) for j in range(n)]
    def go_short(self):
        r=self.rng(1); n=int(r.integers(1,3))
        self.sell=[(1, self.price+int(r.integers(0,3))) for _ in range(n)]
        self.stop_loss=[(1,self.price+6+j) for j in range(n)]
        self.take_profit=[(1,self.price-2-2*j) for j in range(n)]
    def should_cancel_entry(self): return self.index%4==0
    def update_position(self):
        r=self.rng(2)
        if r.random()<0.08: self.liquidate()
    def on_open_position(self,o): hooks.append(('open',self.position.qty,len(fills)))
    def on_increased_position(self,o): hooks.append(('inc',self.position.qty,len(fills)))
    def on_reduced_position(self,o): hooks.append(('red',self.position.qty,len(fills)))
    def on_close_position(self,o): hooks.append(('close',self.position.qty,len(fills)))
def mk(n, seed):
    rng=np.random.default_rng(seed)
    c=np.zeros((n,6)); p=100.0
    for i in range(n):
        o=p; cl=max(30,o+int(rng.integers(-2,3))); h=max(o,cl)+int(rng.integers(0,3)); l=min(o,cl)-int(rng.integers(0,3))
        c[i]=[1609459200000+i*60000,o,cl,h,l,int(rng.integers(1,100))]; p=cl
    return c
ex='Binance Perpetual Futures'
ntr=0; ncyc=0
for seed in range(40):
    for oversize in (False,True):
        S.seedv=seed*100; S.oversize=oversize; fills.clear(); hooks.clear()
        fee=[0,1/1024][seed%2]
        cfg={'starting_balance':10000,'fee':fee,'type':'futures','futures_leverage':4,'futures_leverage_mode':'cross','exchange':ex,'warm_up_candles':0}
        routes=[{'exchange':ex,'strategy':S,'symbol':'BTC-USDT','timeframe':'1m'}]
        trades=[]
        class T(S):
            def terminate(self): pass
        try:
            res=backtest(cfg,[{'exchange':ex,'strategy':S,'symbol':'BTC-USDT','timeframe':'1m'}],[],{f'{ex}-BTC-USDT':{'exchange':ex,'symbol':'BTC-USDT','candles':mk(1500,seed)}})
        except Exception as e:
            issues[('RUN',oversize,type(e).__name__,str(e)[:60])]+=1; continue
        m=res['metrics']
        # hook word
        state='flat'; word=[h[0] for h in hooks]
        okword=True
        for w in word:
            if state=='flat' and w=='open': state='in'
            elif state=='in' and w in ('inc','red'): pass
            elif state=='in' and w=='close': state='flat'
            else: okword=False; break
        if not okword: issues[('hookword',oversize)]+=1; exs.setdefault(('hookword',oversize),word[:20])
        # hooks count == fills count and qty matches
        if len(hooks)!=len(fills): issues[('hooks!=fills',oversize)]+=1; exs.setdefault(('hooks!=fills',oversize),(len(hooks),len(fills)))
        for h,f in zip(hooks,fills):
            if h[1]!=f[7]: issues[('hookqty',oversize)]+=1
        # cycles from fills
        cycles=[]; cur=[]
        for f in fills:
            cur.append(f)
            if f[7]==0: cycles.append(cur); cur=[]
        ncyc+=len(cycles)
        total=m.get('total',0)
        if total!=len(cycles): issues[('trades!=cycles',oversize)]+=1; exs.setdefault(('trades!=cycles',oversize),(total,len(cycles)))
        # wallet vs net profit
        if total:
            d=m['finishing_balance']-m['starting_balance']
            if abs(d-m['net_profit'])>1e-6:
                issues[('netprofit!=walletdelta',oversize)]+=1; exs.setdefault(('netprofit!=walletdelta',oversize),(d,m['net_profit']))
            ntr+=total
print('cycles',ncyc,'trades',ntr)
for k,v in sorted(issues.items(), key=lambda x:-x[1]): print(v,k, str(exs.get(k,''))[:300])
