import numpy as np, warnings
warnings.filterwarnings('ignore')
from jesse.research import backtest
from jesse.strategies import Strategy
import jesse.helpers as jh
log=[]
class S(Strategy):
    def should_long(self): return self.index == 0
    def go_long(self):
        self.buy = 2, self.price
        self.stop_loss = 2, self.price-4      # full size stop
        self.take_profit = [(1, self.price+2),(1,self.price+6)]  # partial TP first
    def on_close_position(self, o): log.append(('close', self.balance))
    def on_reduced_position(self, o): log.append(('reduced', self.position.qty, self.balance))
    def terminate(self): log.append(('end', self.balance, [ (t.type,t.qty,t.entry_price,t.exit_price,t.pnl,t.fee) for t in self.trades]))
def mk(closes):
    rows=[]; ts=1609459200000; prev=closes[0]
    for i,c in enumerate(closes):
        o=prev; rows.append([ts+i*60000,o,c,max(o,c),min(o,c),10]); prev=c
    return np.array(rows,dtype=float)
ex='Binance Perpetual Futures'
cfg={'starting_balance':10000,'fee':1/1024,'type':'futures','futures_leverage':2,'futures_leverage_mode':'cross','exchange':ex,'warm_up_candles':0}
routes=[{'exchange':ex,'strategy':S,'symbol':'BTC-USDT','timeframe':'1m'}]
r=backtest(cfg,routes,[],{f'{ex}-BTC-USDT':{'exchange':ex,'symbol':'BTC-USDT','candles':mk([100,100,101,102,103,101,99,97,95,94,94,94])}})
for l in log: print(l)
m=r['metrics']; print('net_profit',m['net_profit'],'finishing',m['finishing_balance'],'start',m['starting_balance'], 'delta', m['finishing_balance']-m['starting_balance'])
