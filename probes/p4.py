import numpy as np, warnings
warnings.filterwarnings('ignore')
from jesse.research import backtest
from jesse.strategies import Strategy
obs=[]
class S(Strategy):
    def should_long(self): return self.index == 5
    def go_long(self):
        self.buy = 1, self.price - 2   # limit below -> fills mid-candle later
    def should_cancel_entry(self): return False
    def before(self):
        if self.index < 5: return
        c5 = self.get_candles(self.exchange, self.symbol, "5m")
        c1 = self.get_candles(self.exchange, self.symbol, '1m')
        cur = __import__('jesse').store.store.candles.get_current_candle(self.exchange, self.symbol, '5m')
        obs.append((self.index, len(c1), len(c5), c5[-1].tolist() if len(c5) else None, cur.tolist()))
def mk():
    rows=[]; ts=1609459200000
    closes=[100,101,100,101,100,100,101,97,99,100,101,102,103,104,105,106]
    prev=100
    for i,c in enumerate(closes):
        o=prev; h=max(o,c)+0.5; l=min(o,c)-0.5
        rows.append([ts+i*60000,o,c,h,l,10]); prev=c
    return np.array(rows,dtype=float)
ex='Binance Perpetual Futures'
cfg={'starting_balance':10000,'fee':0,'type':'futures','futures_leverage':2,'futures_leverage_mode':'cross','exchange':ex,'warm_up_candles':0}
routes=[{'exchange':ex,'strategy':S,'symbol':'BTC-USDT','timeframe':'1m'}]
dr=[{'exchange':ex,'symbol':'BTC-USDT','timeframe':'5m'}]
r=backtest(cfg,routes,dr,{f'{ex}-BTC-USDT':{'exchange':ex,'symbol':'BTC-USDT','candles':mk()}})
for o in obs: print(o)
