import os, sys, time
t0=time.time()
import numpy as np
from jesse.research import backtest
from jesse.strategies import Strategy
import jesse.helpers as jh
print('import', time.time()-t0, 'unit_testing', jh.is_unit_testing())

class S(Strategy):
    def should_long(self): return self.index % 7 == 0
    def go_long(self):
        self.buy = 1, self.price
        self.stop_loss = 1, self.price*0.98
        self.take_profit = 1, self.price*1.02
    def should_cancel_entry(self): return True

def mk(n, seed=1):
    rng=np.random.default_rng(seed)
    c=np.zeros((n,6)); p=100.0
    for i in range(n):
        o=p; cl=o+rng.normal(0,1); h=max(o,cl)+abs(rng.normal(0,.5)); l=min(o,cl)-abs(rng.normal(0,.5))
        c[i]=[1609459200000+i*60000,o,cl,h,l,rng.integers(1,100)]; p=cl
    return c
cfg={'starting_balance':10000,'fee':0.001,'type':'futures','futures_leverage':2,'futures_leverage_mode':'cross','exchange':'Binance Perpetual Futures','warm_up_candles':0}
routes=[{'exchange':'Binance Perpetual Futures','strategy':S,'symbol':'BTC-USDT','timeframe':'5m'}]
for fm in (False, True):
    t0=time.time()
    r=backtest(cfg,routes,[],{'Binance Perpetual Futures-BTC-USDT':{'exchange':'Binance Perpetual Futures','symbol':'BTC-USDT','candles':mk(600)}},fast_mode=fm)
    print(fm, time.time()-t0, r['metrics'].get('total'), r['metrics'].get('net_profit'))
