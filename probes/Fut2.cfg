SPECIFICATION Spec
CONSTANTS Qtys = {1,2}
 Prices = {8,10,12}
 Lev = 2
 FeeNum = 1
 FeeDen = 16
 Start = 100
 MaxDepth = 6
 MaxAct = 3
CONSTRAINT Depth
INVARIANT ReservedBag
PROPERTY MTMStep
CHECK_DEADLOCK FALSE
