import numpy as np, warnings, sys, json
warnings.filterwarnings('ignore')
from jesse.research import backtest
from jesse.strategies import Strategy
class S(Strategy):
    def should_long(self): return self.index % 10 == 0
    def go_long(self):
        self.buy = 1, self.price
        self.stop_loss = 1, self.price-3
        self.take_profit = 1, self.price+3
def mk(n, seed=1):
    rng=np.random.default_rng(seed)
    c=np.zeros((n,6)); p=100.0
    for i in range(n):
        o=p; cl=o+int(rng.integers(-2,3)); h=max(o,cl)+int(rng.integers(0,2)); l=min(o,cl)-int(rng.integers(0,2))
        c[i]=[1609459200000+i*60000,o,cl,h,l,int(rng.integers(1,100))]; p=cl
    return c
def run(ex, typ, lev, fee, tf='1m'):
    cfg={'starting_balance':10000,'fee':fee,'type':typ,'futures_leverage':lev,'futures_leverage_mode':'isolated','exchange':ex,'warm_up_candles':0}
    routes=[{'exchange':ex,'strategy':S,'symbol':'BTC-USDT','timeframe':tf}]
    r=backtest(cfg,routes,[],{f'{ex}-BTC-USDT':{'exchange':ex,'symbol':'BTC-USDT','candles':mk(300)}})
    m=r['metrics']; return (m.get('total'), m.get('net_profit'), m.get('fee'))
probe=('Binance Perpetual Futures','futures',5,0.001)
mode=sys.argv[1]
if mode=='fresh': print('fresh', run(*probe))
elif mode=='afterA': print('A', run('Bybit USDT Perpetual','futures',1,0.0)); print('probe', run(*probe))
elif mode=='afterSameEx': print('A', run('Binance Perpetual Futures','futures',1,0.0)); print('probe', run(*probe))
elif mode=='afterSpot': print('A', run('Binance Perpetual Futures','spot',1,0.002)); print('probe', run(*probe))
