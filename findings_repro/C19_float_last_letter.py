# C19: for float hyper-parameters with decimal bounds the last letter of the alphabet does not decode to max:
# it lands one ulp above max (outside the declared range) or one ulp below it
# run: cd $(mktemp -d) && PYTHONPATH=/repo /venv/bin/python /verif/findings_repro/C19_float_last_letter.py
import jesse.helpers as jh
above = jh.dna_to_hp([{'name': 'x', 'type': float, 'min': -2.5, 'max': 0.1, 'default': 0}], 'w')['x']
below = jh.dna_to_hp([{'name': 'x', 'type': float, 'min': -0.3, 'max': 3.1, 'default': 0}], 'w')['x']
print('float [-2.5, 0.1], letter "w" ->', repr(above), ' > max:', above > 0.1)
print('float [-0.3, 3.1], letter "w" ->', repr(below), ' == max:', below == 3.1)
assert above > 0.1 and below != 3.1
print('DEFECT REPRODUCED: last letter does not map to max; value can exceed max')
