# C07/C12: the fast simulator raises ValueError when the series length is not a multiple of the chunk (gcd of the
# route timeframes); the step simulator runs the same input.
# run: cd $(mktemp -d) && PYTHONPATH=/repo /venv/bin/python /verif/findings_repro/C07_fast_partial_chunk.py
import numpy as np
from jesse.research import backtest
from jesse.strategies import Strategy
EX, SYM, T0 = 'Binance Perpetual Futures', 'BTC-USDT', 1609459200000
class S(Strategy):
    def should_long(self): return False
    def go_long(self): pass
c = np.array([[T0 + i * 60000, 100, 100, 100, 100, 10] for i in range(12)], dtype=float)      # 12 minutes, 5m route
cfg = {'starting_balance': 10000, 'fee': 0, 'type': 'futures', 'futures_leverage': 2, 'futures_leverage_mode': 'cross',
       'exchange': EX, 'warm_up_candles': 0}
args = (cfg, [{'exchange': EX, 'strategy': S, 'symbol': SYM, 'timeframe': '5m'}], [],
        {EX + '-' + SYM: {'exchange': EX, 'symbol': SYM, 'candles': c}})
print('step simulator:', backtest(*args, fast_mode=False)['metrics']['total'], 'trades, no error')
print('fast simulator:'); backtest(*args, fast_mode=True)   # ValueError: Sent only 2 candles but 5 is required
