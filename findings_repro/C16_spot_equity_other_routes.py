# C16: in spot mode the daily equity sample counts the resting buy orders of ONE route only (the strategy of the first
# position in the store): quote reserved by another route's resting entry order disappears from the equity series.
# run: cd $(mktemp -d) && PYTHONHASHSEED=0 PYTHONPATH=/repo:/verif /venv/bin/python /verif/findings_repro/C16_spot_equity_other_routes.py
import warnings; warnings.filterwarnings('ignore')
from harness.session import ObjSession
from jesse.store import store
from jesse.modes.utils import save_daily_portfolio_balance
s = ObjSession(typ='spot', fee=0.0, balance=1000.0, symbols=('BTC-USDT', 'ETH-USDT'), price=100.0, cancel_on_close=False)
from jesse.routes import router
for r in router.routes: store.positions.storage['%s-%s' % (s.ex, r.symbol)].strategy = r.strategy   # real strategies again
save_daily_portfolio_balance(); print('no orders            :', store.app.daily_balance[-1])
for sym in ('BTC-USDT', 'ETH-USDT'):
    s.order(sym, 'buy', 'LIMIT', 1, 90.0)              # a resting entry order reserves 90 USDT
    save_daily_portfolio_balance(); print('after resting buy %s:' % sym, store.app.daily_balance[-1], ' free quote', s.exchange.assets['USDT'])
assert min(store.app.daily_balance) < 1000.0
print('DEFECT REPRODUCED: equity drops by the value of a resting order although nothing was bought')
