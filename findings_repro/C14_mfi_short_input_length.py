# C14: the sequential result has exactly one entry per input candle - also when there are fewer candles than the period.
# run: cd $(mktemp -d) && PYTHONPATH=/repo /venv/bin/python /verif/findings_repro/C14_mfi_short_input_length.py
import numpy as np, jesse.indicators as ta
n = 20
close = 100.0 + np.arange(n)
candles = np.column_stack([1609459200000 + 60000 * np.arange(n), close - 0.5, close, close + 1, close - 1, np.full(n, 5.0)])
for k in (5, 12, 13, 14, 20):
    r = ta.mfi(candles[:k], period=14, sequential=True)
    print("%2d candles, period 14 -> %2d entries%s" % (k, len(r), "" if len(r) == k else "   <-- not one entry per candle"))
