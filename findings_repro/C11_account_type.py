# C11 stale account type. Scratch dir: PYTHONPATH=/repo /venv/bin/python C11_account_type.py [crash]
import numpy as np, sys
from jesse.research import backtest
from jesse.strategies import Strategy
seen = []
class S(Strategy):
    def should_long(self): seen.append(self.exchange_type); return False
    def go_long(self): pass
def run(typ, step=60_000):
    cfg = {'starting_balance': 1000, 'fee': 0, 'type': typ, 'futures_leverage': 2, 'futures_leverage_mode': 'cross',
           'exchange': 'Sandbox', 'warm_up_candles': 0}
    c = np.array([[1609459200000 + i * step, 100, 100, 101, 99, 1] for i in range(30)], dtype=float)
    backtest(cfg, [{'exchange': 'Sandbox', 'strategy': S, 'symbol': 'BTC-USDT', 'timeframe': '1m'}], [],
             {'Sandbox-BTC-USDT': {'exchange': 'Sandbox', 'symbol': 'BTC-USDT', 'candles': c}})
try: run('spot', 120_000 if 'crash' in sys.argv else 60_000)    # crash: "must be 1m candles", raised after the store was built
except ValueError: pass
run('futures')
print("probe(type='futures') trades on a", seen[-1], 'account'); assert seen[-1] == 'futures'
