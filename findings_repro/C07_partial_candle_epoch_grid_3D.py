# C07: a mid-candle fill stores the forming 3D (or 1W) candle on the EPOCH grid (ts % timeframe) although every other
# window of the store counts from the session's first candle -> an extra 3D row appears and stays (3 rows for 2 started windows).
# run: cd $(mktemp -d) && PYTHONPATH=/repo /venv/bin/python /verif/findings_repro/C07_partial_candle_epoch_grid_3D.py
import numpy as np
from jesse.research import backtest
from jesse.strategies import Strategy
EX, SYM, T0, D3 = 'Binance Perpetual Futures', 'BTC-USDT', 1609459200000, 4320   # 2021-01-01: day 18628 = 3 * 6209 + 1
class S(Strategy):
    def should_long(self): return True
    def go_long(self): self.buy = 1, 99                      # limit below the market: fills inside trading minute 2
    def should_cancel_entry(self): return False
    def before(self):
        if self.index in (1, 3):
            c = self.get_candles(EX, SYM, '3D')
            print('index', self.index, ': 1m candles', len(self.candles), '-> 3D rows', len(c), 'start minutes',
                  [int((r[0] - T0) // 60000) for r in c])
def mk(start, n): return np.array([[T0 + (start + i) * 60000, 100, 100, 100, 100, 10] for i in range(n)], dtype=float)
warm, c = mk(-D3, D3), mk(0, 6)
c[2] = [T0 + 2 * 60000, 100, 100, 100, 98, 10]
cfg = {'starting_balance': 10000, 'fee': 0, 'type': 'futures', 'futures_leverage': 2, 'futures_leverage_mode': 'cross',
       'exchange': EX, 'warm_up_candles': 0}
k = EX + '-' + SYM
backtest(cfg, [{'exchange': EX, 'strategy': S, 'symbol': SYM, 'timeframe': '1m'}], [{'exchange': EX, 'symbol': SYM, 'timeframe': '3D'}],
         {k: {'exchange': EX, 'symbol': SYM, 'candles': c}}, warmup_candles={k: {'exchange': EX, 'symbol': SYM, 'candles': warm}})
# index 1: 2 rows [-4320, 0]; index 3 (after the fill): 3 rows [-4320, -1440, 0] - the middle one is the epoch-grid row
