# C14: the non-sequential result on a long input equals the sequential result on the trailing 240-candle warm-up window.
# run: cd $(mktemp -d) && PYTHONPATH=/repo /venv/bin/python /verif/findings_repro/C14_squeeze_momentum_warmup_window.py
import numpy as np, jesse.indicators as ta
rng = np.random.default_rng(1)
n = 700
close = 100 + np.cumsum(rng.integers(-2, 3, n)).astype(float)
candles = np.column_stack([1609459200000 + 60000 * np.arange(n), np.roll(close, 1), close, close + 1, close - 1, rng.integers(1, 50, n)]).astype(float)
kw = dict(length=241, length_kc=241)
single = ta.squeeze_momentum(candles, sequential=False, **kw)
window = ta.squeeze_momentum(candles[-240:], sequential=True, **kw)
print("non-sequential on 700 candles     :", single.squeeze, single.momentum, single.momentum_signal)
print("last of sequential on last 240 rows:", window.squeeze[-1], window.momentum[-1], window.momentum_signal[-1])
print("(for comparison sma does slice:", ta.sma(candles, period=241), "vs", ta.sma(candles[-240:], period=241, sequential=True)[-1], ")")
