# C11 Strategy.shared_vars survive store.reset(). Scratch dir: PYTHONPATH=/repo /venv/bin/python C11_shared_vars.py [crash] [other]
import numpy as np, sys
from jesse.research import backtest
from jesse.strategies import Strategy
seen = []
class S(Strategy):
    def should_long(self):
        seen.append(dict(self.shared_vars)); self.shared_vars['flag'] = self.exchange
        if 'crash' in sys.argv and len(seen) == 1: raise RuntimeError('earlier session aborts in a hook')
        return False
    def go_long(self): pass
def run(ex):
    cfg = {'starting_balance': 1000, 'fee': 0, 'type': 'futures', 'futures_leverage': 2, 'futures_leverage_mode': 'cross',
           'exchange': ex, 'warm_up_candles': 0}
    c = np.array([[1609459200000 + i * 60_000, 100, 100, 101, 99, 1] for i in range(5)], dtype=float)
    backtest(cfg, [{'exchange': ex, 'strategy': S, 'symbol': 'BTC-USDT', 'timeframe': '1m'}], [],
             {ex + '-BTC-USDT': {'exchange': ex, 'symbol': 'BTC-USDT', 'candles': c}})
try: run('Bybit USDT Perpetual' if 'other' in sys.argv else 'Sandbox')
except RuntimeError: pass
n = len(seen); run('Sandbox'); print('probe starts with shared_vars =', seen[n]); assert seen[n] == {}
