# C11 stale leverage / leverage mode. Scratch dir: PYTHONPATH=/repo /venv/bin/python C11_leverage.py [crash]
import numpy as np, sys
from jesse.research import backtest
from jesse.strategies import Strategy
seen = []
class S(Strategy):
    def should_long(self): seen.append((self.leverage, self.position.exchange.futures_leverage_mode)); return False
    def go_long(self): pass
def run(lev, mode, step=60_000):
    cfg = {'starting_balance': 1000, 'fee': 0, 'type': 'futures', 'futures_leverage': lev, 'futures_leverage_mode': mode,
           'exchange': 'Sandbox', 'warm_up_candles': 0}
    c = np.array([[1609459200000 + i * step, 100, 100, 101, 99, 1] for i in range(30)], dtype=float)
    backtest(cfg, [{'exchange': 'Sandbox', 'strategy': S, 'symbol': 'BTC-USDT', 'timeframe': '1m'}], [],
             {'Sandbox-BTC-USDT': {'exchange': 'Sandbox', 'symbol': 'BTC-USDT', 'candles': c}})
try: run(1, 'cross', 120_000 if 'crash' in sys.argv else 60_000)   # crash: "must be 1m candles", raised after the store was built
except ValueError: pass
run(5, 'isolated')
print('probe(futures_leverage=5, isolated) sees', seen[-1]); assert seen[-1] == (5, 'isolated')
