# C02: fast simulator, 3 resting orders: after the first fill (100) the candidates are taken in store order, not in
# path order; the order at the high is filled before the one at the low and the low is then skipped.
# run: cd $(mktemp -d) && PYTHONPATH=/repo /venv/bin/python -W ignore /verif/findings_repro/C02_fast_candidates_not_resorted.py
import numpy as np
from jesse.research import backtest
from jesse.strategies import Strategy
EX, T0 = 'Binance Perpetual Futures', 1609459200000
def run(fast):
    fills = []
    class S(Strategy):
        def should_long(self): return self.index == 0
        def go_long(self): self.buy = [(1, 103.0), (1, 99.0), (1, 100.0)]     # price is 101; store order 103, 99, 100
        def should_cancel_entry(self): return False
        def on_open_position(self, order): fills.append((order.price, self.time))
        def on_increased_position(self, order): fills.append((order.price, self.time))
    rows = [[101, 101, 101, 101]] * 3 + [[101, 102, 103, 99]] + [[102, 102, 102, 102]] * 2   # minute 3: 101->99->103->102
    c = np.array([[T0 + i * 60000] + r + [1] for i, r in enumerate(rows)], dtype=float)
    cfg = {'starting_balance': 10000, 'fee': 0, 'type': 'futures', 'futures_leverage': 1, 'futures_leverage_mode': 'cross', 'exchange': EX, 'warm_up_candles': 0}
    backtest(cfg, [{'exchange': EX, 'strategy': S, 'symbol': 'BTC-USDT', 'timeframe': '3m'}], [], {EX + '-BTC-USDT': {'exchange': EX, 'symbol': 'BTC-USDT', 'candles': c}}, fast_mode=fast)
    return [p for p, t in fills]
print('step:', run(False)); print('fast:', run(True), '<- the order at 99 is never filled although minute 3 traded 99..103')
