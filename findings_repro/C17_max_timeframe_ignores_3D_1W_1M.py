# C17: helpers.max_timeframe never returns 3D / 1W / 1M - they fall through to 1D or even '1m'
# run: cd $(mktemp -d) && PYTHONPATH=/repo /venv/bin/python /verif/findings_repro/C17_max_timeframe_ignores_3D_1W_1M.py
import jesse.helpers as jh
from jesse import utils
for tfs in (['1W'], ['1m', '4h', '3D'], ['1D', '1M', '5m']):
    got = jh.max_timeframe(tfs)
    want = max(tfs, key=utils.timeframe_to_one_minutes)
    print(tfs, '-> max_timeframe:', got, ' longest by minutes:', want)
    assert got != want
print('DEFECT REPRODUCED: the largest timeframe is not selected (warm-up length in load_candles is computed from it)')
