# C11 generate_logs=True leaves config['app']['debug_mode'] on. Scratch dir: PYTHONPATH=/repo /venv/bin/python <this file>
import numpy as np
from jesse.research import backtest
from jesse.strategies import Strategy
class Quiet(Strategy):
    def should_long(self): return self.index == 1
    def go_long(self): self.buy = 1, self.price
    def update_position(self):
        if self.index == 5: self.liquidate()
class S(Quiet):
    def before(self):
        if self.index == 4: self.log('careful', 'error')
ex = 'Binance Perpetual Futures'
c = {ex + '-BTC-USDT': {'exchange': ex, 'symbol': 'BTC-USDT', 'candles': np.array([[1609459200000 + i * 60000, 100, 100+i, 100+i, 100, 10] for i in range(10)], dtype=float)}}
cfg = {'starting_balance': 10000, 'fee': 0, 'type': 'futures', 'futures_leverage': 2, 'futures_leverage_mode': 'cross', 'exchange': ex, 'warm_up_candles': 0}
def run(cls, **kw):
    try: return backtest(cfg, [{'exchange': ex, 'strategy': cls, 'symbol': 'BTC-USDT', 'timeframe': '1m'}], [], c, **kw)['metrics']['net_profit']
    except Exception as e: return repr(e)
a = run(S); run(Quiet, generate_logs=True); b = run(S)
print('fresh:', a, ' after a generate_logs session:', b); assert a == b
