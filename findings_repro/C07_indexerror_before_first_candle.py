# C07: reading a larger timeframe before its first complete candle raises IndexError when there is no warm-up.
# run: cd $(mktemp -d) && PYTHONPATH=/repo /venv/bin/python /verif/findings_repro/C07_indexerror_before_first_candle.py
import numpy as np
from jesse.research import backtest
from jesse.strategies import Strategy
EX, SYM, T0 = 'Binance Perpetual Futures', 'BTC-USDT', 1609459200000
class S(Strategy):
    def should_long(self): return False
    def go_long(self): pass
    def before(self):
        if self.index == 0:
            print('get_current_candle 5m:', self.current_candle.tolist(), '(1m route)')
            print(self.get_candles(EX, SYM, '5m'))             # IndexError: index -1 is out of bounds
c = np.array([[T0 + i * 60000, 100, 100, 100, 100, 10] for i in range(8)], dtype=float)
cfg = {'starting_balance': 10000, 'fee': 0, 'type': 'futures', 'futures_leverage': 2, 'futures_leverage_mode': 'cross',
       'exchange': EX, 'warm_up_candles': 0}
backtest(cfg, [{'exchange': EX, 'strategy': S, 'symbol': SYM, 'timeframe': '1m'}],
         [{'exchange': EX, 'symbol': SYM, 'timeframe': '5m'}], {EX + '-' + SYM: {'exchange': EX, 'symbol': SYM, 'candles': c}})
