# C19: an int hyper-parameter with fractional bounds decodes outside [min, max]
# run: cd $(mktemp -d) && PYTHONPATH=/repo /venv/bin/python /verif/findings_repro/C19_int_fractional_bounds.py
import jesse.helpers as jh
decl = [{'name': 'period', 'type': int, 'min': 0.5, 'max': 2.5, 'default': 1}]
first = jh.dna_to_hp(decl, '(')['period']          # first letter of the optimizer's alphabet
print('int [0.5, 2.5], letter "(" ->', first)      # 0 : int(round(0.5)) - below the declared minimum
decl2 = [{'name': 'period', 'type': int, 'min': -5, 'max': -4.5, 'default': -5}]
last = jh.dna_to_hp(decl2, 'w')['period']          # last letter
print('int [-5, -4.5], letter "w" ->', last)       # -4 : int(round(-4.5)) - above the declared maximum
decl3 = [{'name': 'period', 'type': int, 'min': 0.3, 'max': 2.7, 'default': 1}]
print('int [0.3, 2.7], letter "(" ->', jh.dna_to_hp(decl3, '(')['period'])   # 0
assert first < 0.5 and last > -4.5
print('DEFECT REPRODUCED: decoded int value outside the declared range')
