# C13: with sed_std < vis_std the first values of damiani_volatmeter.anti are computed from the LAST candles
# (std_vis[idx - vis_std] with a negative index).
# run: cd $(mktemp -d) && PYTHONPATH=/repo /venv/bin/python /verif/findings_repro/C13_damiani_wraparound.py
import numpy as np, jesse.indicators as ta
rng = np.random.default_rng(1)
n = 300
close = 100 + np.cumsum(rng.integers(-2, 3, n)).astype(float)
candles = np.column_stack([1609459200000 + 60000 * np.arange(n), np.roll(close, 1), close, close + 2, close - 2, rng.integers(1, 50, n)]).astype(float)
kw = dict(vis_atr=11, vis_std=13, sed_atr=53, sed_std=7)
full = ta.damiani_volatmeter(candles, sequential=True, **kw).anti
pre = ta.damiani_volatmeter(candles[:150], sequential=True, **kw).anti
bad = np.where(~np.isclose(full[:150], pre, equal_nan=True))[0]
print("positions that differ between the run on 150 and on 300 candles:", bad)
print("anti[7..12] on 150 candles:", np.round(pre[7:13], 4), " on 300 candles:", np.round(full[7:13], 4))
