# C13: value i of a sequential series must not depend on how many candles follow.  smma / gatorosc turn into NaN
# for EVERY candle when the input is long (overflow of (1-alpha)**(-arange(n)) in numpy_ewma).
# run: cd $(mktemp -d) && PYTHONPATH=/repo /venv/bin/python /verif/findings_repro/C13_long_input_nan.py
import numpy as np, jesse.indicators as ta
rng = np.random.default_rng(1)
n = 3400
close = 1000 + np.cumsum(rng.integers(-2, 3, n)).astype(float)
candles = np.column_stack([1609459200000 + 60000 * np.arange(n), np.roll(close, 1), close, close + 1, close - 1, rng.integers(1, 50, n)]).astype(float)
for k in (500, 3400):
    s = ta.smma(candles[:k], period=5, sequential=True)
    g = ta.gatorosc(candles[:k], sequential=True)
    print("%4d candles: smma[10]=%s  smma[-1]=%s  gatorosc.lower[10]=%s  NaNs in smma: %d" % (k, s[10], s[-1], g.lower[10], np.isnan(s).sum()))
print("period 2:", ta.smma(candles[:1200], period=2, sequential=True)[:3], "vs", ta.smma(candles[:900], period=2, sequential=True)[:3])
