# C12: inside a fast-mode chunk the minutes after the first are not jump-fixed (only high/low are widened to the previous
# close, the open is kept).  An order filled at such a raw open makes split_candle return the WHOLE minute as the partial
# candle, so the strategy sees the minute's close as self.price in on_open_position (normal mode: the fill price) and places
# different exits -> different executed orders although the normal run has <= 1 resting fill per trading candle.
# cd $(mktemp -d) && PYTHONPATH=/repo /venv/bin/python <this>
import numpy as np
from jesse.research import backtest
from jesse.strategies import Strategy
class S(Strategy):
    def should_long(self): return self.index == 0
    def go_long(self): self.buy = 1, 102
    def should_cancel_entry(self): return False
    def on_open_position(self, order):
        print('   on_open_position sees price', self.price)
        self.take_profit = 1, self.price + 10
ex = 'Binance Perpetual Futures'
cfg = {'starting_balance': 10000, 'fee': 0, 'type': 'futures', 'futures_leverage': 1, 'futures_leverage_mode': 'cross',
       'exchange': ex, 'warm_up_candles': 0}
ohlc = [(100, 100, 100, 100)] * 4 + [(102, 105, 105, 102)] + [(105, 105, 105, 105)] * 4 + [(105, 113, 113, 105)] + [(113, 113, 113, 113)] * 2
c = np.array([[1609459200000 + i * 60000, o, cl, h, l, 1] for i, (o, cl, h, l) in enumerate(ohlc)], dtype=float)
for fast in (False, True):
    r = backtest(cfg, [{'exchange': ex, 'strategy': S, 'symbol': 'BTC-USDT', 'timeframe': '3m'}], [],
                 {ex + '-BTC-USDT': {'exchange': ex, 'symbol': 'BTC-USDT', 'candles': c.copy()}}, fast_mode=fast)
    print('fast_mode=%s finishing balance %s' % (fast, r['metrics']['finishing_balance']))
