# C11 no exchange driver after a session on another exchange name. Scratch dir: PYTHONPATH=/repo /venv/bin/python C11_driver.py [crash]
import numpy as np, sys
from jesse.research import backtest
from jesse.strategies import Strategy
class S(Strategy):
    def before(self):
        if 'crash' in sys.argv and self.exchange != 'Sandbox': raise RuntimeError('earlier session aborts in its first hook')
    def should_long(self): return self.index % 5 == 1
    def go_long(self): self.buy = 1, self.price; self.take_profit = 1, self.price + 1
def run(ex):
    cfg = {'starting_balance': 1000, 'fee': 0, 'type': 'futures', 'futures_leverage': 2, 'futures_leverage_mode': 'cross',
           'exchange': ex, 'warm_up_candles': 0}
    c = np.array([[1609459200000 + i * 60_000, 100, 100, 102, 98, 1] for i in range(60)], dtype=float)
    return backtest(cfg, [{'exchange': ex, 'strategy': S, 'symbol': 'BTC-USDT', 'timeframe': '1m'}], [],
                    {ex + '-BTC-USDT': {'exchange': ex, 'symbol': 'BTC-USDT', 'candles': c}})['metrics']['total']
try: run('Bybit USDT Perpetual')
except RuntimeError: pass
n = run('Sandbox'); print('probe on Sandbox closed', n, 'trades'); assert n > 0
