# C04: cancelling a resting spot sell subtracts it twice from stop_orders_sum -> an oversized sell is accepted later.
# run: cd $(mktemp -d) && PYTHONPATH=/repo:/verif /venv/bin/python -W ignore /verif/findings_repro/C04_sell_cancel_releases_sum_twice.py
from harness.session import ObjSession          # only builds the session (config, router, store, one candle)
from jesse.exchanges import Sandbox
s = ObjSession(typ='spot', fee=0.0, balance=1000.0, price=100.0, cancel_on_close=False)
e, p, sym, drv = s.exchange, s.pos['BTC-USDT'], 'BTC-USDT', Sandbox(s.ex)
drv.market_order(sym, 5, 100.0, 'buy', False).execute()
print('holding', e.assets['BTC'], 'BTC; stop sum', e.stop_orders_sum.get(sym, 0))
o = drv.stop_order(sym, 3, 90.0, 'sell', False)
print('resting stop sell 3 -> stop sum', e.stop_orders_sum[sym])
o.cancel()
print('cancelled          -> stop sum', e.stop_orders_sum[sym], '(expected 0: nothing rests)')
big = drv.stop_order(sym, 8, 90.0, 'sell', False)          # 8 > 5 held: must raise InsufficientBalance
print('ACCEPTED a stop sell of 8 with 5 held; stop sum', e.stop_orders_sum[sym])
p.current_price = 90.0
big.execute()
print('after its fill: assets', e.assets, 'position qty', p.qty, p.type)
# expected: InsufficientBalance at the second stop_order; got: accepted, position -3.0 short on a spot account
# (repaired in /repo by commit dfa5cb16 = fixes/C04-sell-cancel-releases-sum-twice.diff; on the repaired tree this script shows the expected behaviour)
