# C14: every field of a sequential result has exactly one entry per input candle.
# run: cd $(mktemp -d) && PYTHONPATH=/repo /venv/bin/python /verif/findings_repro/C14_squeeze_momentum_signal_length.py
import numpy as np, jesse.indicators as ta
rng = np.random.default_rng(1)
n = 200
close = 100 + np.cumsum(rng.integers(-2, 3, n)).astype(float)
candles = np.column_stack([1609459200000 + 60000 * np.arange(n), np.roll(close, 1), close, close + 1, close - 1, rng.integers(1, 50, n)]).astype(float)
r = ta.squeeze_momentum(candles, sequential=True)
for f in r._fields:
    print(f, len(getattr(r, f)), "entries for", n, "candles")
