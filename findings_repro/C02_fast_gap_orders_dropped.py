# C02: fast simulator never fills two orders priced in a close->open gap inside a chunk (a single one is filled).
# run: cd $(mktemp -d) && PYTHONPATH=/repo /venv/bin/python -W ignore /verif/findings_repro/C02_fast_gap_orders_dropped.py
import numpy as np
from jesse.research import backtest
from jesse.strategies import Strategy
EX, T0 = 'Binance Perpetual Futures', 1609459200000
def run(n_orders, fast):
    fills = []
    class S(Strategy):
        def should_long(self): return self.index == 0
        def go_long(self): self.buy = [(1, 102.0)] * n_orders          # buy-stops at 102, price is 101
        def should_cancel_entry(self): return False
        def on_open_position(self, order): fills.append(order.price)
        def on_increased_position(self, order): fills.append(order.price)
    px = [101] * 4 + [103] * 8          # chunk 2 = minutes 3,4,5: 101 | 103 103 - 102 is only in the gap inside the chunk
    c = np.array([[T0 + i * 60000, p, p, p, p, 1] for i, p in enumerate(px)], dtype=float)
    cfg = {'starting_balance': 10000, 'fee': 0, 'type': 'futures', 'futures_leverage': 1, 'futures_leverage_mode': 'cross', 'exchange': EX, 'warm_up_candles': 0}
    backtest(cfg, [{'exchange': EX, 'strategy': S, 'symbol': 'BTC-USDT', 'timeframe': '3m'}], [], {EX + '-BTC-USDT': {'exchange': EX, 'symbol': 'BTC-USDT', 'candles': c}}, fast_mode=fast)
    return fills
print('step, 2 orders:', run(2, False)); print('fast, 1 order :', run(1, True)); print('fast, 2 orders:', run(2, True), '<- expected [102.0, 102.0]')
