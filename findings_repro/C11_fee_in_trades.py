# C11 stale fee in the trade records / 'fee' metric. Scratch dir: PYTHONPATH=/repo /venv/bin/python C11_fee_in_trades.py [crash]
import numpy as np, sys
from jesse.research import backtest
from jesse.strategies import Strategy
class S(Strategy):
    def should_long(self): return self.index % 5 == 1
    def go_long(self): self.buy = 1, self.price; self.take_profit = 1, self.price + 1
    def on_close_position(self, order):
        if 'crash' in sys.argv and self.fee_rate == 0: self.metrics; raise RuntimeError('earlier session aborts after a trade')
def run(fee):
    cfg = {'starting_balance': 1000, 'fee': fee, 'type': 'futures', 'futures_leverage': 2, 'futures_leverage_mode': 'cross',
           'exchange': 'Sandbox', 'warm_up_candles': 0}
    c = np.array([[1609459200000 + i * 60_000, 100, 100, 102, 98, 1] for i in range(60)], dtype=float)
    return backtest(cfg, [{'exchange': 'Sandbox', 'strategy': S, 'symbol': 'BTC-USDT', 'timeframe': '1m'}], [],
                    {'Sandbox-BTC-USDT': {'exchange': 'Sandbox', 'symbol': 'BTC-USDT', 'candles': c}})['metrics']
try: run(0)
except RuntimeError: pass
m = run(0.001); print("probe(fee=0.001): total %d trades, metric 'fee' = %r" % (m['total'], m['fee'])); assert m['fee'] > 0
