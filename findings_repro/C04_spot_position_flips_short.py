# C04: resting sells are validated per kind (stop sum, limit sum), so together they may exceed the base held; the
# exchange clamps the balance at the fill, but the Position object flips short (qty -1 with 0 BTC held).
# run: cd $(mktemp -d) && PYTHONPATH=/repo:/verif /venv/bin/python -W ignore /verif/findings_repro/C04_spot_position_flips_short.py
from harness.session import ObjSession          # only builds the session (config, router, store, one candle)
from jesse.exchanges import Sandbox
s = ObjSession(typ='spot', fee=0.0, balance=1000.0, price=100.0, cancel_on_close=False)
e, p, sym, drv = s.exchange, s.pos['BTC-USDT'], 'BTC-USDT', Sandbox(s.ex)
drv.market_order(sym, 5, 100.0, 'buy', False).execute()
stop = drv.stop_order(sym, 3, 90.0, 'sell', False)          # 3 <= 5: accepted (stop sells: 3)
limit = drv.limit_order(sym, 3, 110.0, 'sell', False)       # 3 <= 5: accepted (limit sells: 3) - together 6 > 5
p.current_price = 90.0
stop.execute()
print('after the stop fill : assets', e.assets, 'position qty', p.qty)
p.current_price = 110.0
limit.execute()
print('after the limit fill: assets', e.assets, 'position qty', p.qty, p.type)
# expected: BTC 0.0 and position qty 0.0 (position size = base balance, never short); got position qty -1.0 'short'
# (repaired in /repo by commit 56a745c9 = fixes/C04-spot-oversize-sell-flips-short.diff; on the repaired tree this script shows the expected behaviour)
