# C17: helpers.round_decimals_down (and round_qty_for_live_mode) round UP when the input is the float immediately
# below a precision step: number * factor rounds to the next integer in floating point and floor() keeps it.
# run: cd $(mktemp -d) && PYTHONPATH=/repo /venv/bin/python /verif/findings_repro/C17_round_down_one_ulp_below_step.py
import warnings; warnings.filterwarnings('ignore')
import math
import jesse.helpers as jh
for step, precision in ((0.1, 2), (884.1, 1), (0.0541, 4)):
    x = math.nextafter(step, 0)                       # the largest float below the step
    down = float(jh.round_decimals_down(x, precision))
    qty = jh.round_qty_for_live_mode(x, precision)
    print('x = %r  round_decimals_down(x, %d) = %r  round_qty_for_live_mode = %r  above the input: %s' % (x, precision, down, qty, down > x))
    assert down > x and qty > x
print('DEFECT REPRODUCED: "rounded down" quantity is larger than the quantity (by one ulp)')
