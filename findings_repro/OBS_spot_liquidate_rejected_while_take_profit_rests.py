# observation (no listed property): spot, liquidate() at a loss while a take-profit LIMIT sell rests -> InsufficientBalance.
# liquidate() declares stop_loss = (qty, price); only the stop-loss orders are cancelled, the closing MARKET sell is then
# validated as qty + resting limit sells (= 2 x the holding) and rejected; the backtest dies instead of closing the position.
# run: cd $(mktemp -d) && PYTHONPATH=/repo /venv/bin/python -W ignore /verif/findings_repro/OBS_spot_liquidate_rejected_while_take_profit_rests.py
import numpy as np
from jesse.research import backtest
from jesse.strategies import Strategy
class S(Strategy):
    def should_long(self): return self.index == 0
    def go_long(self): self.buy = 1, self.price
    def on_open_position(self, o): self.take_profit = 1, 110
    def update_position(self):
        if self.price <= 95: self.liquidate()
    def terminate(self): print('closed trades:', [(t.qty, t.entry_price, t.exit_price) for t in self.trades])
closes = [100, 100, 98, 95, 95, 95]
c = np.array([[1609459200000 + i * 60000, closes[max(i - 1, 0)], x, max(closes[max(i - 1, 0)], x), min(closes[max(i - 1, 0)], x), 10] for i, x in enumerate(closes)], dtype=float)
ex = 'Binance Spot'
cfg = {'starting_balance': 10000, 'fee': 0, 'type': 'spot', 'futures_leverage': 1, 'futures_leverage_mode': 'cross', 'exchange': ex, 'warm_up_candles': 0}
backtest(cfg, [{'exchange': ex, 'strategy': S, 'symbol': 'BTC-USDT', 'timeframe': '1m'}], [], {ex + '-BTC-USDT': {'exchange': ex, 'symbol': 'BTC-USDT', 'candles': c}})
