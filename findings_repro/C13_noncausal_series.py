# C13: value i of a sequential indicator series must not depend on candles after i.
# run: cd $(mktemp -d) && PYTHONPATH=/repo /venv/bin/python /verif/findings_repro/C13_noncausal_series.py
import numpy as np, jesse.indicators as ta
rng = np.random.default_rng(1)
n = 300
close = 100 + np.cumsum(rng.integers(-2, 3, n)).astype(float)
high, low = close + rng.integers(0, 3, n), close - rng.integers(0, 3, n)
candles = np.column_stack([1609459200000 + 60000 * np.arange(n), np.roll(close, 1), close, high, low, rng.integers(1, 50, n)]).astype(float)
k = 120
for name in ["rma", "dx", "er", "lrsi", "emd", "mab", "ema"]:          # ema: a causal one, for contrast
    full, pre = getattr(ta, name)(candles, sequential=True), getattr(ta, name)(candles[:k], sequential=True)
    fields = full._fields if hasattr(full, "_fields") else [None]
    for f in fields:
        a, b = (getattr(full, f), getattr(pre, f)) if f else (full, pre)
        same = np.allclose(a[:k], b, rtol=1e-9, atol=1e-9, equal_nan=True)
        i = int(np.argmax(~np.isclose(a[:k], b, rtol=1e-9, atol=1e-9, equal_nan=True)))
        print("%-5s %-10s prefix-stable=%s%s" % (name, f or "", same, "" if same else "  e.g. index %d: %.6g on %d candles, %.6g on %d" % (i, b[i], k, a[i], n)))
