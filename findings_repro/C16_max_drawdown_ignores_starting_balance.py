# C16: metrics.max_drawdown (and the drawdown inside calmar_ratio) does not treat the starting balance as a peak:
# the first daily return is NaN, the cumulative product and its running maximum start at the second sample.
# run: cd $(mktemp -d) && PYTHONPATH=/repo /venv/bin/python /verif/findings_repro/C16_max_drawdown_ignores_starting_balance.py
import warnings; warnings.filterwarnings('ignore')
import pandas as pd
from jesse.services import metrics
for balances in ([1000, 998], [1000, 500, 500, 500], [1000, 998, 997]):
    returns = pd.DataFrame(balances, index=pd.date_range('2021-01-01', periods=len(balances))).pct_change(1)  # as metrics.trades does
    got = metrics.max_drawdown(returns).iloc[0] * 100
    eq = pd.Series(balances, dtype=float)
    want = ((eq / eq.cummax()).min() - 1) * 100          # largest fall from a running peak, the start included
    print(balances, 'max_drawdown reported %.4f %%' % float(got), ' peak-to-trough %.4f %%' % want)
    assert abs(float(got) - want) > 1e-9
print('DEFECT REPRODUCED: a loss right after the start is not a drawdown (a 50 % loss on day one reports 0 %)')
