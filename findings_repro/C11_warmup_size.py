# C11 stale warm_up_candles (what indicators slice to). Scratch dir: PYTHONPATH=/repo /venv/bin/python C11_warmup_size.py [crash] [other]
import numpy as np, sys, jesse.helpers as jh
from jesse.research import backtest
from jesse.strategies import Strategy
seen = []
class S(Strategy):
    def should_long(self):
        seen.append(len(jh.slice_candles(np.zeros((500, 6)), False)))       # what ta.<indicator>(candles) works on
        if 'crash' in sys.argv and len(seen) == 1: raise RuntimeError('earlier session aborts in a hook')
        return False
    def go_long(self): pass
def run(warm, ex='Sandbox'):
    cfg = {'starting_balance': 1000, 'fee': 0, 'type': 'futures', 'futures_leverage': 2, 'futures_leverage_mode': 'cross',
           'exchange': ex, 'warm_up_candles': warm}
    c = np.array([[1609459200000 + i * 60_000, 100, 100, 101, 99, 1] for i in range(30)], dtype=float)
    backtest(cfg, [{'exchange': ex, 'strategy': S, 'symbol': 'BTC-USDT', 'timeframe': '1m'}], [],
             {ex + '-BTC-USDT': {'exchange': ex, 'symbol': 'BTC-USDT', 'candles': c}})
try: run(40, 'Bybit USDT Perpetual' if 'other' in sys.argv else 'Sandbox')
except RuntimeError: pass
run(200); print('probe(warm_up_candles=200): indicators see the last', seen[-1], 'candles'); assert seen[-1] == 200
