# liquidate() does nothing when the take-profit it wants to declare equals the stale copy of an already executed take-profit
import numpy as np
from jesse.research import backtest
from jesse.strategies import Strategy
class S(Strategy):
    def should_long(self): return self.index == 0
    def go_long(self):
        self.buy = 2, self.price                 # market entry, 2 units at 100
        self.stop_loss = 2, 50
        self.take_profit = 1, 110                # partial take-profit: 1 unit at 110
    def should_cancel_entry(self): return False
    def update_position(self):
        if self.index == 3:                      # price is 110 again, 1 unit left, in profit -> close it
            self.liquidate()
    def after(self):
        print('   step', self.index, 'price', self.price, 'position', self.position.qty)
ex = 'Binance Perpetual Futures'
cfg = {'starting_balance': 10000, 'fee': 0, 'type': 'futures', 'futures_leverage': 1, 'futures_leverage_mode': 'cross', 'exchange': ex, 'warm_up_candles': 0}
closes = [100, 110, 105, 110, 110, 110]
c = np.array([[1609459200000 + i * 60000, closes[max(i - 1, 0)], x, max(x, closes[max(i - 1, 0)]), min(x, closes[max(i - 1, 0)]), 1] for i, x in enumerate(closes)], dtype=float)
backtest(cfg, [{'exchange': ex, 'strategy': S, 'symbol': 'BTC-USDT', 'timeframe': '1m'}], [], {ex + '-BTC-USDT': {'exchange': ex, 'symbol': 'BTC-USDT', 'candles': c}})
