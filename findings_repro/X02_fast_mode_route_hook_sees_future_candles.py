# X02: fast simulator, 2 symbols, timeframes > 1m: symbols are matched one after the other for a whole chunk, so the route matched first gets
# on_route_* events of a later symbol's mid-chunk fill when its own 1m candles already reach the END of the chunk: it reads the future.
# run: cd $(mktemp -d) && PYTHONPATH=/repo /venv/bin/python -W ignore /verif/findings_repro/X02_fast_mode_route_hook_sees_future_candles.py
import numpy as np
from jesse.research import backtest
from jesse.strategies import Strategy
seen = []
class S(Strategy):
    def should_long(self): return self.symbol == 'ETH-USDT' and self.index == 0
    def go_long(self): self.buy = 1, self.price + 1          # stop-buy, filled in minute 6 (second minute of the chunk 5..9)
    def on_route_open_position(self, other):
        c = self.get_candles(self.exchange, self.symbol, '1m')[-1]
        seen.append((self.symbol, 'event time', int(self.time - 1609459200000) // 60000, 'own newest 1m candle covers up to minute', int(c[0] - 1609459200000) // 60000 + 1, 'close', c[2]))
def candles(jump_at): return np.array([[1609459200000 + i * 60000, 100 + (i > jump_at) * 2 + i * (i > 6), 100 + (i >= jump_at) * 2 + (i + 1) * (i >= 6), 103 + 2 * i, 99, 10] for i in range(15)], dtype=float)
ex = 'Binance Perpetual Futures'
cfg = {'starting_balance': 10000, 'fee': 0, 'type': 'futures', 'futures_leverage': 2, 'futures_leverage_mode': 'cross', 'exchange': ex, 'warm_up_candles': 0}
routes = [{'exchange': ex, 'strategy': S, 'symbol': s, 'timeframe': '5m'} for s in ('BTC-USDT', 'ETH-USDT')]
for fast in (False, True):
    backtest(cfg, routes, [], {ex + '-' + s: {'exchange': ex, 'symbol': s, 'candles': candles(6)} for s in ('BTC-USDT', 'ETH-USDT')}, fast_mode=fast)
    assert seen[-1][4] <= seen[-1][2], 'fast_mode=%s: the receiving route reads its own candles from after the event: %s' % (fast, seen[-1])
