# C20: CandlesState.add_candle never inspects index 1 in its look-back loop: with >= 21 stored candles a candle whose
# timestamp equals the SECOND stored candle is silently dropped instead of replacing it (every other index works).
# run: cd $(mktemp -d) && PYTHONPATH=/repo /venv/bin/python /verif/findings_repro/C20_add_candle_lookback_index1.py
import numpy as np
from jesse.config import config
from jesse.libs import DynamicNumpyArray
from jesse.store.state_candles import CandlesState
import jesse.helpers as jh
config['app']['trading_mode'] = 'backtest'
EX, SYM, T0 = 'Sandbox', 'BTC-USDT', 1609459200000
cs = CandlesState()
cs.storage[jh.key(EX, SYM, '1m')] = DynamicNumpyArray((100, 6))
for i in range(22):
    cs.add_candle(np.array([T0 + i * 60000, 1, 1, 1, 1, 1.0]), EX, SYM, '1m', with_execution=False, with_generation=False)
for idx in (0, 1, 2, 20):
    cs.add_candle(np.array([T0 + idx * 60000, 7, 7, 7, 7, 7.0]), EX, SYM, '1m', with_execution=False, with_generation=False)
    print('re-sent candle of index', idx, '-> stored open is now', cs.get_candles(EX, SYM, '1m')[idx][1])
# prints 7.0 for index 0, 2, 20 and 1.0 for index 1 (range(max(20, len(arr) - 1)) with arr[-i] stops at arr[2];
# arr[-0] is arr[0]).  With <= 18 rows an unknown older timestamp raises IndexError instead of being ignored.
