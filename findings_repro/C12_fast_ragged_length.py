# C12: the fast simulator raises where the normal simulator completes, on equal arguments, when the series length is
# not a multiple of the chunk (gcd of the route timeframes).  cd $(mktemp -d) && PYTHONPATH=/repo /venv/bin/python <this>
import numpy as np
from jesse.research import backtest
from jesse.strategies import Strategy
class S(Strategy):
    def should_long(self): return False
    def go_long(self): pass
    def should_cancel_entry(self): return True
ex = 'Binance Perpetual Futures'
cfg = {'starting_balance': 1000, 'fee': 0, 'type': 'futures', 'futures_leverage': 1, 'futures_leverage_mode': 'cross',
       'exchange': ex, 'warm_up_candles': 0}
n = 12                                     # 2 full 5m candles + 2 trailing minutes
c = np.array([[1609459200000 + i * 60000, 100, 100, 101, 99, 1] for i in range(n)], dtype=float)
routes = [{'exchange': ex, 'strategy': S, 'symbol': 'BTC-USDT', 'timeframe': '5m'}]
for fast in (False, True):
    try:
        r = backtest(cfg, routes, [], {ex + '-BTC-USDT': {'exchange': ex, 'symbol': 'BTC-USDT', 'candles': c.copy()}}, fast_mode=fast)
        print('fast_mode=%s: completed, trades=%s' % (fast, r['metrics']['total']))
    except Exception as e:
        print('fast_mode=%s: raises %s: %s' % (fast, type(e).__name__, e))
