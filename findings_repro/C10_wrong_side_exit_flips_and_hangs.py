# C10/C06: a wrong-side stop is replaced by a NON-reduce-only market order of the declared size; after a partly filled
# two-point entry it flips the position (no on_close_position) and SL/TP replacements flip it back and forth forever.
# run: cd $(mktemp -d) && PYTHONPATH=/repo /venv/bin/python -W ignore /verif/findings_repro/C10_wrong_side_exit_flips_and_hangs.py
import numpy as np
from jesse.research import backtest
from jesse.strategies import Strategy
from jesse.models import Order
hooks, ex_ = [], Order.execute
def guarded(self, *a, **k):
    assert len(hooks) < 30, 'endless flipping inside execute_pending_market_orders: hooks %s' % hooks[:6]
    return ex_(self, *a, **k)
Order.execute = guarded
class S(Strategy):
    def should_long(self): return self.index == 0
    def go_long(self): self.buy, self.stop_loss, self.take_profit = [(1, self.price), (1, self.price - 3)], (2, self.price + 1), (2, self.price + 6)
    def on_open_position(self, o): hooks.append(('open', self.position.qty, 'reduce_only=%s' % o.reduce_only))
    def on_close_position(self, o): hooks.append(('close', self.position.qty))
ex = 'Binance Perpetual Futures'
c = {ex + '-BTC-USDT': {'exchange': ex, 'symbol': 'BTC-USDT', 'candles': np.array([[1609459200000 + i * 60000, 100, 100, 100, 100, 10] for i in range(6)], dtype=float)}}
backtest({'starting_balance': 10000, 'fee': 0, 'type': 'futures', 'futures_leverage': 2, 'futures_leverage_mode': 'cross', 'exchange': ex, 'warm_up_candles': 0}, [{'exchange': ex, 'strategy': S, 'symbol': 'BTC-USDT', 'timeframe': '1m'}], [], c)
