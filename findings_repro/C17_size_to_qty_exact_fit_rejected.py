# C17: with fee 0, size_to_qty returns a quantity whose float cost exceeds the capital by one ulp; a fresh futures
# account holding exactly that capital (leverage 1) rejects the order (InsufficientMargin); same on spot.
# run: cd $(mktemp -d) && PYTHONPATH=/repo:/verif /venv/bin/python /verif/findings_repro/C17_size_to_qty_exact_fit_rejected.py
import warnings; warnings.filterwarnings('ignore'); from jesse import utils
from harness.session import ObjSession
capital, price = 28.7, 0.1
qty = utils.size_to_qty(capital, price, precision=0, fee_rate=0)
print('size_to_qty(28.7, 0.1, precision=0) =', qty, ' qty * price =', repr(qty * price), '> capital:', qty * price > capital)
for typ in ('futures', 'spot'):
    s = ObjSession(typ=typ, fee=0.0, lev=1, balance=capital, price=price)
    try:
        s.order('BTC-USDT', 'buy', 'LIMIT', qty, price)
        print(typ, 'accepted')
    except Exception as e:
        print(typ, 'REJECTED:', type(e).__name__)
        rejected = True
assert qty * price > capital and rejected
q2 = utils.risk_to_qty(820.55, 1, 1.25, 1.24, precision=2, fee_rate=0)     # capped by the capital: same defect
print('risk_to_qty(820.55, 1%, 1.25, 1.24, precision=2) =', q2, ' cost', repr(q2 * 1.25), '> 820.55:', q2 * 1.25 > 820.55)
print('DEFECT REPRODUCED: an order for size_to_qty(capital, price) is rejected by an account holding the capital')
