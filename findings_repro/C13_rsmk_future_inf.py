# C13: value i of a sequential series must not depend on candles after i.  rsmk's matrix EMA multiplies later
# (infinite) values by a zero weight: 0 * inf = NaN wipes out every earlier value.
# run: cd $(mktemp -d) && PYTHONPATH=/repo /venv/bin/python /verif/findings_repro/C13_rsmk_future_inf.py
import numpy as np, jesse.indicators as ta
rng = np.random.default_rng(1)
n = 80
def series(seed):
    r = np.random.default_rng(seed)
    close = 100 + np.cumsum(r.integers(-2, 3, n)).astype(float)
    return np.column_stack([1609459200000 + 60000 * np.arange(n), np.roll(close, 1), close, close + 1, close - 1, r.integers(1, 50, n)]).astype(float)
a, b = series(1), series(2)
a[60:70, 5] = 0                                  # nothing traded in candles 60..69
kw = dict(lookback=9, period=5, signal_period=14, source_type="volume")
short = ta.rsmk(a[:50], b[:50], sequential=True, **kw).indicator
full = ta.rsmk(a, b, sequential=True, **kw).indicator
print("indicator[20:24] on the first 50 candles:", np.round(short[20:24], 3))
print("indicator[20:24] on all 80 candles     :", full[20:24], "(zero-volume candles only start at index 60)")
