# C06 (spot): a full-size reduce-only stop after a partial take-profit sells only what is held, but the trade log books the
# stop with its full quantity: exit price 98 instead of 99, net_profit -4 while the wallet lost 2 (fee 0).
# run: cd $(mktemp -d) && PYTHONPATH=/repo /venv/bin/python -W ignore /verif/findings_repro/C06_spot_oversize_reduce_only_trade_log.py
import numpy as np
from jesse.research import backtest
from jesse.strategies import Strategy
class S(Strategy):
    def should_long(self): return self.index == 0
    def go_long(self): self.buy = 2, self.price
    def on_open_position(self, o): self.stop_loss, self.take_profit = (2, self.price - 4), [(1, self.price + 2), (1, self.price + 6)]
    def terminate(self): print([(t.type, t.qty, t.entry_price, t.exit_price, round(t.pnl, 4)) for t in self.trades])
closes = [100, 100, 101, 102, 103, 101, 99, 97, 95, 94, 94, 94]
c = np.array([[1609459200000 + i * 60000, closes[max(i - 1, 0)], x, max(closes[max(i - 1, 0)], x), min(closes[max(i - 1, 0)], x), 10] for i, x in enumerate(closes)], dtype=float)
ex = 'Binance Spot'
cfg = {'starting_balance': 10000, 'fee': 0, 'type': 'spot', 'futures_leverage': 1, 'futures_leverage_mode': 'cross', 'exchange': ex, 'warm_up_candles': 0}
m = backtest(cfg, [{'exchange': ex, 'strategy': S, 'symbol': 'BTC-USDT', 'timeframe': '1m'}], [], {ex + '-BTC-USDT': {'exchange': ex, 'symbol': 'BTC-USDT', 'candles': c}})['metrics']
assert abs(m['net_profit'] - (m['finishing_balance'] - m['starting_balance'])) < 1e-9, 'net_profit %s but the wallet changed by %s' % (m['net_profit'], m['finishing_balance'] - m['starting_balance'])
