# C15: the directional indicators +DI / -DI are percentages of the average true range: 0 <= DI <= 100.
# run: cd $(mktemp -d) && PYTHONPATH=/repo /venv/bin/python /verif/findings_repro/C15_di_out_of_range.py
import numpy as np, jesse.indicators as ta
rng = np.random.default_rng(3)
n = 150
close = 200 + np.cumsum(rng.integers(-2, 3, n)).astype(float)
high, low = close + rng.integers(0, 3, n), close - rng.integers(0, 3, n)
candles = np.column_stack([1609459200000 + 60000 * np.arange(n), np.roll(close, 1), close, high, low, rng.integers(1, 50, n)]).astype(float)
for period in (5, 14):
    r = ta.di(candles, period=period, sequential=True)
    a = ta.adx(candles, period=period, sequential=True)      # for contrast: same family, correctly seeded
    print("period", period, "max +DI %.1f  max -DI %.1f  (first values: +DI %s)" % (np.nanmax(r.plus), np.nanmax(r.minus), np.round(r.plus[period:period + 4], 1)),
          " max ADX %.1f" % np.nanmax(a))
    # cause: di.py seeds the smoothed +DM/-DM with the SUM of the first `period` values but the ATR with their MEAN,
    # then applies the averaging recursion to both: the ratio starts up to `period` times too large and decays slowly
    sum_vs_mean = r.plus[period] * 1.0
    print("   +DI at the first defined index:", round(sum_vs_mean, 2), "-> divided by period:", round(sum_vs_mean / period, 2))
