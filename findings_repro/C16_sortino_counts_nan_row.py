# C16: metrics.sortino_ratio divides the squared negative returns by len(returns), which counts the leading NaN row of
# pct_change: the downside deviation uses k + 1 instead of the k daily returns -> Sortino inflated by sqrt((k+1)/k)
# run: cd $(mktemp -d) && PYTHONPATH=/repo /venv/bin/python /verif/findings_repro/C16_sortino_counts_nan_row.py
import warnings; warnings.filterwarnings('ignore')
import numpy as np, pandas as pd
from jesse.services import metrics
balances = [10, 12, 10, 12]
returns = pd.DataFrame(balances, index=pd.date_range('2021-01-01', periods=len(balances))).pct_change(1)   # as metrics.trades does
got = float(metrics.sortino_ratio(returns, periods=365).iloc[0])
r = np.array([b / a - 1 for a, b in zip(balances, balances[1:])])          # the k = 3 daily returns
want = r.mean() / np.sqrt((np.minimum(r, 0) ** 2).sum() / len(r)) * np.sqrt(365)
print('reported', got, ' standard definition', want, ' ratio^2', (got / want) ** 2, '= (k+1)/k =', (len(r) + 1) / len(r))
assert abs(got - want) > 1e-6 and abs((got / want) ** 2 - (len(r) + 1) / len(r)) < 1e-9
print('DEFECT REPRODUCED')
