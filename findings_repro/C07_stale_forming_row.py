# C07: get_candles() returns a stale forming 3m row after a mid-candle fill (1m trading route + 3m data route).
# run: cd $(mktemp -d) && PYTHONPATH=/repo /venv/bin/python /verif/findings_repro/C07_stale_forming_row.py
import numpy as np
from jesse.research import backtest
from jesse.strategies import Strategy
EX, SYM, T0 = 'Binance Perpetual Futures', 'BTC-USDT', 1609459200000
class S(Strategy):
    def should_long(self): return True
    def go_long(self): self.buy = 1, 99                      # limit below the market: fills inside minute 4
    def should_cancel_entry(self): return False
    def before(self):
        if self.index == 4:                                   # minutes 0..4 stored, window 3..5 is forming
            print('get_candles 3m last row :', self.get_candles(EX, SYM, '3m')[-1].tolist())
            print('aggregation of 1m rows  :', self.candles[-2:].tolist())  # minutes 3 and 4, both complete
c = np.array([[T0 + i * 60000, 100, 100, 100, 100, 10] for i in range(8)], dtype=float)
c[4] = [T0 + 4 * 60000, 100, 100, 100, 98, 10]                # minute 4 dips to 98 and closes at 100
cfg = {'starting_balance': 10000, 'fee': 0, 'type': 'futures', 'futures_leverage': 2, 'futures_leverage_mode': 'cross',
       'exchange': EX, 'warm_up_candles': 0}
backtest(cfg, [{'exchange': EX, 'strategy': S, 'symbol': SYM, 'timeframe': '1m'}],
         [{'exchange': EX, 'symbol': SYM, 'timeframe': '3m'}], {EX + '-' + SYM: {'exchange': EX, 'symbol': SYM, 'candles': c}},
         warmup_candles={EX + '-' + SYM: {'exchange': EX, 'symbol': SYM, 'candles': np.array(
             [[T0 - (3 - i) * 60000, 100, 100, 100, 100, 10] for i in range(3)], dtype=float)}})
# expected last row: [ts of minute 3, 100, 100, 100, 98, 20]; got close 99, low 99: the PARTIAL candle published at the fill
