# C06: a true position flip (the strategy's own NON-reduce-only opposite order, larger than the position): no on_close_position,
# and the trade opened by the flip gets no entry row (qty 0, entry price / PnL NaN) - the flipping order is booked in the old trade only.
# run: cd $(mktemp -d) && PYTHONPATH=/repo /venv/bin/python -W ignore /verif/findings_repro/C06_flip_by_own_market_order_no_close_event.py
import numpy as np
from jesse.research import backtest
from jesse.strategies import Strategy
hooks = []
class S(Strategy):
    def should_long(self): return self.index == 0
    def go_long(self): self.buy = 1, self.price
    def update_position(self):
        if self.index == 2: self.broker.sell_at_market(3)          # long 1 -> short 2
    def on_open_position(self, o): hooks.append(('open', self.position.qty))
    def on_close_position(self, o): hooks.append(('close', self.position.qty))
    def terminate(self): print(hooks, [(t.type, t.qty, t.entry_price, t.pnl) for t in self.trades])
ex = 'Binance Perpetual Futures'
c = {ex + '-BTC-USDT': {'exchange': ex, 'symbol': 'BTC-USDT', 'candles': np.array([[1609459200000 + i * 60000, 100, 100, 100, 100, 10] for i in range(8)], dtype=float)}}
backtest({'starting_balance': 10000, 'fee': 0, 'type': 'futures', 'futures_leverage': 2, 'futures_leverage_mode': 'cross', 'exchange': ex, 'warm_up_candles': 0}, [{'exchange': ex, 'strategy': S, 'symbol': 'BTC-USDT', 'timeframe': '1m'}], [], c)
assert hooks[:3] == [('open', 1.0), ('close', 0), ('open', -2.0)], 'hooks seen: %s' % hooks
