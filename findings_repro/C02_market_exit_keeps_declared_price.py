# C02: an exit declared within 0.015 % of the current price is routed to a MARKET order (Broker.reduce_position_at)
# but keeps the declared price: it is filled at 100.01 while the current price at submission is 100.0.
# run: cd $(mktemp -d) && PYTHONPATH=/repo /venv/bin/python -W ignore /verif/findings_repro/C02_market_exit_keeps_declared_price.py
import numpy as np
from jesse.research import backtest
from jesse.strategies import Strategy
EX, T0 = 'Binance Perpetual Futures', 1609459200000
class S(Strategy):
    def should_long(self): return self.index == 0
    def go_long(self): self.buy = 1, self.price
    def should_cancel_entry(self): return False
    def on_open_position(self, order): self.take_profit = 1, self.price * 1.0001       # "near": becomes a MARKET order
    def on_close_position(self, order): print('exit order:', order.type, 'price', order.price, '- current price when it was submitted: 100.0')
c = np.array([[T0 + i * 60000, 100, 100, 100, 100, 1] for i in range(6)], dtype=float)
cfg = {'starting_balance': 10000, 'fee': 0, 'type': 'futures', 'futures_leverage': 1, 'futures_leverage_mode': 'cross', 'exchange': EX, 'warm_up_candles': 0}
r = backtest(cfg, [{'exchange': EX, 'strategy': S, 'symbol': 'BTC-USDT', 'timeframe': '1m'}], [], {EX + '-BTC-USDT': {'exchange': EX, 'symbol': 'BTC-USDT', 'candles': c}})
print('net profit of a trade opened and closed while the price never left 100.0:', r['metrics']['net_profit'])
