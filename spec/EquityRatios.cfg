SPECIFICATION Spec
CONSTANTS
 MaxLen = 5
 Balances = {8, 10, 12}
 Export = FALSE
INVARIANT FoldIsDefinition
INVARIANT NeverPositive
INVARIANT ImplNotDeeper
INVARIANT RatioSanity
CHECK_DEADLOCK FALSE
