\* the extrema detector: the last Exempt entries may be revised
SPECIFICATION Spec
CONSTANTS Vals = {1, 2} MaxFed = 5 Exempt = 2 Quirk = "none"
INVARIANT TypeOK
INVARIANT LenIsFed
PROPERTY StableButTail
PROPERTY SingleIsConfirmed
CHECK_DEADLOCK FALSE
