---------------------------- MODULE TraceLiqPrice ----------------------------
(* C09, code -> spec: direct reads of the real Position.liquidation_price /      *)
(* bankruptcy_price / entry_price for every leverage, both sides, plain and      *)
(* averaged entries.  Ordering is judged on dense ranks of the three floats;     *)
(* the margin identity on amounts rounded to 1/1000 with the rounding tolerance. *)
EXTENDS Integers, Sequences, TLC, Json, IOUtils
Data == JsonDeserialize(IOEnv.TRACE_FILE)
Traces == Data.traces
VARIABLES tid, l, bad
vars == <<tid, l, bad>>
Ev == Traces[tid].ev
Abs(x) == IF x < 0 THEN -x ELSE x
Init == tid \in 1..Len(Traces) /\ l = 1 /\ bad = <<>>
CaseVerdict(e) ==
  IF e.mode # "isolated"
  THEN (IF e.hasliq THEN "liqprice:" \o e.mode \o "-position-has-a-liquidation-price" ELSE "ok")
  ELSE IF ~e.hasliq THEN "liqprice:isolated-position-without-a-liquidation-price"
  ELSE IF e.lev > 1 /\ e.side = "long" /\ ~(e.rb < e.rl /\ e.rl < e.re) THEN "liqprice:long:not-strictly-between-bankruptcy-and-entry"
  ELSE IF e.lev > 1 /\ e.side = "short" /\ ~(e.re < e.rl /\ e.rl < e.rb) THEN "liqprice:short:not-strictly-between-entry-and-bankruptcy"
  ELSE IF Abs(e.bu * e.lev - e.eu * (IF e.side = "long" THEN e.lev - 1 ELSE e.lev + 1)) > 2 * e.lev + 2
       THEN "liqprice:closing-at-the-bankruptcy-price-does-not-lose-the-initial-margin"
  ELSE IF Abs((IF e.side = "long" THEN e.eu - e.lu ELSE e.lu - e.eu) * e.lev * 250 - e.eu * (250 - e.lev)) > 300 * e.lev + 200
       THEN "liqprice:not-the-liquidation-price-of-the-current-entry-price-and-leverage"
  ELSE "ok"
Step == /\ l <= Len(Ev)
        /\ LET v == CaseVerdict(Ev[l]) IN bad' = IF v = "ok" \/ v \in DOMAIN bad THEN bad ELSE (v :> l) @@ bad
        /\ l' = l + 1 /\ UNCHANGED tid
Spec == Init /\ [][Step]_vars
First == IF DOMAIN bad = {} THEN "ok" ELSE CHOOSE c \in DOMAIN bad : \A d \in DOMAIN bad : bad[c] <= bad[d]
AllBad == LET RECURSIVE AsSeq(_)
              AsSeq(S) == IF S = {} THEN <<>> ELSE LET c == CHOOSE x \in S : TRUE IN <<<<c, bad[c]>>>> \o AsSeq(S \ {c})
          IN AsSeq(DOMAIN bad)
Report == l > Len(Ev) => PrintT(<<"VERDICT", Traces[tid].id, l - 1, First, 0, AllBad>>)
=============================================================================
