----------------------- MODULE IndicatorDefsSelfTest -----------------------
(* C15: the arithmetic every comparison of TraceDefs rests on, checked exhaustively by TLC on small       *)
(* instances (ASSUME = evaluated once at start-up) plus a tiny state machine that runs the fixed-point     *)
(* smoothing recursion next to the exact rational one and checks the contraction error bound TraceDefs     *)
(* relies on ("value once the seed has decayed").                                                          *)
EXTENDS Integers, Sequences, TLC, IndicatorDefs
\* long division = floor of the scaled quotient
ASSUME \A num \in 0..120 : \A den \in 1..37 : \A k \in 0..3 : LongDiv(num, den, k) = (num * Pow10(k)) \div den
ASSUME \A num \in -60..60 : \A den \in 1..13 : Abs(SDiv(num, den, 2)) = (Abs(num) * 100) \div den
\* a correctly rounded token of num/den is always accepted, a token two units away never
Round(num, den, k) == (2 * num * Pow10(k) + den) \div (2 * den)
ASSUME \A num \in 0..90 : \A den \in 1..23 : NearRat(Round(num, den, 2), num, den, 2)
                                            /\ ~NearRat(Round(num, den, 2) + 3, num, den, 2)
                                            /\ ~NearRat(Round(num, den, 2) - 3, num, den, 2)
\* triangular weights are symmetric, peak in the middle, and sum to the square of the half length (odd p)
ASSUME \A p \in 1..21 : \A m \in 1..p : TriW(p, m) = TriW(p, p + 1 - m) /\ TriW(p, m) >= 1
ASSUME \A h \in 0..10 : SumOver(1, 2 * h + 1, LAMBDA m : TriW(2 * h + 1, m)) = (h + 1) * (h + 1)
ASSUME \A h \in 1..10 : SumOver(1, 2 * h, LAMBDA m : TriW(2 * h, m)) = h * (h + 1)
\* folds
ASSUME SumOver(3, 7, LAMBDA j : j * j) = 135 /\ SumOver(5, 4, LAMBDA j : j) = 0
ASSUME MaxOver(2, 5, LAMBDA j : (j - 3) * (j - 3)) = 4 /\ MinOver(2, 5, LAMBDA j : (j - 3) * (j - 3)) = 0

\* ---- fixed-point smoothing vs exact smoothing: state = exact value as numerator over Wd^t, fixed-point value
CONSTANTS Wn, Wd, Xs, Steps, Scale
VARIABLES t, fx, num, den
vars == <<t, fx, num, den>>
Init == t = 0 /\ fx \in {x * Scale : x \in Xs} /\ num = fx /\ den = 1
\* exact: e' = e + (Wn/Wd)(x - e) = ((Wd - Wn) e + Wn x) / Wd
Next == /\ t < Steps /\ t' = t + 1
        /\ \E x \in Xs : /\ fx' = Smooth(fx, x * Scale, Wn, Wd)
                         /\ num' = (Wd - Wn) * num + Wn * x * Scale * den
                         /\ den' = den * Wd
Spec == Init /\ [][Next]_vars
\* the fixed-point value never exceeds the exact one and lags it by less than Wd/Wn units
ErrorBound == fx * den <= num /\ (num - fx * den) * Wn < Wd * den
\* a difference between two seeds contracts at least as fast as Decay says
ASSUME DecayBound == \A r \in 0..40 : Decay(r, Wn, Wd) * Wd >= r * (Wd - Wn) /\ Decay(r, Wn, Wd) <= r
=============================================================================
