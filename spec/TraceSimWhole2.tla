--------------------------- MODULE TraceSimWhole2 ---------------------------
(* Whole-run binding for TWO symbols on one wallet (see WholeRun2.tla and           *)
(* TraceSimWhole.tla): every scenario step carries the raw candles and the decision  *)
(* row of both symbols; the recorded projections hold the shared wallet / available  *)
(* margin and, per symbol, position, average entry, active orders (bag), hook word,  *)
(* last rows of the 1m and trading timeframe and number of closed trades.            *)
EXTENDS WholeRun2, Json, IOUtils
Data   == JsonDeserialize(IOEnv.TRACE_FILE)
Traces == Data.traces
VARIABLES tid, l, m, pcA, pcB, SN, SF, wn, wf, cn, cf, verdict
vars == <<tid, l, m, pcA, pcB, SN, SF, wn, wf, cn, cf, verdict>>
Hist(t) == Traces[t].hist
TF(t)   == Traces[t].hdr.tf
Init == /\ tid \in 1..Len(Traces) /\ l = 1 /\ m = 0 /\ pcA = 0 /\ pcB = 0 /\ SN = Both0 /\ SF = Both0
        /\ wn = <<<<>>, <<>>>> /\ wf = <<<<>>, <<>>>> /\ cn = 1 /\ cf = 1 /\ verdict = "ok"
Fields == <<"t", "wal", "mar", "qa", "ena", "oa", "ha", "c1a", "ctfa", "na", "qb", "enb", "ob", "hb", "c1b", "ctfb", "nb">>
Get(p, f) == CASE f = "t" -> p.t [] f = "wal" -> p.wal [] f = "mar" -> p.mar
               [] f = "qa" -> p.qa [] f = "ena" -> p.ena [] f = "oa" -> p.oa [] f = "ha" -> p.ha [] f = "c1a" -> p.c1a [] f = "ctfa" -> p.ctfa [] f = "na" -> p.na
               [] f = "qb" -> p.qb [] f = "enb" -> p.enb [] f = "ob" -> p.ob [] f = "hb" -> p.hb [] f = "c1b" -> p.c1b [] f = "ctfb" -> p.ctfb [] f = "nb" -> p.nb
GetR(r, f) == IF f = "oa" THEN BagOf(r.oa) ELSE IF f = "ob" THEN BagOf(r.ob) ELSE Get(r, f)
FirstBad(p, r) == LET bad == {j \in DOMAIN Fields : Get(p, Fields[j]) # GetR(r, Fields[j])}
                  IN IF bad = {} THEN "ok" ELSE Fields[CHOOSE j \in bad : \A k \in bad : j <= k]
RECURSIVE CmpProj(_, _, _, _)
CmpProj(who, pr, rec, c) ==
  IF pr = <<>> THEN "ok"
  ELSE IF c > Len(rec) THEN who \o ":code-stopped-early"
  ELSE IF FirstBad(pr[1], rec[c]) # "ok" THEN who \o ":" \o FirstBad(pr[1], rec[c])
  ELSE CmpProj(who, Tail(pr), rec, c + 1)
Step ==
  /\ l <= Len(Hist(tid))
  /\ LET e   == Hist(tid)[l]
         csA == FixAll(e.rawA, pcA, 1)
         csB == FixAll(e.rawB, pcB, 1)
         rn  == RunN2(SN, csA, csB, 1, m, e.rowA, e.rowB, TF(tid), wn[1], wn[2])
         rf  == RunF2(SF, csA, csB, m, e.rowA, e.rowB, TF(tid), wf[1], wf[2])
         vn  == CmpProj("normal", rn.pr, Traces[tid].norm.proj, cn)
         vf  == CmpProj("fast", rf.pr, Traces[tid].fast.proj, cf)
     IN /\ SN' = rn.s /\ SF' = rf.s /\ wn' = <<rn.wa, rn.wb>> /\ wf' = <<rf.wa, rf.wb>>
        /\ cn' = cn + Len(rn.pr) /\ cf' = cf + Len(rf.pr)
        /\ m' = m + Len(e.rawA) /\ pcA' = e.rawA[Len(e.rawA)].c /\ pcB' = e.rawB[Len(e.rawB)].c
        /\ verdict' = IF vn # "ok" THEN vn ELSE vf
  /\ l' = l + 1 /\ UNCHANGED tid
FinalCmp(who, S, r, c) ==
  LET T == Terminate2(S, m) IN
  IF c # Len(r.proj) + 1 THEN who \o ":code-ran-longer"
  ELSE IF T.a.status # r.exc THEN who \o ":exception:" \o T.a.status \o "/" \o r.exc
  ELSE IF ~Run2(T) THEN "ok"
  ELSE IF T.a.log # r.fillsA THEN who \o ":fills:A"
  ELSE IF T.b.log # r.fillsB THEN who \o ":fills:B"
  ELSE IF T.a.trades # r.tradesA THEN who \o ":trades:A"
  ELSE IF T.b.trades # r.tradesB THEN who \o ":trades:B"
  ELSE IF T.a.daily # r.daily THEN who \o ":equity-samples"
  ELSE IF T.a.wal # r.wal THEN who \o ":final-wallet"
  ELSE "ok"
Final ==
  /\ l = Len(Hist(tid)) + 1
  /\ verdict' = (IF FinalCmp("normal", SN, Traces[tid].norm, cn) # "ok" THEN FinalCmp("normal", SN, Traces[tid].norm, cn)
                 ELSE FinalCmp("fast", SF, Traces[tid].fast, cf))
  /\ l' = l + 1 /\ UNCHANGED <<tid, m, pcA, pcB, SN, SF, wn, wf, cn, cf>>
Next == verdict = "ok" /\ (Step \/ Final)
Spec == Init /\ [][Next]_vars
Finished == verdict # "ok" \/ l = Len(Hist(tid)) + 2
Report == Finished => PrintT(<<"VERDICT", Traces[tid].id, Len(SN.a.log) + Len(SN.b.log), SN.a.status, cn + cf - 2, verdict>>)
=============================================================================
