--------------------------- MODULE TraceRouteEquiv ---------------------------
(* X02, two-run relation decided by TLC (self-composition): the same multi-route *)
(* session recorded in the normal simulator (a) and in the fast simulator (b).   *)
(* Inside C12's precondition - lifted to several symbols: the normal run never   *)
(* fills more than one resting order inside one chunk (gcd of the timeframes) -  *)
(* both simulators must deliver the SAME sequence of observable events: fills    *)
(* (route, side-type, price, qty, time), route executions (route, index, time)   *)
(* and on_route_* deliveries (receiver, hook, sender, time).  The comparison     *)
(* covers the prefix of both runs up to the first chunk that violates the        *)
(* precondition (after it the runs may legitimately diverge).                    *)
EXTENDS Integers, Sequences, FiniteSets, TLC, Json, IOUtils
Data == JsonDeserialize(IOEnv.TRACE_FILE)
Traces == Data.traces
VARIABLES tid, l, vs
vars == <<tid, l, vs>>
Big == 1000000000
Tr == Traces[tid]
Chunk == Tr.hdr.chunk
Resting(s) == {i \in DOMAIN s : s[i].k = "f" /\ s[i].cm >= 0}
BadChunks(s) == {c \in {s[i].cm \div Chunk : i \in Resting(s)} : Cardinality({i \in Resting(s) : s[i].cm \div Chunk = c}) >= 2}
Tstar(s) == LET b == BadChunks(s) IN IF b = {} THEN Big ELSE (CHOOSE c \in b : \A d \in b : c <= d) * Chunk
Prefix(s, t) == SelectSeq(s, LAMBDA e : e.t <= t)
Same(x, y) == x.k = y.k /\ x.t = y.t /\ x.r = y.r /\ x.h = y.h /\ x.a = y.a
FirstDiff(p, q) == LET n == IF Len(p) < Len(q) THEN Len(p) ELSE Len(q)
                       d == {i \in 1..n : ~Same(p[i], q[i])}
                   IN IF d # {} THEN CHOOSE i \in d : \A j \in d : i <= j
                      ELSE IF Len(p) # Len(q) THEN n + 1 ELSE 0
KindName(k) == IF k = "f" THEN "fill" ELSE IF k = "x" THEN "route-execution" ELSE "route-event-delivery"
Verdict == LET t == Tstar(Tr.a)
               p == Prefix(Tr.a, t)
               q == Prefix(Tr.b, t)
               i == FirstDiff(p, q)
           IN IF Tr.hdr.skip THEN <<>>
              ELSE IF i = 0 THEN <<>>
              ELSE << <<i, "simulators-differ:" \o (IF i <= Len(p) THEN KindName(p[i].k) ELSE "fast-run-has-extra-" \o KindName(q[i].k))>> >>
Init == tid \in 1..Len(Traces) /\ l = 0 /\ vs = <<>>
Step == l = 0 /\ l' = 1 /\ vs' = Verdict /\ UNCHANGED tid
Spec == Init /\ [][Step]_vars
Report == l = 1 => /\ PrintT(<<"VERDICT", Tr.id, Len(Prefix(Tr.a, Tstar(Tr.a))), vs>>)
                   /\ PrintT(<<"STATS", Tr.id, Len(Tr.a), Len(Prefix(Tr.a, Tstar(Tr.a))), IF Tstar(Tr.a) = Big THEN 1 ELSE 0,
                               Cardinality(Resting(Prefix(Tr.a, Tstar(Tr.a)))), IF Tr.hdr.skip THEN 1 ELSE 0>>)
=============================================================================
