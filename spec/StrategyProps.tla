---------------------------- MODULE StrategyProps ----------------------------
(* Property-level vocabulary of C10 (smart order routing, declarative exits)    *)
(* and C06 (position events, trade log).  Nothing here is implementation-shaped: *)
(* these operators are the oracle.  They are used by the invariants of the       *)
(* implementation-shaped model StrategyLayer.tla (M) *and* by the monitors       *)
(* TraceRouting.tla / TraceHooksTrades.tla that judge recorded runs of the real  *)
(* Strategy class (T) - one source of truth for what the properties mean.        *)
(* Prices are integers (ticks), quantities integers, orders/rows are records.    *)
EXTENDS Integers, Sequences, FiniteSets

SAbs(x) == IF x < 0 THEN -x ELSE x
Sgn(x) == IF x > 0 THEN 1 ELSE IF x < 0 THEN -1 ELSE 0

(* ------------------------------ C10: routing ------------------------------- *)
\* helpers.is_price_near: |1 - p/cur| <= 0.00015, cross-multiplied (cur > 0).  Equality is the knife edge: the
\* float comparison is decided by rounding there, the monitor skips and counts it.
NearL(p, cur) == SAbs(cur - p) * 100000
NearR(cur) == 15 * cur
Knife(p, cur) == NearL(p, cur) = NearR(cur)
Near(p, cur) == NearL(p, cur) <= NearR(cur)

\* "an entry at a better price a limit order and at a worse price a stop order"
EntryType(side, p, cur) == IF Near(p, cur) THEN "MARKET"
                           ELSE IF (side = "buy") = (p > cur) THEN "STOP" ELSE "LIMIT"
\* "an exit on the profit side a limit order and on the loss side a stop order"
ExitType(posSide, p, cur) == IF Near(p, cur) THEN "MARKET"
                             ELSE IF (posSide = "long") = (p > cur) THEN "LIMIT" ELSE "STOP"
PosSide(q) == IF q > 0 THEN "long" ELSE IF q < 0 THEN "short" ELSE "close"
ClosingSide(q) == IF q > 0 THEN "sell" ELSE "buy"
EntrySide(q) == IF q > 0 THEN "buy" ELSE "sell"

\* is there an injective map f from the sequence xs into the sequence ys with M(xs[i], ys[f[i]]) for all i ?
\* (sizes are tiny: rows of a declaration, active exit orders of one symbol)
InjectiveMatch(xs, ys, M(_, _)) ==
  /\ Len(xs) <= Len(ys)
  /\ \E f \in [DOMAIN xs -> DOMAIN ys] :
        /\ \A i, j \in DOMAIN xs : i # j => f[i] # f[j]
        /\ \A i \in DOMAIN xs : M(xs[i], ys[f[i]])

\* an order stands for a declared row: exactly that quantity and price
\* (a declared quantity may carry a sign - liquidate() declares position.qty - only its size matters)
RowOf(o, r) == o.q = SAbs(r[1]) /\ o.p = r[2]
\* ... or it is the market order that _on_open_position substitutes for a row on the wrong side of the entry price
\* (NAMED DEVIATION: quantity of the row, price of the moment; exempt from the price/routing clauses)
RowOrReplacement(o, r) == o.q = SAbs(r[1]) /\ (o.p = r[2] \/ o.type = "MARKET")
RowCovered(r, o) == RowOrReplacement(o, r)

(* ------------------------------ C06: hooks --------------------------------- *)
\* effect of one fill on the position, from the size before and after
Effect(b, a) == IF b = a THEN "none"
                ELSE IF b = 0 THEN "open"
                ELSE IF a = 0 THEN "close"
                ELSE IF Sgn(a) # Sgn(b) THEN "flip"
                ELSE IF SAbs(a) > SAbs(b) THEN "inc" ELSE "red"
\* hooks the strategy must see for that fill: <<name, reported size>>
HooksFor(b, a) == CASE Effect(b, a) = "none" -> <<>>
                    [] Effect(b, a) = "flip" -> << <<"close", 0>>, <<"open", a>> >>
                    [] OTHER -> << <<Effect(b, a), a>> >>
\* the per-symbol automaton  (open (inc|red)* close)*
HookOK(state, h) == (state = "flat" /\ h = "open") \/ (state = "in" /\ h \in {"inc", "red", "close"})
HookNext(state, h) == IF h = "open" THEN "in" ELSE IF h = "close" THEN "flat" ELSE state

(* ------------------------------ C06: trades -------------------------------- *)
\* a cycle is a sequence of fills [o, din, dout, p, t]: quantity added to / taken from the position at price p
RECURSIVE SeqSum(_)
SeqSum(s) == IF s = <<>> THEN 0 ELSE Head(s) + SeqSum(Tail(s))
QIn(c) == SeqSum([i \in DOMAIN c |-> c[i].din])
QOut(c) == SeqSum([i \in DOMAIN c |-> c[i].dout])
VIn(c) == SeqSum([i \in DOMAIN c |-> c[i].din * c[i].p])
VOut(c) == SeqSum([i \in DOMAIN c |-> c[i].dout * c[i].p])
\* net PnL of a closed cycle in units of tick/feeD:  +-(proceeds - cost) - fee * turnover
CyclePnl(c, side, feeN, feeD) ==
  (IF side = "long" THEN VOut(c) - VIn(c) ELSE VIn(c) - VOut(c)) * feeD - feeN * (VIn(c) + VOut(c))
\* a logged average price (in 1/den ticks, rounded) agrees with the weighted price value/qty
AvgAgrees(logged, value, qty, den) ==
  /\ qty > 0 /\ SAbs(logged) < 26000000 /\ SAbs(logged) < 1000000000 \div qty /\ value < 1000000000 \div den   \* 31-bit budget; NaN sentinel
  /\ 2 * SAbs(logged * qty - value * den) <= qty + 1
=============================================================================
