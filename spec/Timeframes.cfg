SPECIFICATION Spec
CONSTANTS
 Universe = {"1m","3m","5m","15m","30m","45m","1h","2h","3h","4h","6h","8h","12h","1D","3D","1W","1M"}
 Export = FALSE
INVARIANT UniqueLongest
INVARIANT ExportEdge
CHECK_DEADLOCK FALSE
