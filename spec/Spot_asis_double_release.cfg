\* reference configuration (the checks generate their configurations from harness/drivers/acct.py:model_cfg)
\* the code as it is: TLC prints the shortest history that breaks SumsAreActiveSells (CEX line)
SPECIFICATION Spec
VIEW ViewAcct
CONSTRAINT Depth
CHECK_DEADLOCK FALSE
CONSTANTS
 Syms = {"A"}
 Qtys = {1, 2}
 Prices = {8, 12}
 FeeNum = 1 FeeDen = 16 Start = 32
 MaxDepth = 6 MaxAct = 3 MaxOrd = 6
 Dups = FALSE CancelOnClose = FALSE Export = FALSE
 QuirkDoubleRelease = TRUE QuirkFlip = FALSE
INVARIANT CexSums
