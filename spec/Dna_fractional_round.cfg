\* expected to FAIL (InRange): int declarations with a fractional bound under int(round(x)) - the model-level counter-example of finding C19 int:fractional-bounds
SPECIFICATION Spec
CONSTANTS
 NegLo = 10
 Hi = 20
 Unit = 2
 Class = "fractional"
 Rule = "round"
INVARIANT TypedOK
INVARIANT InRange
INVARIANT FirstIsMin
INVARIANT LastIsMax
INVARIANT TiesOnlyAtEnds
PROPERTY Monotone
CHECK_DEADLOCK FALSE
