------------------------------ MODULE DynArray ------------------------------
(* C18.  Implementation-shaped model of jesse.libs.DynamicNumpyArray            *)
(* (index, padded buffer, growth at bucket boundaries, drop-oldest shift,       *)
(* np.delete + re-pad, the index normalisation of __getitem__/__setitem__)      *)
(* together with the ghost Python list it must behave like.  One action per     *)
(* public method.  hist is a history variable hidden by VIEW: every transition  *)
(* of the reachable graph is exported with a shortest witness (EDGE lines) and  *)
(* replayed into the real class.                                                *)
EXTENDS Integers, Sequences, FiniteSets, TLC, Json, PyList
CONSTANTS Bucket,      \* shape[0]
          DropAt,      \* 0 = no drop-oldest limit
          MaxLen,      \* bound on the ghost list length
          MaxDepth,    \* bound on the number of operations
          MaxMulti,    \* largest bulk append
          Writes,      \* TRUE: item / slice assignment enabled
          Export       \* TRUE: print EDGE lines
VARIABLES idx, buf, list, nextv, err, hist
vars == <<idx, buf, list, nextv, err, hist>>
View == <<idx, buf, list, nextv, err>>

Zeros(n) == [i \in 1..n |-> 0]
Cap == Len(buf)
N == idx + 1
Visible == SubSeq(buf, 1, idx + 1)
ShiftLeft(b, k) == [i \in 1..Len(b) |-> IF i + k <= Len(b) THEN b[i + k] ELSE 0]   \* np_shift(arr, -k)
H(op) == hist' = Append(hist, op)

Init == idx = -1 /\ buf = Zeros(Bucket) /\ list = <<>> /\ nextv = 1 /\ err = "none" /\ hist = <<>>

\* ---- append (l.69-87) -------------------------------------------------------------------
DoAppend ==
  /\ err = "none" /\ Len(list) < MaxLen
  /\ LET i1 == idx + 1
         b1 == IF i1 # 0 /\ (i1 + 1) >= Len(buf) THEN buf \o Zeros(Bucket) ELSE buf
         drop == DropAt # 0 /\ i1 # 0 /\ (i1 + 1) % DropAt = 0
         sh == DropAt \div 2
         i2 == IF drop THEN i1 - sh ELSE i1
         b2 == IF drop THEN ShiftLeft(b1, sh) ELSE b1
     IN IF i2 + 1 > Len(b2)
        THEN /\ err' = "IndexError:append" /\ UNCHANGED <<idx, buf, list, nextv>>
        ELSE /\ idx' = i2 /\ buf' = [b2 EXCEPT ![i2 + 1] = nextv]
             /\ list' = DropOldest(Append(list, nextv), DropAt)
             /\ nextv' = nextv + 1 /\ UNCHANGED err
  /\ H([op |-> "append", v |-> nextv])

\* ---- append_multiple (l.111-135) --------------------------------------------------------
AppendMultiple(n) ==
  /\ err = "none" /\ Len(list) + n <= MaxLen
  /\ LET items == [k \in 1..n |-> nextv + k - 1]
         i1 == idx + n
         b1 == IF i1 # 0 /\ (i1 + 1) >= Len(buf) THEN buf \o Zeros(Max2(n, Bucket)) ELSE buf
         drop == DropAt # 0 /\ i1 # 0 /\ (i1 + 1) % DropAt = 0
         sh == DropAt \div 2
         i2 == IF drop THEN i1 - sh ELSE i1
         b2 == IF drop THEN ShiftLeft(b1, sh) ELSE b1
         keep == Min2(n, i2 + 1)            \* after a drop only the most recent items may fit
         lo == i2 - keep + 1
     IN IF i2 + 1 > Len(b2)
        THEN /\ err' = "Error:append_multiple" /\ UNCHANGED <<idx, buf, list, nextv>>
        ELSE /\ idx' = i2
             /\ buf' = [j \in 1..Len(b2) |-> IF j - 1 >= lo /\ j - 1 <= i2 THEN items[n - keep + (j - lo)] ELSE b2[j]]
             /\ list' = (IF drop THEN SubSeq(list \o items, sh + 1, Len(list) + n) ELSE list \o items)
             /\ nextv' = nextv + n /\ UNCHANGED err
  /\ H([op |-> "append_multiple", v |-> nextv, n |-> n])

\* ---- delete(k, axis=0) (np.delete, re-pad when shorter than a bucket) ------------------------
Delete(k) ==
  /\ err = "none" /\ k \in 0..idx
  /\ LET b1 == SubSeq(buf, 1, k) \o SubSeq(buf, k + 2, Len(buf))
     IN buf' = IF Len(b1) <= Bucket THEN b1 \o Zeros(Bucket) ELSE b1
  /\ idx' = idx - 1
  /\ list' = PyDel(list, k)
  /\ UNCHANGED <<nextv, err>>
  /\ H([op |-> "delete", k |-> k])

Flush == /\ err = "none" /\ idx >= 0
         /\ idx' = -1 /\ buf' = Zeros(Bucket) /\ list' = <<>> /\ UNCHANGED <<nextv, err>>
         /\ H([op |-> "flush"])

\* ---- __setitem__ int (l.60-67) -----------------------------------------------------------
SetItem(i) ==
  /\ err = "none"
  /\ LET j == IF i < 0 THEN N + i ELSE i
     IN IF j > idx \/ j < 0
        THEN /\ PyIndexOK(list, i)      \* only a defect if the list would accept it
             /\ err' = "IndexError:setitem" /\ UNCHANGED <<idx, buf, list, nextv>>
        ELSE /\ buf' = [buf EXCEPT ![j + 1] = nextv] /\ list' = PySet(list, i, nextv)
             /\ nextv' = nextv + 1 /\ UNCHANGED <<idx, err>>
  /\ H([op |-> "setitem", i |-> i, v |-> nextv])

\* ---- __setitem__ slice, equal length (l.47-58, as repaired) --------------------------------
ImplSetLo(a) == IF a = NoneV THEN 0 ELSE IF a < 0 THEN Max2(N + a, 0) ELSE a
ImplSetHi(a, b, m) == LET s0 == IF b = NoneV THEN ImplSetLo(a) + m ELSE b
                          s1 == IF s0 < 0 THEN Max2(N + s0, 0) ELSE s0
                      IN Min2(s1, N)
SetSlice(a, b) ==
  /\ err = "none"
  /\ LET m == SliceLen(N, a, b)
         items == [k \in 1..m |-> nextv + k - 1]
         lo == ImplSetLo(a)
         hi == ImplSetHi(a, b, m)
     IN /\ m > 0
        /\ IF hi - lo # m       \* numpy would raise a broadcast error
           THEN err' = "ValueError:setslice" /\ UNCHANGED <<idx, buf, list, nextv>>
           ELSE /\ buf' = [j \in 1..Len(buf) |-> IF j - 1 >= lo /\ j - 1 < hi THEN items[j - lo] ELSE buf[j]]
                /\ list' = PySetSlice(list, a, b, items)
                /\ nextv' = nextv + m /\ UNCHANGED <<idx, err>>
  /\ H([op |-> "setslice", a |-> a, b |-> b, v |-> nextv])

Idx == -(N + 2) .. (N + 2)
Bounds == {NoneV} \cup Idx
Edge == Export => PrintT(<<"EDGE", ToJson([hist |-> hist', post |-> list', idx |-> idx', cap |-> Len(buf')])>>)
Next == /\ \/ DoAppend
           \/ \E n \in 1..MaxMulti : AppendMultiple(n)
           \/ \E k \in 0..idx : Delete(k)
           \/ Flush
           \/ Writes /\ \E i \in -(N + 1) .. N : SetItem(i)
           \/ Writes /\ \E a \in {NoneV} \cup (-(N + 1) .. (N + 1)), b \in {NoneV} \cup (-(N + 1) .. (N + 1)) : SetSlice(a, b)
        /\ Edge
Spec == Init /\ [][Next]_vars
Depth == Len(hist) < MaxDepth

\* ---------------- reads (transcriptions of __getitem__, get_last_item, get_past_item) ------
ImplGetSlice(a, b) == LET start0 == IF a = NoneV THEN 0 ELSE a
                          start == IF start0 < 0 THEN Max2(N + start0, 0) ELSE start0
                          stop0 == IF b = NoneV THEN N ELSE b
                          stop1 == IF stop0 < 0 THEN Max2(N + stop0, 0) ELSE stop0
                          stop2 == Min2(stop1, N)
                      IN PySlice(buf, start, stop2)                \* numpy basic slicing of the padded buffer
ImplGetItem(i) == LET j == IF i < 0 THEN N + i ELSE i
                  IN IF idx = -1 \/ j > idx \/ j < 0 THEN "IndexError" ELSE buf[j + 1]
ImplPast(p) == IF idx = -1 \/ idx - p < 0 THEN "IndexError" ELSE buf[idx - p + 1]
ListGetItem(i) == IF PyIndexOK(list, i) THEN PyGet(list, i) ELSE "IndexError"

\* ---------------- properties ---------------------------------------------------------------
VisibleIsList == Visible = list
LenOK == N = Len(list)
NoValidOpRaises == err = "none"
CapacityOK == idx < Cap /\ Cap >= Bucket
GetItemOK == \A i \in Idx : ImplGetItem(i) = ListGetItem(i)
GetSliceOK == \A a \in Bounds, b \in Bounds : ImplGetSlice(a, b) = PySlice(list, a, b)
PastOK == \A p \in 0..MaxLen : ImplPast(p) = (IF p < Len(list) THEN list[Len(list) - p] ELSE "IndexError")
DropBound == (DropAt # 0 /\ MaxMulti = 0) => N < DropAt
=============================================================================
