\* reference configuration (the checks generate their configurations from harness/drivers/acct.py:model_cfg)
SPECIFICATION Spec
VIEW ViewFull
CONSTRAINT Depth
CHECK_DEADLOCK FALSE
CONSTANTS
 Syms = {"A"}
 Qtys = {1}
 Prices = {8, 12}
 FeeNum = 1 FeeDen = 16 Start = 32
 MaxDepth = 5 MaxAct = 3 MaxOrd = 3
 Dups = TRUE CancelOnClose = FALSE Export = FALSE
 QuirkDoubleRelease = FALSE QuirkFlip = FALSE
INVARIANT ActiveReported
INVARIANT ExecutedInExactlyOneTrade
INVARIANT NonNegative
INVARIANT SumsAreActiveSells
PROPERTY FinalIsFinal
PROPERTY FinalOpsAreNoOps
