--------------------------- MODULE TraceFuturesDec ---------------------------
(* C03, code -> spec, decimal lattice (DESIGN 2.3, encoding 3).  Prices with    *)
(* cents, quantities with three decimals, fee rates in units of 1e-5 (0.0004,   *)
(* 0.00075, 0.001), leverages 1..125, cross or isolated mode, 2-3 symbols on    *)
(* one wallet, histories of 100-300 operations.  The state of the real objects  *)
(* is logged as scaled integers: quantity QU = 1e-3, price PU = 1e-2, money     *)
(* MU = 1e-5 (= QU x PU), average entry EU = 1e-6.  Nothing is recomputed from  *)
(* the start: every step checks the STEP RELATION of the average-cost margin    *)
(* account between the logged pre-state, the event and the logged post-state    *)
(* (wallet -= fee on the filled quantity, += PnL realised at the old average;   *)
(* position by the reference update with reduce-only clamping; entry by the     *)
(* average-cost rule) and, on every logged state, the reference quantities from *)
(* the order STATUSES: available margin = wallet - sum(cost/L - pnl) -          *)
(* sum_sym max(buy, sell)/L, PnL, reserved tables = bag of ACTIVE non-reduce-   *)
(* only orders.  Tolerances are derived from the coefficients (half a unit per  *)
(* rounded operand times the quantity it is multiplied with).  Rejection is     *)
(* judged strictly outside the tolerance band, and EXACTLY (also at equality)   *)
(* in the exact zone: untouched wallet, no position, power-of-two leverage and  *)
(* binary-exact order values (quantity multiple of 0.125, price of 0.25), where *)
(* the code's float arithmetic is exact.  31-bit bounds: |wallet| <= 10 000,    *)
(* order qty <= 3, |position| <= 12, price <= 500, <= 7 resting orders/symbol.  *)
EXTENDS Integers, Sequences, FiniteSets, TLC, Json, IOUtils
Data == JsonDeserialize(IOEnv.TRACE_FILE)
Traces == Data.traces
VARIABLES tid, l, st, verdict, pok
vars == <<tid, l, st, verdict, pok>>
Ev(t) == Traces[t].ev
Hdr == Traces[tid].hdr
Syms == {Hdr.syms[i] : i \in 1..Len(Hdr.syms)}
L == Hdr.lev
F == Hdr.fee_u

Abs(x) == IF x < 0 THEN -x ELSE x
Sg(x) == IF x < 0 THEN -1 ELSE IF x > 0 THEN 1 ELSE 0
Max2(a, b) == IF a > b THEN a ELSE b
Min2(a, b) == IF a < b THEN a ELSE b
Near(a, b, t) == Abs(a - b) <= t
RECURSIVE IsPow2(_)
IsPow2(n) == n = 1 \/ (n % 2 = 0 /\ IsPow2(n \div 2))
\* q (QU, >= 0) x d (EU) in MU without leaving 31 bits
MulQ(q, d) == IF d >= 0 THEN q * (d \div 10000) + (q * (d % 10000)) \div 10000
              ELSE -(q * ((-d) \div 10000) + (q * ((-d) % 10000)) \div 10000)
FeeOf(n) == (n \div 100000) * F + ((n % 100000) * F) \div 100000          \* n (MU) x fee
PnlOf(q, e, c) == IF q = 0 THEN 0 ELSE Sg(q) * MulQ(Abs(q), c * 10000 - e)    \* c in PU, e in EU
CostOf(q, e) == IF q = 0 THEN 0 ELSE MulQ(Abs(q), e) \div L
\* average-cost entry after adding f to a position of size q0a: e0 + f (p - e0) / (f + q0a), all in EU
AvgEntry(e0, q0a, f, pe) ==
  LET d == pe - e0  ad == Abs(d)  dh == ad \div 10000  dl == ad % 10000  tot == f + q0a
      a == f * dh  inc == (a \div tot) * 10000 + ((a % tot) * 10000 + f * dl) \div tot
  IN IF d >= 0 THEN e0 + inc ELSE e0 - inc

ActiveIds(S, s) == {i \in 1..Len(S.ord) : S.ord[i].st = "A" /\ S.ord[i].sym = s}
ResIds(S, s, side) == {i \in ActiveIds(S, s) : ~S.ord[i].ro /\ S.ord[i].side = side}
RECURSIVE SumN(_, _)
SumN(S, ids) == IF ids = {} THEN 0 ELSE LET i == CHOOSE x \in ids : TRUE IN S.ord[i].q * S.ord[i].p + SumN(S, ids \ {i})
MaxRes(S, s) == Max2(SumN(S, ResIds(S, s, "buy")), SumN(S, ResIds(S, s, "sell")))
RECURSIVE Spent(_, _)
Spent(S, ss) == IF ss = {} THEN 0 ELSE LET s == CHOOSE x \in ss : TRUE
                 IN CostOf(S.q[s], S.entry[s]) - PnlOf(S.q[s], S.entry[s], S.cur[s]) + MaxRes(S, s) \div L + Spent(S, ss \ {s})
RefMargin(S) == S.wallet - Spent(S, Syms)
RECURSIVE SumAbsQ(_, _)
SumAbsQ(S, ss) == IF ss = {} THEN 0 ELSE LET s == CHOOSE x \in ss : TRUE IN Abs(S.q[s]) + SumAbsQ(S, ss \ {s})
MarginTol(S) == 4 + 6 * Cardinality(Syms) + SumAbsQ(S, Syms) \div 2000
RowOf(S, i) == <<S.ord[i].q, S.ord[i].p>>
BagOfIds(S, ids) == [x \in {RowOf(S, i) : i \in ids} |-> Cardinality({i \in ids : RowOf(S, i) = x})]
BagOfRows(rows) == [x \in {rows[i] : i \in 1..Len(rows)} |-> Cardinality({i \in 1..Len(rows) : rows[i] = x})]

WellFormed(P) == \A i \in 1..Len(P.ord) : P.ord[i].st \in {"A", "E", "C"} /\ P.ord[i].sym \in Syms
StateChecks(P) ==
  IF ~Near(P.margin, RefMargin(P), MarginTol(P)) THEN "available-margin"
  ELSE IF \E s \in Syms : ~Near(P.pnl[s], PnlOf(P.q[s], P.entry[s], P.cur[s]), 3 + Abs(P.q[s]) \div 5000) THEN "pnl"
  ELSE IF \E s \in Syms : BagOfRows(P.resB[s]) # BagOfIds(P, ResIds(P, s, "buy"))
                          \/ BagOfRows(P.resS[s]) # BagOfIds(P, ResIds(P, s, "sell")) THEN "reserved-bag"
  ELSE IF \E s \in Syms : (P.q[s] = 0) # (P.entry[s] = 0) THEN "entry-when-flat"
  ELSE "ok"

\* reference position update of one fill
RefQty(q0, sq, ro) ==
  IF ~ro THEN q0 + sq
  ELSE IF q0 * sq >= 0 THEN q0
  ELSE IF Abs(sq) > Abs(q0) THEN 0 ELSE q0 + sq

OTag(S, o) == LET sq == (IF o.side = "buy" THEN 1 ELSE -1) * o.q  q0 == S.q[o.sym] IN
  IF q0 = 0 THEN "open" ELSE IF q0 + sq = 0 THEN "close"
  ELSE IF q0 * sq > 0 THEN (IF o.ro THEN "none" ELSE "inc")
  ELSE IF Abs(sq) > Abs(q0) THEN (IF o.ro THEN "roclose" ELSE "flip") ELSE "red"

Same(S, P) == P.wallet = S.wallet /\ P.q = S.q /\ P.entry = S.entry

\* binary-exact situation: the float arithmetic of the code has no rounding at all
DyadicOrd(o) == o.q % 125 = 0 /\ o.p % 25 = 0
ExactZone(S, o) ==
  /\ IsPow2(L) /\ S.wallet = Hdr.start /\ Hdr.start * L < 2000000000 /\ \A s \in Syms : S.q[s] = 0
  /\ DyadicOrd(o) /\ \A i \in 1..Len(S.ord) : (S.ord[i].st = "A" /\ ~S.ord[i].ro) => DyadicOrd(S.ord[i])
RECURSIVE SumMaxRes(_, _)
SumMaxRes(S, ss) == IF ss = {} THEN 0 ELSE LET s == CHOOSE x \in ss : TRUE IN MaxRes(S, s) + SumMaxRes(S, ss \ {s})

Judge(S, e) ==
  LET P == e.post IN
  IF e.exc # "none" THEN e.k \o ":raises:" \o e.exc
  ELSE IF ~WellFormed(P) THEN e.k \o ":ill-formed-log"
  ELSE CASE e.k = "submit" ->
         LET o == [sym |-> e.sym, side |-> e.side, typ |-> e.typ, q |-> e.q, p |-> e.p, ro |-> e.ro, st |-> "A"]
             n == o.q * o.p
             exact == ~o.ro /\ ExactZone(S, o)
             m == RefMargin(S)
             knife == ~exact /\ Near(n \div L, m, MarginTol(S) + 2)
             mustReject == ~o.ro /\ (IF exact THEN n > Hdr.start * L - SumMaxRes(S, Syms) ELSE n \div L > m)
         IN IF ~knife /\ mustReject /\ e.acc THEN (IF exact THEN "submit/exact:accepted-over-margin" ELSE "submit:accepted-over-margin")
            ELSE IF ~knife /\ ~mustReject /\ ~e.acc THEN (IF exact THEN "submit/exact:rejected-within-margin" ELSE "submit:rejected-within-margin")
            ELSE IF ~e.acc THEN "ok"
            ELSE IF P.ord # Append(S.ord, o) THEN "submit:order-record"
            ELSE IF ~Same(S, P) THEN "submit:account-changed"
            ELSE "ok"
    [] e.k = "cancel" ->
         IF e.id \notin 1..Len(S.ord) \/ S.ord[e.id].st # "A" THEN "cancel:not-an-active-order"
         ELSE IF P.ord # [S.ord EXCEPT ![e.id].st = "C"] THEN "cancel:order-status"
         ELSE IF ~Same(S, P) THEN "cancel:account-changed" ELSE "ok"
    [] e.k = "price" -> IF P.ord # S.ord THEN "price:order-record" ELSE IF ~Same(S, P) THEN "price:account-changed" ELSE "ok"
    [] e.k = "exec" ->
         IF e.id \notin 1..Len(S.ord) \/ S.ord[e.id].st # "A" THEN "exec:not-an-active-order"
         ELSE LET o0 == S.ord[e.id]  s == o0.sym  q0 == S.q[s]  e0 == S.entry[s]
                  sgn == IF o0.side = "buy" THEN 1 ELSE -1
                  \* a reduce-only order against the position fills at most its size (quantity clamped in the record)
                  filled == IF o0.ro /\ q0 * sgn < 0 THEN Min2(o0.q, Abs(q0)) ELSE o0.q
                  sq == sgn * filled
                  q1 == RefQty(q0, sq, o0.ro)
                  tag == "exec/" \o OTag(S, o0)
                  closed == IF q0 = 0 \/ q0 * q1 < 0 THEN Abs(q0) ELSE IF Abs(q1) < Abs(q0) THEN Abs(q0) - Abs(q1) ELSE 0
                  real == IF closed = 0 THEN 0 ELSE Sg(q0) * MulQ(closed, o0.p * 10000 - e0)
                  fee == FeeOf(filled * o0.p)
                  e1 == IF q1 = 0 THEN 0
                        ELSE IF q0 = 0 \/ q0 * q1 < 0 THEN o0.p * 10000
                        ELSE IF Abs(q1) > Abs(q0) THEN AvgEntry(e0, Abs(q0), filled, o0.p * 10000)
                        ELSE e0
                  ordExp == [i \in 1..Len(S.ord) |->
                               IF i = e.id THEN [o0 EXCEPT !.st = "E", !.q = filled]
                               ELSE IF q1 = 0 /\ S.ord[i].st = "A" /\ S.ord[i].sym = s THEN [S.ord[i] EXCEPT !.st = "C"]
                               ELSE S.ord[i]]
              IN IF P.ord # ordExp THEN tag \o ":order-status"
                 ELSE IF P.q[s] # q1 THEN tag \o ":position-qty"
                 ELSE IF \E x \in Syms \ {s} : P.q[x] # S.q[x] \/ P.entry[x] # S.entry[x] THEN tag \o ":other-symbol-changed"
                 ELSE IF ~Near(P.entry[s], e1, 3) THEN tag \o ":entry-price"
                 ELSE IF ~Near(P.wallet, S.wallet - fee + real, 3 + closed \div 5000) THEN tag \o ":wallet"
                 ELSE "ok"
    [] OTHER -> "log:unknown-event"

Both(S, e) == LET j == Judge(S, e) IN
  IF j # "ok" THEN j
  ELSE IF (e.k # "submit" \/ e.acc) /\ pok /\ StateChecks(e.post) # "ok" THEN e.k \o ":" \o StateChecks(e.post) ELSE "ok"

KnifeEv(S, e) == e.k = "submit" /\ ~e.ro /\ Near((e.q * e.p) \div L, RefMargin(S), MarginTol(S) + 2)
                 /\ ~ExactZone(S, [q |-> e.q, p |-> e.p])
ExactEv(S, e) == e.k = "submit" /\ ~e.ro /\ ExactZone(S, [q |-> e.q, p |-> e.p])
ExactEqEv(S, e) == ExactEv(S, e) /\ e.q * e.p = Hdr.start * L - SumMaxRes(S, Syms)      \* needs exactly what is left

Init == /\ tid \in 1..Len(Traces) /\ l = 1
        /\ st = Traces[tid].init
        /\ pok = (WellFormed(Traces[tid].init) /\ StateChecks(Traces[tid].init) = "ok")
        /\ verdict = (IF ~WellFormed(Traces[tid].init) THEN "init:ill-formed"
                      ELSE IF StateChecks(Traces[tid].init) # "ok" THEN "init:" \o StateChecks(Traces[tid].init) ELSE "ok")
Step == /\ verdict = "ok" /\ l <= Len(Ev(tid))
        /\ LET e == Ev(tid)[l] IN
             /\ verdict' = Both(st, e)
             /\ st' = e.post
             /\ pok' = ((e.k # "submit" \/ e.acc) /\ WellFormed(e.post) /\ StateChecks(e.post) = "ok")
             /\ (KnifeEv(st, e) => PrintT(<<"KNIFE", Traces[tid].id, l>>))
             /\ (ExactEv(st, e) => PrintT(<<"EXACT", Traces[tid].id, l>>))
             /\ (ExactEqEv(st, e) => PrintT(<<"EXACTEQ", Traces[tid].id, l>>))
        /\ l' = l + 1 /\ UNCHANGED tid
Spec == Init /\ [][Step]_vars
Finished == verdict # "ok" \/ l > Len(Ev(tid))
Report == Finished => PrintT(<<"VERDICT", Traces[tid].id, l - 1, verdict>>)
=============================================================================
