---------------------------- MODULE EquityRatios ----------------------------
(* C16 (M + export).  Every list of daily balances up to MaxLen over the set     *)
(* Balances: the running drawdown fold equals the definition, maximum drawdown   *)
(* is never positive, and the variant metrics.max_drawdown computes (running     *)
(* maximum starting at the second sample: From = 2) is compared with the         *)
(* standard definition on the returns (wealth curve starting at 1: From = 1).    *)
(* ImplIsStandard is expected to FAIL for From = 2 - TLC's counter-example is    *)
(* the shortest balance list on which the reported drawdown is wrong.            *)
EXTENDS MetricsDef, TLC, Json
CONSTANTS MaxLen, Balances, Export
VARIABLES b, d1, d2
vars == <<b, d1, d2>>
Init == b = <<>> /\ d1 = DD0(1) /\ d2 = DD0(1)
Add(x) == /\ Len(b) < MaxLen /\ b' = Append(b, x)
          /\ d1' = (IF Len(b) = 0 THEN DD0(x) ELSE DDStep(d1, x))
          /\ d2' = (IF Len(b) <= 1 THEN DD0(x) ELSE DDStep(d2, x))
Next == \E x \in Balances : Add(x)
Spec == Init /\ [][Next]_vars
FoldIsDefinition == Len(b) >= 2 => DDValue(d1) = MaxDD(b, 1) /\ DDValue(d2) = MaxDD(b, 2)
NeverPositive == Len(b) >= 2 => MaxDD(b, 1)[1] <= 0 /\ MaxDD(b, 2)[1] <= 0
ImplNotDeeper == Len(b) >= 2 => MaxDD(b, 1)[1] * MaxDD(b, 2)[2] <= MaxDD(b, 2)[1] * MaxDD(b, 1)[2]
ImplIsStandard == Len(b) >= 2 => MaxDD(b, 2) = MaxDD(b, 1)
RatioSanity == Len(b) >= 2 =>
                 /\ (OmegaDefined(b) => Omega(b)[1] >= 0)
                 /\ (SharpeDefined(b) => Sharpe2(b)[1] >= 0) /\ (SortinoDefined(b) => Sortino2(b)[1] >= 0)
                 \* the downside deviation never exceeds the (population-scaled) deviation: Sortino^2 k (k-1) .. not claimed
ExportEdge == (Export /\ Len(b) >= 2) => PrintT(<<"EDGE", ToJson([b |-> b])>>)
=============================================================================
