---------------------------- MODULE TraceRouting ----------------------------
(* C10, code -> spec (monitor).  Judges recorded runs of the real Strategy class *)
(* (harness/drivers/strat_runs.py): every submission against the routing rule    *)
(* and the declaration it stands for, the exit/declaration correspondence at     *)
(* every after(), "no exit when flat" after every fill and every step, and the   *)
(* entry-cancellation rule.  One initial state per trace, deterministic, TOTAL:  *)
(* a mismatch adds a clause to `vs`, it never disables the step.  The property   *)
(* operators come from StrategyProps (shared with the model StrategyLayer).      *)
(* Clauses carry a cause suffix when the monitor can attribute them to a         *)
(* position flip (":after-flip"), so that known findings have specific names.    *)
EXTENDS Integers, Sequences, FiniteSets, TLC, Json, IOUtils, StrategyProps
Data == JsonDeserialize(IOEnv.TRACE_FILE)
Traces == Data.traces
VARIABLES tid, l, vs, ords, sym, stats
vars == <<tid, l, vs, ords, sym, stats>>
Ev(t) == Traces[t].ev
NoDecl == [buy |-> <<>>, sell |-> <<>>, sl |-> <<>>, tp |-> <<>>]
Sym0 == [decl |-> NoDecl, inOpen |-> FALSE, flipped |-> "", rest |-> {}, exec |-> <<>>, execE |-> <<>>]

Init == /\ tid \in 1..Len(Traces) /\ l = 1 /\ vs = <<>> /\ ords = <<>>
        /\ sym = [s \in 1..Traces[tid].hdr.nsym |-> Sym0]
        /\ stats = [sub |-> 0, knife |-> 0, after |-> 0, entry |-> 0, exit |-> 0, repl |-> 0]

\* add the clauses not yet recorded, with the event index of their first occurrence
RECURSIVE AddAll(_, _, _)
AddAll(v, n, cs) == IF cs = <<>> THEN v
                    ELSE IF \E i \in DOMAIN v : v[i][2] = Head(cs) THEN AddAll(v, n, Tail(cs))
                    ELSE AddAll(Append(v, <<n, Head(cs)>>), n, Tail(cs))
If(c, s) == IF c THEN <<>> ELSE <<s>>          \* clause s unless c holds

Kind(e) == IF e.via = "stop-loss" THEN "sl" ELSE IF e.via = "take-profit" THEN "tp"
           ELSE IF e.ro THEN "close" ELSE "entry"
RowsOfKind(d, k, side) == CASE k = "sl" -> d.sl [] k = "tp" -> d.tp
                            [] k = "entry" -> (IF side = "buy" THEN d.buy ELSE d.sell) [] OTHER -> <<>>
HasRow(rows, e) == \E i \in DOMAIN rows : rows[i][1] = e.q /\ rows[i][2] = e.p
HasQty(rows, e) == \E i \in DOMAIN rows : rows[i][1] = e.q
Tag(S) == S.flipped
\* cause of a flip: the non-reduce-only market order that _on_open_position substitutes for a wrong-side exit row
FlipTag(o) == IF o.via # "none" /\ ~o.ro /\ o.type = "MARKET" THEN ":after-flip-by-market-replacement" ELSE ":after-flip"
\* the market order substituted by _on_open_position for a row on the wrong side of the entry (named deviation)
\* - only for a row that really lies on the wrong side of the POSITION's entry price (e.pe, in 1/1000 price units):
\* a stop-loss at or beyond the entry on the profit side, a take-profit at or beyond it on the loss side
WrongSideRow(k, pq, r, pe) == IF k = "sl" THEN (pq > 0 /\ r[2] * 1000 >= pe) \/ (pq < 0 /\ r[2] * 1000 <= pe)
                              ELSE (pq > 0 /\ r[2] * 1000 <= pe) \/ (pq < 0 /\ r[2] * 1000 >= pe)
Replacement(e, S, rows) == /\ e.type = "MARKET" /\ S.inOpen /\ ~HasRow(rows, e) /\ e.pe >= 0
                           /\ \E i \in DOMAIN rows : rows[i][1] = e.q /\ WrongSideRow(Kind(e), e.pq, rows[i], e.pe)

SubmitClauses(e, S) ==
  LET k == Kind(e)
      rows == RowsOfKind(S.decl, k, e.side)
      kn == Knife(e.p, e.cur)
  IN IF e.liq            \* the simulator's liquidation order (isolated margin): not a request of the strategy, no routing
     THEN If(e.ro /\ e.type = "MARKET" /\ e.pq # 0 /\ e.side = ClosingSide(e.pq) /\ e.q = SAbs(e.pq), "liquidation-order-shape")
     ELSE IF k = "entry"
     THEN \* a market entry carries the price of the moment, a resting entry the declared price
          LET cand == {i \in DOMAIN rows : rows[i][1] = e.q /\ (e.type = "MARKET" \/ rows[i][2] = e.p)}
              ok == {i \in cand : Knife(rows[i][2], e.cur) \/ e.type = EntryType(e.side, rows[i][2], e.cur)}
          IN IF ok # {} THEN <<>>
             ELSE IF cand = {} THEN <<"entry-row">>
             ELSE LET i == CHOOSE j \in cand : \A m \in cand : j <= m
                  IN <<"entry-type:" \o e.type \o "-instead-of-" \o EntryType(e.side, rows[i][2], e.cur)>>
     ELSE IF ~e.ro
     THEN IF e.type = "MARKET" /\ S.inOpen /\ HasQty(rows, e)
          THEN <<"exit-not-reduce-only:market-replacement-on-open">>
          ELSE <<"exit-not-reduce-only" \o Tag(S)>>
     ELSE IF e.pq = 0 THEN <<"exit-without-position">>
     ELSE If(e.side = ClosingSide(e.pq), "exit-side" \o Tag(S))
          \o If(k = "close" \/ HasRow(rows, e) \/ Replacement(e, S, rows), "exit-row:" \o k \o Tag(S))
          \o If(kn \/ Replacement(e, S, rows) \/ e.type = ExitType(PosSide(e.pq), e.p, e.cur),
                "exit-type:" \o e.type \o "-instead-of-" \o ExitType(PosSide(e.pq), e.p, e.cur) \o Tag(S))

KnifeCase(e, S) == IF Kind(e) = "entry"
                   THEN LET rows == RowsOfKind(S.decl, "entry", e.side)
                        IN \E i \in DOMAIN rows : rows[i][1] = e.q /\ Knife(rows[i][2], e.cur)
                   ELSE Knife(e.p, e.cur)
BagEq(a, b) == /\ Len(a) = Len(b)
               /\ \A i \in DOMAIN a : Cardinality({j \in DOMAIN a : a[j] = a[i]}) = Cardinality({j \in DOMAIN b : b[j] = a[i]})
IsExit(o) == o.via # "none" \/ o.ro
FlatClauses(act) == If(\A i \in DOMAIN act : ~IsExit(act[i]), "active-exit-when-flat")
OfVia(act, via) == SelectSeq(act, LAMBDA o : o.via = via)

ExitClauses(e, S, via, k, rows, has, at) ==
  LET a == OfVia(e.act, via)
      pool == a \o OfVia(S.exec, via)
  IN IF ~has THEN If(a = <<>>, "stale-exit:" \o k \o ":no-declaration" \o at \o Tag(S))
     ELSE If(InjectiveMatch(a, rows, RowOrReplacement), "stale-exit:" \o k \o at \o Tag(S))
          \o If(\A i \in DOMAIN a : a[i].ro /\ a[i].side = ClosingSide(e.q), "active-exit-side:" \o k \o at \o Tag(S))
          \o If(InjectiveMatch(rows, pool, RowCovered), "declared-row-without-order:" \o k \o at \o Tag(S))
\* entries: "an order of exactly that quantity and price" also holds for what is RESTING - the active entry orders of a side
\* map injectively onto the rows of the latest self.buy / self.sell (a market entry carries the price of the moment), and every
\* declared row has an order that is active or was filled in this cycle (re-declared scale-in rows of an open position included)
IsEntry(o) == o.via = "none" /\ ~o.ro
EntrySideClauses(e, S, side, rows, at) ==
  LET a == SelectSeq(e.act, LAMBDA o : IsEntry(o) /\ o.side = side)
      pool == a \o SelectSeq(S.execE, LAMBDA o : o.side = side)
  IN If(InjectiveMatch(a, rows, RowOrReplacement), "stale-entry:" \o side \o at \o Tag(S))
     \o If(rows = <<>> \/ (e.q > 0 /\ side = "sell") \/ (e.q < 0 /\ side = "buy") \/ InjectiveMatch(rows, pool, RowCovered),
           "declared-entry-row-without-order:" \o side \o at \o Tag(S))
EntryClauses(e, S, at) == EntrySideClauses(e, S, "buy", e.buy, at) \o EntrySideClauses(e, S, "sell", e.sell, at)
\* the same correspondence when the next step begins (before()): the hooks of the fills in between have all run their detection
BeforeClauses(e, S) ==
  EntryClauses(e, S, ":at-before")
  \o (IF e.q = 0 THEN FlatClauses(e.act)
      ELSE ExitClauses(e, S, "stop-loss", "sl", e.sl, e.hl, ":at-before") \o ExitClauses(e, S, "take-profit", "tp", e.tp, e.ht, ":at-before"))

AfterClauses(e, S) ==
  (IF S.rest = {} THEN <<>>
   ELSE LET c == {o \in S.rest : ords[o].st = "canceled"}
        IN If(IF e.sce THEN c = S.rest ELSE c = {},
              IF e.sce THEN "entry-not-cancelled-though-should_cancel_entry" ELSE "entry-cancelled-though-not-should_cancel_entry"))
  \o EntryClauses(e, S, "")
  \o (IF e.q = 0 THEN FlatClauses(e.act)
      ELSE ExitClauses(e, S, "stop-loss", "sl", e.sl, e.hl, "") \o ExitClauses(e, S, "take-profit", "tp", e.tp, e.ht, ""))

Step ==
  /\ l <= Len(Ev(tid))
  /\ LET e == Ev(tid)[l] IN
     CASE e.k = "step" ->
            /\ sym' = [sym EXCEPT ![e.s].rest = IF e.q = 0 THEN {e.rest[i] : i \in DOMAIN e.rest} ELSE {}]
            /\ vs' = AddAll(vs, l, BeforeClauses(e, sym[e.s]))
            /\ UNCHANGED <<ords, stats>>
       [] e.k = "decl" ->
            /\ sym' = [sym EXCEPT ![e.s].decl = [buy |-> e.buy, sell |-> e.sell, sl |-> e.sl, tp |-> e.tp]]
            /\ UNCHANGED <<vs, ords, stats>>
       [] e.k = "submit" ->
            /\ vs' = AddAll(vs, l, If(e.o = Len(ords) + 1, "machinery:order-ordinal") \o SubmitClauses(e, sym[e.s]))
            /\ ords' = Append(ords, [s |-> e.s, side |-> e.side, type |-> e.type, q |-> e.q, p |-> e.p, ro |-> e.ro,
                                     via |-> e.via, st |-> "active"])
            /\ stats' = [stats EXCEPT !.sub = @ + 1, !.knife = @ + (IF KnifeCase(e, sym[e.s]) THEN 1 ELSE 0),
                                      !.entry = @ + (IF Kind(e) = "entry" THEN 1 ELSE 0),
                                      !.exit = @ + (IF Kind(e) # "entry" THEN 1 ELSE 0),
                                      !.repl = @ + (IF Kind(e) \in {"sl", "tp"} /\ e.type = "MARKET" /\ sym[e.s].inOpen
                                                       /\ ~HasRow(RowsOfKind(sym[e.s].decl, Kind(e), e.side), e) THEN 1 ELSE 0)]
            /\ UNCHANGED sym
       [] e.k = "cancel" ->
            /\ ords' = [ords EXCEPT ![e.o].st = "canceled"]
            /\ UNCHANGED <<vs, sym, stats>>
       [] e.k = "fillb" ->
            /\ ords' = [ords EXCEPT ![e.o].st = "executed"]
            /\ sym' = [sym EXCEPT ![e.s].inOpen = (e.qb = 0 \/ Effect(e.qb, e.qa) = "flip"),
                                  ![e.s].flipped = IF @ = "" /\ Effect(e.qb, e.qa) = "flip" THEN FlipTag(ords[e.o]) ELSE @,
                                  ![e.s].exec = IF ords[e.o].via # "none" THEN Append(@, ords[e.o]) ELSE @,
                                  ![e.s].execE = IF ords[e.o].via = "none" /\ ~ords[e.o].ro THEN Append(@, ords[e.o]) ELSE @]
            /\ UNCHANGED <<vs, stats>>
       [] e.k = "fille" ->
            /\ vs' = AddAll(vs, l, IF e.qa = 0 THEN FlatClauses(e.act) ELSE <<>>)
            /\ sym' = [sym EXCEPT ![e.s].inOpen = FALSE,
                                  ![e.s].flipped = IF e.qa = 0 THEN "" ELSE @,
                                  ![e.s].exec = IF e.qa = 0 THEN <<>> ELSE @,
                                  ![e.s].execE = IF e.qa = 0 THEN <<>> ELSE @]
            /\ UNCHANGED <<ords, stats>>
       [] e.k = "after" ->
            /\ vs' = AddAll(vs, l, AfterClauses(e, sym[e.s]))
            /\ sym' = [sym EXCEPT ![e.s].rest = {}]
            /\ stats' = [stats EXCEPT !.after = @ + 1]
            /\ UNCHANGED ords
       [] e.k = "exc" ->       \* the session ended with an exception.  Legitimate: the account refusing an order (margin / balance)
                               \* and the documented validation of identical stop-loss and take-profit declarations; anything else
                               \* raised while the strategy only made legal declarations is the strategy layer aborting the session
            /\ vs' = AddAll(vs, l, If(\/ e.cls \in {"InsufficientMargin", "InsufficientBalance"}
                                      \/ (e.cls = "InvalidStrategy" /\ e.msg = "stop-loss and take-profit should not be "),
                                      "session-aborted-by:" \o e.cls))
            /\ UNCHANGED <<ords, sym, stats>>
       [] e.k = "proj" ->      \* replay of a model behaviour: projected model state next to the real one
            /\ vs' = AddAll(vs, l, IF e.cmp THEN If(e.mq = e.iq, "model-divergence:position")
                                                  \o If(BagEq(e.mact, e.iact), "model-divergence:active-orders")
                                   ELSE <<>>)
            /\ UNCHANGED <<ords, sym, stats>>
       [] OTHER -> UNCHANGED <<vs, ords, sym, stats>>
  /\ l' = l + 1 /\ UNCHANGED tid
Spec == Init /\ [][Step]_vars
Finished == l > Len(Ev(tid))
Report == Finished => /\ PrintT(<<"VERDICT", Traces[tid].id, l - 1, vs>>)
                      /\ PrintT(<<"STATS", Traces[tid].id, stats.sub, stats.knife, stats.after, stats.entry, stats.exit, stats.repl>>)
=============================================================================
