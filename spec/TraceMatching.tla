---------------------------- MODULE TraceMatching ----------------------------
(* C02 / C08 / C09, code -> spec: a MONITOR trace spec.  It takes submissions and *)
(* cancellations as recorded and decides, with the property-level oracles only,  *)
(* whether the recorded fills and liquidations are admissible:                   *)
(*   normal simulator / object-level scenarios: canonical path of Lattice.tla    *)
(*   fast simulator: minute form (first minute, extended to the previous close)  *)
(*   market orders: price = current price at submission, executed before the     *)
(*                  next candle is processed                                     *)
(*   liquidation (C09): iff / closing order / wallet / cancellations / counter   *)
(* It knows nothing about candidate lists, sorting, splitting.  All prices are   *)
(* dense ranks over the whole trace (order-isomorphic renaming), quantities are  *)
(* compared as hex strings (q8 = 8*qty where exact), C09 amounts are rounded to hdr.unit with a tolerance  *)
(* derived from the rounding.  One initial state per trace, deterministic, total.*)
EXTENDS Lattice, TLC, Json, IOUtils
Data == JsonDeserialize(IOEnv.TRACE_FILE)
Traces == Data.traces
VARIABLES tid, l, verdict,
          ph,        \* "none" | "minute" | "chunk"
          ci, cn,    \* index of the minute / first minute of the chunk in hdr.raw, chunk length
          lastPos,   \* canonical-path position of the latest fill of this minute
          A,         \* resting orders: oid -> [p, q, born, bmin]
          D,         \* orders executed / cancelled during the current chunk: oid -> [p, bmin, at]
          M,         \* market orders submitted and not yet executed: oid -> [p, q]
          L,         \* liquidation window: [on, cnt, qty, should, mustnot, sub, exe, wal]
          skips,     \* knife-edge cases not judged (liquidation price only inside a close->open gap)
          X,         \* window of ANOTHER symbol's liquidation check (two routes): [on, q]
          bad        \* every distinct clause violated so far -> first event index (the monitor goes on after a
                     \* mismatch: submissions, cancellations and fills are taken as recorded, so its state stays
                     \* that of the run; a known finding early in a run does not hide the rest of it)
vars == <<tid, l, verdict, ph, ci, cn, lastPos, A, D, M, L, skips, X, bad>>
H == Traces[tid].hdr
Ev == Traces[tid].ev
On(f) == \E x \in DOMAIN H.check : H.check[x] = f
Raw(i) == LET r == H.raw[i] IN Cd(r[1], r[2], r[3], r[4])
PrevClose(i) == IF i > 1 THEN H.raw[i - 1][2] ELSE H.raw[i][1]
Fixed(i) == IF i > 1 THEN FixJump(PrevClose(i), Raw(i)) ELSE Raw(i)
InMinute(m, p) == InExt(PrevClose(m), Raw(m), p)
Without(f, o) == [x \in DOMAIN f \ {o} |-> f[x]]
With(f, o, r) == (o :> r) @@ f
Empty == <<>>
NoL == [on |-> FALSE, seen |-> FALSE, cnt |-> 0, qty |-> 0, should |-> FALSE, mustnot |-> FALSE, sub |-> 0, exe |-> 0, wal |-> 0,
        entry |-> 0, side |-> "none", subs |-> 0, bank |-> 0]

Init == /\ tid \in 1..Len(Traces) /\ l = 1 /\ verdict = "ok" /\ ph = "none" /\ ci = 0 /\ cn = 0 /\ lastPos = 0
        /\ A = Empty /\ D = Empty /\ M = Empty /\ L = NoL /\ skips = 0 /\ X = [on |-> FALSE, q |-> 0] /\ bad = Empty

\* ---------------- oracles ----------------
Cur == Fixed(ci)
Reach(o) == FirstReach(Cur, Max2(lastPos, A[o].born), A[o].p)
ReachM(o) == FirstReach(Cur, Max2(lastPos, M[o].born), M[o].p)
HookMarkets == {o \in DOMAIN M : M[o].hook}
MissedStep == {o \in DOMAIN A : Reach(o) # NoReach}
\* fast mode, minute form
ChunkMins == ci..(ci + cn - 1)
MissedIn(all) == {o \in DOMAIN all : \E m \in ChunkMins : m > all[o].bmin /\ InMinute(m, all[o].p) /\ all[o].at > m}
AllChunk == [o \in DOMAIN A \cup DOMAIN D |->
               IF o \in DOMAIN D THEN D[o] ELSE [p |-> A[o].p, bmin |-> A[o].bmin, at |-> ci + cn + 1]]
MinOf(S) == CHOOSE x \in S : \A y \in S : x <= y
\* classification of a miss = the finding signature: first missed minute, was the price inside that
\* minute's own range or only in the gap to the previous close, was another order filled before, how many
\* orders priced inside the chunk range were alive during the chunk
MissMin(all, o) == MinOf({m \in ChunkMins : m > all[o].bmin /\ InMinute(m, all[o].p)})
ChunkCandle == Agg([m \in 1..cn |-> IF m = 1 THEN Fixed(ci) ELSE Raw(ci + m - 1)])
NInRange(all) == Cardinality({o \in DOMAIN all : Includes(ChunkCandle, all[o].p)})    \* resting at the start or created by hooks
ChunkVerdict ==
  LET all == AllChunk ms == MissedIn(all) IN
  IF ms = {} \/ ~On("fill") THEN "ok"
  ELSE LET o == MinOf(ms) m == MissMin(all, o) n == NInRange(all) IN
       "fill:fast:order-not-filled-in-the-first-minute-that-contains-its-price:"
         \o (IF ~Includes(Raw(m), all[o].p)
             THEN "price-only-in-the-gap-to-the-previous-close:" \o (IF n >= 2 THEN "n>=2" ELSE "n<=1")
             ELSE "price-inside-the-minute:"
                  \o (IF \E x \in DOMAIN D : x # o /\ D[x].st = "E" /\ D[x].at <= m THEN "after-another-fill" ELSE "no-earlier-fill")
                  \o ":" \o (IF n >= 3 THEN "n>=3" ELSE IF n = 2 THEN "n=2" ELSE "n<=1"))
\* C02: nothing the path ahead still reaches may be left active; C08 states the same for orders created in reaction
\* to a fill of this minute (born > 0): they fill on the part of the path after that fill
StepVerdict == IF MissedStep # {} /\ On("fill")
               THEN "fill:" \o H.mode \o ":order-left-active-although-the-path-ahead-reaches-its-price"
               ELSE IF On("path") /\ \E o \in MissedStep : A[o].born > 0
               THEN "path:" \o H.mode \o ":order-created-in-reaction-to-a-fill-not-filled-although-the-rest-of-the-path-reaches-its-price"
               ELSE "ok"

\* ---------------- liquidation arithmetic (hdr.unit-rounded amounts; q8 = 8 * qty) ----------------
Lev == H.lev
Near(a, b, tol) == Abs(a - b) <= tol
\* bankruptcy = entry * (1 -+ 1/L): priceU * L = entryU * (L -+ 1), each side rounded to half a unit
BankOK(priceU, entryU, side) == Near(priceU * Lev, entryU * (IF side = "long" THEN Lev - 1 ELSE Lev + 1), 2 * Lev + 2)
\* wallet' = wallet - entry*|q|/L - |q|*bankruptcy*fee
FeeU(q8, priceU) == (((q8 * priceU) \div 8) * H.fee[1]) \div H.fee[2]
\* liquidation price of the CURRENT entry price (LiqArith.tla): |entry - liq| = entry * (250 - L) / (250 * L)
LiqFormulaOK(liqU, entryU, side) ==
  Near((IF side = "long" THEN entryU - liqU ELSE liqU - entryU) * Lev * 250, entryU * (250 - Lev), 300 * Lev + 200)
WalletOK(pre, post, q8, entryU, priceU) ==
  Near((pre - post - FeeU(q8, priceU)) * Lev * 8, entryU * q8, 8 * (4 * Lev + 4) + q8)

\* ---------------- events ----------------
E == Ev[l]
\* class of a market order whose price is not the current price: a reduce-only exit whose declared price is
\* within 0.015 % of the current price (Broker.reduce_position_at routes it to a market order but keeps the
\* declared price); pu / cu are the prices rounded to 1/1000
NearDeclared == E.ro /\ E.cu > 0 /\ Abs(E.pu - E.cu) <= 20000 /\ Abs(E.pu - E.cu) * 100000 <= 15 * E.cu + 200000
Submit ==
  IF E.typ = "MARKET"
  THEN IF L.on
       THEN /\ L' = [L EXCEPT !.sub = E.oid, !.subs = @ + 1, !.bank = E.pu]     \* the liquidation order
            /\ verdict' = IF ~On("liq") \/ ~(L.should \/ L.mustnot) THEN "ok"
                          ELSE IF ~E.ro THEN "liq:closing-order-not-reduce-only"
                          ELSE IF E.side # (IF L.side = "long" THEN "sell" ELSE "buy") THEN "liq:closing-order-on-the-wrong-side"
                          ELSE IF E.q8 # Abs(L.qty) THEN "liq:closing-order-not-for-the-whole-position"
                          ELSE IF ~BankOK(E.pu, L.entry, L.side) THEN "liq:closing-order-not-at-the-bankruptcy-price"
                          ELSE "ok"
            /\ M' = With(M, E.oid, [p |-> E.p, q |-> E.qh, liq |-> TRUE, hook |-> FALSE, born |-> 0, bmin |-> 0, t |-> E.t])
            /\ UNCHANGED <<A>>
       ELSE /\ verdict' = IF On("market") /\ E.p # E.cur
                          THEN "market:price-is-not-the-current-price-at-submission" \o
                               (IF NearDeclared THEN ":reduce-only-exit-declared-within-0.015%-of-the-current-price" ELSE "")
                          ELSE "ok"
            \* hook: created by a strategy hook inside a fill while a candle is being matched - the order is
            \* ACTIVE at the current price, i.e. at the point of the path where the fill happened
            /\ M' = With(M, E.oid, [p |-> E.p, q |-> E.qh, liq |-> FALSE, hook |-> ph # "none", born |-> lastPos,
                                    bmin |-> IF ph = "chunk" THEN E.t ELSE 0, t |-> E.t])
            /\ UNCHANGED <<A, L>>
  ELSE /\ A' = With(A, E.oid, [p |-> E.p, q |-> E.qh,
                               born |-> IF L.on THEN NoReach ELSE IF ph = "minute" THEN lastPos ELSE 0,
                               bmin |-> IF ph = "chunk" THEN (IF L.on THEN ci + cn ELSE E.t) ELSE 0])
       /\ verdict' = "ok" /\ UNCHANGED <<M, L>>

\* a real fill: status ACTIVE -> EXECUTED
FillResting ==
  LET o == E.oid a == A[o] IN
  /\ A' = Without(A, o)
  /\ IF ph = "minute"
     THEN LET r == Reach(o) IN
          /\ verdict' = IF r = NoReach
                        THEN (IF On("fill") \/ On("path") THEN "fill:" \o H.mode \o ":filled-although-the-path-ahead-does-not-reach-its-price" ELSE "ok")
                        ELSE IF \E j \in DOMAIN A : j # o /\ Reach(j) < r
                        THEN (IF On("fill") \/ On("path") THEN "path:" \o H.mode \o ":filled-before-an-order-the-path-reaches-earlier" ELSE "ok")
                        ELSE IF \E j \in HookMarkets : ReachM(j) < r
                        THEN (IF On("fill") \/ On("path") \/ On("market")
                              THEN "path:" \o H.mode \o ":filled-while-a-market-order-created-inside-an-earlier-fill-was-still-pending" ELSE "ok")
                        ELSE IF On("fill") /\ (E.p # a.p \/ E.qh # a.q) THEN "fill:not-at-its-own-price-and-quantity"
                        ELSE IF On("fill") /\ E.dq8 # 99999 /\ E.dq8 # E.sq8 THEN "fill:position-did-not-change-by-the-order-quantity"
                        ELSE "ok"
          /\ lastPos' = IF r = NoReach THEN lastPos ELSE r
          /\ UNCHANGED D
     ELSE IF ph = "chunk"
     THEN /\ verdict' = IF On("fill") /\ ~(E.t \in ChunkMins /\ InMinute(E.t, a.p)) THEN "fill:fast:filled-in-a-minute-whose-range-does-not-contain-its-price"
                        ELSE IF On("fill") /\ (E.p # a.p \/ E.qh # a.q) THEN "fill:not-at-its-own-price-and-quantity"
                        ELSE IF On("fill") /\ E.dq8 # 99999 /\ E.dq8 # E.sq8 THEN "fill:position-did-not-change-by-the-order-quantity"
                        ELSE "ok"
          /\ D' = With(D, o, [p |-> a.p, bmin |-> a.bmin, at |-> E.t, st |-> "E"])
          /\ UNCHANGED lastPos
     ELSE /\ verdict' = IF On("fill") THEN "fill:resting-order-executed-outside-the-matching-of-a-candle" ELSE "ok"
          /\ UNCHANGED <<D, lastPos>>
  /\ UNCHANGED <<M, L>>
FillMarket ==
  LET o == E.oid m == M[o] IN
  /\ M' = Without(M, o)
  /\ verdict' = IF m.liq THEN "ok"
                ELSE IF On("market") /\ (E.p # m.p \/ E.qh # m.q) THEN "market:not-at-the-price-and-quantity-it-was-submitted-with"
                ELSE "ok"
  /\ L' = IF m.liq THEN [L EXCEPT !.exe = o] ELSE L
  /\ lastPos' = IF ph = "minute" /\ m.hook /\ ReachM(o) # NoReach THEN ReachM(o) ELSE lastPos
  /\ UNCHANGED <<A, D>>
Exec ==
  IF E.pre = "ACTIVE" /\ E.post = "EXECUTED"
  THEN IF E.oid \in DOMAIN A THEN FillResting
       ELSE IF E.oid \in DOMAIN M THEN FillMarket
       ELSE /\ verdict' = "fill:execution-of-an-order-that-was-never-submitted-or-is-not-active" /\ UNCHANGED <<A, D, M, L, lastPos>>
  ELSE /\ verdict' = IF E.pre = "CANCELED" /\ E.post = "EXECUTED" /\ On("fill") THEN "fill:executed-after-its-cancellation" ELSE "ok"
       /\ UNCHANGED <<A, D, M, L, lastPos>>
Cancel ==
  /\ IF E.pre = "ACTIVE" /\ E.post = "CANCELED"
     THEN /\ A' = Without(A, E.oid) /\ M' = Without(M, E.oid)
          /\ D' = IF ph = "chunk" /\ E.oid \in DOMAIN A
                  THEN With(D, E.oid, [p |-> A[E.oid].p, bmin |-> A[E.oid].bmin, st |-> "C",
                                       at |-> IF L.on THEN ci + cn + 1 ELSE E.t])
                  ELSE D
     ELSE UNCHANGED <<A, M, D>>
  /\ verdict' = "ok" /\ UNCHANGED <<L, lastPos>>

PendingMarket == {o \in DOMAIN M : ~M[o].liq}
\* outside the matching of a candle a pending market order is only owed the flush before the next candle
Unhook == [o \in DOMAIN M |-> [M[o] EXCEPT !.hook = FALSE]]
\* a market order submitted during minute t (its own or, with several routes, another symbol's processing of that
\* minute) is owed its fill before a candle later than t is processed
BeginCandle == IF On("market") /\ (\E o \in PendingMarket : M[o].t < E.i) THEN "market:not-executed-before-the-next-candle-was-processed"
               ELSE IF ph # "none" THEN "machinery:nested-candle-events" ELSE "ok"
Minute == /\ verdict' = BeginCandle /\ ph' = "minute" /\ ci' = E.i /\ cn' = 1 /\ lastPos' = 0
          /\ A' = [o \in DOMAIN A |-> [A[o] EXCEPT !.born = 0]] /\ D' = Empty
\* C09 at the end of a candle whose liquidation check was not run at all (no liqcheck event): the position
\* after matching is the one logged with minute_end / chunk_end
EndLiqVerdict(rlo, rhi) ==
  IF On("liq") /\ ~L.seen /\ E.haspos /\ H.levmode = "isolated" /\ E.q8 # 0 /\ E.liq # 0 /\ rlo <= E.liq /\ E.liq <= rhi
  THEN "liq:not-liquidated-although-the-range-contains-the-liquidation-price" ELSE "ok"
First2(a, b) == IF a # "ok" THEN a ELSE b
MinuteEnd == /\ verdict' = First2(StepVerdict, EndLiqVerdict(Raw(ci).l, Raw(ci).h)) /\ ph' = "none" /\ UNCHANGED <<ci, cn, lastPos, A, D>>
Chunk == /\ verdict' = BeginCandle /\ ph' = "chunk" /\ ci' = E.i /\ cn' = E.n /\ lastPos' = 0 /\ D' = Empty
         /\ A' = [o \in DOMAIN A |-> [A[o] EXCEPT !.born = 0]]
ChunkEnd == /\ verdict' = First2(ChunkVerdict, EndLiqVerdict(MinL([m \in 1..cn |-> Raw(ci + m - 1)]), MaxH([m \in 1..cn |-> Raw(ci + m - 1)])))
            /\ ph' = "none" /\ UNCHANGED <<ci, cn, lastPos, A, D>>

\* C09.  raw range -> must liquidate; outside the range extended to the previous close -> must not;
\* in between (liquidation price only inside the close->open gap) the statement is silent: skipped, counted
RangeLoRaw == IF ph = "chunk" THEN MinL([m \in 1..cn |-> Raw(ci + m - 1)]) ELSE Raw(ci).l
RangeHiRaw == IF ph = "chunk" THEN MaxH([m \in 1..cn |-> Raw(ci + m - 1)]) ELSE Raw(ci).h
RangeLoExt == Min2(RangeLoRaw, PrevClose(ci))
RangeHiExt == Max2(RangeHiRaw, PrevClose(ci))
LiqCheck ==
  LET open == E.q8 # 0
      iso == H.levmode = "isolated"
      hasLiq == E.liq # 0
      inRaw == hasLiq /\ RangeLoRaw <= E.liq /\ E.liq <= RangeHiRaw
      inExt == hasLiq /\ RangeLoExt <= E.liq /\ E.liq <= RangeHiExt
      should == iso /\ open /\ inRaw
      mustnot == ~(iso /\ open /\ inExt)
  IN /\ L' = [on |-> TRUE, seen |-> TRUE, cnt |-> E.count, qty |-> E.q8, should |-> should, mustnot |-> mustnot, sub |-> 0, exe |-> 0,
              wal |-> E.wal, entry |-> E.entry, side |-> IF E.q8 > 0 THEN "long" ELSE IF E.q8 < 0 THEN "short" ELSE "none",
              subs |-> 0, bank |-> 0]
     /\ skips' = skips + (IF ~should /\ ~mustnot THEN 1 ELSE 0)
     /\ verdict' = IF ph = "none" THEN "machinery:liquidation-check-outside-a-candle"
                   ELSE IF On("liq") /\ E.count # L.cnt THEN "liq:counter-changed-outside-the-liquidation-check"
                   ELSE IF On("liq") /\ iso /\ open /\ ~hasLiq THEN "liq:open-isolated-position-without-a-liquidation-price"
                   ELSE IF On("liq") /\ iso /\ open /\ ~LiqFormulaOK(E.liqu, E.entry, IF E.q8 > 0 THEN "long" ELSE "short")
                   THEN "liq:liquidation-price-is-not-the-one-of-the-current-entry-price-and-leverage"
                   ELSE IF ph = "minute" THEN StepVerdict ELSE ChunkVerdict      \* matching is over: nothing missed
LiqCheckEnd ==
  LET did == E.count # L.cnt IN
  /\ L' = [NoL EXCEPT !.cnt = E.count, !.seen = TRUE]
  /\ verdict' =
       IF ~On("liq") THEN "ok"
       ELSE IF L.should /\ ~did THEN "liq:not-liquidated-although-the-range-contains-the-liquidation-price"
       ELSE IF L.mustnot /\ did THEN "liq:liquidated-although-" \o (IF H.levmode # "isolated" THEN "the-session-is-" \o H.levmode
                                        ELSE IF L.qty = 0 THEN "no-position-is-open" ELSE "the-range-does-not-contain-the-liquidation-price")
       ELSE IF ~did
       THEN (IF L.subs # 0 \/ E.q8 # L.qty \/ E.wal # L.wal THEN "liq:position-or-wallet-changed-without-a-liquidation" ELSE "ok")
       ELSE IF E.count # L.cnt + 1 THEN "liq:counted-more-than-once"
       ELSE IF L.subs # 1 \/ L.exe # L.sub \/ L.exe = 0 THEN "liq:not-closed-by-exactly-one-executed-market-order"
       ELSE IF E.q8 # 0 THEN "liq:position-still-open-after-the-liquidation"
       ELSE IF ~WalletOK(L.wal, E.wal, Abs(L.qty), L.entry, L.bank) THEN "liq:wallet-did-not-lose-initial-margin-plus-fee"
       ELSE IF DOMAIN A # {} THEN "liq:resting-orders-left-after-the-liquidation"
       ELSE "ok"
  /\ UNCHANGED skips

Machinery == {"machinery:nested-candle-events", "machinery:liquidation-check-outside-a-candle"}
Halt == Cardinality(DOMAIN bad) >= 8 \/ DOMAIN bad \cap Machinery # {}
Step ==
  /\ ~Halt /\ l <= Len(Ev)
  /\ CASE E.k = "submit" -> Submit /\ UNCHANGED <<ph, ci, cn, lastPos, D, skips>>
       [] E.k = "exec" -> Exec /\ UNCHANGED <<ph, ci, cn, skips>>
       [] E.k = "cancel" -> Cancel /\ UNCHANGED <<ph, ci, cn, skips>>
       [] E.k = "minute" -> Minute /\ M' = Unhook /\ L' = [L EXCEPT !.seen = FALSE] /\ UNCHANGED <<skips>>
       [] E.k = "minute_end" -> MinuteEnd /\ M' = Unhook /\ UNCHANGED <<L, skips>>
       [] E.k = "chunk" -> Chunk /\ M' = Unhook /\ L' = [L EXCEPT !.seen = FALSE] /\ UNCHANGED <<skips>>
       [] E.k = "chunk_end" -> ChunkEnd /\ M' = Unhook /\ UNCHANGED <<L, skips>>
       [] E.k = "liqcheck" -> LiqCheck /\ UNCHANGED <<ph, ci, cn, lastPos, A, D, M>>
       [] E.k = "liqcheck_end" -> LiqCheckEnd /\ UNCHANGED <<ph, ci, cn, lastPos, A, D, M>>
       [] E.k = "end" -> /\ verdict' = IF On("market") /\ PendingMarket # {} THEN "market:never-executed" ELSE "ok"
                         /\ UNCHANGED <<ph, ci, cn, lastPos, A, D, M, L, skips>>
       \* C09, several routes: the liquidation check of ANOTHER symbol must leave this symbol alone
       [] E.k = "xliq" -> verdict' = "ok" /\ UNCHANGED <<ph, ci, cn, lastPos, A, D, M, L, skips>>
       [] E.k = "xliq_end" -> /\ verdict' = IF On("liq") /\ X.on /\ H.passive /\ E.q8 # X.q
                                             THEN "liq:position-of-another-symbol-changed-by-a-liquidation" ELSE "ok"
                              /\ L' = [L EXCEPT !.cnt = E.count]      \* the counter is global to the session
                              /\ UNCHANGED <<ph, ci, cn, lastPos, A, D, M, skips>>
  /\ X' = IF E.k = "xliq" THEN [on |-> TRUE, q |-> E.q8] ELSE IF E.k = "xliq_end" THEN [on |-> FALSE, q |-> 0] ELSE X
  /\ LET xv == IF On("liq") /\ X.on /\ H.passive /\ E.k \in {"submit", "exec", "cancel"} /\ (E.k = "submit" \/ E.pre = "ACTIVE")
                THEN "liq:order-of-another-symbol-touched-by-a-liquidation" ELSE "ok"
         Add(b, v) == IF v = "ok" \/ v \in DOMAIN b THEN b ELSE With(b, v, l)
     IN bad' = Add(Add(bad, verdict'), xv)
  /\ l' = l + 1 /\ UNCHANGED tid
Spec == Init /\ [][Step]_vars
Finished == Halt \/ l > Len(Ev)
First == IF DOMAIN bad = {} THEN "ok" ELSE CHOOSE c \in DOMAIN bad : \A d \in DOMAIN bad : bad[c] <= bad[d]
AllBad == LET RECURSIVE AsSeq(_)
              AsSeq(S) == IF S = {} THEN <<>> ELSE LET c == CHOOSE x \in S : TRUE IN <<<<c, bad[c]>>>> \o AsSeq(S \ {c})
          IN AsSeq(DOMAIN bad)
Report == Finished => PrintT(<<"VERDICT", Traces[tid].id, l - 1, First, skips, AllBad>>)
=============================================================================
