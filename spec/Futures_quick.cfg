\* reference configuration (the checks generate their configurations from harness/drivers/acct.py:model_cfg)
SPECIFICATION Spec
VIEW ViewAcct
CONSTRAINT Depth
CHECK_DEADLOCK FALSE
CONSTANTS
 Syms = {"A"}
 Qtys = {1, 2}
 Prices = {8, 12}
 FeeNum = 1 FeeDen = 16 Start = 30
 MaxDepth = 4 MaxAct = 3 MaxOrd = 4
 Dups = FALSE CancelOnClose = TRUE Export = FALSE
 Lev = 2
INVARIANT ReservedBag
INVARIANT MarginIsReference
INVARIANT FlatHasNoEntry
INVARIANT ActiveReported
INVARIANT ExecutedInExactlyOneTrade
INVARIANT NoReduceOnlyWhenFlat
PROPERTY MTMStep
PROPERTY ReduceOnlyNeverIncreasesOrFlips
PROPERTY AvgCostStep
PROPERTY FlushPerFill
PROPERTY RejectIff
PROPERTY SubmitCancelRestores
PROPERTY FinalIsFinal
PROPERTY FinalOpsAreNoOps
