------------------------------ MODULE TraceSplit ------------------------------
(* C08 (second half) / C02 (gap normalisation), code -> spec.  Every event is    *)
(* one recorded call of the real services.candle.split_candle or                 *)
(* backtest_mode._get_fixed_jumped_candle; values are dense ranks of the floats  *)
(* of that call (order-isomorphic).  TLC judges each result with the CONTRACT of *)
(* CandleSplit.tla / Lattice.tla only; agreement with the branch-by-branch       *)
(* transcription Split is counted separately (drift), it is not a verdict.       *)
EXTENDS CandleSplit, TLC, Json, IOUtils
Data == JsonDeserialize(IOEnv.TRACE_FILE)
Traces == Data.traces
VARIABLES tid, l, bad, drift
vars == <<tid, l, bad, drift>>
Ev == Traces[tid].ev
C4(r) == Cd(r[1], r[2], r[3], r[4])
Init == tid \in 1..Len(Traces) /\ l = 1 /\ bad = <<>> /\ drift = 0
CaseVerdict(e) ==
  IF e.k = "split"
  THEN IF e.none THEN "split:returned-nothing-for-a-price-inside-the-range"
       ELSE LET v == SplitVerdict(C4(e.cd), e.p, C4(e.e), C4(e.r)) IN IF v = "ok" THEN "ok" ELSE "split:" \o v
  ELSE LET f == C4(e.f) cd == C4(e.cd) IN
       IF ~ValidCandle(f) THEN "jump:not-a-valid-candle"
       ELSE IF f.o # e.pc THEN "jump:open-is-not-the-previous-close"
       ELSE IF f.c # cd.c THEN "jump:close-changed"
       ELSE IF f.l # ExtLo(e.pc, cd) \/ f.h # ExtHi(e.pc, cd) THEN "jump:range-is-not-the-range-extended-to-the-previous-close"
       ELSE "ok"
Drift(e) == IF e.k = "split" /\ ~e.none /\ Split(C4(e.cd), e.p) # <<C4(e.e), C4(e.r)>> THEN 1
            ELSE IF e.k = "jump" /\ FixJump(e.pc, C4(e.cd)) # C4(e.f) THEN 1 ELSE 0
Step == /\ l <= Len(Ev)
        /\ LET e == Ev[l] v == CaseVerdict(e) IN
           /\ bad' = IF v = "ok" \/ v \in DOMAIN bad THEN bad ELSE (v :> l) @@ bad
           /\ drift' = drift + Drift(e)
        /\ l' = l + 1 /\ UNCHANGED tid
Spec == Init /\ [][Step]_vars
First == IF DOMAIN bad = {} THEN "ok" ELSE CHOOSE c \in DOMAIN bad : \A d \in DOMAIN bad : bad[c] <= bad[d]
AllBad == LET RECURSIVE AsSeq(_)
              AsSeq(S) == IF S = {} THEN <<>> ELSE LET c == CHOOSE x \in S : TRUE IN <<<<c, bad[c]>>>> \o AsSeq(S \ {c})
          IN AsSeq(DOMAIN bad)
Report == l > Len(Ev) => PrintT(<<"VERDICT", Traces[tid].id, l - 1, First, drift, AllBad>>)
=============================================================================
