SPECIFICATION Spec
CONSTANTS Wn = 2 Wd = 5 Xs = {0, 1, 3} Steps = 6 Scale = 10
INVARIANT ErrorBound
CHECK_DEADLOCK FALSE
