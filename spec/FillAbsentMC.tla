----------------------------- MODULE FillAbsentMC -----------------------------
(* C20: every presence pattern of every interval of at most MaxLen minutes      *)
(* (plus an optional candle after the interval), symbolic distinct candle       *)
(* values; the implementation-shaped function must satisfy the property, and    *)
(* every pattern is exported (PATTERN lines) to be replayed into the real       *)
(* _fill_absent_candles.                                                        *)
EXTENDS FillAbsent, TLC, Json
CONSTANTS MaxLen, Starts, Export
VARIABLES start, len, present, extra, done
vars == <<start, len, present, extra, done>>
Candle(m) == <<m, 10 * m + 1, 10 * m + 2, 10 * m + 3, 10 * m, m + 1, m + 1>>      \* distinct symbolic values
RECURSIVE SetToSeq(_)
SetToSeq(S) == IF S = {} THEN <<>> ELSE LET m == CHOOSE x \in S : \A y \in S : x <= y IN <<m>> \o SetToSeq(S \ {m})
Given == LET ms == SetToSeq({start + p - 1 : p \in present} \cup (IF extra THEN {start + len + 1} ELSE {}))
         IN [j \in 1..Len(ms) |-> Candle(ms[j])]
Init == /\ start \in Starts /\ len \in 1..MaxLen /\ present \in SUBSET (1..len) /\ extra \in BOOLEAN
        /\ (present # {} \/ extra) /\ done = FALSE
Next == /\ ~done /\ done' = TRUE /\ UNCHANGED <<start, len, present, extra>>
        /\ (Export => PrintT(<<"PATTERN", ToJson([start |-> start, end |-> start + len - 1, given |-> Given])>>))
Spec == Init /\ [][Next]_vars
FillIsGaplessAndFaithful == FillVerdict(Given, start, start + len - 1, ImplFill(Given, start, start + len - 1)) = "ok"
=============================================================================
