----------------------------- MODULE FillAbsentMC -----------------------------
(* C20: every presence pattern of every interval of at most MaxLen minutes      *)
(* (plus an optional candle after the interval) combined with value-level       *)
(* corner cases: any subset of the provided candles closes at exactly 0, the    *)
(* first provided candle may open at 0, and all prices may be equal (flat       *)
(* market); otherwise the values are distinct.  The implementation-shaped       *)
(* function must satisfy the property (count, order, provided candles           *)
(* unchanged, open/close/high/low/volume VALUES of every filler), and every     *)
(* case is exported (PATTERN lines) to be replayed into the real                *)
(* _fill_absent_candles.  Batch SHAPES: ascending, newest-first, two pages in   *)
(* the wrong order, a minute delivered twice (copy later / earlier in the list),*)
(* a candle older than the requested start, all combined.  Variant "truthy" /   *)
(* "cursor" check a named deviation instead (TLC must find a counter-example).  *)
EXTENDS FillAbsent, TLC, Json
CONSTANTS MaxLen, Starts, Export, Variant        \* Variant: "code" | "truthy" | "cursor" (named deviations)
VARIABLES start, len, present, extra, zero, zopen, flat, shape, done
vars == <<start, len, present, extra, zero, zopen, flat, shape, done>>
Min2(a, b) == IF a < b THEN a ELSE b
Max2(a, b) == IF a > b THEN a ELSE b
RECURSIVE SetToSeq(_)
SetToSeq(S) == IF S = {} THEN <<>> ELSE LET m == CHOOSE x \in S : \A y \in S : x <= y IN <<m>> \o SetToSeq(S \ {m})
Minutes == SetToSeq({start + p - 1 : p \in present} \cup (IF extra THEN {start + len + 1} ELSE {}))
\* candle of minute m, the j-th provided one
Candle(m, j) ==
  LET o == IF j = 1 /\ zopen THEN 0 ELSE IF flat THEN 5 ELSE 10 * m + 1
      c == IF (m - start + 1) \in zero THEN 0 ELSE IF flat THEN 5 ELSE 10 * m + 2
  IN <<m, o, c, Max2(o, c) + (IF flat THEN 0 ELSE 1), Min2(o, c), m + 1, m + 1>>
Asc == [j \in 1..Len(Minutes) |-> Candle(Minutes[j], j)]
Rev(q) == [j \in 1..Len(q) |-> q[Len(q) - j + 1]]
Rot(q) == LET h == Len(q) \div 2 IN SubSeq(q, h + 1, Len(q)) \o SubSeq(q, 1, h)          \* two pages in the wrong order
Dup(q) == LET c == q[(Len(q) + 1) \div 2] IN Append(q, <<c[1], c[2] + 5, c[3] + 5, c[4] + 5, c[5] + 5, c[6] + 1, 99>>)   \* a minute delivered twice
Lead(q) == <<<<start - 2, 7, 8, 9, 6, 3, 98>>>> \o q                                     \* a candle older than the requested start
Shapes == {"asc", "desc", "rot", "dup", "dup-first", "lead", "lead+dup+desc"}
Given == CASE shape = "asc" -> Asc [] shape = "desc" -> Rev(Asc) [] shape = "rot" -> Rot(Asc) [] shape = "dup" -> Dup(Asc)
           [] shape = "dup-first" -> Rev(Dup(Asc)) [] shape = "lead" -> Lead(Asc) [] OTHER -> Rev(Lead(Dup(Asc)))
Init == /\ start \in Starts /\ len \in 1..MaxLen /\ present \in SUBSET (1..len) /\ extra \in BOOLEAN
        /\ (present # {} \/ extra) /\ zero \in SUBSET present /\ zopen \in BOOLEAN /\ flat \in BOOLEAN
        /\ (flat => (zero = {} /\ ~zopen)) /\ done = FALSE
        /\ shape \in Shapes /\ (shape # "asc" => (zero = {} /\ ~zopen /\ ~flat))     \* value corners x order shapes kept apart
Next == /\ ~done /\ done' = TRUE /\ UNCHANGED <<start, len, present, extra, zero, zopen, flat, shape>>
        /\ (Export => PrintT(<<"PATTERN", ToJson([start |-> start, end |-> start + len - 1, given |-> Given])>>))
Spec == Init /\ [][Next]_vars
Out == CASE Variant = "truthy" -> ImplFillTruthy(Given, start, start + len - 1)
         [] Variant = "cursor" -> ImplFillCursor(Given, start, start + len - 1)
         [] OTHER -> ImplFill(Given, start, start + len - 1)
FillIsGaplessAndFaithful == FillVerdict(Given, start, start + len - 1, Out) = "ok"
=============================================================================
