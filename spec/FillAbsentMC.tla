----------------------------- MODULE FillAbsentMC -----------------------------
(* C20: every presence pattern of every interval of at most MaxLen minutes      *)
(* (plus an optional candle after the interval) combined with value-level       *)
(* corner cases: any subset of the provided candles closes at exactly 0, the    *)
(* first provided candle may open at 0, and all prices may be equal (flat       *)
(* market); otherwise the values are distinct.  The implementation-shaped       *)
(* function must satisfy the property (count, order, provided candles           *)
(* unchanged, open/close/high/low/volume VALUES of every filler), and every     *)
(* case is exported (PATTERN lines) to be replayed into the real                *)
(* _fill_absent_candles.  QTruthy = TRUE checks the named deviation instead     *)
(* (TLC must then find the close = 0 counter-example).                          *)
EXTENDS FillAbsent, TLC, Json
CONSTANTS MaxLen, Starts, Export, QTruthy
VARIABLES start, len, present, extra, zero, zopen, flat, done
vars == <<start, len, present, extra, zero, zopen, flat, done>>
Min2(a, b) == IF a < b THEN a ELSE b
Max2(a, b) == IF a > b THEN a ELSE b
RECURSIVE SetToSeq(_)
SetToSeq(S) == IF S = {} THEN <<>> ELSE LET m == CHOOSE x \in S : \A y \in S : x <= y IN <<m>> \o SetToSeq(S \ {m})
Minutes == SetToSeq({start + p - 1 : p \in present} \cup (IF extra THEN {start + len + 1} ELSE {}))
\* candle of minute m, the j-th provided one
Candle(m, j) ==
  LET o == IF j = 1 /\ zopen THEN 0 ELSE IF flat THEN 5 ELSE 10 * m + 1
      c == IF (m - start + 1) \in zero THEN 0 ELSE IF flat THEN 5 ELSE 10 * m + 2
  IN <<m, o, c, Max2(o, c) + (IF flat THEN 0 ELSE 1), Min2(o, c), m + 1, m + 1>>
Given == [j \in 1..Len(Minutes) |-> Candle(Minutes[j], j)]
Init == /\ start \in Starts /\ len \in 1..MaxLen /\ present \in SUBSET (1..len) /\ extra \in BOOLEAN
        /\ (present # {} \/ extra) /\ zero \in SUBSET present /\ zopen \in BOOLEAN /\ flat \in BOOLEAN
        /\ (flat => (zero = {} /\ ~zopen)) /\ done = FALSE
Next == /\ ~done /\ done' = TRUE /\ UNCHANGED <<start, len, present, extra, zero, zopen, flat>>
        /\ (Export => PrintT(<<"PATTERN", ToJson([start |-> start, end |-> start + len - 1, given |-> Given])>>))
Spec == Init /\ [][Next]_vars
Out == IF QTruthy THEN ImplFillTruthy(Given, start, start + len - 1) ELSE ImplFill(Given, start, start + len - 1)
FillIsGaplessAndFaithful == FillVerdict(Given, start, start + len - 1, Out) = "ok"
=============================================================================
