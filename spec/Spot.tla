--------------------------------- MODULE Spot ---------------------------------
(* C04 (+ the order registry of C05).  Implementation-shaped model of the spot  *)
(* account of jesse: SpotExchange.on_order_submission/execution/cancellation    *)
(* (reserve on submit, stop/limit sell sums, settle on fill, release on cancel),*)
(* Position._on_executed_order/_update_qty in spot mode, Order.execute/cancel,  *)
(* OrdersState, ClosedTrades, Sandbox.cancel_all_orders.                        *)
(* Exact integer lattice: fee = FeeNum/K with K = FeeDen; base quantities in    *)
(* units of 1/K, money in units of 1/K^2, integer prices.  A buy has a whole    *)
(* quantity (multiple of K units); a sell has a whole quantity or "everything   *)
(* held".  Two deviations of the code from the cash-account reading of C04 are  *)
(* NAMED CONSTANTS, so that the same module is the intended reference (both     *)
(* FALSE: used for conformance) and the code as it is (TRUE):                   *)
(*   QuirkDoubleRelease  on_order_cancellation subtracts a cancelled sell from  *)
(*                       its stop/limit sum twice;                              *)
(*   QuirkFlip           a non-reduce-only sell fill larger than the position   *)
(*                       flips the Position object short (the exchange clamps   *)
(*                       the balance, the position does not follow).            *)
EXTENDS AcctBase, TLC, Json
CONSTANTS Syms, Qtys, Prices, FeeNum, FeeDen, Start,
          MaxDepth, MaxAct, MaxOrd, Dups, CancelOnClose, Export,
          QuirkDoubleRelease, QuirkFlip
VARIABLES st, hist
vars == <<st, hist>>

K == FeeDen
KF == FeeDen - FeeNum
ZeroMap == [s \in Syms |-> 0]
Z(S) == [S EXCEPT !.gquote = 0, !.gbase = ZeroMap]

InitState(c0) ==
  [ c0 |-> c0, ord |-> <<>>, alist |-> [s \in Syms |-> <<>>], pending |-> <<>>,
    trades |-> <<>>, temp |-> [s \in Syms |-> <<>>],
    quote |-> Start * K * K, base |-> ZeroMap, pos |-> ZeroMap, cur |-> c0,
    stopSum |-> ZeroMap, limitSum |-> ZeroMap, rej |-> FALSE,
    gquote |-> 0, gbase |-> ZeroMap ]

\* ------------------------------------------------------------------ implementation-shaped part
IsSell(o) == o.side = "sell"
\* SpotExchange.on_order_submission.  The code updates the sums / the quote balance before it validates;
\* a rejection ends the session, so the model leaves the state untouched and only raises the flag.
SubmitAccept(S, o) ==
  LET s == o.sym  id == Len(S.ord) + 1 IN
  [S EXCEPT !.ord = Append(@, o), !.alist[s] = Append(@, id),
            !.pending = IF o.typ = "MKT" THEN Append(@, id) ELSE @,
            !.stopSum[s] = IF IsSell(o) /\ o.typ = "STP" THEN @ + o.q ELSE @,
            !.limitSum[s] = IF IsSell(o) /\ o.typ = "LMT" THEN @ + o.q ELSE @,
            !.quote = IF IsSell(o) THEN @ ELSE @ - o.q * o.p * K]
ImplRejects(S, o) ==
  LET s == o.sym
      stop1 == IF IsSell(o) /\ o.typ = "STP" THEN S.stopSum[s] + o.q ELSE S.stopSum[s]
      lim1 == IF IsSell(o) /\ o.typ = "LMT" THEN S.limitSum[s] + o.q ELSE S.limitSum[s]
      selling == CASE o.typ = "MKT" -> o.q + S.limitSum[s] [] o.typ = "STP" -> stop1 [] OTHER -> lim1
  IN IF IsSell(o) THEN selling > S.base[s] ELSE S.quote - o.q * o.p * K < 0
SubmitEff(S, o) ==
  LET s == o.sym
      stop1 == IF IsSell(o) /\ o.typ = "STP" THEN S.stopSum[s] + o.q ELSE S.stopSum[s]
      lim1 == IF IsSell(o) /\ o.typ = "LMT" THEN S.limitSum[s] + o.q ELSE S.limitSum[s]
      selling == CASE o.typ = "MKT" -> o.q + S.limitSum[s] [] o.typ = "STP" -> stop1 [] OTHER -> lim1
      rej == IF IsSell(o) THEN selling > S.base[s] ELSE S.quote - o.q * o.p * K < 0
  IN IF rej THEN [S EXCEPT !.rej = TRUE] ELSE SubmitAccept(S, o)

\* Order.cancel + SpotExchange.on_order_cancellation.  Every effect below exists in a form parametrised by the two
\* quirks (dr = double release, fl = flip) so that TraceSpot.tla can name a deviation of the code; the model's
\* actions use the constants.
CancelOneQ(S, id, dr) ==
  LET o == S.ord[id]  s == o.sym  times == IF dr THEN 2 ELSE 1 IN
  IF o.st # "A" THEN S
  ELSE [S EXCEPT !.ord[id].st = "C",
                 !.stopSum[s] = IF IsSell(o) /\ o.typ = "STP" THEN @ - times * o.q ELSE @,
                 !.limitSum[s] = IF IsSell(o) /\ o.typ = "LMT" THEN @ - times * o.q ELSE @,
                 !.quote = IF IsSell(o) THEN @ ELSE @ + o.q * o.p * K]
RECURSIVE CancelSeqQ(_, _, _)
CancelSeqQ(S, ids, dr) == IF ids = <<>> THEN S ELSE CancelSeqQ(CancelOneQ(S, Head(ids), dr), Tail(ids), dr)

\* Position._on_executed_order / _update_qty in spot mode (qty after fee on buys)
PosAfterQ(p0, o, fl) ==
  IF ~IsSell(o)
  THEN LET credit == (o.q * KF) \div K IN
       IF p0 = 0 THEN credit                                  \* open: set qty*(1-fee)
       ELSE IF p0 > 0 THEN (IF o.ro THEN p0 ELSE p0 + credit) \* increase
       ELSE IF p0 + o.q = 0 THEN 0                            \* (short states exist only under the flip quirk)
       ELSE IF o.q > -p0 THEN (IF o.ro THEN 0 ELSE ((p0 + o.q) * KF) \div K) ELSE p0 + o.q
  ELSE IF p0 = 0 THEN (IF fl THEN -((o.q * KF) \div K) ELSE 0)               \* "opens" a short
       ELSE IF p0 - o.q = 0 THEN 0                            \* close
       ELSE IF p0 < 0 THEN (IF o.ro THEN p0 ELSE p0 - o.q)
       ELSE IF o.q > p0 THEN (IF o.ro \/ ~fl THEN 0 ELSE ((p0 - o.q) * KF) \div K)         \* close / flip
       ELSE p0 - o.q                                          \* reduce
ClosesTrade(p0, p1) == p0 # 0 /\ (p1 = 0 \/ p0 * p1 < 0)

\* Order.execute: guard, status, trade record, SpotExchange.on_order_execution, position, strategy hook
ExecOneQ(S, id, dr, fl) ==
  LET o == S.ord[id] IN
  IF o.st # "A" THEN S ELSE
  LET s == o.sym
      eff == IF IsSell(o) THEN Max2(0, Min2(o.q, S.base[s])) ELSE 0   \* the exchange clamps an oversize sell
      credit == (o.q * KF) \div K
      p0 == S.pos[s]
      p1 == PosAfterQ(p0, o, fl)
      closes == ClosesTrade(p0, p1)
      S1 == [S EXCEPT !.ord[id].st = "E",
                      !.temp[s] = IF closes THEN <<>> ELSE Append(@, id),
                      !.trades = IF closes THEN Append(@, Append(S.temp[s], id)) ELSE @,
                      !.stopSum[s] = IF IsSell(o) /\ o.typ = "STP" THEN @ - o.q ELSE @,
                      !.limitSum[s] = IF IsSell(o) /\ o.typ = "LMT" THEN @ - o.q ELSE @,
                      !.base[s] = IF IsSell(o) THEN @ - eff ELSE @ + credit,
                      !.quote = IF IsSell(o) THEN @ + eff * o.p * KF ELSE @,
                      !.pos[s] = p1,
                      !.gbase[s] = @ + (IF IsSell(o) THEN -eff ELSE credit),
                      !.gquote = @ + (IF IsSell(o) THEN eff * o.p * KF ELSE -(o.q * o.p * K))]
  IN IF p1 = 0 /\ CancelOnClose
     THEN [CancelSeqQ(S1, S1.alist[s], dr) EXCEPT !.alist[s] = <<>>]
     ELSE S1
RECURSIVE ExecSeqQ(_, _, _, _)
ExecSeqQ(S, ids, dr, fl) == IF ids = <<>> THEN S ELSE ExecSeqQ(ExecOneQ(S, Head(ids), dr, fl), Tail(ids), dr, fl)
FlushEffQ(S, dr, fl) == [ExecSeqQ(S, S.pending, dr, fl) EXCEPT !.pending = <<>>]
CancelAllEffQ(S, s, dr) == CancelSeqQ(S, S.alist[s], dr)
PruneEff(S, s) == [S EXCEPT !.alist[s] = SelectSeq(@, LAMBDA i : S.ord[i].st = "A")]
PriceEff(S, s, p) == [S EXCEPT !.cur[s] = p]
ExecuteEffQ(S, id, dr, fl) ==
  LET o == S.ord[id] IN
  IF o.st = "A" /\ o.typ # "MKT" THEN ExecOneQ(PriceEff(S, o.sym, o.p), id, dr, fl) ELSE ExecOneQ(S, id, dr, fl)

CancelOne(S, id) == CancelOneQ(S, id, QuirkDoubleRelease)
ExecuteEff(S, id) == ExecuteEffQ(S, id, QuirkDoubleRelease, QuirkFlip)
FlushEff(S) == FlushEffQ(S, QuirkDoubleRelease, QuirkFlip)
CancelAllEff(S, s) == CancelAllEffQ(S, s, QuirkDoubleRelease)

\* ------------------------------------------------------------------ environment
NActive(S) == Cardinality({i \in 1..Len(S.ord) : S.ord[i].st = "A"})
\* every action appends to the history and (when exporting) prints the transition with its witness
Edge == Export => PrintT(<<"EDGE", ToJson([hist |-> hist', cur0 |-> st.c0])>>)
H(e) == hist' = Append(hist, e) /\ Edge
Init == /\ st \in {InitState(c0) : c0 \in [Syms -> Prices]} /\ hist = <<>>

Submit(s, side, typ, q, p0, ro) ==
  LET p == IF typ = "MKT" THEN st.cur[s] ELSE p0
      o == [sym |-> s, side |-> side, typ |-> typ, q |-> q, p |-> p, ro |-> ro, st |-> "A"] IN
  /\ ~st.rej /\ Len(st.ord) < MaxOrd /\ NActive(st) < MaxAct
  /\ (typ = "MKT" => p0 = st.cur[s])
  /\ (ro => side = "sell" /\ st.pos[s] > 0)
  /\ st' = SubmitEff(Z(st), o)
  /\ H([op |-> "submit", sym |-> s, side |-> side, typ |-> typ, q |-> q, p |-> p, ro |-> ro])
Cancel(id) ==
  /\ ~st.rej /\ id \in 1..Len(st.ord) /\ (Dups \/ st.ord[id].st = "A")
  /\ st' = CancelOne(Z(st), id) /\ H([op |-> "cancel", id |-> id])
Execute(id) ==
  /\ ~st.rej /\ id \in 1..Len(st.ord) /\ (Dups \/ st.ord[id].st = "A")
  /\ st' = ExecuteEff(Z(st), id) /\ H([op |-> "exec", id |-> id])
Flush == /\ ~st.rej /\ st.pending # <<>> /\ st' = FlushEff(Z(st)) /\ H([op |-> "flush"])
CancelAll(s) == /\ Dups /\ ~st.rej /\ st.alist[s] # <<>>
                /\ st' = CancelAllEff(Z(st), s) /\ H([op |-> "cancelall", sym |-> s])
Prune(s) == /\ Dups /\ ~st.rej /\ \E i \in SeqSet(st.alist[s]) : st.ord[i].st # "A"
            /\ st' = PruneEff(Z(st), s) /\ H([op |-> "prune", sym |-> s])
SetPrice(s, p) == /\ ~st.rej /\ p # st.cur[s] /\ st' = PriceEff(Z(st), s, p) /\ H([op |-> "price", sym |-> s, p |-> p])

\* quantities offered to the environment: whole numbers (in base units) and, for a sell, everything held
SubmitQtys(s, side) == {k * K : k \in Qtys} \cup (IF side = "sell" /\ st.base[s] > 0 THEN {st.base[s]} ELSE {})
Next ==
  \/ \E s \in Syms, side \in {"buy", "sell"}, typ \in {"MKT", "LMT", "STP"}, p \in Prices, ro \in BOOLEAN :
        \E q \in SubmitQtys(s, side) : Submit(s, side, typ, q, p, ro)
  \/ \E id \in 1..MaxOrd : Cancel(id)
  \/ \E id \in 1..MaxOrd : Execute(id)
  \/ Flush
  \/ \E s \in Syms : CancelAll(s)
  \/ \E s \in Syms : Prune(s)
  \/ \E s \in Syms, p \in Prices : SetPrice(s, p)
Spec == Init /\ [][Next]_vars
Depth == Len(hist) < MaxDepth

ActSeq(S) == SelectSeq(S.ord, LAMBDA o : o.st = "A")
Rank(S, id) == Cardinality({j \in 1..id : S.ord[j].st = "A"})
ActRanks(S, ids) == LET a == SelectSeq(ids, LAMBDA i : S.ord[i].st = "A") IN [k \in 1..Len(a) |-> Rank(S, a[k])]
ViewAcct == <<ActSeq(st), ActRanks(st, st.pending), st.quote, st.base, st.pos, st.cur, st.stopSum, st.limitSum, st.rej>>
ViewFull == <<st.ord, st.alist, st.pending, st.trades, st.temp, st.quote, st.base, st.pos, st.cur, st.stopSum,
              st.limitSum, st.rej>>

\* ------------------------------------------------------------------ the properties (reference cash account)
ActiveIds(S, s) == {i \in 1..Len(S.ord) : S.ord[i].st = "A" /\ S.ord[i].sym = s}
RECURSIVE SumQ(_, _)
SumQ(S, ids) == IF ids = {} THEN 0 ELSE LET i == CHOOSE x \in ids : TRUE IN S.ord[i].q + SumQ(S, ids \ {i})
RestingSells(S, s, typ) == {i \in ActiveIds(S, s) : S.ord[i].side = "sell" /\ S.ord[i].typ = typ}
RefStopSum(S, s) == SumQ(S, RestingSells(S, s, "STP"))
RefLimitSum(S, s) == SumQ(S, RestingSells(S, s, "LMT"))
RECURSIVE SumCost(_, _)
SumCost(S, ids) == IF ids = {} THEN 0 ELSE LET i == CHOOSE x \in ids : TRUE
                                           IN S.ord[i].q * S.ord[i].p * K + SumCost(S, ids \ {i})
\* quote reserved by resting buys
ReservedQuote(S) == SumCost(S, {i \in 1..Len(S.ord) : S.ord[i].st = "A" /\ S.ord[i].side = "buy"})

NonNegativeOf(S) == S.quote >= 0 /\ \A s \in Syms : S.base[s] >= 0
NonNegative == NonNegativeOf(st)
PositionIsBase == \A s \in Syms : st.pos[s] = st.base[s]            \* implies NoShort together with NonNegative
NoShort == \A s \in Syms : st.pos[s] >= 0
SumsOf(S) == \A s \in Syms : S.stopSum[s] = RefStopSum(S, s) /\ S.limitSum[s] = RefLimitSum(S, s)
SumsAreActiveSells == SumsOf(st)
ActiveReported == \A s \in Syms :
   LET rep == SelectSeq(st.alist[s], LAMBDA i : st.ord[i].st = "A")
   IN SeqSet(rep) = ActiveIds(st, s) /\ Len(rep) = Cardinality(ActiveIds(st, s))
TradeCount(S, i) == Count(Flatten(S.trades), i) + Cardinality({s \in Syms : i \in SeqSet(S.temp[s])})
\* (stated on the concatenation of all trade order lists: no order twice, and exactly the executed ones)
RECURSIVE TempCat(_, _)
TempCat(S, ss) == IF ss = {} THEN <<>> ELSE LET s == CHOOSE x \in ss : TRUE IN S.temp[s] \o TempCat(S, ss \ {s})
OneTradeOf(S) ==
   LET all == Flatten(S.trades) \o TempCat(S, Syms) IN
   /\ Len(all) = Cardinality(SeqSet(all))
   /\ SeqSet(all) = {i \in 1..Len(S.ord) : S.ord[i].st = "E"}
ExecutedInExactlyOneTrade == OneTradeOf(st)
\* used as INVARIANTs of the as-is configurations: print the shortest history that breaks the property
Cex(name, ok) == ok \/ (PrintT(<<"CEX", name, ToJson([hist |-> hist, cur0 |-> st.c0])>>) /\ FALSE)
CexSums == Cex("SumsAreActiveSells", SumsAreActiveSells)
CexPosition == Cex("PositionIsBase", PositionIsBase /\ NoShort)

Last == hist'[Len(hist')]
RECURSIVE Dot(_, _, _)
Dot(m, cv, ss) == IF ss = {} THEN 0 ELSE LET s == CHOOSE x \in ss : TRUE IN m[s] * cv[s] * K + Dot(m, cv, ss \ {s})
\* conservation in mark-to-market form: free quote + quote reserved by ACTIVE buys + holdings valued at cv
Worth(S, cv) == S.quote + ReservedQuote(S) + Dot(S.base, cv, Syms)
Conservation == [][\A cv \in [Syms -> Prices] :
                      Worth(st', cv) - Worth(st, cv) = st'.gquote + Dot(st'.gbase, cv, Syms)]_vars
IsFill == Last.op = "exec" /\ st.ord[Last.id].st = "A"
FillOrd == st.ord[Last.id]
\* one fill, reference deltas: a buy credits qty(1-fee) of base (its cost was reserved at submission), a sell
\* debits what is sold (never more than held) and credits qty*price*(1-fee) of quote; when the position closes
\* and the strategy layer cancels what rests, the reserved quote of the cancelled buys comes back
CashOK(S, id, S1) ==
  LET o == S.ord[id]  s == o.sym
      sold == Min2(o.q, S.base[s])
      back == ReservedQuote(S) - ReservedQuote(S1) - (IF o.side = "buy" THEN o.q * o.p * K ELSE 0)
  IN /\ S1.base[s] = (IF o.side = "buy" THEN S.base[s] + (o.q * KF) \div K ELSE S.base[s] - sold)
     /\ S1.quote = S.quote + (IF o.side = "buy" THEN 0 ELSE sold * o.p * KF) + back
     /\ S1.pos[s] = S1.base[s]
     /\ \A x \in Syms \ {s} : S1.base[x] = S.base[x]
CashStep == [][IsFill => CashOK(st, Last.id, st')]_vars
\* pending market orders flushed together: the per-fill statement on every intermediate state of the flush
RECURSIVE FillsOK(_, _)
FillsOK(S, ids) ==
  IF ids = <<>> THEN TRUE
  ELSE LET id == Head(ids)  S1 == ExecOneQ(S, id, QuirkDoubleRelease, QuirkFlip)
       IN /\ IF S.ord[id].st = "A" THEN CashOK(S, id, S1)
             ELSE <<S1.quote, S1.base, S1.pos, S1.ord, S1.trades, S1.temp>> = <<S.quote, S.base, S.pos, S.ord, S.trades, S.temp>>
          /\ FillsOK(S1, Tail(ids))
FlushPerFill ==
  [][Last.op = "flush" =>
        /\ FillsOK(Z(st), st.pending)
        /\ LET F == ExecSeqQ(Z(st), st.pending, QuirkDoubleRelease, QuirkFlip) IN
             <<st'.quote, st'.base, st'.pos, st'.ord>> = <<F.quote, F.base, F.pos, F.ord>>]_vars
ReserveRelease ==
  [][/\ (Last.op = "submit" /\ ~st'.rej) =>
            st'.quote = st.quote - (IF Last.side = "buy" THEN Last.q * Last.p * K ELSE 0) /\ st'.base = st.base
     /\ (Last.op = "cancel") =>
            LET o == st.ord[Last.id] IN
            st'.quote = st.quote + (IF o.st = "A" /\ o.side = "buy" THEN o.q * o.p * K ELSE 0) /\ st'.base = st.base]_vars
RejectIff ==
  [][Last.op = "submit" =>
       (st'.rej <=> IF Last.side = "buy" THEN Last.q * Last.p * K > st.quote
                    ELSE Last.q + (IF Last.typ = "STP" THEN RefStopSum(st, Last.sym) ELSE RefLimitSum(st, Last.sym))
                           > st.base[Last.sym])]_vars
\* C05
Acct(S) == <<S.quote, S.base, S.pos, S.stopSum, S.limitSum, S.trades, S.temp, S.ord>>
FinalIsFinal ==
  [][/\ Len(st'.ord) >= Len(st.ord)
     /\ \A i \in 1..Len(st.ord) :
           /\ st.ord[i].st # "A" => st'.ord[i] = st.ord[i]
           /\ [st'.ord[i] EXCEPT !.st = "A"] = [st.ord[i] EXCEPT !.st = "A"]]_vars
FinalOpsAreNoOps ==
  [][/\ (Last.op \in {"exec", "cancel"} /\ st.ord[Last.id].st # "A") => Acct(st') = Acct(st) /\ st'.cur = st.cur
     /\ (Last.op = "flush" /\ \A i \in SeqSet(st.pending) : st.ord[i].st # "A") => Acct(st') = Acct(st)
     /\ (Last.op = "cancelall" /\ \A i \in SeqSet(st.alist[Last.sym]) : st.ord[i].st # "A") => Acct(st') = Acct(st)
     /\ (Last.op = "prune") => Acct(st') = Acct(st)]_vars
=============================================================================
