------------------------------ MODULE RouteProps ------------------------------
(* Property-level vocabulary of the multi-route event layer (X02; extends the    *)
(* "each reported to the strategy exactly once through the matching hook" of     *)
(* C06 to the OTHER routes of the session).  Shared by the model RouteEvents.tla *)
(* and by the monitors TraceRouteEvents.tla / TraceRouteEquiv.tla.               *)
(* Routes are 1..n in router order; a delivery is <<receiver, hook, sender>>.    *)
EXTENDS Integers, Sequences, FiniteSets

\* the on_route_* hook that matches a position event / a cancellation of route a
RouteHook(ev) == CASE ev = "open" -> "open" [] ev = "close" -> "close" [] ev = "inc" -> "inc" [] ev = "red" -> "red"
                   [] ev = "canceled" -> "canceled" [] OTHER -> "none"

\* every OTHER route exactly once, never the sender, the sender as argument, the matching hook
DeliveredExactlyOnce(dels, a, ev, n) ==
  /\ \A r \in 1..n : r # a => Cardinality({i \in DOMAIN dels : dels[i][1] = r /\ dels[i][2] = RouteHook(ev) /\ dels[i][3] = a}) = 1
  /\ \A i \in DOMAIN dels : dels[i][1] # a /\ dels[i][3] = a /\ dels[i][2] = RouteHook(ev) /\ dels[i][1] \in 1..n
NoSelfDelivery(dels, a) == \A i \in DOMAIN dels : dels[i][1] # a

\* a route is executed at time t (minutes since the start of the session, t >= 1) iff t is a boundary of its timeframe
Boundary(t, tf) == t % tf = 0
DueRoutes(t, TF) == SelectSeq([r \in DOMAIN TF |-> r], LAMBDA r : Boundary(t, TF[r]))

RECURSIVE GcdR(_, _)
GcdR(a, b) == IF b = 0 THEN a ELSE GcdR(b, a % b)
RECURSIVE GcdSeq(_)
GcdSeq(s) == IF Len(s) = 1 THEN s[1] ELSE GcdR(s[1], GcdSeq(Tail(s)))
=============================================================================
