----------------------------- MODULE RouteEvents -----------------------------
(* X02 (M).  Implementation-shaped model of the multi-route layer of jesse:      *)
(*   Strategy._broadcast (loop over router.routes, skip self by strategy id,     *)
(*       msg -> on_route_* hook, then the receiver's detection)                  *)
(*   Strategy._on_open/_increased/_reduced/_close_position (broadcast first),    *)
(*       _execute_cancel (broadcast 'route-canceled', then on_cancel)            *)
(*   backtest_mode._step_simulator: per minute every symbol is matched, then     *)
(*       `for r in router.routes` executes r iff its timeframe is 1m or          *)
(*       (i + 1) % count == 0; _skip_simulator/_execute_routes: chunks of        *)
(*       gcd(timeframes) minutes, (index + step) % count == 0                    *)
(*   Strategy.shared_vars == store.vars (one dict for the session)               *)
(* The market (which position event happens to which route while its symbol is   *)
(* matched, in which minute of a chunk) and the users (do they keep resting      *)
(* entries, do they cancel) are nondeterministic.  Properties at the bottom in   *)
(* the vocabulary of RouteProps.                                                 *)
EXTENDS Integers, Sequences, FiniteSets, TLC, RouteProps
CONSTANTS T1, T2, T3,  \* timeframes (minutes) of the routes in router order; T3 = 0: two routes only
          Minutes,     \* horizon
          Fast,        \* TRUE: chunked simulator
          MaxFills     \* position events per symbol and matching call
VARIABLES i,           \* minutes simulated so far (start of the next minute / chunk)
          pc,          \* "match" | "exec" | "done"
          cur,         \* symbol being matched / route being considered for execution
          nf,          \* fills of the current matching call
          pos,         \* route -> "flat" | "in"
          rest,        \* route -> resting entry orders?
          sv,          \* store.vars['last']: the route that wrote last (0 = nobody)
          g            \* ghosts of the last action: source event, deliveries, executed routes of this step, value read
vars == <<i, pc, cur, nf, pos, rest, sv, g>>
TF == IF T3 = 0 THEN <<T1, T2>> ELSE <<T1, T2, T3>>
N == Len(TF)
Routes == 1..N
Chunk == IF Fast THEN GcdSeq(TF) ELSE 1
G0 == [src |-> <<0, "none">>, dels |-> <<>>, src2 |-> <<0, "none">>, dels2 |-> <<>>, execd |-> <<>>, stepT |-> 0, read |-> <<>>, fin |-> FALSE]

\* Strategy._broadcast(msg): every route in router order except the one whose strategy id is the sender's
Broadcast(a, msg) == LET others == SelectSeq([r \in Routes |-> r], LAMBDA r : r # a)
                     IN [k \in DOMAIN others |-> <<others[k], RouteHook(msg), a>>]

Init == /\ i = 0 /\ pc = "match" /\ cur = 1 /\ nf = 0 /\ pos = [r \in Routes |-> "flat"] /\ rest = [r \in Routes |-> FALSE]
        /\ sv = 0 /\ g = G0

\* a position event of route `cur` while its symbol is matched (order fill -> Position -> _on_updated_position)
Event(ev) ==
  /\ pc = "match" /\ nf < MaxFills
  /\ CASE ev = "open" -> pos[cur] = "flat" /\ rest[cur]
       [] ev \in {"inc", "red", "close"} -> pos[cur] = "in"
  /\ pos' = [pos EXCEPT ![cur] = IF ev = "close" THEN "flat" ELSE "in"]
  \* _on_close_position: broadcast close, then _execute_cancel (broadcast canceled, reset)
  /\ rest' = [rest EXCEPT ![cur] = IF ev = "close" THEN FALSE ELSE @]
  /\ g' = [G0 EXCEPT !.src = <<cur, ev>>, !.dels = Broadcast(cur, ev),
                     !.src2 = IF ev = "close" THEN <<cur, "canceled">> ELSE <<0, "none">>,
                     !.dels2 = IF ev = "close" THEN Broadcast(cur, "canceled") ELSE <<>>,
                     !.execd = g.execd, !.stepT = g.stepT]
  /\ nf' = nf + 1 /\ UNCHANGED <<i, pc, cur, sv>>

\* the matching call of this symbol is over; after the last symbol the routes are executed
NextSymbol ==
  /\ pc = "match"
  /\ IF cur < N THEN /\ cur' = cur + 1 /\ UNCHANGED <<i, pc>> /\ g' = [G0 EXCEPT !.execd = g.execd, !.stepT = g.stepT]
     ELSE /\ cur' = 1 /\ pc' = "exec" /\ i' = i + Chunk /\ g' = [G0 EXCEPT !.stepT = i + Chunk]
  /\ nf' = 0 /\ UNCHANGED <<pos, rest, sv>>

\* `for r in router.routes`: r.strategy._execute() iff 1m or (i + step) % count == 0  (i is already advanced here)
Consider(cancel, enter) ==
  /\ pc = "exec"
  /\ LET due == TF[cur] = 1 \/ i % TF[cur] = 0 IN
     IF due
     THEN \* _check: entry-cancellation (broadcasts 'route-canceled'), then possibly new entries; before() reads/writes shared_vars
          /\ (cancel => rest[cur] /\ pos[cur] = "flat") /\ (enter => pos[cur] = "flat" /\ (~rest[cur] \/ cancel))
          /\ rest' = [rest EXCEPT ![cur] = IF enter THEN TRUE ELSE IF cancel THEN FALSE ELSE @]
          /\ sv' = cur
          /\ g' = [G0 EXCEPT !.execd = Append(g.execd, cur), !.stepT = g.stepT, !.read = <<cur, sv>>,
                             !.src = IF cancel THEN <<cur, "canceled">> ELSE <<0, "none">>,
                             !.dels = IF cancel THEN Broadcast(cur, "canceled") ELSE <<>>,
                             !.fin = cur = N]
     ELSE /\ ~cancel /\ ~enter /\ UNCHANGED <<rest, sv>>
          /\ g' = [G0 EXCEPT !.execd = g.execd, !.stepT = g.stepT, !.fin = cur = N]
  /\ IF cur < N THEN cur' = cur + 1 /\ UNCHANGED pc
     ELSE cur' = 1 /\ pc' = IF i >= Minutes THEN "done" ELSE "match"
  /\ UNCHANGED <<i, nf, pos>>

Next == \/ \E ev \in {"open", "inc", "red", "close"} : Event(ev)
        \/ NextSymbol
        \/ \E c, e \in BOOLEAN : Consider(c, e)
Spec == Init /\ [][Next]_vars

\* ================================================================ properties (RouteProps vocabulary)
DeliveredOnce ==
  /\ g.src[1] # 0 => DeliveredExactlyOnce(g.dels, g.src[1], g.src[2], N)
  /\ g.src2[1] # 0 => DeliveredExactlyOnce(g.dels2, g.src2[1], g.src2[2], N)
  /\ g.src[1] = 0 => g.dels = <<>>
\* when the last route has been considered: exactly the routes whose boundary this is, in router order
RouterOrderAtBoundaries == g.fin => g.execd = DueRoutes(g.stepT, TF)
\* the route executed right after another one in the same step sees what that one wrote
SharedVarsVisible == (g.read # <<>> /\ Len(g.execd) >= 2) => g.read[2] = g.execd[Len(g.execd) - 1]
\* non-vacuity witnesses (must be reachable: TLC must refute the negations)
NotW_TwoInOneStep == ~(g.fin /\ Len(g.execd) >= 2)
NotW_SkippedRoute == ~(g.fin /\ Len(g.execd) < N /\ Len(g.execd) >= 1)
NotW_CloseBroadcast == ~(g.src2[1] # 0)
NotW_CancelBroadcast == ~(g.src = <<N, "canceled">>)
=============================================================================
