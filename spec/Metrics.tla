------------------------------- MODULE Metrics -------------------------------
(* C16 (M + export).  TLC builds every trade list up to MaxLen over PnLs x       *)
(* {long, short} (the state IS the list) and checks in every state               *)
(*  - that the incremental folds (AggStep, used by the trace spec) equal the     *)
(*    definitions of MetricsDef,                                                 *)
(*  - that the implementation-shaped streak computation of metrics.trades        *)
(*    (numpy cumsum / maximum.accumulate) refines the run-length definition,     *)
(*  - the identities of the property on the definitions themselves.              *)
(* Every list is exported (EDGE) and pushed through the real metrics.trades.     *)
EXTENDS MetricsDef, TLC, Json
CONSTANTS MaxLen, PnlMax, Export
PnLs == (0 - PnlMax)..PnlMax          \* TLC's cfg parser has no negative literals
VARIABLES trades, agg
vars == <<trades, agg>>
Init == trades = <<>> /\ agg = Agg0
Add(p, t) == /\ Len(trades) < MaxLen
             /\ LET tr == [pnl |-> p, typ |-> t, fee |-> 0] IN trades' = Append(trades, tr) /\ agg' = AggStep(agg, tr)
Next == \E p \in PnLs, t \in {"long", "short"} : Add(p, t)
Spec == Init /\ [][Next]_vars
s == trades
AggIsFold == /\ agg.n = Total(s) /\ agg.w = Wins(s) /\ agg.l = Losses(s) /\ agg.z = Evens(s)
             /\ agg.longs = Longs(s) /\ agg.shorts = Shorts(s) /\ agg.net = Net(s) /\ agg.gp = GrossProfit(s)
             /\ agg.gl = GrossLoss(s) /\ agg.fee = FeeSum(s) /\ agg.lw = LargestWin(s) /\ agg.ll = LargestLoss(s)
             /\ (Len(s) > 0 => agg.cur = CurStreak(s) /\ agg.ws = WinStreak(s) /\ agg.ls = LoseStreak(s))
StreakRefinement == Len(s) > 0 => ImplStreaks(s) = [win |-> WinStreak(s), lose |-> LoseStreak(s), cur |-> CurStreak(s)]
CountIdentity == Total(s) = Wins(s) + Losses(s) + Evens(s) /\ Longs(s) + Shorts(s) = Total(s)
SumIdentity == Net(s) = GrossProfit(s) + GrossLoss(s) /\ GrossProfit(s) >= 0 /\ GrossLoss(s) <= 0
StreakSanity == Len(s) > 0 =>
                  /\ WinStreak(s) <= Wins(s) /\ LoseStreak(s) <= Losses(s)
                  /\ (Wins(s) > 0 <=> WinStreak(s) >= 1) /\ (Losses(s) > 0 <=> LoseStreak(s) >= 1)
                  /\ Sign(CurStreak(s)) = Sign(s[Len(s)].pnl) /\ CurStreak(s) <= WinStreak(s) /\ -CurStreak(s) <= LoseStreak(s)
\* expectancy as the code composes it (average win * win rate - average loss * (1 - win rate), undefined average = 0)
ExpectancyIdentity ==
  LET w == Wins(s)  l == Losses(s)
      aw == IF w = 0 THEN <<0, 1>> ELSE AvgWin(s)   al == IF l = 0 THEN <<0, 1>> ELSE AvgLoss(s)   wr == WinRate(s)
      \* aw * wr - al * (1 - wr) over the common denominator aw[2] * al[2] * wr[2]
      num == aw[1] * wr[1] * al[2] - al[1] * (wr[2] - wr[1]) * aw[2]   den == aw[2] * al[2] * wr[2]
  IN Norm(<<num, den>>) = Norm(Expectancy(s))
LargestSanity == (Wins(s) > 0 => AvgWin(s)[1] <= LargestWin(s) * AvgWin(s)[2]) /\ (Losses(s) > 0 => AvgLoss(s)[1] <= -LargestLoss(s) * AvgLoss(s)[2])
ExportEdge == (Export /\ Len(s) > 0) => PrintT(<<"EDGE", ToJson([trades |-> [i \in 1..Len(s) |-> <<s[i].pnl, s[i].typ>>]])>>)
=============================================================================
