-------------------------- MODULE TraceHooksTrades --------------------------
(* C06, code -> spec (monitor).  Judges recorded runs of the real Strategy /     *)
(* Position / ClosedTrades classes: per symbol the hook word, one hook per fill  *)
(* with the size the fill implies, one closed trade per cycle with the side,     *)
(* quantity, quantity-weighted entry/exit, open/close minute and order list of   *)
(* the cycle's fills, net PnL on the money lattice, and                          *)
(*   sum of trade PnL = wallet - start = reported net profit.                    *)
(* Position sizes before/after each fill are taken as logged (that arithmetic is *)
(* C03's).  Deterministic and TOTAL: a mismatch adds a clause to `vs`.           *)
(* Clauses carry a cause suffix when the monitor can attribute them:             *)
(*   :flip            the fill / cycle / run contains a position flip            *)
(*   :oversize-ro     the cycle was closed by a reduce-only order larger than    *)
(*                    the position (the exchange fills only the position size)   *)
EXTENDS Integers, Sequences, FiniteSets, TLC, Json, IOUtils, StrategyProps
Data == JsonDeserialize(IOEnv.TRACE_FILE)
Traces == Data.traces
VARIABLES tid, l, vs, sym, exp, run, now
vars == <<tid, l, vs, sym, exp, run, now>>
Ev(t) == Traces[t].ev
Hdr == Traces[tid].hdr
NoFill == [o |-> 0]
NanV == -999999999
NoWin == [t0 |-> -1, lo |-> <<>>, hi |-> <<>>, last |-> -1]
Sym0 == [st |-> "flat", q |-> 0, fill |-> NoFill, got |-> <<>>, cyc |-> <<>>, side |-> "close", ords |-> <<>>,
         over |-> FALSE, flip |-> "", win |-> NoWin]
\* ---- the independent clock: the minute (index of its 1m candle + 1) in which a fill happened.  A resting order fills
\* while one of the 1m candles handed to the matching function is being matched (f.cm = index of the partial candle
\* the price was in, checked below against the candles themselves); anything else (market orders) executes at the end
\* of the last matched minute / chunk.  Replays at object level have no matching function: the logged clock is taken.
FillTime(f) == IF f.cm >= 0 THEN f.cm + 1 ELSE IF now >= 0 THEN now ELSE f.t
InWindow(W, f) == /\ W.t0 >= 0 /\ f.cm >= W.t0 /\ f.cm < W.t0 + Len(W.lo) /\ f.cm >= W.last
                  /\ W.lo[f.cm - W.t0 + 1] <= f.p /\ f.p <= W.hi[f.cm - W.t0 + 1]
\* cause of a flip: the non-reduce-only market order that _on_open_position substitutes for a wrong-side exit row
FlipTag(f) == IF f.via # "none" /\ ~f.ro /\ f.type = "MARKET" THEN ":flip-by-market-replacement" ELSE ":flip"

Init == /\ tid \in 1..Len(Traces) /\ l = 1 /\ vs = <<>> /\ exp = <<>>
        /\ sym = [s \in 1..Traces[tid].hdr.nsym |-> Sym0] /\ now = -1
        /\ run = [flip |-> "", over |-> FALSE, fills |-> 0, hooks |-> 0, cycles |-> 0, maxfills |-> 0]

RECURSIVE AddAll(_, _, _)
AddAll(v, n, cs) == IF cs = <<>> THEN v
                    ELSE IF \E i \in DOMAIN v : v[i][2] = Head(cs) THEN AddAll(v, n, Tail(cs))
                    ELSE AddAll(Append(v, <<n, Head(cs)>>), n, Tail(cs))
If(c, s) == IF c THEN <<>> ELSE <<s>>

ImpliedSize(f) == LET sq == IF f.side = "buy" THEN f.q ELSE -f.q IN
                  IF ~f.ro THEN f.qb + sq
                  ELSE IF f.qb * sq >= 0 THEN f.qb
                  ELSE IF f.q > SAbs(f.qb) THEN 0 ELSE f.qb + sq
\* ---- one fill: hooks seen between fillb and fille against HooksFor(before, after)
Aborted == l < Len(Ev(tid)) /\ Ev(tid)[l + 1].k = "exc"
Names(hs) == [i \in DOMAIN hs |-> hs[i][1]]
FillClauses(S, f, qa) ==
  LET want == HooksFor(f.qb, qa)
      got == S.got
      eff == Effect(f.qb, qa)
      tag == IF S.flip # "" THEN S.flip ELSE IF eff = "flip" THEN FlipTag(f) ELSE ""
  IN If(f.qb = S.q, "position-changed-outside-a-fill" \o tag)
     \* the size after the fill is the size the fill implies (futures; a reduce-only order never increases or flips)
     \o If(Hdr.spot \/ (f.ro /\ f.qb = 0) \/ qa = ImpliedSize(f), "position-size-after-the-fill-is-not-what-the-fill-implies")
     \o If(f.t = FillTime(f), "fill-time:clock-differs-from-the-minute-of-the-matched-candle")
     \o If(f.cm < 0 \/ InWindow(S.win, f), "fill-time:not-inside-a-candle-being-matched")
     \o If(\A i \in DOMAIN got : got[i][4] = FillTime(f), "hook-time:strategy-sees-another-minute-than-the-fill")
     \* a fill cut short by an exception raised inside execute() (for instance _on_open_position refusing a negative exit price
     \* the strategy declared): the session is over, the hooks that had run must be a prefix of the ones the fill implies
     \o (IF Aborted /\ Len(got) < Len(want) /\ Names(got) = SubSeq(Names(want), 1, Len(got)) THEN <<>>
         ELSE IF Names(got) # Names(want)
         THEN <<"hook-word:" \o eff \o "-reported-as-" \o
                (IF got = <<>> THEN "nothing" ELSE IF Len(got) = 1 THEN got[1][1] ELSE "several") \o tag>>
         ELSE If(\A i \in DOMAIN got : got[i][2] = want[i][2], "hook-qty:" \o eff \o tag)
              \o If(\A i \in DOMAIN got : got[i][3] = f.o, "hook-order:" \o eff \o tag))
     \o If(\A i \in DOMAIN got : HookOK(IF i = 1 THEN S.st ELSE HookNext(S.st, got[1][1]), got[i][1]),
           "hook-automaton" \o tag)

\* what the fill adds to / takes from the cycle
Din(qb, qa) == IF Effect(qb, qa) \in {"open", "inc"} THEN SAbs(qa) - SAbs(qb) ELSE 0
Dout(qb, qa) == IF Effect(qb, qa) \in {"red", "close"} THEN SAbs(qb) - SAbs(qa)
                ELSE IF Effect(qb, qa) = "flip" THEN SAbs(qb) ELSE 0

Closed(S, f, qa) ==     \* expected trade record when this fill ends the cycle
  LET c == Append(S.cyc, [o |-> f.o, din |-> 0, gq |-> 0, dout |-> Dout(f.qb, qa), p |-> f.p, t |-> FillTime(f)])
  IN [s |-> f.s, side |-> S.side, cyc |-> c, orders |-> Append(S.ords, f.o),
      over |-> S.over \/ (f.ro /\ f.q > SAbs(f.qb)), flip |-> IF S.flip # "" THEN S.flip ELSE IF Effect(f.qb, qa) = "flip" THEN FlipTag(f) ELSE ""]

\* ---- the trade log at the end of the run
TradeClauses(t, x) ==
  LET c == x.cyc
      tag == IF x.flip # "" THEN x.flip ELSE IF x.over THEN (IF Hdr.spot THEN ":oversize-ro-spot" ELSE ":oversize-ro") ELSE ""
  IN If(t.s = x.s, "trade-symbol" \o tag)
     \o If(t.type = x.side, "trade-type" \o tag)
     \* spot: the fee of a buy is taken from the base asset, the trade reports the quantity bought (gross), the position the net
     \o If(t.q8 = 8 * (IF Hdr.spot THEN SeqSum([i \in DOMAIN c |-> c[i].gq]) ELSE QIn(c)), "trade-qty" \o tag)
     \o If(AvgAgrees(t.entry, VIn(c), QIn(c), Hdr.pden), "trade-entry-price" \o tag)
     \o If(AvgAgrees(t.exit, VOut(c), QOut(c), Hdr.pden), "trade-exit-price" \o tag)
     \o If(t.opened = c[1].t, "trade-opened-at" \o tag)
     \o If(t.closed = c[Len(c)].t, "trade-closed-at" \o tag)
     \o If(t.orders = x.orders, "trade-orders" \o tag)
     \* (spot with a fee: the trade formula is an approximation, no claim; fee-free spot is exact)
     \o If((Hdr.spot /\ Hdr.fee_n # 0) \/ t.pnl = CyclePnl(c, x.side, Hdr.fee_n, Hdr.fee_d), "trade-pnl" \o tag)

RECURSIVE AllTrades(_, _)
AllTrades(ts, n) == IF n = 0 THEN <<>> ELSE AllTrades(ts, n - 1) \o TradeClauses(ts[n], exp[n])
Min2(a, b) == IF a < b THEN a ELSE b
EndClauses(e) ==
  LET rtag == IF run.flip # "" THEN run.flip \o "-in-run" ELSE IF run.over THEN (IF Hdr.spot THEN ":oversize-ro-spot-in-run" ELSE ":oversize-ro-in-run") ELSE ""
      sum == SeqSum([i \in DOMAIN e.trades |-> e.trades[i].pnl])
      nan == \E i \in DOMAIN e.trades : e.trades[i].pnl = NanV
  IN If(Len(e.trades) = Len(exp), "trade-count" \o rtag)
     \o AllTrades(e.trades, Min2(Len(e.trades), Len(exp)))
     \o (IF nan THEN <<"trade-pnl-is-nan" \o rtag>>
         ELSE IF Hdr.spot /\ Hdr.fee_n # 0 THEN If(~e.completed \/ \A s \in DOMAIN sym : sym[s].q = 0, "position-open-after-terminate")
         \* (also for a session that an exception ended, as long as every position is flat: the wallet may be negative)
         ELSE IF e.has_wallet /\ (e.completed \/ \A s \in DOMAIN sym : sym[s].q = 0)
         THEN If(\A s \in DOMAIN sym : sym[s].q = 0, "position-open-after-terminate")
              \o If(sum = e.w1 - e.w0, "sum-of-trade-pnl-vs-wallet" \o rtag)
              \o (IF e.has_metrics
                  THEN If(e.np = e.w1 - e.w0, "net-profit-vs-finishing-balance" \o rtag)
                       \o If(e.fb = e.w1, "finishing-balance-vs-wallet") \o If(e.total = Len(e.trades), "metrics-total")
                  ELSE If(Len(e.trades) = 0 \/ ~e.expect_metrics \/ ~e.completed, "no-metrics-though-trades"))
         ELSE <<>>)

Step ==
  /\ l <= Len(Ev(tid))
  /\ LET e == Ev(tid)[l] IN
     CASE e.k = "match" ->         \* the 1m candles handed to the matching function (ranges extended to the previous close)
            /\ sym' = [sym EXCEPT ![e.s].win = [t0 |-> e.t0, lo |-> e.lo, hi |-> e.hi, last |-> e.t0]]
            /\ now' = e.t0 + Len(e.lo)
            /\ UNCHANGED <<vs, exp, run>>
       [] e.k = "fillb" ->
            /\ vs' = AddAll(vs, l, If(sym[e.s].fill.o = 0, "machinery:nested-fill"))
            /\ sym' = [sym EXCEPT ![e.s].fill = e, ![e.s].got = <<>>]
            /\ UNCHANGED <<exp, run, now>>
       [] e.k = "hook" ->
            /\ vs' = AddAll(vs, l, If(sym[e.s].fill.o # 0, "hook-outside-a-fill:" \o e.n))
            /\ sym' = [sym EXCEPT ![e.s].got = Append(@, <<e.n, e.q, e.o, e.t>>)]
            /\ run' = [run EXCEPT !.hooks = @ + 1]
            /\ UNCHANGED <<exp, now>>
       [] e.k = "fille" ->
            LET S == sym[e.s]
                f == S.fill
                eff == Effect(f.qb, e.qa)
                ends == eff \in {"close", "flip"}
                nf == Len(S.cyc) + 1
            IN /\ UNCHANGED now
               /\ vs' = AddAll(vs, l, If(f.o = e.o, "machinery:fill-pairing") \o FillClauses(S, f, e.qa))
               /\ exp' = IF ends THEN Append(exp, Closed(S, f, e.qa)) ELSE exp
               /\ run' = [run EXCEPT !.flip = IF @ = "" /\ eff = "flip" THEN FlipTag(f) ELSE @,
                                     !.over = @ \/ (ends /\ f.ro /\ f.q > SAbs(f.qb)),
                                     !.fills = @ + 1, !.cycles = @ + (IF ends THEN 1 ELSE 0),
                                     !.maxfills = IF ends /\ nf > @ THEN nf ELSE @]
               /\ sym' = [sym EXCEPT ![e.s] =
                    IF eff = "close"
                    THEN [Sym0 EXCEPT !.q = 0, !.win = [S.win EXCEPT !.last = IF f.cm >= 0 THEN f.cm ELSE @]]
                    ELSE IF eff = "flip"
                    THEN [Sym0 EXCEPT !.st = "in", !.q = e.qa, !.side = PosSide(e.qa), !.flip = IF S.flip # "" THEN S.flip ELSE FlipTag(f), !.ords = <<f.o>>,
                                      !.win = [S.win EXCEPT !.last = IF f.cm >= 0 THEN f.cm ELSE @],
                                      !.cyc = <<[o |-> f.o, din |-> SAbs(e.qa), gq |-> SAbs(e.qa), dout |-> 0, p |-> f.p, t |-> FillTime(f)]>>]
                    ELSE [S EXCEPT !.st = IF e.qa = 0 THEN "flat" ELSE "in", !.q = e.qa, !.fill = NoFill, !.got = <<>>,
                                   !.side = IF eff = "open" THEN PosSide(e.qa) ELSE @,
                                   !.ords = Append(@, f.o), !.win.last = IF f.cm >= 0 THEN f.cm ELSE @,
                                   !.cyc = Append(@, [o |-> f.o, din |-> Din(f.qb, e.qa), gq |-> IF Din(f.qb, e.qa) > 0 THEN f.q ELSE 0, dout |-> Dout(f.qb, e.qa),
                                                      p |-> f.p, t |-> FillTime(f)])]]
       [] e.k = "end" ->
            /\ vs' = AddAll(vs, l, EndClauses(e))
            /\ UNCHANGED <<sym, exp, run, now>>
       [] OTHER -> UNCHANGED <<vs, sym, exp, run, now>>
  /\ l' = l + 1 /\ UNCHANGED tid
Spec == Init /\ [][Step]_vars
Finished == l > Len(Ev(tid))
Report == Finished => /\ PrintT(<<"VERDICT", Traces[tid].id, l - 1, vs>>)
                      /\ PrintT(<<"STATS", Traces[tid].id, run.fills, run.hooks, run.cycles, run.maxfills,
                                  IF run.flip # "" THEN 1 ELSE 0, IF run.over THEN 1 ELSE 0>>)
=============================================================================
