SPECIFICATION Spec
CHECK_DEADLOCK FALSE
CONSTANT MaxLev = 125
INVARIANT StrictlyBetween
INVARIANT LosesInitialMargin
INVARIANT Buffer
INVARIANT SafeRange
