--------------------------- MODULE IndicatorStream ---------------------------
(* C13 / C14.  A sequential indicator as a transducer: it is fed one candle at a time and owns one    *)
(* output series per field.  This module says nothing about WHICH number is emitted (no model of the  *)
(* float numerics is attempted) - it states the structure the two properties talk about:              *)
(*   C13  the series only grows at its end: what was emitted for candle i is never revised by later   *)
(*        candles (AppendOnly); the extrema detector alone may revise its last Exempt entries         *)
(*        (a flag needs Exempt confirming candles);                                                   *)
(*   C14  one entry per candle (LenIsFed); the single (non-sequential) result is the entry Lag        *)
(*        positions before the end (Lag = 0 for everything but the extrema flags) of the series over  *)
(*        the trailing warm-up window (Window candles) of the input.                                  *)
(* Implementation-shaped actions: Emit (the left-to-right kernels), EmitRevise (argrelextrema over    *)
(* the whole array: the unconfirmed tail is recomputed), and two named quirks seen in the code base,  *)
(* ReSeed (rma_fast: element 0 seeded from the LAST element through a negative index) and Renorm      *)
(* (a normaliser over the whole input: every element changes) - switched on by Quirk to show that the *)
(* properties below reject them.  The trace specifications TraceCausal / TraceSeqSingle reuse         *)
(* Extends, Near, SingleOf and WindowOf on recorded runs of the real functions.                       *)
EXTENDS Integers, Sequences

\* ---------------------------------------------------------------- logged tokens
NaNV  == -2147483647
PInfV ==  2147483646
NInfV == -2147483646
Clamp ==  1000000000            \* |finite token| <= Clamp, so differences stay inside 32 bits
IsFin(a) == a >= -Clamp /\ a <= Clamp
Abs(a) == IF a < 0 THEN -a ELSE a
\* equal up to tol logging units; sentinels (NaN, +inf, -inf) only equal themselves
Near(a, b, tol) == a = b \/ (IsFin(a) /\ IsFin(b) /\ Abs(a - b) <= tol)
Min2(a, b) == IF a < b THEN a ELSE b
Max2(a, b) == IF a > b THEN a ELSE b

\* ---------------------------------------------------------------- the property-level relations
\* `new` (computed on a longer input) agrees with `old` (computed on its first `fed` candles) on every
\* position both have, except the last `exempt` positions of the shorter input
Stable(old, new, fed, exempt, tol) ==
  \A i \in 1..Min2(Min2(Len(old), Len(new)), fed - exempt) : Near(old[i], new[i], tol)
FirstUnstable(old, new, fed, exempt, tol) ==
  LET bad == {i \in 1..Min2(Min2(Len(old), Len(new)), fed - exempt) : ~Near(old[i], new[i], tol)}
  IN IF bad = {} THEN 0 ELSE CHOOSE i \in bad : \A j \in bad : i <= j
\* string-valued fields (hull_suit.signal): plain equality
StableStr(old, new, fed) == \A i \in 1..Min2(Min2(Len(old), Len(new)), fed) : old[i] = new[i]
FirstUnstableStr(old, new, fed) ==
  LET bad == {i \in 1..Min2(Min2(Len(old), Len(new)), fed) : old[i] # new[i]}
  IN IF bad = {} THEN 0 ELSE CHOOSE i \in bad : \A j \in bad : i <= j
\* the input a non-sequential call effectively sees, as an index range of the full input
WindowLen(n, window) == Min2(n, window)
\* the entry of a series that the non-sequential call returns (0 = the series is too short to have it)
SingleIndex(s, lag) == IF Len(s) > lag THEN Len(s) - lag ELSE 0

\* ---------------------------------------------------------------- the transducer (tiny model)
CONSTANTS Vals, MaxFed, Exempt, Quirk
VARIABLES fed, out
vars == <<fed, out>>
Init == fed = 0 /\ out = <<>>

\* a left-to-right kernel: one more candle, one more entry, nothing else changes
Emit(v) == /\ fed < MaxFed /\ fed' = fed + 1
           /\ out' = Append(out, v)
\* the extrema detector: the last Exempt entries are unconfirmed and recomputed with every new candle
EmitRevise(v, tail) ==
  /\ Exempt > 0 /\ fed < MaxFed /\ fed' = fed + 1
  /\ LET m == Min2(Exempt, Len(out)) IN
     /\ Len(tail) = m
     /\ out' = SubSeq(out, 1, Len(out) - m) \o tail \o <<v>>
\* quirk: element 1 is re-seeded from the newest input (rma_fast reads newseries[-1] at i = 0)
ReSeed(v) == /\ Quirk = "reseed" /\ fed < MaxFed /\ fed' = fed + 1
             /\ out' = IF out = <<>> THEN <<v>> ELSE [Append(out, v) EXCEPT ![1] = v]
\* quirk: one entry is missing (a field computed from differences and not padded)
EmitShort(v) == /\ Quirk = "short" /\ fed < MaxFed /\ fed' = fed + 1
                /\ out' = IF fed = 0 THEN out ELSE Append(out, v)
Tails(m) == [1..m -> Vals]
EmitStep    == Quirk = "none" /\ Exempt = 0 /\ \E v \in Vals : Emit(v)
ReviseStep  == Quirk = "none" /\ Exempt > 0 /\ \E v \in Vals : \E t \in Tails(Min2(Exempt, Len(out))) : EmitRevise(v, t)
ReSeedStep  == \E v \in Vals : ReSeed(v)
ShortStep   == \E v \in Vals : EmitShort(v)
Next == EmitStep \/ ReviseStep \/ ReSeedStep \/ ShortStep
Spec == Init /\ [][Next]_vars

\* ---------------------------------------------------------------- properties (independent of the actions)
TypeOK == fed \in 0..MaxFed /\ out \in Seq(Vals)
LenIsFed == Len(out) = fed                                                            \* C14: one entry per candle
AppendOnly == [][Stable(out, out', fed, 0, 0) /\ Len(out') >= Len(out)]_vars           \* C13, everything but extrema
StableButTail == [][Stable(out, out', fed, Exempt, 0) /\ Len(out') >= Len(out)]_vars   \* C13 with the exemption
\* why the extrema detector's single flag is the entry Exempt+1 from the end (C14): it is the newest entry that
\* no later candle can revise
SingleIsConfirmed == [][SingleIndex(out, Exempt) # 0 =>
                          out'[SingleIndex(out, Exempt)] = out[SingleIndex(out, Exempt)]]_vars
=============================================================================
