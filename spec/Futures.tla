------------------------------- MODULE Futures -------------------------------
(* C03 (+ the order registry of C05).  Implementation-shaped model of the       *)
(* futures account of jesse:                                                    *)
(*   Order.__init__/execute/cancel (models/Order.py), FuturesExchange           *)
(*   on_order_submission/execution/cancellation + available_margin,             *)
(*   Position._on_executed_order (open / close / increase / reduce / flip,      *)
(*   reduce-only clamping), helpers.estimate_average_price, OrdersState         *)
(*   (active_storage, to_execute), ClosedTrades.add_executed_order/close_trade, *)
(*   Sandbox.cancel_all_orders, and the strategy layer's "cancel everything     *)
(*   resting when the position closes" (the stub of harness.session.ObjSession).*)
(* One effect operator per critical section (pure functions of a state record,  *)
(* so that TraceFutures.tla re-applies exactly these to logged states).         *)
(* The environment is every legal operation sequence.  The properties are       *)
(* stated independently of that shape further down (reference account).         *)
(* Quantities and prices are integers, fee = FeeNum/FeeDen, wallet and entry    *)
(* are rationals <<num, den>>.  An order id is its index in st.ord.             *)
EXTENDS AcctBase, TLC, Json
CONSTANTS Syms, Qtys, Prices, Lev, FeeNum, FeeDen, Start,
          MaxDepth,      \* bound on the number of operations
          MaxAct,        \* bound on simultaneously ACTIVE orders
          MaxOrd,        \* bound on submitted orders
          Dups,          \* TRUE: execute / cancel also on final orders, cancel-all, prune (C05 environment)
          CancelOnClose, \* the strategy layer cancels everything resting when a position closes
          Export         \* TRUE: print one EDGE line per transition
VARIABLES st, hist
vars == <<st, hist>>

Sgn(side) == IF side = "buy" THEN 1 ELSE -1
ZeroCash == [s \in Syms |-> 0]
NoGm == [id |-> 0, m |-> RI(0)]
Z(S) == [S EXCEPT !.gfee = RI(0), !.gcash = ZeroCash, !.gm = NoGm]      \* last-step ghosts are reset by every action

InitState(c0) ==
  [ c0 |-> c0, ord |-> <<>>, alist |-> [s \in Syms |-> <<>>], pending |-> <<>>,
    trades |-> <<>>, temp |-> [s \in Syms |-> <<>>],
    wallet |-> RI(Start), pq |-> [s \in Syms |-> 0], entry |-> [s \in Syms |-> RI(0)], cur |-> c0,
    resB |-> [s \in Syms |-> <<>>], resS |-> [s \in Syms |-> <<>>], rej |-> FALSE,
    gfee |-> RI(0), gcash |-> ZeroCash, gm |-> NoGm ]

\* ------------------------------------------------------------------ implementation-shaped part
PnlOf(q, e, c) == IF q = 0 THEN RI(0) ELSE RMulI(RSub(RI(c), e), q)                 \* Position.pnl
CostOf(q, e) == IF q = 0 THEN RI(0) ELSE RDivI(RMulI(e, Abs(q)), Lev)              \* Position.total_cost
RECURSIVE SpentOver(_, _)
\* FuturesExchange.available_margin: loop over the assets
SpentOver(S, ss) ==
  IF ss = {} THEN RI(0)
  ELSE LET s == CHOOSE x \in ss : TRUE
           pos == RSub(CostOf(S.pq[s], S.entry[s]), PnlOf(S.pq[s], S.entry[s], S.cur[s]))
           res == RMax(Norm(SumQP(S.resB[s]), Lev), Norm(SumQP(S.resS[s]), Lev))
       IN RAdd(RAdd(pos, res), SpentOver(S, ss \ {s}))
MarginImpl(S) == RSub(S.wallet, SpentOver(S, Syms))

\* FuturesExchange.on_order_submission (after the constructor of Order); Sandbox.*_order registers the order
SubmitAccept(S, o) ==
  LET id == Len(S.ord) + 1 IN
  [S EXCEPT !.ord = Append(@, o),
            !.alist[o.sym] = Append(@, id),
            !.pending = IF o.typ = "MKT" THEN Append(@, id) ELSE @,
            !.resB[o.sym] = IF ~o.ro /\ o.side = "buy" THEN Append(@, <<o.q, o.p>>) ELSE @,
            !.resS[o.sym] = IF ~o.ro /\ o.side = "sell" THEN Append(@, <<o.q, o.p>>) ELSE @]
SubmitEff(S, o) ==
  IF ~o.ro /\ RLt(MarginImpl(S), Norm(o.q * o.p, Lev))
  THEN [S EXCEPT !.rej = TRUE]                                    \* InsufficientMargin; nothing was touched
  ELSE SubmitAccept(S, o)

\* the row of a non-reduce-only order leaves the reserved table (first equal row)
Release(S, o) ==
  [S EXCEPT !.resB[o.sym] = IF ~o.ro /\ o.side = "buy" THEN RemoveFirst(@, <<o.q, o.p>>) ELSE @,
            !.resS[o.sym] = IF ~o.ro /\ o.side = "sell" THEN RemoveFirst(@, <<o.q, o.p>>) ELSE @]

\* Order.cancel: early return on a final order, else status + on_order_cancellation
CancelOne(S, id) ==
  LET o == S.ord[id] IN
  IF o.st # "A" THEN S ELSE Release([S EXCEPT !.ord[id].st = "C"], o)
RECURSIVE CancelSeq(_, _)
CancelSeq(S, ids) == IF ids = <<>> THEN S ELSE CancelSeq(CancelOne(S, Head(ids)), Tail(ids))

\* Position._on_executed_order, backtest branch: the order of the tests is the code's ("roclose" is the branch for
\* an oversize reduce-only order; since Order.execute clamps such an order first it is only used as a step label)
Kind(q0, sq, ro) ==
  IF q0 = 0 THEN "open"
  ELSE IF q0 + sq = 0 THEN "close"
  ELSE IF q0 * sq > 0 THEN (IF ro THEN "none" ELSE "inc")
  ELSE IF Abs(sq) > Abs(q0) THEN (IF ro THEN "roclose" ELSE "flip")
  ELSE "red"

\* Order.execute: guard, reduce-only clamp, status, trade record, reserved row, fee, position, strategy hook
ExecOne(S, id) ==
  LET o0 == S.ord[id] IN
  IF o0.st # "A" THEN S ELSE
  LET s == o0.sym
      q0 == S.pq[s]
      e0 == S.entry[s]
      \* a reduce-only order never fills more than the open position: its quantity is clamped before anything is
      \* booked (Order.execute, simulation only), so fee, trade log and order record carry the filled quantity
      clamp == o0.ro /\ q0 * Sgn(o0.side) < 0 /\ o0.q > Abs(q0)
      o == IF clamp THEN [o0 EXCEPT !.q = Abs(q0)] ELSE o0
      sq == Sgn(o.side) * o.q
      fee == Norm(o.q * o.p * FeeNum, FeeDen)                                        \* charge_fee(qty * price)
      kind == Kind(q0, sq, o.ro)
      closeQty == CASE kind = "red" -> o.q
                    [] kind \in {"close", "roclose", "flip"} -> Abs(q0)
                    [] OTHER -> 0
      realised == IF closeQty = 0 THEN RI(0)                                         \* estimate_PNL
                  ELSE RMulI(RSub(RI(o.p), e0), IF q0 > 0 THEN closeQty ELSE -closeQty)
      q1 == CASE kind = "open" -> sq
              [] kind \in {"close", "roclose"} -> 0
              [] kind = "none" -> q0
              [] OTHER -> q0 + sq
      e1 == CASE kind \in {"open", "flip"} -> RI(o.p)
              [] kind \in {"close", "roclose"} -> RI(0)
              [] kind = "inc" -> RDivI(RAdd(RI(o.q * o.p), RMulI(e0, Abs(q0))), o.q + Abs(q0))  \* estimate_average_price
              [] OTHER -> e0
      closesTrade == kind \in {"close", "roclose", "flip"}
      S1 == Release([S EXCEPT !.ord[id] = [o EXCEPT !.st = "E"],
                              !.temp[s] = IF closesTrade THEN <<>> ELSE Append(@, id),
                              !.trades = IF closesTrade THEN Append(@, Append(S.temp[s], id)) ELSE @,
                              !.wallet = RAdd(RSub(@, fee), realised),
                              !.pq[s] = q1, !.entry[s] = e1,
                              !.gfee = RAdd(@, fee), !.gcash[s] = @ + (q1 - q0) * o.p], o)
  IN IF q1 = 0 /\ CancelOnClose                         \* strategy layer: cancel what rests, fresh order lists
     THEN [CancelSeq(S1, S1.alist[s]) EXCEPT !.alist[s] = <<>>]
     ELSE S1
RECURSIVE ExecSeq(_, _)
ExecSeq(S, ids) == IF ids = <<>> THEN S ELSE ExecSeq(ExecOne(S, Head(ids)), Tail(ids))

\* OrdersState.execute_pending_market_orders
FlushEff(S) == [ExecSeq(S, S.pending) EXCEPT !.pending = <<>>]
\* Sandbox.cancel_all_orders: every order of the active list that is still new
CancelAllEff(S, s) == CancelSeq(S, S.alist[s])
\* OrdersState.update_active_orders
PruneEff(S, s) == [S EXCEPT !.alist[s] = SelectSeq(@, LAMBDA i : S.ord[i].st = "A")]
\* the simulator sets position.current_price to the fill price before executing a LIMIT/STOP order
PriceEff(S, s, p) == [S EXCEPT !.cur[s] = p]
ExecuteEff(S, id) ==
  LET o == S.ord[id] IN
  IF o.st = "A" /\ o.typ # "MKT" THEN ExecOne(PriceEff(S, o.sym, o.p), id) ELSE ExecOne(S, id)

\* ------------------------------------------------------------------ environment: every legal operation sequence
NActive(S) == Cardinality({i \in 1..Len(S.ord) : S.ord[i].st = "A"})
\* every action appends to the history and (when exporting) prints the transition with its witness
Edge == Export => PrintT(<<"EDGE", ToJson([hist |-> hist', cur0 |-> st.c0])>>)
H(e) == hist' = Append(hist, e) /\ Edge

Init == /\ st \in {InitState(c0) : c0 \in [Syms -> Prices]} /\ hist = <<>>

Submit(s, side, typ, q, p0, ro) ==
  LET p == IF typ = "MKT" THEN st.cur[s] ELSE p0
      o == [sym |-> s, side |-> side, typ |-> typ, q |-> q, p |-> p, ro |-> ro, st |-> "A"] IN
  /\ ~st.rej /\ Len(st.ord) < MaxOrd /\ NActive(st) < MaxAct
  /\ (typ = "MKT" => p0 = st.cur[s])
  /\ (ro => st.pq[s] # 0 /\ Sgn(side) * st.pq[s] < 0)          \* reduce-only orders go against an open position
  /\ st' = [SubmitEff(Z(st), o) EXCEPT !.gm = [id |-> Len(st.ord) + 1, m |-> MarginImpl(st)]]   \* ghost: margin before
  /\ H([op |-> "submit", sym |-> s, side |-> side, typ |-> typ, q |-> q, p |-> p, ro |-> ro])

Cancel(id) ==
  /\ ~st.rej /\ id \in 1..Len(st.ord) /\ (Dups \/ st.ord[id].st = "A")
  /\ st' = CancelOne(Z(st), id)
  /\ H([op |-> "cancel", id |-> id])

Execute(id) ==
  /\ ~st.rej /\ id \in 1..Len(st.ord) /\ (Dups \/ st.ord[id].st = "A")
  /\ st' = ExecuteEff(Z(st), id)
  /\ H([op |-> "exec", id |-> id])

Flush ==
  /\ ~st.rej /\ st.pending # <<>>
  /\ st' = FlushEff(Z(st))
  /\ H([op |-> "flush"])

CancelAll(s) ==
  /\ Dups /\ ~st.rej /\ st.alist[s] # <<>>
  /\ st' = CancelAllEff(Z(st), s)
  /\ H([op |-> "cancelall", sym |-> s])

Prune(s) ==
  /\ Dups /\ ~st.rej /\ \E i \in SeqSet(st.alist[s]) : st.ord[i].st # "A"
  /\ st' = PruneEff(Z(st), s)
  /\ H([op |-> "prune", sym |-> s])

SetPrice(s, p) ==
  /\ ~st.rej /\ p # st.cur[s]
  /\ st' = PriceEff(Z(st), s, p)
  /\ H([op |-> "price", sym |-> s, p |-> p])


Next ==
  \/ \E s \in Syms, side \in {"buy", "sell"}, typ \in {"MKT", "LMT", "STP"}, q \in Qtys, p \in Prices, ro \in BOOLEAN :
        Submit(s, side, typ, q, p, ro)
  \/ \E id \in 1..MaxOrd : Cancel(id)
  \/ \E id \in 1..MaxOrd : Execute(id)
  \/ Flush
  \/ \E s \in Syms : CancelAll(s)
  \/ \E s \in Syms : Prune(s)
  \/ \E s \in Syms, p \in Prices : SetPrice(s, p)
Spec == Init /\ [][Next]_vars
Depth == Len(hist) < MaxDepth

\* views: ghosts and the history are never part of a state's identity.  ViewAcct additionally forgets
\* final orders and the registries that only matter for C05 (they do not influence the account).
ActSeq(S) == SelectSeq(S.ord, LAMBDA o : o.st = "A")
Rank(S, id) == Cardinality({j \in 1..id : S.ord[j].st = "A"})
ActRanks(S, ids) == LET a == SelectSeq(ids, LAMBDA i : S.ord[i].st = "A") IN [k \in 1..Len(a) |-> Rank(S, a[k])]
ViewAcct == <<ActSeq(st), ActRanks(st, st.pending), st.wallet, st.pq, st.entry, st.cur, st.resB, st.resS, st.rej>>
ViewFull == <<st.ord, st.alist, st.pending, st.trades, st.temp, st.wallet, st.pq, st.entry, st.cur, st.resB, st.resS, st.rej>>

\* ------------------------------------------------------------------ the properties, stated independently
\* Reference quantities are functions of the order records (status!), never of the reserved tables / lists.
ActiveIds(S, s) == {i \in 1..Len(S.ord) : S.ord[i].st = "A" /\ S.ord[i].sym = s}
ResIds(S, s, side) == {i \in ActiveIds(S, s) : ~S.ord[i].ro /\ S.ord[i].side = side}
RowOf(S, i) == <<S.ord[i].q, S.ord[i].p>>
ActBag(S, s, side) == LET ids == ResIds(S, s, side) IN
                      [x \in {RowOf(S, i) : i \in ids} |-> Cardinality({i \in ids : RowOf(S, i) = x})]
RECURSIVE SumNotional(_, _)
SumNotional(S, ids) == IF ids = {} THEN 0 ELSE LET i == CHOOSE x \in ids : TRUE
                                               IN S.ord[i].q * S.ord[i].p + SumNotional(S, ids \ {i})
RECURSIVE RefSpent(_, _)
RefSpent(S, ss) ==
  IF ss = {} THEN RI(0)
  ELSE LET s == CHOOSE x \in ss : TRUE
           held == RSub(CostOf(S.pq[s], S.entry[s]), PnlOf(S.pq[s], S.entry[s], S.cur[s]))
           res == Norm(Max2(SumNotional(S, ResIds(S, s, "buy")), SumNotional(S, ResIds(S, s, "sell"))), Lev)
       IN RAdd(RAdd(held, res), RefSpent(S, ss \ {s}))
\* margin = wallet - sum(entry*|q|/L - pnl) - sum_sym max(sum buy, sum sell)/L over ACTIVE non-reduce-only orders
RefMargin(S) == RSub(S.wallet, RefSpent(S, Syms))

\* reference position update of one fill (average-cost account; reduce-only never increases or flips)
RefQty(q0, sq, ro) ==
  IF ~ro THEN q0 + sq
  ELSE IF q0 * sq >= 0 THEN q0                         \* would open or increase: no effect
  ELSE IF Abs(sq) > Abs(q0) THEN 0 ELSE q0 + sq        \* clamped to a close
RefEntryOK(q0, e0, q1, e1, p) ==
  IF q1 = 0 THEN e1 = RI(0)
  ELSE IF q0 = 0 \/ q0 * q1 < 0 THEN e1 = RI(p)                                   \* opened / flipped at the fill price
  ELSE IF Abs(q1) > Abs(q0) THEN RMulI(e1, Abs(q1)) = RAdd(RMulI(e0, Abs(q0)), RI((Abs(q1) - Abs(q0)) * p))
  ELSE e1 = e0                                                                    \* reductions keep the average
\* quantity whose PnL is realised by the fill
RefClosed(q0, q1) == IF q0 = 0 \/ q0 * q1 < 0 THEN Abs(q0) ELSE IF Abs(q1) < Abs(q0) THEN Abs(q0) - Abs(q1) ELSE 0

ReservedBagOf(S) == \A s \in Syms : BagOf(S.resB[s]) = ActBag(S, s, "buy") /\ BagOf(S.resS[s]) = ActBag(S, s, "sell")
ReservedBag == ReservedBagOf(st)
MarginIsReference == MarginImpl(st) = RefMargin(st)
FlatHasNoEntryOf(S) == \A s \in Syms : (S.pq[s] = 0) = (S.entry[s] = RI(0))
FlatHasNoEntry == FlatHasNoEntryOf(st)
\* C05: what callers see as active (the raw list filtered by status) = the submitted orders that are not final
ActiveReported == \A s \in Syms :
   LET rep == SelectSeq(st.alist[s], LAMBDA i : st.ord[i].st = "A")
   IN SeqSet(rep) = ActiveIds(st, s) /\ Len(rep) = Cardinality(ActiveIds(st, s))
\* C05: an executed order is in exactly one trade (closed trades + the open trade of its symbol), nothing else is
TradeCount(S, i) == Count(Flatten(S.trades), i) + Cardinality({s \in Syms : i \in SeqSet(S.temp[s])})
\* (stated on the concatenation of all trade order lists: no order twice, and exactly the executed ones)
RECURSIVE TempCat(_, _)
TempCat(S, ss) == IF ss = {} THEN <<>> ELSE LET s == CHOOSE x \in ss : TRUE IN S.temp[s] \o TempCat(S, ss \ {s})
OneTradeOf(S) ==
   LET all == Flatten(S.trades) \o TempCat(S, Syms) IN
   /\ Len(all) = Cardinality(SeqSet(all))
   /\ SeqSet(all) = {i \in 1..Len(S.ord) : S.ord[i].st = "E"}
ExecutedInExactlyOneTrade == OneTradeOf(st)
\* legality consequence used by the environment: nothing reduce-only rests on a flat symbol
NoReduceOnlyWhenFlat == CancelOnClose => \A s \in Syms : st.pq[s] = 0 => \A i \in ActiveIds(st, s) : ~st.ord[i].ro

Last == hist'[Len(hist')]
Equity(S, cv) == LET RECURSIVE Sum(_)
                     Sum(ss) == IF ss = {} THEN RI(0) ELSE LET s == CHOOSE x \in ss : TRUE
                                 IN RAdd(PnlOf(S.pq[s], S.entry[s], cv[s]), Sum(ss \ {s}))
                 IN RAdd(S.wallet, Sum(Syms))
RECURSIVE CashSum(_, _, _, _)
CashSum(S0, S1, cv, ss) == IF ss = {} THEN 0 ELSE LET s == CHOOSE x \in ss : TRUE
                           IN cv[s] * (S1.pq[s] - S0.pq[s]) - S1.gcash[s] + CashSum(S0, S1, cv, ss \ {s})
\* mark-to-market identity in delta form: for every valuation cv of the symbols,
\* Equity'(cv) - Equity(cv) = -fees + sum_s (cv[s] * dq[s] - cash paid for dq[s])
MTMStep == [][\A cv \in [Syms -> Prices] :
                 RSub(Equity(st', cv), Equity(st, cv)) = RSub(RI(CashSum(st, st', cv, Syms)), st'.gfee)]_vars

IsFill == Last.op = "exec" /\ st.ord[Last.id].st = "A"
FillOrd == st.ord[Last.id]
ReduceOnlyNeverIncreasesOrFlips ==
  [][(IsFill /\ FillOrd.ro) =>
        LET s == FillOrd.sym IN Abs(st'.pq[s]) <= Abs(st.pq[s]) /\ st'.pq[s] * st.pq[s] >= 0]_vars
\* the position of the fill's symbol follows the reference average-cost update; other symbols are untouched;
\* the wallet moves by -fee + realised PnL of the closed quantity at the old average
\* FillOK(S, id, S1): S1 is what the reference account makes of the fill of the ACTIVE order id in state S
FillOK(S, id, S1) ==
  LET o == S.ord[id]  s == o.sym  sq == Sgn(o.side) * o.q
      q0 == S.pq[s]  q1 == S1.pq[s]
      closed == RefClosed(q0, q1)
      real == IF closed = 0 THEN RI(0) ELSE RMulI(RSub(RI(o.p), S.entry[s]), IF q0 > 0 THEN closed ELSE -closed)
      \* the fee is charged on what is filled: a reduce-only order against the position fills at most its size
      filled == IF o.ro /\ q0 * sq < 0 THEN Min2(o.q, Abs(q0)) ELSE o.q
  IN /\ q1 = RefQty(q0, sq, o.ro)
     /\ RefEntryOK(q0, S.entry[s], q1, S1.entry[s], o.p)
     /\ S1.wallet = RAdd(RSub(S.wallet, Norm(filled * o.p * FeeNum, FeeDen)), real)
     /\ (o.ro => Abs(q1) <= Abs(q0) /\ q1 * q0 >= 0)
     /\ \A x \in Syms \ {s} : S1.pq[x] = S.pq[x] /\ S1.entry[x] = S.entry[x]
AvgCostStep == [][IsFill => FillOK(st, Last.id, st')]_vars
\* pending market orders flushed together: the same per-fill statement for every fill of the flush, on the
\* intermediate states of execute_pending_market_orders (an order that an earlier fill of the same flush closed
\* out and cancelled must be a no-op), and the flush ends in the last of these states
RECURSIVE FillsOK(_, _)
FillsOK(S, ids) ==
  IF ids = <<>> THEN TRUE
  ELSE LET id == Head(ids)  S1 == ExecOne(S, id)
       IN /\ IF S.ord[id].st = "A" THEN FillOK(S, id, S1)
             ELSE <<S1.wallet, S1.pq, S1.entry, S1.ord, S1.trades, S1.temp>> = <<S.wallet, S.pq, S.entry, S.ord, S.trades, S.temp>>
          /\ FillsOK(S1, Tail(ids))
FlushPerFill ==
  [][Last.op = "flush" =>
        /\ FillsOK(Z(st), st.pending)
        /\ LET F == ExecSeq(Z(st), st.pending) IN
             <<st'.wallet, st'.pq, st'.entry, st'.ord>> = <<F.wallet, F.pq, F.entry, F.ord>>]_vars
RejectIff ==
  [][Last.op = "submit" =>
        (st'.rej <=> (~Last.ro /\ RLt(RefMargin(st), Norm(Last.q * Last.p, Lev))))]_vars
\* submitting then cancelling restores the available margin exactly (nothing else in between)
SubmitCancelRestores ==
  [][(Last.op = "cancel" /\ st.gm.id = Last.id /\ st.ord[Last.id].st = "A") => MarginImpl(st') = st.gm.m]_vars

\* C05
Acct(S) == <<S.wallet, S.pq, S.entry, S.resB, S.resS, S.trades, S.temp, S.ord>>
FinalIsFinal ==
  [][/\ Len(st'.ord) >= Len(st.ord)
     /\ \A i \in 1..Len(st.ord) :
           /\ st.ord[i].st # "A" => st'.ord[i] = st.ord[i]
           \* an active order changes nothing but its status - except that the fill of a reduce-only order records the
           \* filled quantity (never more than ordered) at the very transition to EXECUTED
           /\ [st'.ord[i] EXCEPT !.st = "A", !.q = 0] = [st.ord[i] EXCEPT !.st = "A", !.q = 0]
           /\ (st'.ord[i].q = st.ord[i].q
               \/ (st.ord[i].ro /\ st'.ord[i].st = "E" /\ st'.ord[i].q < st.ord[i].q /\ st'.ord[i].q > 0))]_vars
FinalOpsAreNoOps ==
  [][/\ (Last.op \in {"exec", "cancel"} /\ st.ord[Last.id].st # "A") => Acct(st') = Acct(st) /\ st'.cur = st.cur
     /\ (Last.op = "flush" /\ \A i \in SeqSet(st.pending) : st.ord[i].st # "A") => Acct(st') = Acct(st)
     /\ (Last.op = "cancelall" /\ \A i \in SeqSet(st.alist[Last.sym]) : st.ord[i].st # "A") => Acct(st') = Acct(st)
     /\ (Last.op = "prune") => Acct(st') = Acct(st)]_vars
=============================================================================
