----------------------------- MODULE MetricsDef -----------------------------
(* C16.  Every count / sum / ratio / streak metric of jesse.services.metrics   *)
(* trades() as a fold over the trade list, and the equity ratios over a list of *)
(* daily balances, in exact integer / rational arithmetic.  Pure operators.     *)
(*                                                                             *)
(* A trade is [pnl, typ, fee]: pnl and fee are integers in units of 1/U of the  *)
(* account currency (U is a power of two chosen by the driver so that the real  *)
(* ClosedTrade values are exact), typ is "long" or "short".                     *)
(* A rational is <<num, den>> with den > 0; Norm makes it canonical.            *)
EXTENDS Integers, Sequences, FiniteSets
Abs(x) == IF x < 0 THEN -x ELSE x
Sign(x) == IF x > 0 THEN 1 ELSE IF x < 0 THEN -1 ELSE 0
RECURSIVE Gcd(_, _)
Gcd(a, b) == IF b = 0 THEN a ELSE Gcd(b, a % b)
Lcm(a, b) == (a \div Gcd(a, b)) * b
Norm(r) == IF r[1] = 0 THEN <<0, 1>>
           ELSE LET s == IF r[2] < 0 THEN -1 ELSE 1  g == Gcd(Abs(r[1]), Abs(r[2])) IN <<(s * r[1]) \div g, (s * r[2]) \div g>>
\* product of two rationals, cross-reduced first so that the intermediate products stay small
RatMul(x, y) == LET g1 == Gcd(Abs(x[1]), y[2])  g2 == Gcd(Abs(y[1]), x[2])
                IN Norm(<<(x[1] \div g1) * (y[1] \div g2), (x[2] \div g2) * (y[2] \div g1)>>)
MaxOf(S) == CHOOSE x \in S : \A y \in S : y <= x
MinOf(S) == CHOOSE x \in S : \A y \in S : x <= y

\* ------------------------------------------------------------------ folds over the trade list
SumOver(s, f(_)) == LET F[i \in 0..Len(s)] == IF i = 0 THEN 0 ELSE F[i - 1] + f(s[i]) IN F[Len(s)]
CountOver(s, P(_)) == LET F[i \in 0..Len(s)] == IF i = 0 THEN 0 ELSE F[i - 1] + (IF P(s[i]) THEN 1 ELSE 0) IN F[Len(s)]
IsWin(t) == t.pnl > 0
IsLoss(t) == t.pnl < 0
IsEven(t) == t.pnl = 0
Total(s) == Len(s)
Wins(s) == CountOver(s, IsWin)
Losses(s) == CountOver(s, IsLoss)
Evens(s) == CountOver(s, IsEven)
Longs(s) == CountOver(s, LAMBDA t : t.typ = "long")
Shorts(s) == CountOver(s, LAMBDA t : t.typ = "short")
Net(s) == SumOver(s, LAMBDA t : t.pnl)
GrossProfit(s) == SumOver(s, LAMBDA t : IF t.pnl > 0 THEN t.pnl ELSE 0)
GrossLoss(s) == SumOver(s, LAMBDA t : IF t.pnl < 0 THEN t.pnl ELSE 0)
FeeSum(s) == SumOver(s, LAMBDA t : t.fee)
LargestWin(s) == MaxOf({0} \cup {s[i].pnl : i \in DOMAIN s})           \* 0 without winners
LargestLoss(s) == MinOf({0} \cup {s[i].pnl : i \in DOMAIN s})          \* 0 without losers
\* ratios (defined when the denominator is positive)
WinRate(s) == IF Wins(s) = 0 THEN <<0, 1>> ELSE <<Wins(s), Wins(s) + Losses(s)>>
AvgWin(s) == <<GrossProfit(s), Wins(s)>>                              \* needs Wins > 0
AvgLoss(s) == <<-GrossLoss(s), Losses(s)>>                            \* needs Losses > 0 (reported as a magnitude)
\* expectancy = avg_win * win_rate - avg_loss * (1 - win_rate), an undefined average counting as 0
Expectancy(s) == LET w == Wins(s)  l == Losses(s) IN IF w + l = 0 THEN <<0, 1>> ELSE <<GrossProfit(s) + GrossLoss(s), w + l>>
LongsPct(s) == <<100 * Longs(s), Total(s)>>

\* streaks: runs of strictly winning / strictly losing trades; a break-even trade ends both
StreakSeq(s) == LET F[i \in 0..Len(s)] ==
                      IF i = 0 THEN 0
                      ELSE IF s[i].pnl > 0 THEN (IF F[i - 1] > 0 THEN F[i - 1] + 1 ELSE 1)
                      ELSE IF s[i].pnl < 0 THEN (IF F[i - 1] < 0 THEN F[i - 1] - 1 ELSE -1) ELSE 0
                IN F
WinStreak(s) == MaxOf({0} \cup {StreakSeq(s)[i] : i \in 1..Len(s)})
LoseStreak(s) == MaxOf({0} \cup {-StreakSeq(s)[i] : i \in 1..Len(s)})
CurStreak(s) == StreakSeq(s)[Len(s)]

\* the same three numbers the way metrics.trades computes them (numpy cumsum / maximum.accumulate, l.276-286)
ImplStreaks(s) ==
  LET n == Len(s)
      pos[i \in 0..n] == IF i = 0 THEN 0 ELSE pos[i - 1] + (IF s[i].pnl > 0 THEN 1 ELSE 0)
      neg[i \in 0..n] == IF i = 0 THEN 0 ELSE neg[i - 1] + (IF s[i].pnl < 0 THEN 1 ELSE 0)
      ma[i \in 0..n] == IF i = 0 THEN 0 ELSE LET a == IF s[i].pnl <= 0 THEN pos[i] ELSE 0 IN IF a > ma[i - 1] THEN a ELSE ma[i - 1]
      mb[i \in 0..n] == IF i = 0 THEN 0 ELSE LET b == IF s[i].pnl >= 0 THEN neg[i] ELSE 0 IN IF b > mb[i - 1] THEN b ELSE mb[i - 1]
      cs == [i \in 1..n |-> IF s[i].pnl >= 0 THEN pos[i] - ma[i] ELSE mb[i] - neg[i]]
      smin == MinOf({cs[i] : i \in 1..n})   smax == MaxOf({cs[i] : i \in 1..n})
  IN [win |-> IF smax > 0 THEN smax ELSE 0, lose |-> IF smin > 0 THEN 0 ELSE -smin, cur |-> cs[n]]

\* ------------------------------------------------------------------ equity ratios over daily balances b (positive integers)
\* daily returns r_i = b[i+1] / b[i] - 1, i = 1..k, k = Len(b) - 1, as integers a_i over the common denominator L
K(b) == Len(b) - 1
RECURSIVE LcmUpTo(_, _)
LcmUpTo(b, i) == IF i = 0 THEN 1 ELSE Lcm(LcmUpTo(b, i - 1), b[i])
L(b) == LcmUpTo(b, K(b))
Ret(b) == [i \in 1..K(b) |-> (b[i + 1] - b[i]) * (L(b) \div b[i])]
SumSeq(a) == LET F[i \in 0..Len(a)] == IF i = 0 THEN 0 ELSE F[i - 1] + a[i] IN F[Len(a)]
\* maximum drawdown of the wealth curve W_0 = 1, W_t = prod (1 + r_i) = b[t+1] / b[1]: the largest relative fall from a
\* running peak, the starting wealth being the first peak.  from = 1: standard; from = 2: what metrics.max_drawdown
\* does (the first return is NaN, the cumulative product and its running maximum start at the second sample)
PeakFrom(b, from, t) == MaxOf({b[j] : j \in from..t})
\* index of the deepest relative trough: b[t] / peak(t) minimal
DDLess(b, from, t, u) == b[t] * PeakFrom(b, from, u) < b[u] * PeakFrom(b, from, t)
MaxDD(b, from) == LET T == from..Len(b)
                      t == CHOOSE t \in T : \A u \in T : ~DDLess(b, from, u, t)
                  IN Norm(<<b[t] - PeakFrom(b, from, t), PeakFrom(b, from, t)>>)
\* Omega(0) = sum of gains / sum of losses (defined when there is a loss)
OmegaDefined(b) == \E i \in 1..K(b) : b[i + 1] < b[i]
Omega(b) == LET a == Ret(b) IN Norm(<<SumSeq([i \in 1..K(b) |-> IF a[i] > 0 THEN a[i] ELSE 0]),
                                      SumSeq([i \in 1..K(b) |-> IF a[i] < 0 THEN -a[i] ELSE 0])>>)
\* Sharpe^2 = 365 * mean^2 / var(ddof = 1) = 365 (k - 1) A^2 / sum (k a_i - A)^2 ; sign = sign(A)
SharpeDen(b) == LET a == Ret(b)  A == SumSeq(a) IN SumSeq([i \in 1..K(b) |-> (K(b) * a[i] - A) * (K(b) * a[i] - A)])
SharpeDefined(b) == K(b) >= 2 /\ SharpeDen(b) > 0
Sharpe2(b) == LET A == SumSeq(Ret(b)) IN Norm(<<365 * (K(b) - 1) * A * A, SharpeDen(b)>>)
MeanSign(b) == Sign(SumSeq(Ret(b)))
\* Sortino^2 = 365 * mean^2 / (sum_{r<0} r^2 / k) = 365 A^2 / (k * sum_{a<0} a^2)
SortinoDen(b) == LET a == Ret(b) IN K(b) * SumSeq([i \in 1..K(b) |-> IF a[i] < 0 THEN a[i] * a[i] ELSE 0])
SortinoDefined(b) == SortinoDen(b) > 0
Sortino2(b) == LET A == SumSeq(Ret(b)) IN Norm(<<365 * A * A, SortinoDen(b)>>)
\* what metrics.sortino_ratio computes: the squared negative returns are divided by len(returns), which counts the
\* leading NaN row of pct_change, i.e. by the number of balances k + 1 instead of the number of returns k
Sortino2Impl(b) == LET A == SumSeq(Ret(b)) IN Norm(<<365 * A * A * (K(b) + 1), SortinoDen(b) * K(b)>>)
\* annual return over exactly one 365-day year (366 samples): last / first - 1
OneYear(b) == K(b) = 365
Cagr(b) == Norm(<<b[Len(b)] - b[1], b[1]>>)
\* Calmar = CAGR / |max drawdown| (0 when there is no drawdown)
Calmar(b, from) == LET c == Cagr(b)  d == MaxDD(b, from) IN IF d[1] = 0 THEN <<0, 1>> ELSE Norm(<<c[1] * d[2], c[2] * (-d[1])>>)

\* ------------------------------------------------------------------ the same folds, one trade / one balance at a time
\* (used by the trace spec on long lists; Metrics.tla checks that they equal the definitions above)
Agg0 == [n |-> 0, w |-> 0, l |-> 0, z |-> 0, longs |-> 0, shorts |-> 0, net |-> 0, gp |-> 0, gl |-> 0, fee |-> 0,
         lw |-> 0, ll |-> 0, cur |-> 0, ws |-> 0, ls |-> 0]
AggStep(a, t) ==
  LET cur == IF t.pnl > 0 THEN (IF a.cur > 0 THEN a.cur + 1 ELSE 1)
             ELSE IF t.pnl < 0 THEN (IF a.cur < 0 THEN a.cur - 1 ELSE -1) ELSE 0
  IN [n |-> a.n + 1,
      w |-> a.w + (IF t.pnl > 0 THEN 1 ELSE 0), l |-> a.l + (IF t.pnl < 0 THEN 1 ELSE 0), z |-> a.z + (IF t.pnl = 0 THEN 1 ELSE 0),
      longs |-> a.longs + (IF t.typ = "long" THEN 1 ELSE 0), shorts |-> a.shorts + (IF t.typ = "short" THEN 1 ELSE 0),
      net |-> a.net + t.pnl, gp |-> a.gp + (IF t.pnl > 0 THEN t.pnl ELSE 0), gl |-> a.gl + (IF t.pnl < 0 THEN t.pnl ELSE 0),
      fee |-> a.fee + t.fee,
      lw |-> IF t.pnl > a.lw THEN t.pnl ELSE a.lw, ll |-> IF t.pnl < a.ll THEN t.pnl ELSE a.ll,
      cur |-> cur, ws |-> IF cur > a.ws THEN cur ELSE a.ws, ls |-> IF -cur > a.ls THEN -cur ELSE a.ls]
\* running maximum drawdown: peak so far and the deepest trough as the pair (trough balance, its peak)
DD0(x) == [peak |-> x, tb |-> x, tp |-> x]
DDStep(d, x) == LET pk == IF x > d.peak THEN x ELSE d.peak
                IN IF x * d.tp < d.tb * pk THEN [peak |-> pk, tb |-> x, tp |-> pk] ELSE [peak |-> pk, tb |-> d.tb, tp |-> d.tp]
DDValue(d) == Norm(<<d.tb - d.tp, d.tp>>)
=============================================================================
