------------------------------- MODULE Candles -------------------------------
(* C07 / C20.  Value-level candle arithmetic on the integer lattice.            *)
(* A candle is the tuple <<ts, open, close, high, low, volume>> in jesse's      *)
(* column order; ts is a minute index, prices and volumes are integers (the     *)
(* drivers generate inputs that are exact in float64, so "=" is exact).         *)
EXTENDS Integers, Sequences
Ts(c) == c[1]
Op(c) == c[2]
Cl(c) == c[3]
Hi(c) == c[4]
Lo(c) == c[5]
Vo(c) == c[6]
CMin(a, b) == IF a < b THEN a ELSE b
CMax(a, b) == IF a > b THEN a ELSE b
IsCandle(c) == Len(c) = 6

\* aggregation of the rows s[lo..hi] (lo <= hi): window-start timestamp, first open, last close,
\* maximum high, minimum low, summed volume
RECURSIVE AggFrom(_, _, _, _)
AggFrom(s, k, hi, acc) ==
  IF k > hi THEN acc
  ELSE AggFrom(s, k + 1, hi, <<acc[1], acc[2], s[k][3], CMax(acc[4], s[k][4]), CMin(acc[5], s[k][5]), acc[6] + s[k][6]>>)
\* divide and conquer above 32 rows: the recursion depth stays logarithmic (a 1W window has 10 080 rows)
Join(a, b) == <<a[1], a[2], b[3], CMax(a[4], b[4]), CMin(a[5], b[5]), a[6] + b[6]>>
RECURSIVE Agg(_, _, _)
Agg(s, lo, hi) == IF hi - lo < 32 THEN AggFrom(s, lo + 1, hi, s[lo])
                  ELSE LET mid == (lo + hi) \div 2 IN Join(Agg(s, lo, mid), Agg(s, mid + 1, hi))
AggAll(s) == Agg(s, 1, Len(s))

\* the documented normalisation of a gapping open (and the matching high/low bound) to the previous close
FixJump(prevClose, c) ==
  IF prevClose < c[2] THEN <<c[1], prevClose, c[3], c[4], CMin(prevClose, c[5]), c[6]>>
  ELSE IF prevClose > c[2] THEN <<c[1], prevClose, c[3], CMax(prevClose, c[4]), c[5], c[6]>>
  ELSE c

\* flat zero-volume candle at price p
Flat(ts, p) == <<ts, p, p, p, p, 0>>

\* jesse's timeframe table (minutes), utils.timeframe_to_one_minutes / backtest_mode.timeframe_to_one_minutes
TFNames == <<"1m", "3m", "5m", "15m", "30m", "45m", "1h", "2h", "3h", "4h", "6h", "8h", "12h", "1D", "3D", "1W", "1M">>
TFMinutes == <<1, 3, 5, 15, 30, 45, 60, 120, 180, 240, 360, 480, 720, 1440, 4320, 10080, 43200>>
=============================================================================
