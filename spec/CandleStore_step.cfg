\* step simulator, 1m trading route + 3m/5m data routes, no warm-up, repaired constants (set the Q* constants to TRUE for
\* the behaviour of the code: TLC then reports NoReadError / RowsAreAggregations counter-examples)
SPECIFICATION SpecM
VIEW View
CHECK_DEADLOCK FALSE
CONSTANTS TFs = {3,5} TradeTF = 1 Warm = 0 N = 11 MaxFills = 2 Fast = FALSE
QStale = FALSE QEmptyRead = FALSE QPartialChunk = FALSE QChunkTrading = FALSE EpochOffset = 0 QEpochGrid = TRUE Export = FALSE
INVARIANT NoReadError
INVARIANT RowsAreAggregations
INVARIANT CurrentIsAggregation
INVARIANT NoSimulatorError
INVARIANT OneMinuteGapless
INVARIANT FullCandlesAtSteps
INVARIANT TFStrictlyIncreasing
INVARIANT AllMinutesStored
