SPECIFICATION Spec
CHECK_DEADLOCK FALSE
CONSTANTS K = 3 MaxOrders = 3 ChunkLen = 2 MaxReact = 0 Variant = "tree" Export = FALSE
INVARIANT NoMissedFill
INVARIANT NoFillOutsideRange
INVARIANT TypeOK
PROPERTY FinalIsFinal
