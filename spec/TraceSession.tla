---------------------------- MODULE TraceSession ----------------------------
(* C11, code -> spec, self-composition of two recorded runs of the real                       *)
(* jesse.research.backtest: the probe call after a history of earlier calls in the same       *)
(* process ("after") and the same probe call in a process that never ran a session ("fresh"). *)
(* One initial state per recorded pair; deterministic; total: the walk visits every field     *)
(* class in a fixed order and accumulates the classes in which the two runs differ, it never  *)
(* blocks.  A field class is flagged when                                                     *)
(*   - the two runs differ in it (purity: equal arguments, equal results), or                  *)
(*   - the run does not show the value its own arguments demand (ProbeSeesItsArguments of     *)
(*     Session.tla, checked on the recorded observation instead of the model variable), or    *)
(*   - an argument object changed between call and return.                                    *)
(* (hdr.relational = TRUE restricts the walk to the first kind: used to validate the harness  *)
(* itself - a forked child against a brand-new interpreter.)                                  *)
(* The result classes (exception, orders, trades, metrics, balances ...) are only named when   *)
(* no behavioural root class explains the difference.  The verdict also says whether the set   *)
(* of flagged root classes and the outcomes of the earlier calls are exactly what the          *)
(* as-is variant of Session.tla predicted for this history (hdr.pred, exported by TLC).        *)
EXTENDS Integers, Sequences, FiniteSets, TLC, Json, IOUtils
Data == JsonDeserialize(IOEnv.TRACE_FILE)
Traces == Data.traces
VARIABLES tid, l, flagged, freshFlagged, verdict
vars == <<tid, l, flagged, freshFlagged, verdict>>

\* root classes: what the running simulation effectively read; in this order
Root == <<"driver", "account-type", "leverage", "leverage-mode", "fee-rate", "fee-in-trades", "balance",
          "warmup-size", "warmup-visible", "routes", "shared-vars", "debug-mode", "hyperparameters", "strategy-state",
          "strategy-metrics", "arguments-modified", "inputs">>
\* result classes: the returned value and the order/trade trace
\* ("returned-value": every key of the returned dict other than 'metrics', with its value)
Result == <<"exception", "first-step", "margin", "orders", "trades", "metrics", "final-balances", "result-keys",
            "returned-value">>
All == Root \o Result
\* a difference in one of these explains any difference in the result classes
Behavioural == {"driver", "account-type", "leverage", "leverage-mode", "fee-rate", "fee-in-trades", "balance",
                "warmup-size", "warmup-visible", "routes", "debug-mode", "hyperparameters", "strategy-state",
                "strategy-metrics", "inputs"}
\* the classes Session.tla talks about
Modelled == {"driver", "account-type", "leverage", "leverage-mode", "fee-rate", "fee-in-trades", "balance",
             "warmup-size", "warmup-visible", "routes", "shared-vars", "debug-mode"}

T == Traces[tid]
A == T.after
F == Data.hdr.fresh[T.fresh_id]      \* the probe in a never-used process (one record per probe)
E == T.hdr.exp

Field(r, c) ==
  CASE c = "driver" -> r.driver
    [] c = "account-type" -> r.typ
    [] c = "leverage" -> r.lev
    [] c = "leverage-mode" -> r.mode
    [] c = "fee-rate" -> r.fee_rate
    [] c = "fee-in-trades" -> r.trade_fee_rates
    [] c = "balance" -> r.bal
    [] c = "warmup-size" -> r.slice
    [] c = "warmup-visible" -> r.visible
    [] c = "routes" -> r.routes
    [] c = "shared-vars" -> r.shared
    [] c = "debug-mode" -> r.debug
    [] c = "hyperparameters" -> r.hp
    [] c = "strategy-state" -> r.strategy_state        \* portfolio value, self.trades, daily balances, self.vars,
                                                       \* containers on the strategy classes - at the first step
    [] c = "strategy-metrics" -> r.strategy_metrics    \* self.metrics & co. after the first closed trades
    [] c = "arguments-modified" -> r.args_after
    [] c = "inputs" -> r.args_before
    [] c = "exception" -> r.exc
    [] c = "first-step" -> r.first
    [] c = "margin" -> r.margin
    [] c = "orders" -> r.orders
    [] c = "trades" -> r.trades
    [] c = "metrics" -> r.metrics
    [] c = "final-balances" -> r.balances
    [] c = "result-keys" -> r.result_keys
    [] c = "returned-value" -> r.result_items

\* purity: the two runs differ in class c
Differs(c) ==
  CASE c = "fee-in-trades" -> A.trade_fee_rates # <<>> /\ F.trade_fee_rates # <<>> /\ A.trade_fee_rates # F.trade_fee_rates
    [] c = "arguments-modified" -> FALSE                       \* not relational, see Unseen
    [] OTHER -> Field(A, c) # Field(F, c)

\* ProbeSeesItsArguments on one recorded run (only when the run reached its first strategy step)
Unseen(r, c) ==
  IF c = "arguments-modified"      \* the probe's own arguments at its return, those of the earlier calls at the end
  THEN r.args_after # r.args_before \/ r.hist_args_after # r.hist_args_before
  ELSE IF ~r.has_obs THEN FALSE
  ELSE CASE c = "driver" -> r.driver # "yes"
         [] c = "account-type" -> r.typ # E.typ
         [] c = "leverage" -> r.lev # E.lev
         [] c = "leverage-mode" -> r.mode # E.mode
         [] c = "fee-rate" -> r.fee_rate # E.fee
         [] c = "fee-in-trades" -> \E i \in DOMAIN r.trade_fee_rates : r.trade_fee_rates[i] # E.fee
         [] c = "balance" -> r.bal # E.bal
         [] c = "warmup-size" -> r.slice # E.slice
         [] c = "warmup-visible" -> r.visible # E.visible
         [] c = "routes" -> r.routes # E.routes
         [] c = "shared-vars" -> r.shared # <<>>
         [] c = "debug-mode" -> r.debug # E.debug
         [] c = "hyperparameters" -> r.hp # E.hp
         [] OTHER -> FALSE

\* ---- history shape class ------------------------------------------------------------------------
Hist == T.hdr.hist
SameEx  == \E i \in DOMAIN Hist : Hist[i].ex = T.hdr.probe.ex
OtherEx == \E i \in DOMAIN Hist : Hist[i].ex # T.hdr.probe.ex
OkSession == \E i \in DOMAIN A.hist_exc : A.hist_exc[i] = "none"
\* a missing driver can only come from a session on another exchange name, a stale configuration value only
\* from one on the same name; the class is named after the kind of session that can explain it when there is one
Shape(c) == IF Len(Hist) = 0 THEN "fresh-process"
            ELSE "after-" \o (IF OkSession THEN "ok-session" ELSE "crash") \o "-"
                 \o (IF c = "driver" THEN (IF OtherEx THEN "other-exchange-name" ELSE "same-exchange")
                     ELSE (IF SameEx THEN "same-exchange" ELSE "other-exchange-name"))

SeqToSet(s) == {s[i] : i \in DOMAIN s}
\* a known defect explains a flagged class only for the histories for which the as-is variant of Session.tla
\* predicts it; anything else is named differently (and so can never hide behind a listed finding)
Label(c) == c \o ":" \o Shape(c) \o
            (IF T.hdr.has_pred /\ c \in Modelled /\ c \notin SeqToSet(T.hdr.pred_stale)
             THEN ":not-predicted-by-the-as-is-model" ELSE "")
IsRoot(c) == \E i \in DOMAIN Root : Root[i] = c
Explained == flagged \cap Behavioural # {}

Init == tid \in 1..Len(Traces) /\ l = 1 /\ flagged = {} /\ freshFlagged = {} /\ verdict = ""

Add(v, c) == IF v = "" THEN c ELSE v \o "|" \o c

Step ==
  /\ l <= Len(All)
  /\ LET c == All[l]
         hit == IF c = "strategy-metrics"      \* read later in the run: only named when nothing seen earlier explains it
                THEN ~Explained /\ Differs(c)
                ELSE IF IsRoot(c) THEN Differs(c) \/ (~T.hdr.relational /\ Unseen(A, c))
                ELSE ~Explained /\ Differs(c) /\ ~(\E k \in 1..(l - 1) : ~IsRoot(All[k]) /\ All[k] \in flagged)
         fhit == IsRoot(c) /\ ~T.hdr.relational /\ Unseen(F, c)
     IN /\ flagged' = IF hit THEN flagged \cup {c} ELSE flagged
        /\ freshFlagged' = IF fhit THEN freshFlagged \cup {c} ELSE freshFlagged
        /\ verdict' = IF hit THEN Add(verdict, Label(c)) ELSE verdict
  /\ l' = l + 1 /\ UNCHANGED tid
Spec == Init /\ [][Step]_vars

\* ---- does the as-is variant of Session.tla predict exactly this?  (calibration of the model) -----
Outcome(x) == IF x = "none" THEN "none" ELSE "exc"
ModelAgrees ==
  IF ~T.hdr.has_pred THEN "n/a"
  ELSE IF [i \in DOMAIN A.hist_exc |-> Outcome(A.hist_exc[i])] # T.hdr.pred_excs THEN "outcomes-differ"
  ELSE IF flagged \cap Modelled = SeqToSet(T.hdr.pred_stale) THEN "as-is"
  ELSE IF flagged \cap Modelled = {} THEN "intended"
  ELSE "neither"

FreshVerdict == IF freshFlagged = {} THEN "ok"
                ELSE LET RECURSIVE J(_)
                         J(i) == IF i > Len(Root) THEN ""
                                 ELSE IF Root[i] \in freshFlagged
                                      THEN (IF J(i + 1) = "" THEN Root[i] ELSE Root[i] \o "|" \o J(i + 1))
                                      ELSE J(i + 1)
                     IN J(1)
Finished == l > Len(All)
Report == Finished => PrintT(<<"VERDICT", T.id, l - 1, IF verdict = "" THEN "ok" ELSE verdict, ModelAgrees,
                               FreshVerdict>>)
=============================================================================
