------------------------------- MODULE TwoRun -------------------------------
(* C01, code -> spec: self-composition of two recorded executions of the real   *)
(* simulator.  Run A was fed the series S, run B the series S[0..cut-1] followed *)
(* by an arbitrary other valid tail.  Both observation sequences are loaded into *)
(* ONE behaviour and TLC decides the 2-run hyper-property                        *)
(*                                                                              *)
(*    every observation with simulated time <= cut coincides in A and B, and     *)
(*    both runs made the same number of observations up to the cut               *)
(*                                                                              *)
(* plus two single-run consequences of the horizon invariant of StepSim/FastSim *)
(* (maxRead < clock), evaluated on every observation of both complete runs:      *)
(*   horizon   - a row a strategy could read never starts at or after the clock  *)
(*   hindsight - a resting order submitted at a strategy step (not inside a      *)
(*               fill) is never executed at a time <= its submission time, i.e.  *)
(*               never matched against a candle the decision already knew        *)
(*                                                                              *)
(* Time is the simulated clock in minutes since the session start (store.app.time*)
(* = end of the last fed minute); candle i is the minute [i, i+1), so "cut" = the*)
(* index of the first replaced candle = the latest clock value that may only     *)
(* depend on the common prefix.  One initial state per pair, deterministic,      *)
(* total: a mismatch sets the verdict, it never disables a step.                 *)
EXTENDS Integers, Sequences, TLC, Json, IOUtils
Data   == JsonDeserialize(IOEnv.TRACE_FILE)
Traces == Data.traces

VARIABLES tid, ph, ia, ib, verdict
vars == <<tid, ph, ia, ib, verdict>>

A(t)   == Traces[t].a
B(t)   == Traces[t].b
Cut(t) == Traces[t].hdr.cut
Names(t, k) == Traces[t].hdr.names[k]

Init == /\ tid \in 1..Len(Traces) /\ ph = "singleA" /\ ia = 1 /\ ib = 1 /\ verdict = "ok"

\* ---- single-run clauses --------------------------------------------------------------------
\* the fast simulator advances its clock only at fills and chunk ends (FastSim.tla, ClockMonotone is violated with
\* two symbols), so its horizon is the end of the chunk the clock lies in; Chunk = 1 for the step simulator
Chunk(t)      == Traces[t].hdr.chunk
RoundUp(x, c) == ((x + c - 1) \div c) * c
Horizon(e, t) == \A j \in DOMAIN e.h : e.h[j] < RoundUp(e.t, Chunk(t))
Hindsight(e) == (e.k = "exec" /\ e.f[4] # "MARKET" /\ e.cd = 0) => e.t > e.ct
Single(e, t) == IF ~Horizon(e, t) THEN "horizon:" \o e.k \o ":" \o e.f[1]
                ELSE IF ~Hindsight(e) THEN "hindsight:" \o e.f[4]
                ELSE "ok"

WalkA == /\ ph = "singleA"
         /\ IF ia > Len(A(tid)) THEN ph' = "singleB" /\ UNCHANGED <<ia, ib, verdict>>
            ELSE /\ verdict' = Single(A(tid)[ia], tid) /\ ia' = ia + 1 /\ UNCHANGED <<ph, ib>>
WalkB == /\ ph = "singleB"
         /\ IF ib > Len(B(tid)) THEN ph' = "pair" /\ ia' = 1 /\ ib' = 1 /\ UNCHANGED verdict
            ELSE /\ verdict' = Single(B(tid)[ib], tid) /\ ib' = ib + 1 /\ UNCHANGED <<ph, ia>>

\* ---- the pair: two cursors skipping observations made after the cut -------------------------
FirstDiff(x, y) == CHOOSE j \in 1..Len(x) : x[j] # y[j] /\ \A m \in 1..(j - 1) : x[m] = y[m]
Cmp(x, y, t) ==
  IF x.k # y.k THEN "prefix:kind:" \o x.k \o "/" \o y.k
  ELSE IF x.t # y.t THEN "prefix:" \o x.k \o ":time"
  ELSE IF Len(x.f) # Len(y.f) THEN "prefix:" \o x.k \o ":arity"
  ELSE IF x.f # y.f THEN "prefix:" \o x.k \o ":" \o Names(t, x.k)[FirstDiff(x.f, y.f)]
  ELSE "ok"

Pair ==
  /\ ph = "pair"
  /\ LET a == A(tid)  b == B(tid)  c == Cut(tid)
         endA == ia > Len(a)  endB == ib > Len(b) IN
     IF ~endA /\ a[ia].t > c THEN ia' = ia + 1 /\ UNCHANGED <<ph, ib, verdict>>
     ELSE IF ~endB /\ b[ib].t > c THEN ib' = ib + 1 /\ UNCHANGED <<ph, ia, verdict>>
     ELSE IF endA /\ endB THEN ph' = "done" /\ UNCHANGED <<ia, ib, verdict>>
     ELSE IF endA THEN verdict' = "count:only-in-B:" \o b[ib].k /\ UNCHANGED <<ph, ia, ib>>
     ELSE IF endB THEN verdict' = "count:only-in-A:" \o a[ia].k /\ UNCHANGED <<ph, ia, ib>>
     ELSE /\ verdict' = Cmp(a[ia], b[ib], tid) /\ ia' = ia + 1 /\ ib' = ib + 1 /\ UNCHANGED ph

Next == verdict = "ok" /\ (WalkA \/ WalkB \/ Pair) /\ UNCHANGED tid
Spec == Init /\ [][Next]_vars

Finished == verdict # "ok" \/ ph = "done"
Report == Finished => PrintT(<<"VERDICT", Traces[tid].id, ia + ib, verdict>>)
=============================================================================
