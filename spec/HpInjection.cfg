SPECIFICATION Spec
CONSTANTS
 Genes = {40, 100, 119}
 Export = FALSE
INVARIANT Precedence
INVARIANT ExplicitWins
INVARIANT DnaBeatsDefaults
INVARIANT ExportEdge
CHECK_DEADLOCK FALSE
