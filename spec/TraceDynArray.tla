--------------------------- MODULE TraceDynArray ---------------------------
(* C18, code -> spec.  Validates recorded executions of the real                *)
(* DynamicNumpyArray against the Python-list model (PyList).  One initial state *)
(* per trace; deterministic; total (a mismatch produces a verdict, it does not  *)
(* disable the step).  The traces are either the witnesses of every transition  *)
(* of DynArray.tla (R) or long random operation sequences (T).                  *)
EXTENDS Integers, Sequences, TLC, Json, IOUtils, PyList
Data == JsonDeserialize(IOEnv.TRACE_FILE)
Traces == Data.traces
VARIABLES tid, l, list, verdict, held      \* held: value of a row the caller read earlier and still holds
vars == <<tid, l, list, verdict, held>>
Ev(t) == Traces[t].ev
B(x) == x      \* None is logged as NoneV (-9999)
Items(v, n) == [k \in 1..n |-> v + k - 1]

Init == tid \in 1..Len(Traces) /\ l = 1 /\ list = <<>> /\ verdict = "ok" /\ held = NoneV

Ok(s) == [valid |-> TRUE, s |-> s]
Invalid == [valid |-> FALSE, s |-> <<>>]
\* the list-level effect of an operation; "INVALID" when the list itself would refuse it
Effect(e, drop) ==
  CASE e.k = "append" -> Ok(DropOldest(Append(list, e.v), drop))
    [] e.k = "append_multiple" -> Ok(DropOldest(list \o Items(e.v, e.n), drop))
    [] e.k = "delete" -> IF e.i >= 0 /\ e.i < Len(list) THEN Ok(PyDel(list, e.i)) ELSE Invalid
    [] e.k = "flush" -> Ok(<<>>)
    [] e.k = "append_held" -> IF held # NoneV THEN Ok(DropOldest(Append(list, held), drop)) ELSE Invalid
    [] e.k = "setitem" -> IF PyIndexOK(list, e.i) THEN Ok(PySet(list, e.i, e.v)) ELSE Invalid
    [] e.k = "setslice" -> LET m == SliceLen(Len(list), B(e.a), B(e.b))
                           IN IF m = e.n THEN Ok(PySetSlice(list, B(e.a), B(e.b), Items(e.v, m))) ELSE Invalid
    [] OTHER -> Invalid

\* first failing read of a "reads" event, or "ok"
ReadsVerdict(e) ==
  LET badI == {j \in DOMAIN e.gi : LET g == e.gi[j] IN
                 IF PyIndexOK(list, g.i) THEN ~(g.ok /\ g.r = PyGet(list, g.i)) ELSE g.ok}
      badS == {j \in DOMAIN e.gs : LET g == e.gs[j] IN ~(g.ok /\ g.r = PySlice(list, B(g.a), B(g.b)))}
      badP == {j \in DOMAIN e.past : LET g == e.past[j] IN
                 IF g.p >= 0 /\ g.p < Len(list) THEN ~(g.ok /\ g.r = list[Len(list) - g.p]) ELSE g.ok}
  IN IF e.len # Len(list) THEN "len"
     ELSE IF badI # {} THEN "getitem:" \o ToString(e.gi[CHOOSE j \in badI : \A k \in badI : j <= k].i)
     ELSE IF badS # {} THEN LET g == e.gs[CHOOSE j \in badS : \A k \in badS : j <= k]
                            IN "getslice:" \o ToString(g.a) \o ":" \o ToString(g.b)
     ELSE IF badP # {} THEN "past:" \o ToString(e.past[CHOOSE j \in badP : \A k \in badP : j <= k].p)
     ELSE "ok"

Step ==
  /\ verdict = "ok" /\ l <= Len(Ev(tid))
  /\ LET e == Ev(tid)[l] drop == Traces[tid].hdr.drop IN
     IF e.k = "reads"
     THEN /\ verdict' = ReadsVerdict(e) /\ UNCHANGED <<list, held>>
     ELSE IF e.k = "hold"      \* the caller reads row i and keeps the returned object (a list would hand out the row itself)
     THEN /\ UNCHANGED list
          /\ IF PyIndexOK(list, e.i) /\ e.ok /\ e.r = PyGet(list, e.i)
             THEN held' = e.r /\ verdict' = "ok"
             ELSE held' = held /\ verdict' = "hold:getitem"
     ELSE LET post == Effect(e, drop) IN
          /\ UNCHANGED held
          /\ IF ~post.valid
             THEN /\ verdict' = (IF e.exc = "none" THEN e.k \o ":accepted-an-operation-the-list-refuses" ELSE "ok")
                  /\ UNCHANGED list
             ELSE IF e.exc # "none"
                  THEN /\ verdict' = e.k \o ":raises:" \o e.exc /\ UNCHANGED list
                  ELSE /\ list' = post.s
                       /\ verdict' = (IF e.vis = post.s THEN "ok" ELSE e.k \o ":visible-rows-differ")
  /\ l' = l + 1 /\ UNCHANGED tid
Spec == Init /\ [][Step]_vars
Finished == verdict # "ok" \/ l > Len(Ev(tid))
Report == Finished => PrintT(<<"VERDICT", Traces[tid].id, l - 1, verdict>>)
=============================================================================
