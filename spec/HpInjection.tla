----------------------------- MODULE HpInjection -----------------------------
(* C19 (M + export).  Implementation-shaped model of how a backtest hands        *)
(* hyper-parameters to a strategy: backtest_mode._prepare_routes (l.550-563:     *)
(* read dna() only when no explicit values were passed; inject) followed by      *)
(* Strategy._init_objects (l.171-174: fall back to the declared defaults only    *)
(* when nothing was injected), then the strategy's first step reads self.hp.     *)
(* Single route, as the property's quantifier says.  The property (HpDef:        *)
(* Expected) is the precedence chain explicit > dna() > defaults.                *)
(* Every scenario is exported with the expected observation and run through a    *)
(* real research.backtest.                                                       *)
EXTENDS HpDef, TLC, Json
CONSTANTS Genes,        \* ordinals used in dna() strings
          Export
VARIABLES sc, pc, hyper, hp, seen
vars == <<sc, pc, hyper, hp, seen>>

\* Declaration sets (bounds and defaults in half units).  Every range is a multiple of 79/2, so every letter decodes
\* exactly in binary floating point:
\*   control : a int [0, 79] (ord - 40), b float [0.5, 40] ((ord - 40)/2 + 0.5) - no special values
\*   signed  : a int [-40, 39] (ord - 80: 'P' -> 0, 'O' -> -1, '(' -> min, 'w' -> max),
\*             b float [-20, 19.5] ((ord - 80)/2: 'P' -> 0.0, 'O' -> -0.5, 'Q' -> 0.5)
\* with defaults that are exactly 0 / 0.0, equal to min, equal to max, negative and fractional
Decl(a, b) == << [name |-> "a", typ |-> "int", mn |-> a[1], mx |-> a[2], dflt |-> a[3]],
                 [name |-> "b", typ |-> "float", mn |-> b[1], mx |-> b[2], dflt |-> b[3]] >>
TheDecls == Decl(<<0, 158, 14>>, <<1, 80, 3>>)                       \* control
DeclSets == { TheDecls,
              Decl(<<-80, 78, 0>>, <<-40, 39, 0>>),                  \* defaults exactly 0 and 0.0, negative min
              Decl(<<-80, 78, -80>>, <<-40, 39, 39>>),               \* default = min (negative) / = max (fractional 19.5)
              Decl(<<-80, 78, 78>>, <<-40, 39, -40>>),               \* default = max / = min
              Decl(<<-80, 78, -6>>, <<-40, 39, -1>>) }               \* negative int -3, negative fraction -0.5
ExplicitSets == { << <<"a", 11, 1>>, <<"b", 5, 2>> >>,     \* a = 11, b = 2.5
                  << <<"a", 3, 1>> >>,                      \* only one of the declared names
                  << <<"a", 0, 1>>, <<"b", 81, 2>> >>,      \* a = 0; b outside every declared range: still taken as given
                  << <<"a", 0, 1>>, <<"b", 0, 2>> >>,       \* exactly 0 and 0.0
                  << <<"a", -3, 1>>, <<"b", -1, 2>> >>,     \* negative, negative fraction
                  << <<"a", -40, 1>>, <<"b", 39, 2>> >> }   \* min of the signed int, max of the signed float
DnaStrings == {<<>>} \cup { <<x, y>> : x \in Genes, y \in Genes }
Scenarios == { [hasExplicit |-> he, explicit |-> ex, dna |-> d, decls |-> dc] :
                 he \in BOOLEAN, ex \in ExplicitSets \cup {<<>>}, d \in DnaStrings, dc \in {<<>>} \cup DeclSets }
WellFormed(s) == (s.hasExplicit <=> s.explicit # <<>>)

Init == /\ sc \in {s \in Scenarios : WellFormed(s)}
        /\ pc = "read_dna"
        /\ hyper = (IF sc.hasExplicit THEN Some(sc.explicit) ELSE NoHp)     \* argument of _prepare_routes
        /\ hp = NoHp                                                       \* Strategy.__init__: self.hp = None
        /\ seen = NoHp
ReadDna == /\ pc = "read_dna" /\ pc' = "inject"
           /\ hyper' = (IF Len(sc.dna) > 0 /\ ~hyper.set THEN Some(DecodeAll(sc.decls, sc.dna)) ELSE hyper)
           /\ UNCHANGED <<sc, hp, seen>>
Inject == /\ pc = "inject" /\ pc' = "init_objects"
          /\ hp' = (IF hyper.set THEN hyper ELSE hp)
          /\ UNCHANGED <<sc, hyper, seen>>
InitObjects == /\ pc = "init_objects" /\ pc' = "first_step"
               /\ hp' = (IF ~hp.set /\ Len(sc.decls) > 0 THEN Some(Defaults(sc.decls)) ELSE hp)
               /\ UNCHANGED <<sc, hyper, seen>>
FirstStep == /\ pc = "first_step" /\ pc' = "done" /\ seen' = hp /\ UNCHANGED <<sc, hyper, hp>>
Next == ReadDna \/ Inject \/ InitObjects \/ FirstStep
Spec == Init /\ [][Next]_vars

Precedence == pc = "done" => SameValues(seen, Expected(sc))
ExplicitWins == (pc = "done" /\ sc.hasExplicit) => seen = Some(sc.explicit)
DnaBeatsDefaults == (pc = "done" /\ ~sc.hasExplicit /\ Len(sc.dna) > 0 /\ Len(sc.decls) > 0) =>
                       seen = Some(DecodeAll(sc.decls, sc.dna))
ExportEdge == (Export /\ pc = "done") => PrintT(<<"EDGE", ToJson([sc |-> sc, expected |-> Expected(sc)])>>)
=============================================================================
