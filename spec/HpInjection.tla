----------------------------- MODULE HpInjection -----------------------------
(* C19 (M + export).  Implementation-shaped model of how a backtest hands        *)
(* hyper-parameters to a strategy: backtest_mode._prepare_routes (l.550-563:     *)
(* read dna() only when no explicit values were passed; inject) followed by      *)
(* Strategy._init_objects (l.171-174: fall back to the declared defaults only    *)
(* when nothing was injected), then the strategy's first step reads self.hp.     *)
(* Single route, as the property's quantifier says.  The property (HpDef:        *)
(* Expected) is the precedence chain explicit > dna() > defaults.                *)
(* Every scenario is exported with the expected observation and run through a    *)
(* real research.backtest.                                                       *)
EXTENDS HpDef, TLC, Json
CONSTANTS Genes,        \* ordinals used in dna() strings
          Export
VARIABLES sc, pc, hyper, hp, seen
vars == <<sc, pc, hyper, hp, seen>>

\* int 0..79 (decodes to ord - 40), float 0.5..40 (decodes to (ord - 40)/2 + 0.5: exact in binary)
TheDecls == << [name |-> "a", typ |-> "int", mn |-> 0, mx |-> 158, dflt |-> 14],
               [name |-> "b", typ |-> "float", mn |-> 1, mx |-> 80, dflt |-> 3] >>
ExplicitSets == { << <<"a", 11, 1>>, <<"b", 5, 2>> >>,     \* a = 11, b = 2.5
                  << <<"a", 3, 1>> >>,                      \* only one of the declared names
                  << <<"a", 0, 1>>, <<"b", 81, 2>> >> }     \* outside the declared range: still taken as given
DnaStrings == {<<>>} \cup { <<x, y>> : x \in Genes, y \in Genes }
Scenarios == { [hasExplicit |-> he, explicit |-> ex, dna |-> d, decls |-> dc] :
                 he \in BOOLEAN, ex \in ExplicitSets \cup {<<>>}, d \in DnaStrings, dc \in {<<>>, TheDecls} }
WellFormed(s) == (s.hasExplicit <=> s.explicit # <<>>)

Init == /\ sc \in {s \in Scenarios : WellFormed(s)}
        /\ pc = "read_dna"
        /\ hyper = (IF sc.hasExplicit THEN Some(sc.explicit) ELSE NoHp)     \* argument of _prepare_routes
        /\ hp = NoHp                                                       \* Strategy.__init__: self.hp = None
        /\ seen = NoHp
ReadDna == /\ pc = "read_dna" /\ pc' = "inject"
           /\ hyper' = (IF Len(sc.dna) > 0 /\ ~hyper.set THEN Some(DecodeAll(sc.decls, sc.dna)) ELSE hyper)
           /\ UNCHANGED <<sc, hp, seen>>
Inject == /\ pc = "inject" /\ pc' = "init_objects"
          /\ hp' = (IF hyper.set THEN hyper ELSE hp)
          /\ UNCHANGED <<sc, hyper, seen>>
InitObjects == /\ pc = "init_objects" /\ pc' = "first_step"
               /\ hp' = (IF ~hp.set /\ Len(sc.decls) > 0 THEN Some(Defaults(sc.decls)) ELSE hp)
               /\ UNCHANGED <<sc, hyper, seen>>
FirstStep == /\ pc = "first_step" /\ pc' = "done" /\ seen' = hp /\ UNCHANGED <<sc, hyper, hp>>
Next == ReadDna \/ Inject \/ InitObjects \/ FirstStep
Spec == Init /\ [][Next]_vars

Precedence == pc = "done" => SameValues(seen, Expected(sc))
ExplicitWins == (pc = "done" /\ sc.hasExplicit) => seen = Some(sc.explicit)
DnaBeatsDefaults == (pc = "done" /\ ~sc.hasExplicit /\ Len(sc.dna) > 0 /\ Len(sc.decls) > 0) =>
                       seen = Some(DecodeAll(sc.decls, sc.dna))
ExportEdge == (Export /\ pc = "done") => PrintT(<<"EDGE", ToJson([sc |-> sc, expected |-> Expected(sc)])>>)
=============================================================================
