SPECIFICATION Spec
CONSTANTS
 MaxLen = 4
 PnlMax = 2
 Export = FALSE
INVARIANT AggIsFold
INVARIANT StreakRefinement
INVARIANT CountIdentity
INVARIANT SumIdentity
INVARIANT StreakSanity
INVARIANT ExpectancyIdentity
INVARIANT LargestSanity
INVARIANT ExportEdge
CHECK_DEADLOCK FALSE
