------------------------------ MODULE TraceDefs ------------------------------
(* C15, code -> spec.  One trace = one (indicator field, parameters, lattice candle series): the candles  *)
(* as integers, the logged output tokens out[i] = round(value * 10^k) (NaN / inf as sentinels) and, for   *)
(* relations between indicators, up to three auxiliary logged series xa, xb, xc.  TLC walks the series    *)
(* position by position (one state per position), carrying the state of the fixed-point recursions of     *)
(* IndicatorDefs, and judges each position against the definition named in the header:                    *)
(*   window definitions (exact rationals, long division), recurrence steps of the smoothers, values of    *)
(*   the smoothers once the bound on the start-up seed has decayed below one unit, linear / quadratic     *)
(*   relations between logged outputs, token equality (ma selector, homogeneity), ranges, band order,     *)
(*   channel enclosure, non-negativity.  Total: the first failing position gives the verdict.             *)
EXTENDS Integers, Sequences, TLC, Json, IOUtils, IndicatorDefs
Data == JsonDeserialize(IOEnv.TRACE_FILE)
Traces == Data.traces
VARIABLES tid, i, acc, verdict
tvars == <<tid, i, acc, verdict>>

NaNV  == -2147483647
Clamp ==  1000000000
Fin(a) == a >= -Clamp /\ a <= Clamp
Acc0 == [e |-> 0, dec |-> 0, t1 |-> 0, g |-> 0, lo |-> 0, sp |-> 0, sm |-> 0, st |-> 0]
Init == tid \in 1..Len(Traces) /\ i = 1 /\ acc = Acc0 /\ verdict = "ok"

\* smoothing weight of a recursive definition: <<wn, wd>>
Weight(d, p) == IF d \in {"ema", "lin"} THEN <<2, p + 1>> ELSE <<1, p>>
\* the input of a smoother at position j, in output units times the source denominator
SmIn(T, H, j) == IF H.def = "atr" THEN TR(T, j) * Pow10(H.k) ELSE X(T, H.src, j) * Pow10(H.k)
SmDn(H) == IF H.def = "atr" THEN 1 ELSE Dn(H.src)
\* bound on the difference between any two start-up seeds: the spread of the inputs
Spread(T, H) ==
  IF H.def \in {"atr", "di_plus", "di_minus"}
  THEN (MaxOver(1, N(T), LAMBDA j : T.h[j]) - MinOver(1, N(T), LAMBDA j : T.l[j])) * Pow10(H.k)
       * (IF H.def = "atr" THEN 1 ELSE H.p)
  ELSE (MaxOver(1, N(T), LAMBDA j : X(T, H.src, j)) - MinOver(1, N(T), LAMBDA j : X(T, H.src, j))) * Pow10(H.k)

\* ---------------------------------------------------------------- advancing the recursion state to position j
Advance(T, H, j, a) ==
  LET d == H.def  p == H.p  w == Weight(d, IF d = "lin" THEN H.decp ELSE p)
      \* seed bound: constant until every convention has started its recursion (2p), then contracting
      pp == IF d = "lin" THEN H.decp ELSE p
      dec1 == IF j = 1 THEN Spread(T, H) ELSE IF j <= 2 * pp THEN a.dec ELSE Decay(a.dec, w[1], w[2])
      \* integer Decay stalls once the bound is below m = wd/wn units; from there 5m more steps shrink what is left
      \* (at most m units, factor (1 - 1/m) per step, e^-5 m < 1 for m <= 60) below one unit
      m == w[2] \div w[1]
      t11 == IF a.t1 = 0 /\ dec1 <= Max2(m, 1) THEN j + 5 * m ELSE a.t1
  IN CASE d \in {"ema", "wilders", "atr"} ->
            [a EXCEPT !.e = IF j = 1 THEN SmIn(T, H, 1) ELSE Smooth(a.e, SmIn(T, H, j), w[1], w[2]),
                      !.dec = dec1, !.t1 = t11]
       [] d = "lin" -> IF H.decp = 0 THEN a ELSE [a EXCEPT !.dec = dec1, !.t1 = t11]
       [] d = "rsi" ->
            IF j = 1 THEN a
            ELSE LET dx == X(T, H.src, j) - X(T, H.src, j - 1)
                     gn == (IF dx > 0 THEN dx ELSE 0) * 100000
                     ls == (IF dx < 0 THEN -dx ELSE 0) * 100000
                 IN IF j <= p THEN [a EXCEPT !.g = a.g + gn, !.lo = a.lo + ls]
                    ELSE IF j = p + 1 THEN [a EXCEPT !.g = (a.g + gn) \div p, !.lo = (a.lo + ls) \div p]
                    ELSE [a EXCEPT !.g = a.g + (gn - a.g) \div p, !.lo = a.lo + (ls - a.lo) \div p]
       [] d \in {"dm_plus", "dm_minus", "adx", "di_plus", "di_minus"} ->
            IF j = 1 THEN [a EXCEPT !.dec = dec1, !.t1 = t11]
            ELSE LET xp == PlusDM(T, j) * Pow10(H.k)  xm == MinusDM(T, j) * Pow10(H.k)  xt == TR(T, j) * Pow10(H.k)
                 IN IF j <= p + 1       \* Wilder: the first smoothed value is the plain sum of the first p
                    THEN [a EXCEPT !.sp = a.sp + xp, !.sm = a.sm + xm, !.st = a.st + xt, !.dec = dec1, !.t1 = t11]
                    ELSE [a EXCEPT !.sp = WSum(a.sp, xp, p), !.sm = WSum(a.sm, xm, p), !.st = WSum(a.st, xt, p),
                                   !.dec = dec1, !.t1 = t11]
       [] OTHER -> a

\* positions at which a window definition has no value yet because fewer candles exist than its window needs (hdr.q = 1:
\* the logged output must not carry a number there; zero denominators are a different matter and never judged)
WarmUp(d, p, j) == IF d \in {"mom", "roc", "rocp", "rocr", "rocr100"} THEN j <= p ELSE j < p
\* ---------------------------------------------------------------- judging position j (a = state AFTER position j)
Tok(s, j) == s[j]
Judge(T, H, j, a) ==
  LET d == H.def  p == H.p  k == H.k  V == T.out[j] IN
  CASE d \in KnownWindow ->
         LET w == Window(T, d, p, H.src, j) IN
         IF ~w.def THEN (IF H.q = 1 /\ Fin(V) /\ WarmUp(d, p, j) THEN "value:before-the-window-is-complete" ELSE "ok")
         ELSE IF ~Fin(V) THEN "value:not-finite"
         ELSE IF NearRat(V, w.num, w.den, k + w.sh) THEN "ok" ELSE "value:" \o ToString(V) \o "/" \o ToString(SDiv(w.num, w.den, k + w.sh))
    [] d = "stddev" ->
         LET w == Window(T, "var", p, H.src, j) IN
         IF ~w.def THEN "ok" ELSE IF ~Fin(V) THEN "value:not-finite"
         ELSE LET w2 == LongDiv(w.num, w.den, 2 * k) IN
              IF V >= 0 /\ (IF V = 0 THEN w2 <= 1 ELSE (V - 1) * (V - 1) <= w2 + 1) /\ (V + 1) * (V + 1) >= w2 THEN "ok"
              ELSE "value:square:" \o ToString(V) \o "/" \o ToString(w2)
    [] d = "stoch_k" ->
         IF ~StochDefined(T, j, p, H.q) THEN "ok" ELSE IF ~Fin(V) THEN "value:not-finite"
         ELSE IF Abs(V * 10 * H.q - StochSum6(T, j, p, H.q)) <= 7 * H.q THEN "ok" ELSE "value"
    [] d \in {"aroon_up", "aroon_down"} ->
         IF j < p + 1 THEN (IF H.q = 1 /\ Fin(V) THEN "value:before-the-window-is-complete" ELSE "ok")
         ELSE IF ~Fin(V) THEN "value:not-finite"
         ELSE IF AroonOK(T, V, j, p, k, d = "aroon_up") THEN "ok" ELSE "value"
    [] d = "obv" ->
         IF j < 2 THEN "ok" ELSE IF ~Fin(V) \/ ~Fin(T.out[j - 1]) THEN "value:not-finite"
         ELSE IF V - T.out[j - 1] = Sgn(T.c[j] - T.c[j - 1]) * T.v[j] THEN "ok" ELSE "step"
    [] d \in {"ema", "wilders", "atr"} ->
         LET w == Weight(d, p)  dn == SmDn(H)  x == SmIn(T, H, j) IN
         IF j >= p /\ ~Fin(V) THEN "value:not-finite"
         ELSE IF ~Fin(V) THEN "ok"
         ELSE IF j >= 2 /\ Fin(T.out[j - 1]) /\ (H.q = 0 \/ (a.t1 > 0 /\ j > a.t1))
                 /\ Abs(dn * w[2] * V - dn * (w[2] - w[1]) * T.out[j - 1] - w[1] * x) > dn * w[2] + 1
              THEN "step:" \o ToString(T.out[j - 1]) \o "->" \o ToString(V)
         ELSE IF a.t1 > 0 /\ j >= a.t1 /\ Abs(dn * V - a.e) > (w[2] \div w[1]) + dn + 3
              THEN "value-after-decay:" \o ToString(dn * V) \o "/" \o ToString(a.e)
         ELSE "ok"
    [] d = "rsi" ->
         IF j < p + 1 \/ a.g + a.lo = 0 THEN "ok" ELSE IF ~Fin(V) THEN "value:not-finite"
         ELSE IF Abs(V - LongDiv(a.g, a.g + a.lo, k + 2)) <= 2 + (200 * (p + 1) * Pow10(k)) \div (a.g + a.lo) THEN "ok"
         ELSE "value:" \o ToString(V) \o "/" \o ToString(LongDiv(a.g, a.g + a.lo, k + 2))
    [] d \in {"dm_plus", "dm_minus"} ->
         LET x == (IF d = "dm_plus" THEN PlusDM(T, j) ELSE MinusDM(T, j)) * Pow10(k)
             sv == IF d = "dm_plus" THEN a.sp ELSE a.sm IN
         IF j < p + 1 THEN "ok" ELSE IF ~Fin(V) THEN "value:not-finite"
         ELSE IF j > p + 1 /\ Fin(T.out[j - 1]) /\ Abs(p * V - (p - 1) * T.out[j - 1] - p * x) > p + 1 THEN "step"
         ELSE IF Abs(V - sv) > p + 2 THEN "value:" \o ToString(V) \o "/" \o ToString(sv)
         ELSE "ok"
    [] d \in {"di_plus", "di_minus"} ->
         LET sv == IF d = "di_plus" THEN a.sp ELSE a.sm IN
         IF j < p + 1 \/ ~Fin(V) \/ a.st <= 0 \/ a.t1 = 0 \/ j < a.t1 THEN "ok"
         ELSE IF Abs(V - LongDiv(sv, a.st, k + 2)) <= 2 + (2 * (p + 2) * 100 * Pow10(k)) \div a.st THEN "ok"
         ELSE "value-after-decay:" \o ToString(V) \o "/" \o ToString(LongDiv(sv, a.st, k + 2))
    [] d = "adx" ->
         IF j < 2 * p + 2 \/ ~Fin(V) \/ ~Fin(T.out[j - 1]) \/ a.sp + a.sm <= 0 THEN "ok"
         ELSE LET dx == LongDiv(Abs(a.sp - a.sm), a.sp + a.sm, k + 2)
                  err == 1 + (4 * (p + 1) * 100 * Pow10(k)) \div (a.sp + a.sm) IN
              IF Abs(p * V - (p - 1) * T.out[j - 1] - dx) <= p + 1 + err THEN "ok"
              ELSE "step:" \o ToString(T.out[j - 1]) \o "->" \o ToString(V) \o ":dx=" \o ToString(dx)
    [] d = "ema_of_a" ->
         IF j < 2 \/ ~Fin(V) \/ ~Fin(T.out[j - 1]) \/ ~Fin(T.xa[j]) THEN "ok"
         ELSE IF Abs((p + 1) * V - (p - 1) * T.out[j - 1] - 2 * T.xa[j]) <= p + 2 THEN "ok" ELSE "step"
    [] d = "sma_of_a" ->
         IF j < p \/ ~Fin(V) \/ \E m \in (j - p + 1)..j : ~Fin(T.xa[m]) THEN "ok"
         ELSE IF Abs(p * V - SumOver(j - p + 1, j, LAMBDA m : T.xa[m])) <= p + 1 THEN "ok" ELSE "value"
    [] d = "lin" ->
         IF j < H.from \/ ~Fin(V) \/ ~Fin(T.xa[j]) \/ (H.cb # 0 /\ ~Fin(T.xb[j])) \/ (H.cc # 0 /\ ~Fin(T.xc[j]))
            \/ (H.decp > 0 /\ (a.t1 = 0 \/ j < H.q * a.t1)) THEN "ok"
         ELSE IF 2 * Abs(H.cd * V - H.ca * T.xa[j] - (IF H.cb = 0 THEN 0 ELSE H.cb * T.xb[j])
                         - (IF H.cc = 0 THEN 0 ELSE H.cc * T.xc[j]))
                 <= Abs(H.cd) + Abs(H.ca) + Abs(H.cb) + Abs(H.cc) + 2 + 2 * H.tol THEN "ok"
              ELSE "relation"
    [] d = "sq" ->
         LET w == Window(T, "var", p, H.src, j) IN
         IF ~w.def \/ ~Fin(V) \/ ~Fin(T.xa[j]) THEN "ok"
         ELSE LET w2 == LongDiv(w.num, w.den, 2 * k)  df == Abs(T.xa[j] - V) IN
              IF Abs(df * df - H.ca * H.ca * w2) <= 2 * df + 2 + H.ca * H.ca THEN "ok" ELSE "relation"
    [] d = "eq" -> IF V = T.xa[j] \/ (Fin(V) /\ Fin(T.xa[j]) /\ Abs(V - T.xa[j]) <= H.tol) THEN "ok" ELSE "differs"
    [] d = "range" -> IF V = NaNV \/ (Fin(V) /\ V >= H.lo /\ V <= H.hi) THEN "ok" ELSE "range:" \o ToString(V)
    [] d = "order" -> IF ~Fin(V) \/ ~Fin(T.xa[j]) \/ ~Fin(T.xb[j]) \/ (T.xa[j] >= V /\ V >= T.xb[j]) THEN "ok" ELSE "order"
    [] d = "encl" -> IF ~Fin(T.xa[j]) \/ ~Fin(T.xb[j]) \/ (T.xa[j] >= T.h[j] * Pow10(k) /\ T.xb[j] <= T.l[j] * Pow10(k)) THEN "ok"
                     ELSE "enclosure"
    [] d = "nonneg" -> IF ~Fin(V) \/ V >= 0 THEN "ok" ELSE "negative:" \o ToString(V)
    [] OTHER -> "trace:unknown-definition"

Step == /\ verdict = "ok" /\ i <= N(Traces[tid])
        /\ LET T == Traces[tid]  H == T.hdr  a == Advance(T, H, i, acc) IN
           /\ acc' = a
           /\ LET v == Judge(T, H, i, a) IN verdict' = IF v = "ok" THEN "ok" ELSE v \o "@" \o ToString(i)
        /\ i' = i + 1 /\ UNCHANGED tid
Spec == Init /\ [][Step]_tvars
Finished == verdict # "ok" \/ i > N(Traces[tid])
Report == Finished => PrintT(<<"VERDICT", Traces[tid].id, i - 1, verdict>>)
=============================================================================
