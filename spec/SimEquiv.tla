------------------------------- MODULE SimEquiv -------------------------------
(* C12 (M): the NORMAL and the FAST simulator of jesse's backtest mode in         *)
(* lock-step on the same one-minute feed and the same strategy decisions, on a    *)
(* price lattice 1..K, quantity 1, fee 0, cross margin (no liquidation).          *)
(*                                                                              *)
(* Implementation-shaped parts (transcribed from jesse/modes/backtest_mode.py):   *)
(*   MinuteN  _simulate_price_change_effect: select on the (jump-fixed) minute,   *)
(*            sort, execute the first, split, re-select AND re-sort on the rest   *)
(*   ChunkF   _simulate_price_change_effect_multiple_candles: select on the chunk *)
(*            aggregate, sort once over the raw minutes, then minute by minute on *)
(*            ranges extended to the previous close, first included candidate in  *)
(*            list order, re-select on the aggregate WITHOUT sorting              *)
(*   SortExec _sort_execution_orders incl. its quirks (an order on the open is    *)
(*            listed twice; early exit on list length)                            *)
(*   Split    services.candle.split_candle, branch by branch                      *)
(*   Exec     Order.execute -> position -> strategy hooks: on opening the declared*)
(*            stop-loss and take-profit are submitted through reduce_position_at  *)
(*            (type decided by the price the hook sees), on closing everything    *)
(*            resting is cancelled                                                *)
(*   Decide   Strategy._check at a trading-candle boundary (cancel entry, liquidate,*)
(*            market flush, new entry) then _execute_market_orders                *)
(* The strategy is the environment: one decision row per boundary, applied to both*)
(* sides as a function of each side's own observable state.                       *)
(*                                                                              *)
(* Decision menu: idle / cancel the resting entry / liquidate / one entry (market,  *)
(* limit or stop by its price relative to the current one) with a stop-loss and a  *)
(* take-profit, either absolute (declared with the entry) or, with RelExits, placed*)
(* in on_open_position at a distance from the price the strategy sees there.       *)
(*                                                                              *)
(* Former defects, kept as seedable variants (see SimCore.tla): InnerFix = FALSE    *)
(* (C12 finding "inner-gap-fill", fixed by 651f7be3: a fill in a minute inside a    *)
(* chunk whose raw open differs from the previous close) and PerMinute = FALSE (C02 *)
(* findings, fixed by adf54ef1).  With the former inner loop TLC exhibits          *)
(* counter-examples to Equiv (EquivKnown sets the inner-gap-fill class aside); for  *)
(* the loop as it is now Equiv holds without exception.                            *)
(*                                                                              *)
(* Property (independent of the loops' shape), at every chunk end:                *)
(*   if the normal run has had <= 1 resting (LIMIT/STOP) fill in every trading    *)
(*   window so far (and nothing was liquidated - impossible here), both sides     *)
(*   executed the same orders (side, type, price, minute), hold the same position *)
(*   with the same entry price and the same realised balance.                     *)
EXTENDS SimCore, Json
CONSTANTS K,       \* price lattice
          Chunk,   \* gcd of the route timeframes = minutes per fast-mode chunk
          TF,      \* trading timeframe in minutes (multiple of Chunk; > Chunk models a smaller data route)
          NMin,    \* minutes in the series
          Gaps,    \* TRUE: any valid candle each minute; FALSE: every open equals the previous close
          PartialChunkRaises, \* FALSE = the code since f8ad570d; TRUE = the former defect: a trailing chunk shorter than Chunk
                   \*       made the fast simulator raise ValueError
          RelExits, \* TRUE: the decision menu also contains entries whose exits are placed in on_open_position at a
                   \*       distance from the price the strategy sees there
          Spacing  \* TRUE: the quantifier of C12 is enforced - "exits spaced wider than a trading candle can move": in no
                   \*       trading window are two different resting-order prices of the normal run inside the window's range;
                   \* FALSE: only the statement's antecedent (<= 1 resting fill per trading window) - the simulators then differ


Px == 1..K
Candles == {c \in [o : Px, c : Px, h : Px, l : Px] : c.l <= c.o /\ c.l <= c.c /\ c.o <= c.h /\ c.c <= c.h}
AbsEntries == {e \in [dir : {1, -1}, p : Px, sl : Px, tp : Px, rel : {FALSE}, d : {0}] :
                 IF e.dir = 1 THEN e.sl < e.p /\ e.p < e.tp ELSE e.tp < e.p /\ e.p < e.sl}
RelEntries == IF RelExits THEN [dir : {1, -1}, p : Px, sl : {0}, tp : {0}, rel : {TRUE}, d : 1..(K - 1)] ELSE {}
Entries == AbsEntries \cup RelEntries
Rows == [cancel : BOOLEAN, close : BOOLEAN, entry : Entries \cup {NoEntry}]
\* ---- composition ----
VARIABLES m, pc, prevC, sn, sf, pre, wfills, fstat, wlo, whi, wpx,
          hist      \* ghost: the raw chunks fed and the decision rows taken so far (hidden from the state identity by VIEW)
vars == <<m, pc, prevC, sn, sf, pre, wfills, fstat, wlo, whi, wpx, hist>>
View == <<m, pc, prevC, sn, sf, pre, wfills, fstat, wlo, whi, wpx>>

Init == /\ m = 0 /\ pc = "feed" /\ prevC = 0 /\ sn = Side0 /\ sf = Side0 /\ pre = "ok" /\ wfills = 0 /\ fstat = "run"
        /\ wlo = 0 /\ whi = 0 /\ wpx = {} /\ hist = <<>>

\* next Chunk minutes (fewer at a ragged end); both simulators consume them
ChunkLen == Min2(Chunk, NMin - m)
Continuous(raw, pc0) == \A k \in 1..Len(raw) : raw[k].o = (IF k = 1 THEN (IF pc0 = 0 THEN raw[1].o ELSE pc0) ELSE raw[k - 1].c)
Feed ==
  /\ pc = "feed" /\ m < NMin /\ fstat = "run"
  /\ \E raw \in [1..ChunkLen -> Candles] :
       /\ Gaps \/ Continuous(raw, prevC)
       /\ LET n2  == MinutesN(sn, raw, prevC, 1, m)
              f2  == ChunkF(sf, raw, prevC, m)
              wf  == wfills + RestingFills(NewFills(sn.log, n2.log))
              \* the window's price range so far (from the close before it) and every resting price alive in it
              lo  == Min2(IF wlo = 0 THEN (IF prevC = 0 THEN raw[1].o ELSE prevC) ELSE wlo, MinL(raw))
              hi  == Max2(IF whi = 0 THEN (IF prevC = 0 THEN raw[1].o ELSE prevC) ELSE whi, MaxH(raw))
              px  == wpx \cup RestingPx(sn.ords) \cup RestingPx(n2.ords) \cup FilledPx(NewFills(sn.log, n2.log))
          IN /\ sn' = n2
             /\ wfills' = wf /\ wlo' = lo /\ whi' = hi /\ wpx' = px
             /\ pre' = IF wf > 1 THEN "two-fills"
                       ELSE IF Spacing /\ Cardinality({p \in px : lo <= p /\ p <= hi}) > 1 THEN "spacing"
                       ELSE pre
             \* former defect (C12 finding, fixed): a trailing chunk shorter than Chunk made generate_candle_from_one_minutes raise
             /\ IF ChunkLen < Chunk /\ PartialChunkRaises THEN fstat' = "ValueError" /\ sf' = sf ELSE fstat' = fstat /\ sf' = f2
             /\ prevC' = raw[ChunkLen].c
             /\ hist' = Append(hist, [k |-> "feed", raw |-> raw])
  /\ m' = m + ChunkLen
  /\ pc' = "compare"
\* chunk end: the observation point of the property; equal logs are garbage-collected
Compare ==
  /\ pc = "compare"
  /\ IF sn.log = sf.log /\ sn.bal = sf.bal
     THEN sn' = [sn EXCEPT !.log = <<>>, !.bal = 0] /\ sf' = [sf EXCEPT !.log = <<>>, !.bal = 0]
     ELSE UNCHANGED <<sn, sf>>
  /\ pc' = IF m % TF = 0 THEN "decide" ELSE "feed"
  /\ UNCHANGED <<m, prevC, pre, wfills, fstat, wlo, whi, wpx, hist>>
DecideStep(row) ==
  /\ pc = "decide" /\ fstat = "run"
  \* rows normalised against the normal side's state (a row that asks for nothing applicable is the idle row)
  /\ (row.cancel => HasEntry(sn)) /\ (row.close => sn.pos # 0)
  /\ (row.entry # NoEntry => (sn.pos = 0 /\ (sn.ords = <<>> \/ row.cancel)) \/ (sn.pos # 0 /\ row.close))
  /\ sn' = Decide(sn, row, m) /\ sf' = Decide(sf, row, m)
  /\ wfills' = 0 /\ wlo' = 0 /\ whi' = 0 /\ wpx' = {} /\ pc' = "feed"
  /\ hist' = Append(hist, [k |-> "decide", row |-> row])
  /\ UNCHANGED <<m, prevC, pre, fstat>>
Next == Feed \/ Compare \/ \E row \in Rows : DecideStep(row)
Spec == Init /\ [][Next]_vars

\* ---- the property ----
SameOutcome == /\ sn.log = sf.log /\ sn.pos = sf.pos /\ sn.entry = sf.entry /\ sn.bal = sf.bal /\ fstat = "run"
Equiv   == (pc = "compare" /\ pre = "ok") => SameOutcome
\* the same, setting aside the one known defect class (C12 finding "inner-gap-fill", repaired by InnerFix): runs in which
\* the fast simulator filled an order in a gapped minute inside a chunk.  With InnerFix = TRUE Equiv itself must hold.
EquivKnown == (pc = "compare" /\ pre = "ok" /\ ~sf.gap) => SameOutcome
\* stronger than the property (no antecedent at all): holds for the repaired fast loop, which is the normal loop minute by minute
EquivAlways == pc = "compare" => SameOutcome
NoErr   == sn.err = "none" /\ sf.err = "none"
InPre   == pre = "ok"                     \* CONSTRAINT: runs outside the precondition are not extended
\* ---- exports for the replay into the real simulators (INVARIANT position: evaluated once per distinct state; PrintT is TRUE)
\* every distinct chunk-end state with a shortest witness scenario
Export   == pc = "compare" => PrintT(<<"SCEN", ToJson(hist)>>)
\* every distinct chunk-end state in which the two simulators differ although the antecedent in force holds
Diverge  == (pc = "compare" /\ pre = "ok" /\ ~SameOutcome) => PrintT(<<"DIVERGE", ToJson(hist)>>)
\* ---- non-vacuity probes (each is expected to be VIOLATED)
ProbeRestingFill == ~(pc = "compare" /\ pre = "ok" /\ \E j \in DOMAIN sn.log : sn.log[j][2] # "MARKET")
ProbeClosedTrade == ~(pc = "compare" /\ pre = "ok" /\ sn.bal # 0)
ProbeMarketFill  == ~(pc = "compare" /\ pre = "ok" /\ \E j \in DOMAIN sn.log : sn.log[j][2] = "MARKET")
ProbeExitAfterGap == ~(pc = "compare" /\ pre = "ok" /\ sn.bal # 0 /\ \E j \in DOMAIN hist : hist[j].k = "feed" /\
                         \E q \in 2..Len(hist[j].raw) : hist[j].raw[q].o # hist[j].raw[q - 1].c)
=============================================================================
