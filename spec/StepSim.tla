------------------------------- MODULE StepSim -------------------------------
(* C01 (M): the feed loop of backtest_mode._step_simulator (l.409-471) composed  *)
(* with the candle store, at the level of INDEX EXPRESSIONS.                     *)
(*                                                                              *)
(* The simulator receives the whole series up-front (candles[j]['candles']); the *)
(* model therefore does not hide the future - it makes every subscript/slice of  *)
(* the code an explicit read of the input and records it in the ghost `maxRead`. *)
(* Stored candles are symbolic: a 1m row is <<input index, version>> (version 0  *)
(* = the full minute, k > 0 = k-th partial candle published at a fill), a bigger *)
(* timeframe row is [ts, src] with src the rows it was aggregated from.  So any  *)
(* wrong window, off-by-one slice or early feed is visible without prices.       *)
(*                                                                              *)
(* Environment: how many resting orders fill inside a minute (0..MaxFills) - each*)
(* fill runs _update_all_routes_a_partial_candle and a strategy hook.            *)
(* Property (independent of the loop's shape):                                   *)
(*   Causal       every read of the input is at an index < clock                 *)
(*   StoreCausal  at every observation point (fill hook, strategy step) every    *)
(*                readable row derives only from input indices < clock           *)
(*   MatchedBeforeDecide  the minute's matching is over when a strategy runs     *)
(* clock = store.app.time in minutes = number of input minutes that have ended.  *)
(* Skew constants (0 = the code) break one index expression each and must make   *)
(* TLC report a violation: they show that the invariants are not vacuous.        *)
EXTENDS Integers, Sequences, FiniteSets, TLC
CONSTANTS TFs,        \* considered timeframes other than 1m, in minutes (stand-ins {2,3})
          RouteTF,    \* trading timeframe in minutes (1 or a member of TFs)
          N,          \* minutes in the series
          W,          \* warm-up minutes already in the store (multiple of every timeframe)
          NSym,       \* symbols (the inner "for j in candles" loop)
          MaxFills,   \* fills per symbol and minute
          FeedSkew,   \* 0; 1 = candle i+1 is fed instead of i
          GenSkew,    \* 0; 1 = slice of generate_candle_from_one_minutes shifted by one
          EarlyRoutes \* FALSE; TRUE = strategies run before the minute is matched

VARIABLES i, pc, sym, fills, m1, tf, clock, maxRead, matched, obs
vars == <<i, pc, sym, fills, m1, tf, clock, maxRead, matched, obs>>
Syms == 1..NSym
Max2(a, b) == IF a > b THEN a ELSE b
Last(s) == s[Len(s)]
TailN(s, n) == IF n >= Len(s) THEN s ELSE SubSeq(s, Len(s) - n + 1, Len(s))   \* python s[-n:]
Mod(a, b) == a % b                                                            \* TLC: result in 0..b-1 also for a < 0

\* CandlesState.add_candle for the cases a backtest produces (append on newer, replace on equal)
Upsert1m(s, c) == IF s = <<>> \/ c[1] > Last(s)[1] THEN Append(s, c)
                  ELSE IF c[1] = Last(s)[1] THEN [s EXCEPT ![Len(s)] = c] ELSE s
UpsertTF(s, c) == IF s = <<>> \/ c.ts > Last(s).ts THEN Append(s, c)
                  ELSE IF c.ts = Last(s).ts THEN [s EXCEPT ![Len(s)] = c] ELSE s

Full(lo, hi) == [k \in 1..(hi - lo + 1) |-> <<lo + k - 1, 0>>]
WarmTF(T)    == [w \in 1..(W \div T) |-> [ts |-> -W + (w - 1) * T, src |-> Full(-W + (w - 1) * T, -W + w * T - 1)]]

Init == /\ i = 0 /\ pc = "tick" /\ sym = 1 /\ fills = 0
        /\ m1 = [s \in Syms |-> IF W = 0 THEN <<>> ELSE Full(-W, -1)]
        /\ tf = [s \in Syms |-> [T \in TFs |-> WarmTF(T)]]
        /\ clock = 0 /\ maxRead = -1 /\ matched = [s \in Syms |-> TRUE] /\ obs = "none"

\* l.411: store.app.time = first_candles_set[i][0] + 60_000
Tick == /\ pc = "tick" /\ i < N
        /\ clock' = i + 1 /\ maxRead' = Max2(maxRead, i)
        /\ sym' = 1 /\ pc' = "add" /\ matched' = [s \in Syms |-> FALSE] /\ obs' = "none"
        /\ UNCHANGED <<i, fills, m1, tf>>

\* l.415-424: short_candle = candles[j]['candles'][i] (+ previous candle for the jump fix); add_candle(1m)
Fed == i + FeedSkew
AddCandle == /\ pc = "add"
             /\ maxRead' = Max2(maxRead, Fed)                     \* candles[i]; candles[i-1] is smaller
             /\ m1' = [m1 EXCEPT ![sym] = Upsert1m(@, <<Fed, 0>>)]
             /\ fills' = 0 /\ obs' = "none"
             /\ pc' = IF EarlyRoutes THEN "early" ELSE "match"
             /\ UNCHANGED <<i, sym, tf, clock, matched>>

\* seeded ordering fault: the strategy step is taken before _simulate_price_change_effect
Early == /\ pc = "early" /\ obs' = "step" /\ pc' = "match"
         /\ UNCHANGED <<i, sym, fills, m1, tf, clock, maxRead, matched>>

\* a fill inside _simulate_price_change_effect: _update_all_routes_a_partial_candle (l.986-1025), then the hook
Fill == /\ pc = "match" /\ fills < MaxFills
        /\ fills' = fills + 1
        /\ LET part == <<Fed, fills + 1>>
               m1p  == Upsert1m(m1[sym], part) IN
           /\ m1' = [m1 EXCEPT ![sym] = m1p]
           /\ tf' = [tf EXCEPT ![sym] = [T \in TFs |->
                        LET need == Mod(part[1], T) + 1              \* int(ts % (tf*60000) // 60000) + 1
                            src  == TailN(m1p, need)                 \* get_candles('1m')[-need:]
                        IN UpsertTF(tf[sym][T], [ts |-> src[1][1], src |-> src])]]
        /\ obs' = "hook"
        /\ UNCHANGED <<i, pc, sym, clock, maxRead, matched>>

\* end of the matching loop: the real candle is stored again (l.660-667)
EndMatch == /\ pc = "match"
            /\ m1' = [m1 EXCEPT ![sym] = Upsert1m(@, <<Fed, 0>>)]
            /\ matched' = [matched EXCEPT ![sym] = TRUE]
            /\ pc' = "gen" /\ obs' = "none"
            /\ UNCHANGED <<i, sym, fills, tf, clock, maxRead>>

\* l.432-447: if (i + 1) % count == 0: generate_candle_from_one_minutes(candles[(i - (count - 1)):(i + 1)])
Due(T) == (i + 1) % T = 0
Generate ==
  /\ pc = "gen"
  /\ LET due == {T \in TFs : Due(T)} IN
     /\ tf' = [tf EXCEPT ![sym] = [T \in TFs |->
                 IF T \in due
                 THEN UpsertTF(tf[sym][T], [ts |-> i - (T - 1) + GenSkew,
                                            src |-> Full(i - (T - 1) + GenSkew, i + GenSkew)])
                 ELSE tf[sym][T]]]
     /\ maxRead' = IF due = {} THEN maxRead ELSE Max2(maxRead, i + GenSkew)      \* slice end (i + 1) - 1
  /\ IF sym < NSym THEN sym' = sym + 1 /\ pc' = "add" ELSE pc' = "routes" /\ UNCHANGED sym
  /\ obs' = "none"
  /\ UNCHANGED <<i, fills, m1, clock, matched>>

\* l.452-466: every route whose candle closed executes (before/_check/after), then _execute_market_orders
RouteDue == RouteTF = 1 \/ (i + 1) % RouteTF = 0
RunRoutes == /\ pc = "routes"
             /\ obs' = (IF RouteDue /\ ~EarlyRoutes THEN "step" ELSE "none")
             /\ i' = i + 1 /\ pc' = "tick"
             /\ UNCHANGED <<sym, fills, m1, tf, clock, maxRead, matched>>

Next == Tick \/ AddCandle \/ Early \/ Fill \/ EndMatch \/ Generate \/ RunRoutes
Spec == Init /\ [][Next]_vars

\* ------------------------------------------------------------------ the property
Idx1(s)   == {m1[s][k][1] : k \in DOMAIN m1[s]}
IdxTF(s)  == UNION {UNION {{tf[s][T][r].src[k][1] : k \in DOMAIN tf[s][T][r].src} : r \in DOMAIN tf[s][T]} : T \in TFs}
Readable  == UNION {Idx1(s) \cup IdxTF(s) : s \in Syms}

Causal      == maxRead < clock
StoreCausal == obs # "none" => \A x \in Readable : x < clock
MatchedBeforeDecide == obs = "step" => \A s \in Syms : matched[s]
TypeOK      == i \in 0..N /\ clock \in 0..N /\ fills \in 0..MaxFills
\* non-vacuity helpers (expected to be violated): some hook sees a forming bigger-timeframe row
SomeFormingSeen == ~(obs = "hook" /\ \E s \in Syms, T \in TFs : tf[s][T] # <<>> /\ Len(Last(tf[s][T]).src) < T)
=============================================================================
