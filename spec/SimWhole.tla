------------------------------- MODULE SimWhole -------------------------------
(* Whole-run model (M) and behaviour generator (R) built on WholeCore / WholeRun.  *)
(* The environment chooses, step by step, the raw one-minute candles of the feed     *)
(* (lattice 1..K, gaps allowed) and - at every trading-candle boundary - the decision *)
(* row of the scripted user (cancel the resting entry, liquidate, move the stop-loss, *)
(* a new entry with 1-2 rows, exits declared in go_*, in on_open_position or relative *)
(* to the price seen there).  The choices are micro-steps (one candle, one component  *)
(* of the row at a time) so that `tlc -simulate` has small successor sets; the model   *)
(* of BOTH simulators is advanced at the end of every chunk.  `hist` carries the       *)
(* scenario (hidden from the state identity by VIEW); a finished behaviour is printed  *)
(* as JSON and replayed on the real research.backtest (TraceSimWhole.tla judges).      *)
(*                                                                                  *)
(* Properties of whole runs checked on the model itself:                              *)
(*   SameRun     both simulators are in the same projected state at every chunk end   *)
(*               (orders, position, wallet, margin, trades, equity samples) - for the  *)
(*               repaired fast loop this holds without C12's antecedent                *)
(*   FlatWallet  whenever flat with nothing resting: wallet = start + sum of trade pnl *)
(*   TradesOK    every trade row: qty > 0, closed >= opened, pnl = qty*(exit-entry)*side-fee *)
(*   FlatMeansNoExits  no reduce-only order rests while flat                           *)
EXTENDS WholeRun, Json
CONSTANTS K, Chunk, TF, NMin,
          Qtys,        \* entry row quantities
          Modes,       \* subset of {"go", "open", "rel"}
          TwoRows,     \* TRUE: two-row entries are in the menu
          WrongSide,   \* TRUE: exits on the wrong side of the entry are in the menu (market replacement)
          Edits,       \* TRUE: update_position may move the stop-loss
          Halves       \* TRUE: the take-profit may be declared for half of the size (partial exit -> reduced position)

Pxs == 1..K
Candles == {c \in [o : Pxs, c : Pxs, h : Pxs, l : Pxs] : c.l <= c.o /\ c.l <= c.c /\ c.o <= c.h /\ c.c <= c.h}

VARIABLES m, pc, buf, row, prevC, sn, sf, winN, winF, hist,
          liq       \* ghost: the last strategy step asked for liquidate() and for no new entry
vars == <<m, pc, buf, row, prevC, sn, sf, winN, winF, hist, liq>>
View == <<m, pc, buf, row, prevC, sn, sf, liq>>

Init == /\ m = 0 /\ pc = "candle" /\ buf = <<>> /\ row = IdleRow /\ prevC = 0 /\ sn = Side0 /\ sf = Side0
        /\ winN = <<>> /\ winF = <<>> /\ hist = <<>> /\ liq = FALSE

Boundary == (m + Chunk) % TF = 0
\* one more minute of the chunk
Candle(cd) == /\ pc = "candle" /\ m < NMin /\ Running(sn)
              /\ buf' = Append(buf, cd)
              /\ pc' = IF Len(buf) + 1 < Chunk THEN "candle" ELSE IF Boundary THEN "flags" ELSE "apply"
              /\ UNCHANGED <<m, row, prevC, sn, sf, winN, winF, hist, liq>>
\* the decision row, component by component
Flags(cancel, close, edit) ==
  /\ pc = "flags"
  /\ (edit # 0 => Edits /\ ~close)
  /\ row' = [IdleRow EXCEPT !.cancel = cancel, !.close = close, !.edit = edit]
  /\ pc' = "dir"
  /\ UNCHANGED <<m, buf, prevC, sn, sf, winN, winF, hist, liq>>
Dir(d) == /\ pc = "dir"
          /\ row' = [row EXCEPT !.entry.dir = d]
          /\ pc' = IF d = 0 THEN "apply" ELSE "r1"
          /\ UNCHANGED <<m, buf, prevC, sn, sf, winN, winF, hist, liq>>
R1(q, p) == /\ pc = "r1"
            /\ row' = [row EXCEPT !.entry.r1 = [q |-> q, p |-> p]]
            /\ pc' = IF TwoRows THEN "r2" ELSE "mode"
            /\ UNCHANGED <<m, buf, prevC, sn, sf, winN, winF, hist, liq>>
R2(p) == /\ pc = "r2"
         /\ (p # 0 => p # row.entry.r1.p)
         /\ row' = [row EXCEPT !.entry.r2 = IF p = 0 THEN NoRow ELSE [q |-> row.entry.r1.q, p |-> p]]
         /\ pc' = "mode"
         /\ UNCHANGED <<m, buf, prevC, sn, sf, winN, winF, hist, liq>>
Mode(md, hf) ==
  /\ pc = "mode" /\ md \in Modes /\ (hf => Halves)
  /\ row' = [row EXCEPT !.entry.mode = md, !.entry.half = hf]
  /\ pc' = IF md = "rel" THEN "dist" ELSE "exits"
  /\ UNCHANGED <<m, buf, prevC, sn, sf, winN, winF, hist, liq>>
Dist(d) == /\ pc = "dist"
           /\ row' = [row EXCEPT !.entry.d = d]
           /\ pc' = "apply"
           /\ UNCHANGED <<m, buf, prevC, sn, sf, winN, winF, hist, liq>>
RowLo == IF row.entry.r2.q = 0 THEN row.entry.r1.p ELSE Min2(row.entry.r1.p, row.entry.r2.p)
RowHi == IF row.entry.r2.q = 0 THEN row.entry.r1.p ELSE Max2(row.entry.r1.p, row.entry.r2.p)
Exits(sl, tp) ==
  /\ pc = "exits" /\ sl # tp
  /\ \/ IF row.entry.dir = 1 THEN sl < RowLo /\ tp > RowHi ELSE tp < RowLo /\ sl > RowHi
     \/ WrongSide
  /\ row' = [row EXCEPT !.entry.sl = sl, !.entry.tp = tp]
  /\ pc' = "apply"
  /\ UNCHANGED <<m, buf, prevC, sn, sf, winN, winF, hist, liq>>
\* both simulators consume the chunk (and the row at a boundary)
Apply ==
  /\ pc = "apply"
  /\ LET cs == FixAll(buf, prevC, 1)
         r  == IF Boundary THEN row ELSE IdleRow
         rn == RunN(sn, cs, 1, m, r, TF, winN)
         rf == RunF(sf, cs, m, r, TF, winF)
     IN /\ sn' = [rn.s EXCEPT !.hooks = <<>>] /\ sf' = [rf.s EXCEPT !.hooks = <<>>] /\ winN' = rn.win /\ winF' = rf.win
        /\ hist' = Append(hist, [raw |-> buf, row |-> r])
        /\ prevC' = buf[Len(buf)].c
        /\ liq' = (Boundary /\ r.close /\ r.entry.dir = 0)
  /\ m' = m + Chunk /\ buf' = <<>> /\ row' = IdleRow
  /\ pc' = IF m + Chunk >= NMin \/ ~Running(sn') THEN "done" ELSE "candle"

Next == \/ \E cd \in Candles : Candle(cd)
        \/ \E a \in BOOLEAN, b \in BOOLEAN, e \in 0..K : Flags(a, b, e)
        \/ \E d \in {0, 1, -1} : Dir(d)
        \/ \E q \in Qtys, p \in Pxs : R1(q, p)
        \/ \E p \in 0..K : R2(p)
        \/ \E md \in {"go", "open", "rel"}, hf \in BOOLEAN : Mode(md, hf)
        \/ \E d \in 1..(K - 1) : Dist(d)
        \/ \E sl \in Pxs, tp \in Pxs : Exits(sl, tp)
        \/ Apply
Spec == Init /\ [][Next]_vars

\* ---- properties of whole runs (at chunk ends: pc \in {"candle" with empty buffer, "done"})
AtChunkEnd == (pc = "candle" /\ buf = <<>>) \/ pc = "done"
Core(s) == [q |-> s.q, en |-> s.en, wal |-> s.wal, mar |-> Margin(s), ords |-> OrdBag(s), trades |-> s.trades, log |-> s.log,
            daily |-> s.daily, status |-> s.status]
SameRun == AtChunkEnd => Core(sn) = Core(sf)
SumPnl(tr) == FoldIdx(LAMBDA acc, x : RAdd(acc, x.pnl), RI(0), tr, 1)
FlatWallet == (AtChunkEnd /\ Running(sn) /\ sn.q = 0) => sn.wal = RAdd(RI(Start), SumPnl(sn.trades))
\* every closed trade: quantity and weighted prices are those of its fills, pnl = qty * (exit - entry) * side - fee
TradeOK(t) == /\ t.qty > 0 /\ t.closed >= t.opened
              /\ t.pnl = RSub(RMulI(RSub(t.exit, t.entry), IF t.type = "long" THEN t.qty ELSE -t.qty), t.fee)
TradesOK == \A j \in DOMAIN sn.trades : TradeOK(sn.trades[j])
FlatMeansNoExits == (AtChunkEnd /\ Running(sn) /\ sn.q = 0) => \A j \in DOMAIN sn.ords : ~sn.ords[j].ro
\* liquidate() closes the position (C10: the exit the strategy asks for is submitted; here: and executed at the step)
LiquidateWorks == (AtChunkEnd /\ liq /\ Running(sn)) => sn.q = 0
NoModelError == sn.status \in {"run", "InsufficientMargin", "InvalidStrategy"} /\ sf.status \in {"run", "InsufficientMargin", "InvalidStrategy"}

\* ---- export of finished behaviours (INVARIANT position)
Export == pc = "done" => PrintT(<<"RUN", ToJson(hist)>>)
\* ---- non-vacuity probes (each expected to be violated)
ProbeTrade    == ~(pc = "done" /\ Len(sn.trades) >= 1)
MaxQ == CHOOSE q \in Qtys : \A r \in Qtys : r <= q
ProbeIncrease == ~(Abs(sn.q) > MaxQ)
ProbeReject   == ~(sn.status = "InsufficientMargin")
ProbeInvalid  == ~(sn.status = "InvalidStrategy")
=============================================================================
