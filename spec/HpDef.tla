------------------------------- MODULE HpDef -------------------------------
(* C19, second half: which hyper-parameter values a strategy sees.  Pure        *)
(* operators.  A value is <<name, num, den>> (rational); a hyper-parameter set  *)
(* is [set |-> BOOLEAN, vals |-> sequence of values] (set = FALSE: Python None).*)
(* Declarations carry their bounds and default in half units (Unit = 2).        *)
EXTENDS DnaDef
HUnit == 2
NoHp == [set |-> FALSE, vals |-> <<>>]
Some(vals) == [set |-> TRUE, vals |-> vals]
Min2(a, b) == IF a < b THEN a ELSE b
\* helpers.dna_to_hp: zip(dna, declarations), one independent decode per position
DecodeAll(decls, dna) ==
  [k \in 1..Min2(Len(decls), Len(dna)) |->
     LET d == decls[k]  v == Decode(d.typ, dna[k], d.mn, d.mx, HUnit, "round") IN <<d.name, v[1], v[2]>>]
Defaults(decls) == [k \in 1..Len(decls) |-> <<decls[k].name, decls[k].dflt, HUnit>>]

\* ---- the property: explicit > dna() > declared defaults; otherwise no values at all
Expected(s) == IF s.hasExplicit THEN Some(s.explicit)
               ELSE IF Len(s.dna) > 0 /\ Len(s.decls) > 0 THEN Some(DecodeAll(s.decls, s.dna))
               ELSE IF Len(s.decls) > 0 THEN Some(Defaults(s.decls))
               ELSE NoHp
NoValues(h) == ~h.set \/ Len(h.vals) = 0
SameValues(a, b) ==
  \/ NoValues(a) /\ NoValues(b)
  \/ /\ a.set /\ b.set /\ Len(a.vals) = Len(b.vals)
     /\ \A i \in 1..Len(a.vals) : \E j \in 1..Len(b.vals) :
          a.vals[i][1] = b.vals[j][1] /\ a.vals[i][2] * b.vals[j][3] = b.vals[j][2] * a.vals[i][3]
=============================================================================
