---------------------------- MODULE IndicatorDefs ----------------------------
(* C15.  Textbook definitions of the core indicators on integer-lattice candles, in exact integer /   *)
(* rational arithmetic.  A candle series is a record T of equally long integer sequences o, h, l, c,  *)
(* v (prices in ticks, volumes in lots); positions are 1-based.  A definition yields, for a position  *)
(* i, a rational Num/Den scaled by 10^Sh, or "undefined here" (warm-up, zero denominator): the trace   *)
(* specification compares it with the logged float by long division, never by float arithmetic.       *)
(* Recursive smoothers are given as (a) their recurrence step, a linear relation between consecutive   *)
(* logged outputs and the exact input, and (b) a fixed-point recursion run by TLC whose rounding error *)
(* is bounded by contraction, together with a bound on what is left of the start-up seed.              *)
(* No model of float numerics: TLC's integers are 32 bit, every bound below is chosen so that products *)
(* stay inside (prices <= 400 ticks, periods <= 60, see the harness' range assertions).                *)
EXTENDS Integers, Sequences, FiniteSets, Functions, FiniteSetsExt

Abs(a) == IF a < 0 THEN -a ELSE a
Min2(a, b) == IF a < b THEN a ELSE b
Max2(a, b) == IF a > b THEN a ELSE b
Sgn(a) == IF a > 0 THEN 1 ELSE IF a < 0 THEN -1 ELSE 0
Pow10(k) == CASE k = 0 -> 1 [] k = 1 -> 10 [] k = 2 -> 100 [] k = 3 -> 1000 [] k = 4 -> 10000
              [] k = 5 -> 100000 [] k = 6 -> 1000000 [] k = 7 -> 10000000 [] k = 8 -> 100000000

\* ---------------------------------------------------------------- exact long division
\* floor(num * 10^k / den) for num >= 0, den > 0 without leaving 32 bits (needs den < 2*10^8)
RECURSIVE LD(_, _, _, _)
LD(q, r, den, k) == IF k = 0 THEN q ELSE LD(q * 10 + (r * 10) \div den, (r * 10) % den, den, k - 1)
LongDiv(num, den, k) == LD(num \div den, num % den, den, k)
\* truncated towards zero for negative numerators
SDiv(num, den, k) == IF num >= 0 THEN LongDiv(num, den, k) ELSE -LongDiv(-num, den, k)
\* a logged token V = round(x * 10^k) of the exact rational x = num/den: V is the truncation or its neighbour
NearRat(V, num, den, k) == Abs(V - SDiv(num, den, k)) <= 1

\* ---------------------------------------------------------------- folds over index ranges
SumOver(a, b, F(_)) == IF a > b THEN 0 ELSE FoldFunctionOnSet(LAMBDA x, y : x + y, 0, [j \in a..b |-> F(j)], a..b)
MaxOver(a, b, F(_)) == Max({F(j) : j \in a..b})
MinOver(a, b, F(_)) == Min({F(j) : j \in a..b})

\* ---------------------------------------------------------------- sources (numerator, common denominator)
X(T, s, j) == CASE s = "close" -> T.c[j] [] s = "high" -> T.h[j] [] s = "low" -> T.l[j] [] s = "open" -> T.o[j]
                [] s = "volume" -> T.v[j] [] s = "hl2" -> T.h[j] + T.l[j] [] s = "hlc3" -> T.h[j] + T.l[j] + T.c[j]
                [] s = "ohlc4" -> T.o[j] + T.h[j] + T.l[j] + T.c[j]
Dn(s) == CASE s = "hl2" -> 2 [] s = "hlc3" -> 3 [] s = "ohlc4" -> 4 [] OTHER -> 1
N(T) == Len(T.c)

\* ---------------------------------------------------------------- building blocks
TR(T, j) == IF j = 1 THEN T.h[1] - T.l[1]
            ELSE Max2(Max2(T.h[j] - T.l[j], Abs(T.h[j] - T.c[j - 1])), Abs(T.l[j] - T.c[j - 1]))
PlusDM(T, j)  == LET up == T.h[j] - T.h[j - 1] dn == T.l[j - 1] - T.l[j] IN IF up > dn /\ up > 0 THEN up ELSE 0
MinusDM(T, j) == LET up == T.h[j] - T.h[j - 1] dn == T.l[j - 1] - T.l[j] IN IF dn > up /\ dn > 0 THEN dn ELSE 0
TP3(T, j) == T.h[j] + T.l[j] + T.c[j]                    \* three times the typical price
HH(T, i, p) == MaxOver(i - p + 1, i, LAMBDA j : T.h[j])
LL(T, i, p) == MinOver(i - p + 1, i, LAMBDA j : T.l[j])
TriW(p, m) == Min2(m, p + 1 - m)                          \* triangular weights 1,2,..,2,1

Undef == [def |-> FALSE, num |-> 0, den |-> 1, sh |-> 0]
Rat(n, d) == [def |-> TRUE, num |-> n, den |-> d, sh |-> 0]
RatSh(n, d, s) == [def |-> TRUE, num |-> n, den |-> d, sh |-> s]

\* ---------------------------------------------------------------- window definitions: value at position i
\* d: name, p: period, s: source; result: value = num/den * 10^sh, or Undef
Window(T, d, p, s, i) ==
  LET a == i - p + 1  dn == Dn(s) IN
  CASE d = "typprice" -> Rat(T.h[i] + T.l[i] + T.c[i], 3)
    [] d = "medprice" -> Rat(T.h[i] + T.l[i], 2)
    [] d = "avgprice" -> Rat(T.o[i] + T.h[i] + T.l[i] + T.c[i], 4)
    [] d = "wclprice" -> Rat(T.h[i] + T.l[i] + 2 * T.c[i], 4)
    [] d = "sma" -> IF i < p THEN Undef ELSE Rat(SumOver(a, i, LAMBDA j : X(T, s, j)), p * dn)
    [] d = "wma" -> IF i < p THEN Undef
                    ELSE Rat(SumOver(a, i, LAMBDA j : (j - a + 1) * X(T, s, j)), dn * ((p * (p + 1)) \div 2))
    [] d = "trima" -> IF i < p THEN Undef
                      ELSE Rat(SumOver(a, i, LAMBDA j : TriW(p, j - a + 1) * X(T, s, j)),
                               dn * SumOver(1, p, LAMBDA m : TriW(p, m)))
    [] d = "vwma" -> LET vs == SumOver(a, i, LAMBDA j : T.v[j]) IN
                     IF i < p \/ vs = 0 THEN Undef
                     ELSE Rat(SumOver(a, i, LAMBDA j : X(T, s, j) * T.v[j]), dn * vs)
    [] d = "mom" -> IF i <= p THEN Undef ELSE Rat(X(T, s, i) - X(T, s, i - p), dn)
    [] d = "roc" -> IF i <= p \/ X(T, s, i - p) <= 0 THEN Undef
                    ELSE RatSh(X(T, s, i) - X(T, s, i - p), X(T, s, i - p), 2)
    [] d = "rocp" -> IF i <= p \/ X(T, s, i - p) <= 0 THEN Undef ELSE Rat(X(T, s, i) - X(T, s, i - p), X(T, s, i - p))
    [] d = "rocr" -> IF i <= p \/ X(T, s, i - p) <= 0 THEN Undef ELSE Rat(X(T, s, i), X(T, s, i - p))
    [] d = "rocr100" -> IF i <= p \/ X(T, s, i - p) <= 0 THEN Undef ELSE RatSh(X(T, s, i), X(T, s, i - p), 2)
    [] d = "midpoint" -> IF i < p THEN Undef
                         ELSE Rat(MaxOver(a, i, LAMBDA j : X(T, s, j)) + MinOver(a, i, LAMBDA j : X(T, s, j)), 2 * dn)
    [] d = "midprice" -> IF i < p THEN Undef ELSE Rat(HH(T, i, p) + LL(T, i, p), 2)
    [] d = "donchian_upper" -> IF i < p THEN Undef ELSE Rat(HH(T, i, p), 1)
    [] d = "donchian_lower" -> IF i < p THEN Undef ELSE Rat(LL(T, i, p), 1)
    [] d = "donchian_middle" -> IF i < p THEN Undef ELSE Rat(HH(T, i, p) + LL(T, i, p), 2)
    [] d = "willr" -> IF i < p \/ HH(T, i, p) = LL(T, i, p) THEN Undef
                      ELSE RatSh(-(HH(T, i, p) - T.c[i]), HH(T, i, p) - LL(T, i, p), 2)
    [] d = "stochf_k" -> IF i < p \/ HH(T, i, p) = LL(T, i, p) THEN Undef
                         ELSE RatSh(T.c[i] - LL(T, i, p), HH(T, i, p) - LL(T, i, p), 2)
    [] d = "trange" -> IF i < 2 THEN Undef ELSE Rat(TR(T, i), 1)
    [] d = "var" -> IF i < p THEN Undef
                    ELSE LET sx == SumOver(a, i, LAMBDA j : X(T, s, j))
                             sxx == SumOver(a, i, LAMBDA j : X(T, s, j) * X(T, s, j))
                         IN Rat(p * sxx - sx * sx, p * p * dn * dn)
    [] d = "cci" -> IF i < p THEN Undef
                    ELSE LET ss == SumOver(a, i, LAMBDA j : TP3(T, j))
                             dd == SumOver(a, i, LAMBDA j : Abs(p * TP3(T, j) - ss))
                         IN IF dd = 0 THEN Undef ELSE Rat(200 * p * (p * TP3(T, i) - ss), 3 * dd)
    [] d = "mfi" -> IF i < p + 1 THEN Undef
                    ELSE LET pos == SumOver(a, i, LAMBDA j : IF TP3(T, j) > TP3(T, j - 1) THEN TP3(T, j) * T.v[j] ELSE 0)
                             neg == SumOver(a, i, LAMBDA j : IF TP3(T, j) < TP3(T, j - 1) THEN TP3(T, j) * T.v[j] ELSE 0)
                         IN IF pos + neg = 0 THEN Undef ELSE RatSh(pos, pos + neg, 2)
    [] OTHER -> Undef
KnownWindow == {"typprice", "medprice", "avgprice", "wclprice", "sma", "wma", "trima", "vwma", "mom", "roc", "rocp",
                "rocr", "rocr100", "midpoint", "midprice", "donchian_upper", "donchian_lower", "donchian_middle",
                "willr", "stochf_k", "trange", "var", "cci", "mfi"}

\* slow stochastic %K: simple average over q positions of the raw %K, each to 5 digits of the percentage (floor): the exact
\* value times 10^5 lies in [sum/q, sum/q + 1)
StochDefined(T, i, p, q) == i >= p + q - 1 /\ \A j \in (i - q + 1)..i : HH(T, j, p) # LL(T, j, p)
StochSum6(T, i, p, q) == SumOver(i - q + 1, i, LAMBDA j : LongDiv(T.c[j] - LL(T, j, p), HH(T, j, p) - LL(T, j, p), 7))

\* AROON: 100 * (periods between the window start and an extreme) / p over the p+1 newest candles; with ties any
\* extreme candle is a textbook answer
AroonOK(T, V, i, p, k, up) ==
  LET a == i - p
      ext == IF up THEN MaxOver(a, i, LAMBDA j : T.h[j]) ELSE MinOver(a, i, LAMBDA j : T.l[j])
  IN \E j \in a..i : (IF up THEN T.h[j] ELSE T.l[j]) = ext /\ NearRat(V, 100 * (j - a), p, k)

\* ---------------------------------------------------------------- fixed-point recursions (state carried by the trace spec)
\* exponential smoothing with weight wn/wd of the new value, e and x in the same integer unit; floor division keeps
\* the rounding error per step below one unit, the contraction bounds the accumulated error by wd/wn units
Smooth(e, x, wn, wd) == e + (wn * (x - e)) \div wd
\* upper bound on what is left of an initial difference r after one more step
Decay(r, wn, wd) == r - (wn * r) \div wd
\* Wilder running sum S' = S - S/p + x
WSum(sv, x, p) == sv - (sv \div p) + x
=============================================================================
