----------------------------- MODULE Timeframes -----------------------------
(* C17 (M + export).  TLC enumerates every non-empty subset of the supported    *)
(* timeframes, checks that the longest member is unique (the lengths are         *)
(* pairwise distinct) and exports each subset with its longest member; the real *)
(* helpers.max_timeframe is then called on every exported subset.               *)
EXTENDS TimeframeDef, TLC, Json
CONSTANTS Universe,      \* the timeframes subsets are drawn from (a subset of Names)
          Export
VARIABLES S
Init == S \in (SUBSET Universe) \ {{}}
Next == FALSE /\ UNCHANGED S                    \* no transitions: the initial states are the state space
Spec == Init /\ [][Next]_S
ASSUME UniverseOK == Universe \subseteq Names
ASSUME LengthsDistinct == \A a, b \in Names : a # b => Minutes(a) # Minutes(b)
UniqueLongest == Cardinality({x \in S : IsLongest(x, S)}) = 1
ExportEdge == Export => PrintT(<<"EDGE", ToJson([s |-> S, longest |-> Longest(S)])>>)
=============================================================================
