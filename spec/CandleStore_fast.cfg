\* fast simulator, 3m trading route + 15m data route (chunk 3), 15 warm-up minutes, 20 minutes (not a multiple of 3)
SPECIFICATION SpecM
VIEW View
CHECK_DEADLOCK FALSE
CONSTANTS TFs = {3,15} TradeTF = 3 Warm = 15 N = 20 MaxFills = 2 Fast = TRUE
QStale = FALSE QEmptyRead = FALSE QPartialChunk = FALSE QChunkTrading = FALSE EpochOffset = 0 QEpochGrid = TRUE Export = FALSE
INVARIANT NoReadError
INVARIANT RowsAreAggregations
INVARIANT CurrentIsAggregation
INVARIANT NoSimulatorError
INVARIANT OneMinuteGapless
INVARIANT FullCandlesAtSteps
INVARIANT TFStrictlyIncreasing
INVARIANT AllMinutesStored
