--------------------------- MODULE TraceTimeframes ---------------------------
(* C17, code -> spec: the recorded timeframe tables, max_timeframe results on   *)
(* subsets and anchor_timeframe results, judged against TimeframeDef.           *)
(*  kind "tables": one record: enum (names of jesse.enums.timeframes), and for  *)
(*     each table a list of <<name, minutes>> (minutes = -1: lookup raised).    *)
(*  kind "max": records [s |-> list of names, got |-> name]                     *)
(*  kind "anchor": records [tf, got, exc]                                       *)
EXTENDS TimeframeDef, TLC, Json, IOUtils
Data == JsonDeserialize(IOEnv.TRACE_FILE)
Traces == Data.traces
VARIABLES tid, l, fails
vars == <<tid, l, fails>>
Ev(t) == Traces[t].ev
Init == tid \in 1..Len(Traces) /\ l = 1 /\ fails = <<>>
Range(f) == {f[i] : i \in DOMAIN f}
BadRows(rows) == {i \in DOMAIN rows : rows[i][1] \notin Names \/ rows[i][2] # Minutes(rows[i][1])}
First(set) == CHOOSE i \in set : \A j \in set : i <= j
TableVerdict(e) ==
  IF Range(e.enum) # Names THEN "enum-differs-from-the-supported-timeframes"
  ELSE IF BadRows(e.utils) # {} THEN "utils.timeframe_to_one_minutes:" \o e.utils[First(BadRows(e.utils))][1]
  ELSE IF {r[1] : r \in Range(e.utils)} # Names THEN "utils.timeframe_to_one_minutes:missing-names"
  ELSE IF BadRows(e.helpers) # {} THEN "helpers.timeframe_to_one_minutes:" \o e.helpers[First(BadRows(e.helpers))][1]
  ELSE IF BadRows(e.bm) # {} THEN "backtest_mode.timeframe_to_one_minutes:" \o e.bm[First(BadRows(e.bm))][1]
  ELSE IF {r[1] : r \in Range(e.bm)} # Names THEN "backtest_mode.timeframe_to_one_minutes:keys-differ-from-the-enum"
  ELSE "ok"
MaxVerdict(e) == LET s == Range(e.s) IN
  IF e.exc # "none" THEN "max_timeframe:raises:" \o e.exc
  ELSE IF ~(s \subseteq Names) THEN "machinery:unknown-name"
  ELSE IF e.got # Longest(s) THEN "max_timeframe:longest=" \o Longest(s) ELSE "ok"
AnchorVerdict(e) ==
  IF e.exc # "none" THEN "ok"                               \* no anchor defined for this timeframe: nothing to judge
  ELSE IF e.got \notin Names THEN "anchor_timeframe:unknown-result:" \o e.tf
  ELSE IF Minutes(e.got) <= Minutes(e.tf) THEN "anchor_timeframe:not-larger:" \o e.tf ELSE "ok"
Verdict(e) == CASE e.k = "tables" -> TableVerdict(e) [] e.k = "max" -> MaxVerdict(e) [] e.k = "anchor" -> AnchorVerdict(e)
                [] OTHER -> "unknown-record-kind"
Step == /\ l <= Len(Ev(tid))
        /\ LET v == Verdict(Ev(tid)[l]) IN
           fails' = IF v = "ok" \/ \E i \in 1..Len(fails) : fails[i][1] = v THEN fails ELSE Append(fails, <<v, l>>)
        /\ l' = l + 1 /\ UNCHANGED tid
Spec == Init /\ [][Step]_vars
Finished == l > Len(Ev(tid))
Report == Finished => PrintT(<<"VERDICT", Traces[tid].id, Len(Ev(tid)), fails>>)
=============================================================================
