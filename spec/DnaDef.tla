------------------------------- MODULE DnaDef -------------------------------
(* C19.  The optimizer's gene -> hyper-parameter decoding as exact rational    *)
(* arithmetic (helpers.convert_number + helpers.dna_to_hp), and the property   *)
(* predicates stated independently of it.  Pure operators, no variables.       *)
(*                                                                             *)
(* Bounds are integers in units of 1/Unit (Unit = 2: halves, Unit = 1000:      *)
(* milli).  A gene is the ordinal of its letter.  convert_number(119, 40, max, *)
(* min, ord) = ((ord - 40) * (max - min)) / 79 + min, i.e. the rational        *)
(*        Num(g, mn, mx) / Den      with Den = (GMax - GMin) * Unit.           *)
EXTENDS Integers, Sequences
GMin == 40          \* ord("(") - lower end hard-coded in dna_to_hp
GMax == 119         \* ord("w") - upper end hard-coded in dna_to_hp
Span == GMax - GMin

Num(g, mn, mx) == (g - GMin) * (mx - mn) + Span * mn
Den(unit) == Span * unit

FloorDiv(n, d) == n \div d                       \* d > 0: TLC's \div is the floor
CeilDiv(n, d) == -((-n) \div d)
\* Python 3 round(): nearest integer, ties to the even one
RoundHalfEven(n, d) == LET q == FloorDiv(n, d)  r == n - q * d
                       IN IF 2 * r < d THEN q ELSE IF 2 * r > d THEN q + 1
                          ELSE IF q % 2 = 0 THEN q ELSE q + 1
IsTie(n, d) == LET q == FloorDiv(n, d) IN 2 * (n - q * d) = d

\* int(round(convert_number(..)))  -  rule "round" is the tree, "round_clamp" the proposed repair
DecodeInt(g, mn, mx, unit, rule) ==
  LET r == RoundHalfEven(Num(g, mn, mx), Den(unit))
      lo == CeilDiv(mn, unit)  hi == FloorDiv(mx, unit)
      m == IF r > hi THEN hi ELSE r                              \* max(ceil(min), min(floor(max), r))
  IN IF rule = "round_clamp" THEN (IF m < lo THEN lo ELSE m) ELSE r

\* decoded value as a rational <<num, den>> (not normalised; den > 0)
Decode(typ, g, mn, mx, unit, rule) ==
  IF typ = "int" THEN <<DecodeInt(g, mn, mx, unit, rule), 1>> ELSE <<Num(g, mn, mx), Den(unit)>>

\* ---------------------------------------------------------------- the property, on rationals
RatLE(a, b) == a[1] * b[2] <= b[1] * a[2]
RatEQ(a, b) == a[1] * b[2] = b[1] * a[2]
Bound(b, unit) == <<b, unit>>
\* a declaration that can be honoured at all: min <= max and, for int, an integer inside
Satisfiable(typ, mn, mx, unit) == mn <= mx /\ (typ = "int" => CeilDiv(mn, unit) <= FloorDiv(mx, unit))
IntegralBound(b, unit) == b % unit = 0
InRangeP(v, mn, mx, unit) == RatLE(Bound(mn, unit), v) /\ RatLE(v, Bound(mx, unit))
TypedP(typ, v) == typ = "int" => v[2] = 1
\* the first / last letter maps to min / max; for an int parameter only an integral bound can be hit
EndPointApplies(typ, b, unit) == typ = "float" \/ IntegralBound(b, unit)
=============================================================================
