------------------------------ MODULE TraceDna ------------------------------
(* C19, code -> spec.  Judges recorded outputs of the real helpers.dna_to_hp.   *)
(*                                                                             *)
(* kind "decl": one trace per declaration (type, min, max); event j is the      *)
(*   decode of the j-th letter of the optimizer's real charset (alphabet order) *)
(*   as a one-letter DNA.  Comparisons between the decoded value and the bounds *)
(*   use order-isomorphic ranks of the Python numbers {min, max, values} (exact *)
(*   comparisons, no tolerance).  Clauses: raises, type, range, monotone,       *)
(*   first-not-min, last-not-max.                                               *)
(*   Total and exhaustive: every event is judged, all failing clauses collected. *)
(* kind "seq": a longer DNA over several declarations; event j is position j:   *)
(*   the value must be the one the same letter decodes to on its own under the  *)
(*   same declaration (repr strings and type names compared).  Clause position. *)
(*                                                                             *)
(* Besides the property verdict two flags say whether the outputs agree with    *)
(* the decoding definition DnaDef under rule "round" (the tree) and under       *)
(* "round_clamp" (the proposed repair).  Disagreement is not a violation of the *)
(* property (any typed, in-range, monotone, end-point-exact map is fine).       *)
EXTENDS DnaDef, TLC, Json, IOUtils
Data == JsonDeserialize(IOEnv.TRACE_FILE)
Traces == Data.traces
VARIABLES tid, l, prev, fails, firstl, okRound, okClamp
vars == <<tid, l, prev, fails, firstl, okRound, okClamp>>
Ev(t) == Traces[t].ev
Hdr(t) == Traces[t].hdr
NoRank == -1

\* total and exhaustive: every event is judged; `fails` collects the distinct failing clauses, `firstl` the first failing event
Init == tid \in 1..Len(Traces) /\ l = 1 /\ prev = NoRank /\ fails = <<>> /\ firstl = 0 /\ okRound = TRUE /\ okClamp = TRUE
Note(v) == /\ fails' = (IF v = "ok" \/ \E i \in 1..Len(fails) : fails[i] = v THEN fails ELSE Append(fails, v))
           /\ firstl' = (IF v # "ok" /\ firstl = 0 THEN l ELSE firstl)

Abs(x) == IF x < 0 THEN -x ELSE x
\* agreement of a logged float (sc = round(v * Den * 1000)) with the rational Num / Den
FloatAgrees(e, h) == Abs(e.sc - 1000 * Num(e.g, h.mn, h.mx)) <= 2

\* an exact rounding tie at an inner letter: the float computation may fall on either side (agreement not judged)
KnifeEdge(e, h) == e.g > GMin /\ e.g < GMax /\ IsTie(Num(e.g, h.mn, h.mx), Den(h.unit))

DeclVerdict(e, h, j, n) ==
  LET sat == Satisfiable(h.typ, h.mn, h.mx, h.unit) IN
  IF e.exc # "none" THEN "raises:" \o e.exc
  ELSE IF h.typ = "int" /\ ~e.isint THEN "type:int-parameter-not-int"
  ELSE IF h.typ = "float" /\ ~e.isfloat THEN "type:float-parameter-not-float"
  ELSE IF sat /\ e.rk < h.rmin THEN "range:below-min"
  ELSE IF sat /\ e.rk > h.rmax THEN "range:above-max"
  ELSE IF prev # NoRank /\ e.rk < prev THEN "monotone"
  ELSE IF sat /\ j = 1 /\ EndPointApplies(h.typ, h.mn, h.unit) /\ e.rk # h.rmin THEN "first-not-min"
  ELSE IF sat /\ j = n /\ EndPointApplies(h.typ, h.mx, h.unit) /\ e.rk # h.rmax THEN "last-not-max"
  ELSE "ok"

SeqVerdict(e) == IF e.exc # "none" THEN "raises:" \o e.exc
                 ELSE IF e.s # e.s1 \/ e.t # e.t1 THEN "position" ELSE "ok"

Step ==
  /\ l <= Len(Ev(tid))
  /\ LET e == Ev(tid)[l]  h == Hdr(tid) IN
     IF h.kind = "decl"
     THEN /\ Note(DeclVerdict(e, h, l, Len(Ev(tid))))
          /\ prev' = IF e.exc = "none" THEN e.rk ELSE prev
          /\ IF e.exc # "none" \/ e.g < GMin \/ e.g > GMax THEN okRound' = FALSE /\ okClamp' = FALSE
             ELSE IF h.typ = "int" /\ KnifeEdge(e, h) THEN UNCHANGED <<okRound, okClamp>>
             ELSE IF h.typ = "int"
             THEN /\ okRound' = (okRound /\ e.isint /\ e.vi = DecodeInt(e.g, h.mn, h.mx, h.unit, "round"))
                  /\ okClamp' = (okClamp /\ e.isint /\ e.vi = DecodeInt(e.g, h.mn, h.mx, h.unit, "round_clamp"))
             ELSE /\ okRound' = (okRound /\ e.isfloat /\ FloatAgrees(e, h))
                  /\ okClamp' = (okClamp /\ e.isfloat /\ FloatAgrees(e, h))
     ELSE /\ Note(SeqVerdict(e)) /\ UNCHANGED <<prev, okRound, okClamp>>
  /\ l' = l + 1 /\ UNCHANGED tid
Spec == Init /\ [][Step]_vars
Finished == l > Len(Ev(tid))
Report == Finished => PrintT(<<"VERDICT", Traces[tid].id, firstl, fails, okRound, okClamp>>)
=============================================================================
