\* reference configuration (the checks generate their configurations from harness/drivers/acct.py:model_cfg)
SPECIFICATION Spec
VIEW ViewAcct
CONSTRAINT Depth
CHECK_DEADLOCK FALSE
CONSTANTS
 Syms = {"A"}
 Qtys = {1, 2}
 Prices = {8, 12}
 FeeNum = 1 FeeDen = 16 Start = 32
 MaxDepth = 5 MaxAct = 3 MaxOrd = 5
 Dups = FALSE CancelOnClose = FALSE Export = FALSE
 QuirkDoubleRelease = FALSE QuirkFlip = FALSE
INVARIANT NonNegative
INVARIANT PositionIsBase
INVARIANT NoShort
INVARIANT SumsAreActiveSells
INVARIANT ActiveReported
INVARIANT ExecutedInExactlyOneTrade
PROPERTY Conservation
PROPERTY CashStep
PROPERTY FlushPerFill
PROPERTY ReserveRelease
PROPERTY RejectIff
PROPERTY FinalIsFinal
PROPERTY FinalOpsAreNoOps
