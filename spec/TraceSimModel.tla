--------------------------- MODULE TraceSimModel ---------------------------
(* C12 binding of the model to the code (both directions):                        *)
(* a scenario = the feed (raw one-minute candles on the lattice, chunk by chunk)   *)
(* and one strategy decision row per trading-candle boundary - either a witness    *)
(* history exported by TLC from SimEquiv (R) or a random one (T).  The harness ran *)
(* the REAL normal and the REAL fast simulator on it with a strategy scripted by   *)
(* the rows and recorded the executed orders.  TLC re-executes the scenario with   *)
(* the operators of SimCore (MinutesN / ChunkF / Decide / Terminate) and compares: *)
(* what the model says each simulator does must be what that simulator did -       *)
(* inside AND outside the precondition of C12.  Deterministic, total.              *)
EXTENDS SimCore, Json, IOUtils
CONSTANT PartialChunkRaises   \* FALSE = the code since f8ad570d (see SimEquiv.tla)
Data   == JsonDeserialize(IOEnv.TRACE_FILE)
Traces == Data.traces
VARIABLES tid, l, m, prevC, sn, sf, fstat, verdict,
          pre, wf, wlo, whi, wpx     \* the antecedent of C12 incl. its quantifier, as in SimEquiv.Feed (classification only)
vars == <<tid, l, m, prevC, sn, sf, fstat, verdict, pre, wf, wlo, whi, wpx>>
Hist(t) == Traces[t].hist
Init == /\ tid \in 1..Len(Traces) /\ l = 1 /\ m = 0 /\ prevC = 0 /\ sn = Side0 /\ sf = Side0 /\ fstat = "run" /\ verdict = "ok"
        /\ pre = "ok" /\ wf = 0 /\ wlo = 0 /\ whi = 0 /\ wpx = {}

Step ==
  /\ l <= Len(Hist(tid))
  /\ LET e == Hist(tid)[l] IN
     IF e.k = "feed"
     THEN /\ sn' = MinutesN(sn, e.raw, prevC, 1, m)
          \* former defect: a trailing chunk shorter than the chunk size made the fast simulator raise ValueError
          /\ IF Len(e.raw) < Traces[tid].hdr.chunk /\ PartialChunkRaises THEN fstat' = "ValueError" /\ sf' = sf
             ELSE fstat' = fstat /\ sf' = (IF fstat = "run" THEN ChunkF(sf, e.raw, prevC, m) ELSE sf)
          /\ m' = m + Len(e.raw) /\ prevC' = e.raw[Len(e.raw)].c
          /\ LET n2  == MinutesN(sn, e.raw, prevC, 1, m)
                 new == NewFills(sn.log, n2.log)
                 st  == IF prevC = 0 THEN e.raw[1].o ELSE prevC
                 lo  == Min2(IF wlo = 0 THEN st ELSE wlo, MinL(e.raw))
                 hi  == Max2(IF whi = 0 THEN st ELSE whi, MaxH(e.raw))
                 px  == wpx \cup RestingPx(sn.ords) \cup RestingPx(n2.ords) \cup FilledPx(new)
                 k   == wf + RestingFills(new)
             IN /\ wf' = k /\ wlo' = lo /\ whi' = hi /\ wpx' = px
                /\ pre' = IF pre # "ok" THEN pre ELSE IF k > 1 THEN "two-fills"
                          ELSE IF Cardinality({p \in px : lo <= p /\ p <= hi}) > 1 THEN "spacing"
                          ELSE IF Len(e.raw) < Traces[tid].hdr.chunk /\ PartialChunkRaises THEN "ragged" ELSE "ok"
     ELSE /\ sn' = Decide(sn, e.row, m)
          /\ sf' = (IF fstat = "run" THEN Decide(sf, e.row, m) ELSE sf)
          /\ wf' = 0 /\ wlo' = 0 /\ whi' = 0 /\ wpx' = {}
          /\ UNCHANGED <<m, prevC, fstat, pre>>
  /\ l' = l + 1 /\ UNCHANGED <<tid, verdict>>

FirstDiff(x, y) == CHOOSE j \in 1..Len(x) : x[j] # y[j] /\ \A q \in 1..(j - 1) : x[q] = y[q]
FillField == <<"side", "type", "price", "minute">>
CmpLog(who, model, real) ==
  IF model = real THEN "ok"
  ELSE IF Len(model) # Len(real) /\ (\A j \in 1..Min2(Len(model), Len(real)) : model[j] = real[j])
       THEN who \o ":" \o (IF Len(model) < Len(real) THEN "code-executes-more" ELSE "code-executes-fewer")
  ELSE LET j == CHOOSE i \in 1..Min2(Len(model), Len(real)) : model[i] # real[i] /\ \A q \in 1..(i - 1) : model[q] = real[q]
       IN who \o ":" \o FillField[FirstDiff(model[j], real[j])]
\* the recorded real runs compared with each other (the property itself, on a scenario TLC classified as inside it)
RealDiff(rn, rf) ==
  IF rf.exc # "none" THEN "fast-raises"
  ELSE IF CmpLog("x", rn.fills, rf.fills) # "ok" THEN CmpLog("orders", rn.fills, rf.fills)
  ELSE IF rn.bal # rf.bal THEN "balance" ELSE "ok"
Judge ==
  LET tn == Terminate(sn, m)
      tf == IF fstat = "run" THEN Terminate(sf, m) ELSE sf
      rn == Traces[tid].norm
      rf == Traces[tid].fast
  IN IF tn.err # "none" \/ tf.err # "none" THEN "model:internal-error"
     \* 1. the model must describe the normal simulator (it also classifies the scenario)
     ELSE IF rn.exc # "none" THEN "model:normal:raises"
     ELSE IF CmpLog("model:normal", tn.log, rn.fills) # "ok" THEN CmpLog("model:normal", tn.log, rn.fills)
     ELSE IF tn.bal # rn.bal THEN "model:normal:balance"
     \* 2. C12 on the real runs: inside antecedent + quantifier both simulators must have done the same
     \*    (a difference that the model explains by the known defect class - a fill in a gapped minute inside a chunk, model
     \*     and code agreeing fill for fill - is reported under that class)
     ELSE IF pre = "ok" /\ RealDiff(rn, rf) # "ok"
          THEN IF tf.gap /\ fstat = "run" /\ rf.exc = "none" /\ tf.log = rf.fills /\ tf.bal = rf.bal THEN "c12:inner-gap-fill"
               ELSE "c12:" \o RealDiff(rn, rf)
     \* 3. the model must describe the fast simulator
     ELSE IF (fstat = "run") # (rf.exc = "none") THEN "model:fast:exception-" \o (IF fstat = "run" THEN "unexpected" ELSE "missing")
     ELSE IF fstat # "run" THEN "ok"
     ELSE IF CmpLog("model:fast", tf.log, rf.fills) # "ok" THEN CmpLog("model:fast", tf.log, rf.fills)
     ELSE IF tf.bal # rf.bal THEN "model:fast:balance"
     ELSE "ok"
Final == /\ l = Len(Hist(tid)) + 1 /\ verdict' = Judge /\ l' = l + 1 /\ UNCHANGED <<tid, m, prevC, sn, sf, fstat, pre, wf, wlo, whi, wpx>>
Next == verdict = "ok" /\ (Step \/ Final)
Spec == Init /\ [][Next]_vars
Finished == l = Len(Hist(tid)) + 2
\* extra elements (classification, not verdicts): is the scenario inside the antecedent + quantifier of C12, and does the
\* model say that the two simulators agree on it
Agree == fstat = "run" /\ Terminate(sn, m).log = Terminate(sf, m).log
Report == Finished => PrintT(<<"VERDICT", Traces[tid].id, pre, IF Agree THEN 1 ELSE 0, verdict>>)
=============================================================================
