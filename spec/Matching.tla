------------------------------- MODULE Matching -------------------------------
(* C02 / C08 (first half) / C09 - one minute of the NORMAL simulator,            *)
(* backtest_mode._simulate_price_change_effect, implementation-shaped:           *)
(*   Begin     _get_executing_orders(real) + _sort_execution_orders              *)
(*   TryNext   the `for` loop over the (possibly stale) candidate list           *)
(*   Fill      split_candle at the order price, order.execute()                  *)
(*   React*    what the strategy hooks may do inside execute(): submit a LIMIT / *)
(*             STOP order, submit a MARKET order (price = position.current_price *)
(*             as set by the loop: the fill price, or - quirk - the candle's     *)
(*             close when the fill was at the open and the candle came back      *)
(*             unsplit; the order is ACTIVE in the store, so the re-selection    *)
(*             matches it like a resting order), cancel                          *)
(*   Reselect  _get_executing_orders(later part) + sort, restart the `for`       *)
(*   Finish    candidate list exhausted -> store the full candle                 *)
(*   LiqCheck  _check_for_liquidations(real)  (C09)                              *)
(* Quirks kept: the order priced at the open lands in on_open AND below_open;    *)
(* Python's stable sorts; price = open returns the candle unsplit.               *)
(* The environment is the most general one: any candle of the lattice (already   *)
(* gap-normalised: FixJump maps onto valid candles, see CandleSplitMC), up to    *)
(* MaxOrders resting orders at any price incl. ties, up to MaxReact reactions.   *)
(*                                                                               *)
(* The PROPERTIES are stated on the canonical path of Lattice.tla and know       *)
(* nothing about candidates, cursors, sorting or splitting.                      *)
EXTENDS CandleSplit, TLC
CONSTANTS K,            \* price lattice 1..K
          MaxOrders,    \* resting orders at the start of the minute
          MaxReact,     \* reactions (submit one order / cancel one order) inside fills
          Liq           \* TRUE: model the position and the liquidation check (C09)
Px == 1..K
Candles == CandlesOn(Px)

VARIABLES real,      \* the minute's candle as passed to the function
          temp,      \* current_temp_candle
          ords,      \* sequence of [p, st \in {"A","E","C"}, born]; index = position in the order store
          cands,     \* executing_orders (sequence of indices, may hold duplicates and stale entries)
          cursor, pc,
          lastPos,   \* GHOST: canonical-path position of the latest fill (0 at the start of the minute)
          nreact,
          cur,       \* position.current_price as set by the loop at the latest fill (0 before the first fill)
          pos,       \* C09: [open, liq] - is a position open after matching and where is its liquidation price
          liqd       \* C09: was the position force-closed by LiqCheck
vars == <<real, temp, ords, cands, cursor, pc, lastPos, nreact, cur, pos, liqd>>
Active(i) == ords[i].st = "A"
Idx == DOMAIN ords

\* ---- Python's sorted(): stable ----
FilterSeq(s, P(_)) == LET RECURSIVE F(_)
                          F(t) == IF t = <<>> THEN <<>> ELSE (IF P(Head(t)) THEN <<Head(t)>> ELSE <<>>) \o F(Tail(t))
                      IN F(s)
StableSort(os, s, LE(_, _)) ==      \* LE(a, b): key(a) may stay in front of key(b)
  LET RECURSIVE S(_)
      S(t) == IF t = <<>> THEN <<>> ELSE
              LET rest == S(SubSeq(t, 1, Len(t) - 1)) x == t[Len(t)] IN
              LET RECURSIVE Place(_)
                  Place(u) == IF u = <<>> THEN <<x>>
                              ELSE IF LE(Head(u), x) THEN <<Head(u)>> \o Place(Tail(u)) ELSE <<x>> \o u
              IN Place(rest)
  IN S(s)
SortAsc(os, s) == StableSort(os, s, LAMBDA a, b : os[a].p <= os[b].p)
SortDesc(os, s) == StableSort(os, s, LAMBDA a, b : os[a].p >= os[b].p)

\* _get_executing_orders(candle): active orders inside the range, in store order
Executing(os, cd) == FilterSeq([i \in 1..Len(os) |-> i], LAMBDA i : os[i].st = "A" /\ Includes(cd, os[i].p))
\* _sort_execution_orders(orders, [candle]) for one candle
SortOne(os, sel, cd) ==
  LET inc == FilterSeq(sel, LAMBDA i : Includes(cd, os[i].p)) IN
  IF Len(inc) = 0 THEN <<>>
  ELSE IF Len(inc) = 1 THEN inc
  ELSE LET red == cd.o > cd.c
           onOpen == FilterSeq(inc, LAMBDA i : os[i].p = cd.o)
           above  == FilterSeq(inc, LAMBDA i : os[i].p > cd.o)
           below  == FilterSeq(inc, LAMBDA i : ~(os[i].p > cd.o))     \* `else`, not `elif`: price = open again
       IN onOpen \o (IF red THEN SortAsc(os, above) \o SortDesc(os, below)
                            ELSE SortDesc(os, below) \o SortAsc(os, above))
Select(os, cd) == LET ex == Executing(os, cd) IN IF Len(ex) > 1 THEN SortOne(os, ex, cd) ELSE ex

\* ---- property-level oracle ----
From(i) == Max2(lastPos, ords[i].born)
Reach(i) == FirstReach(real, From(i), ords[i].p)

PosStates == IF Liq THEN [open : BOOLEAN, liq : Px] ELSE {[open |-> FALSE, liq |-> 1]}
Init == /\ real \in Candles /\ temp = real
        /\ \E n \in 0..MaxOrders : ords \in [1..n -> [p : Px, st : {"A"}, born : {0}, mk : {FALSE}]]
        /\ cands = <<>> /\ cursor = 0 /\ pc = "select" /\ lastPos = 0 /\ nreact = 0 /\ cur = 0
        /\ pos \in PosStates /\ liqd = FALSE

Begin == /\ pc = "select" /\ cands' = Select(ords, temp) /\ cursor' = 1 /\ pc' = "loop"
         /\ UNCHANGED <<real, temp, ords, lastPos, nreact, cur, pos, liqd>>

TryNext == /\ pc = "loop" /\ cursor <= Len(cands)
           /\ LET i == cands[cursor] IN ~Active(i) \/ ~Includes(temp, ords[i].p)
           /\ cursor' = cursor + 1
           /\ UNCHANGED <<real, temp, ords, cands, pc, lastPos, nreact, cur, pos, liqd>>

Fill == /\ pc = "loop" /\ cursor <= Len(cands)
        /\ LET i == cands[cursor] IN
           /\ Active(i) /\ Includes(temp, ords[i].p)
           /\ temp' = Split(temp, ords[i].p)[2]
           /\ ords' = [ords EXCEPT ![i].st = "E"]
           /\ lastPos' = IF Reach(i) = NoReach THEN lastPos ELSE Reach(i)      \* ghost
           /\ cur' = IF ords[i].p = temp.o THEN temp.c ELSE ords[i].p         \* storable_temp_candle[2]
        /\ pc' = "react"
        /\ \E o2 \in (IF Liq THEN BOOLEAN ELSE {FALSE}) : pos' = [pos EXCEPT !.open = o2]   \* a fill may open/close the position
        /\ UNCHANGED <<real, cands, cursor, nreact, liqd>>

\* environment inside order.execute(): the strategy's hooks submit or cancel
ReactSubmit(p) == /\ pc = "react" /\ nreact < MaxReact
                  /\ ords' = Append(ords, [p |-> p, st |-> "A", born |-> lastPos, mk |-> FALSE])
                  /\ nreact' = nreact + 1 /\ UNCHANGED <<real, temp, cands, cursor, pc, lastPos, cur, pos, liqd>>
\* a hook submits a MARKET order (liquidate(), an exit at the current price ...)
ReactMarket == /\ pc = "react" /\ nreact < MaxReact
               /\ ords' = Append(ords, [p |-> cur, st |-> "A", born |-> lastPos, mk |-> TRUE])
               /\ nreact' = nreact + 1 /\ UNCHANGED <<real, temp, cands, cursor, pc, lastPos, cur, pos, liqd>>
ReactCancel(j) == /\ pc = "react" /\ nreact < MaxReact /\ Active(j)
                  /\ ords' = [ords EXCEPT ![j].st = "C"]
                  /\ nreact' = nreact + 1 /\ UNCHANGED <<real, temp, cands, cursor, pc, lastPos, cur, pos, liqd>>
Reselect == /\ pc = "react" /\ cands' = Select(ords, temp) /\ cursor' = 1 /\ pc' = "loop"
            /\ UNCHANGED <<real, temp, ords, lastPos, nreact, cur, pos, liqd>>

Finish == /\ pc = "loop" /\ cursor > Len(cands) /\ pc' = "matched"
          /\ UNCHANGED <<real, temp, ords, cands, cursor, lastPos, nreact, cur, pos, liqd>>

\* _check_for_liquidations(real_candle): liquidation_price is NaN for a closed position / cross / spot
\* (Liq = FALSE models those sessions: the check returns at once)
LiqCheck == /\ pc = "matched" /\ pc' = "done"
            /\ IF Liq /\ pos.open /\ Includes(real, pos.liq)
               THEN /\ liqd' = TRUE /\ pos' = [pos EXCEPT !.open = FALSE]
                    /\ ords' = [i \in Idx |-> IF Active(i) THEN [ords[i] EXCEPT !.st = "C"] ELSE ords[i]]  \* position closed -> strategy cancels everything resting
               ELSE UNCHANGED <<liqd, pos, ords>>
            /\ UNCHANGED <<real, temp, cands, cursor, lastPos, nreact, cur>>

Next == Begin \/ TryNext \/ Fill \/ (\E p \in Px : ReactSubmit(p)) \/ ReactMarket \/ (\E j \in Idx : ReactCancel(j)) \/ Reselect
        \/ Finish \/ LiqCheck
Spec == Init /\ [][Next]_vars

\* =========================== properties (canonical path) ===========================
Filled(i) == i \in Idx /\ Active(i) /\ ords'[i].st = "E"
\* C02: a fill happens at the first position, from max(previous fill, own creation) on, at which the
\* path is at the order's price, and no other active order has an earlier such position
FillAtFirstReach == [][\A i \in Idx : Filled(i) =>
                          /\ Reach(i) # NoReach
                          /\ \A j \in Idx : (j # i /\ Active(j)) => Reach(j) >= Reach(i)]_vars
\* C02: never before its submission (born = path position at which it was created)
NeverBeforeSubmit == [][\A i \in Idx : Filled(i) => lastPos' >= ords[i].born]_vars
\* C02: never after its cancellation; executed / cancelled are final
FinalIsFinal == [][\A i \in Idx : ords[i].st # "A" => ords'[i].st = ords[i].st]_vars
\* C02: nothing that had to fill is still active when matching is over
NoMissedFill == pc \in {"matched", "done"} => \A j \in Idx : Active(j) => Reach(j) = NoReach
\* C02 in the statement's own words: an order active from the start of the minute whose range contains
\* its price is not active at the end
NoMissedInRange == pc \in {"matched", "done"} =>
                     \A j \in Idx : (Active(j) /\ ords[j].born = 0) => ~Includes(real, ords[j].p)
\* C08: orders resting at the start of the minute fill in the order in which the path reaches their prices
PathOrder == [][\A i \in Idx : (Filled(i) /\ ords[i].born = 0) =>
                   /\ lastPos' = FirstReach(real, 0, ords[i].p)
                   /\ lastPos' >= lastPos]_vars
\* C08: an order created in reaction to a fill fills only on the part of the path after that fill
ReactionAfterFill == [][\A i \in Idx : (Filled(i) /\ ords[i].born > 0) => lastPos' >= ords[i].born /\ lastPos' >= lastPos]_vars
\* C08 (link to the split): the part of the candle still ahead always starts where the path stands
TempFollowsPath == pc \in {"loop", "react"} /\ lastPos > 0 =>
                     /\ ValidCandle(temp) /\ temp.c = real.c
                     /\ \E i \in Idx : ords[i].st = "E" /\ (temp.o = ords[i].p \/ ords[i].p = real.o)
\* C02 / C08: a MARKET order created inside a fill is executed on the rest of the minute's path (by
\* FillAtFirstReach no order the path reaches later overtakes it) - never left to the end-of-minute flush
MarketFilledInMinute == pc \in {"matched", "done"} => \A j \in Idx : ords[j].mk => ~Active(j)
\* C09: liquidation iff open after matching and the range contains the liquidation price; then the
\* position is closed and nothing is left resting; never otherwise
LiqIff == [][pc = "matched" => (liqd' = (Liq /\ pos.open /\ real.l <= pos.liq /\ pos.liq <= real.h))]_vars
LiqEffect == liqd => (~pos.open /\ \A j \in Idx : ~Active(j))
LiqOnlyInCheck == [][liqd' # liqd => pc = "matched"]_vars
\* implementation fact (non-vacuity note): every selection is made on the part of the candle still ahead, so the
\* candidate under the cursor is always active and inside it - the `continue` / `else` branches of the `for` loop
\* (action TryNext) are unreachable in the normal simulator; they are live in FastMatching.tla (Variant = "tree")
SkipBranchesDead == pc = "loop" /\ cursor <= Len(cands) => Active(cands[cursor]) /\ Includes(temp, ords[cands[cursor]].p)
TypeOK == /\ ValidCandle(temp) /\ cursor \in 0..(Len(cands) + 1) /\ nreact \in 0..MaxReact
          /\ Len(ords) <= MaxOrders + MaxReact
=============================================================================
