---------------------------- MODULE TraceSpotDec ----------------------------
(* C04, code -> spec, decimal lattice (DESIGN 2.3, encoding 3).  Quantities     *)
(* with three decimals, prices with two, fee in whole basis points: values that *)
(* are NOT representable in binary, so the code's sum_floats/subtract_floats    *)
(* arithmetic is exercised.  The implementation state is logged as scaled       *)
(* integers: money in MU = 1e-5, base quantities in BU = 1e-7 (= qty unit 1e-3  *)
(* times 1e-4, so that qty x (1 - fee) is a whole number of BU), prices in      *)
(* PU = 1e-2.  Nothing is recomputed from the beginning: every step checks the  *)
(* STEP RELATION of the cash account between the logged pre-state, the event    *)
(* and the logged post-state, with a tolerance derived from the coefficients    *)
(* (half a unit per rounded operand, times the price where a quantity is        *)
(* multiplied).  By induction the whole history conforms; errors do not         *)
(* accumulate.  One symbol, no cancel-on-close, no flush (market orders are     *)
(* executed one by one).  Bounds (31-bit): quote <= 20 000, base <= 9.999,      *)
(* price <= 999.99.  A comparison on the knife edge (difference within the      *)
(* rounding) is not judged and printed as KNIFE.                                *)
EXTENDS Integers, Sequences, FiniteSets, TLC, Json, IOUtils
Data == JsonDeserialize(IOEnv.TRACE_FILE)
Traces == Data.traces
VARIABLES tid, l, st, verdict, pok, known
vars == <<tid, l, st, verdict, pok, known>>
Ev(t) == Traces[t].ev
Hb == Traces[tid].hdr.fee_hbp          \* fee rate in half basis points (8 = 0.0004, 15 = 0.00075, 20 = 0.001)

Abs(x) == IF x < 0 THEN -x ELSE x
Near(a, b, t) == Abs(a - b) <= t
Min2(a, b) == IF a < b THEN a ELSE b
\* q (BU) x p (PU) in MU, floor; exact when q is a whole number of 1e-3
Notional(q, p) == (q \div 10000) * p + ((q % 10000) * p) \div 10000
\* x * (20000 - hb) / 20000, floor, without leaving 31 bits
AfterFee(x, hb) == (x \div 20000) * (20000 - hb) + ((x % 20000) * (20000 - hb)) \div 20000
PriceTol(p) == 3 + p \div 10000 + 1             \* 1 BU of quantity is worth p/10000 MU

ActiveIds(S) == {i \in 1..Len(S.ord) : S.ord[i].st = "A"}
RECURSIVE SumQ(_, _)
SumQ(S, ids) == IF ids = {} THEN 0 ELSE LET i == CHOOSE x \in ids : TRUE IN S.ord[i].q + SumQ(S, ids \ {i})
Resting(S, typ) == {i \in ActiveIds(S) : S.ord[i].side = "sell" /\ S.ord[i].typ = typ}
RefSum(S, typ) == SumQ(S, Resting(S, typ))
SumTol(S) == 1 + Cardinality(ActiveIds(S))

WellFormed(P) == \A i \in 1..Len(P.ord) : P.ord[i].st \in {"A", "E", "C"}
StateChecks(P) ==
  IF P.quote < 0 \/ P.base < 0 THEN "negative-balance"
  ELSE IF P.pos < 0 THEN "short-position"
  ELSE IF ~Near(P.pos, P.base, 1) THEN "position-is-not-base"
  \* both are jesse's own floats (logged as float.hex() strings): position size EQUALS the base balance, bit for bit
  ELSE IF P.posx # P.basex THEN "position-is-not-bit-equal-to-base"
  ELSE IF ~Near(P.stopSum, RefSum(P, "STP"), SumTol(P)) \/ ~Near(P.limitSum, RefSum(P, "LMT"), SumTol(P))
       THEN "sell-sums-are-not-resting-sells"
  ELSE "ok"

OTag(o) == o.side \o "-" \o o.typ
R(v, k) == [v |-> v, k |-> k]
\* order list after the event: one status changes / one record is appended, nothing else
OrdOK(S, P, id, stNew) == Len(P.ord) = Len(S.ord) /\ P.ord = [S.ord EXCEPT ![id].st = stNew]
Fields(S, P, quote, qt, base, bt, stop, limit) ==
  IF ~Near(P.quote, quote, qt) THEN "quote-balance"
  ELSE IF ~Near(P.base, base, bt) THEN "base-balance"
  ELSE IF P.pos >= 0 /\ ~Near(P.pos, P.base, 1) THEN "position-qty"
  ELSE IF ~Near(P.stopSum, stop, 1) THEN "stop-sell-sum"
  ELSE IF ~Near(P.limitSum, limit, 1) THEN "limit-sell-sum"
  ELSE "ok"
Finish(tag, d, P) ==
  IF d # "ok" THEN R(tag \o ":" \o d, "")
  ELSE IF P.pos < 0 THEN R("ok", "exec:position-flips-short")
  ELSE IF pok /\ StateChecks(P) # "ok" THEN R(tag \o ":" \o StateChecks(P), "")
  ELSE R("ok", "")

Judge(S, e) ==
  LET P == e.post IN
  IF e.exc # "none" THEN R(e.k \o ":raises:" \o e.exc, "")
  ELSE IF ~WellFormed(P) THEN R(e.k \o ":ill-formed-log", "")
  ELSE CASE e.k = "submit" ->
         LET o == [side |-> e.side, typ |-> e.typ, q |-> e.q, p |-> e.p, ro |-> e.ro, st |-> "A"]
             tag == "submit/" \o OTag(o)
             cost == Notional(o.q, o.p)
             lhs == o.q + (IF o.typ = "STP" THEN RefSum(S, "STP") ELSE RefSum(S, "LMT"))
             \* with fee 0 every quantity and sum is an exact decimal (Decimal arithmetic in the code, whole BU in the
             \* log): the sell-side comparison is then judged strictly, also at equality
             \* selling exactly position.qty (the same float, nothing of that kind resting) must be accepted whatever the
             \* fee: the position IS the base balance - judged strictly, no knife edge
             sellAll == o.side = "sell" /\ e.qx = S.posx /\ (IF o.typ = "STP" THEN RefSum(S, "STP") ELSE RefSum(S, "LMT")) = 0
             knife == IF o.side = "buy" THEN Near(cost, S.quote, 2)
                      ELSE (~sellAll /\ Hb # 0 /\ Near(lhs, S.base, SumTol(S) + 1))
             mustReject == IF o.side = "buy" THEN cost > S.quote ELSE (~sellAll /\ lhs > S.base)
         IN IF ~knife /\ mustReject /\ e.acc THEN R(tag \o ":accepted-over-balance", "")
            ELSE IF ~knife /\ ~mustReject /\ ~e.acc THEN R(tag \o ":rejected-within-balance", "")
            ELSE IF ~e.acc THEN R("ok", "")
            ELSE IF P.ord # Append(S.ord, o) THEN R(tag \o ":order-record", "")
            ELSE Finish(tag, Fields(S, P, IF o.side = "buy" THEN S.quote - cost ELSE S.quote, 2, S.base, 0,
                                    IF o.side = "sell" /\ o.typ = "STP" THEN S.stopSum + o.q ELSE S.stopSum,
                                    IF o.side = "sell" /\ o.typ = "LMT" THEN S.limitSum + o.q ELSE S.limitSum), P)
    [] e.k = "cancel" ->
         IF e.id \notin ActiveIds(S) THEN R("cancel:not-an-active-order", "")
         ELSE LET o == S.ord[e.id]
                  tag == "cancel/" \o OTag(o)
                  stop1 == IF o.side = "sell" /\ o.typ = "STP" THEN S.stopSum - o.q ELSE S.stopSum
                  lim1 == IF o.side = "sell" /\ o.typ = "LMT" THEN S.limitSum - o.q ELSE S.limitSum
                  stop2 == IF o.side = "sell" /\ o.typ = "STP" THEN S.stopSum - 2 * o.q ELSE S.stopSum
                  lim2 == IF o.side = "sell" /\ o.typ = "LMT" THEN S.limitSum - 2 * o.q ELSE S.limitSum
                  quote1 == IF o.side = "buy" THEN S.quote + Notional(o.q, o.p) ELSE S.quote
              IN IF ~OrdOK(S, P, e.id, "C") THEN R(tag \o ":order-status", "")
                 ELSE IF Fields(S, P, quote1, 2, S.base, 0, stop1, lim1) = "ok" THEN Finish(tag, "ok", P)
                 ELSE IF o.q > 1 /\ Fields(S, P, quote1, 2, S.base, 0, stop2, lim2) = "ok" THEN R("ok", "cancel:sell-sum-released-twice")
                 ELSE R(tag \o ":" \o Fields(S, P, quote1, 2, S.base, 0, stop1, lim1), "")
    [] e.k = "exec" ->
         IF e.id \notin ActiveIds(S) THEN R("exec:not-an-active-order", "")
         ELSE LET o == S.ord[e.id]
                  eff == Min2(o.q, S.base)
                  tag == "exec/" \o OTag(o) \o (IF o.side = "sell" /\ o.q > S.base + 1 THEN "/oversize" ELSE "")
                  stop1 == IF o.side = "sell" /\ o.typ = "STP" THEN S.stopSum - o.q ELSE S.stopSum
                  lim1 == IF o.side = "sell" /\ o.typ = "LMT" THEN S.limitSum - o.q ELSE S.limitSum
              IN IF ~OrdOK(S, P, e.id, "E") THEN R(tag \o ":order-status", "")
                 ELSE IF o.side = "buy"
                      THEN Finish(tag, Fields(S, P, S.quote, 1, S.base + AfterFee(o.q, Hb), 2, stop1, lim1), P)
                      ELSE Finish(tag, Fields(S, P, S.quote + AfterFee(Notional(eff, o.p), Hb), PriceTol(o.p),
                                              S.base - eff, 2, stop1, lim1), P)
    [] e.k = "price" -> IF P.ord # S.ord THEN R("price:order-record", "")
                        ELSE Finish("price", Fields(S, P, S.quote, 0, S.base, 0, S.stopSum, S.limitSum), P)
    [] OTHER -> R("log:unknown-event", "")

KnifeEv(S, e) ==
  e.k = "submit" /\ (IF e.side = "buy" THEN Near(Notional(e.q, e.p), S.quote, 2)
                     ELSE e.qx # S.posx /\ Hb # 0 /\ Near(e.q + (IF e.typ = "STP" THEN RefSum(S, "STP") ELSE RefSum(S, "LMT")), S.base, SumTol(S) + 1))

Init == /\ tid \in 1..Len(Traces) /\ l = 1 /\ known = {}
        /\ st = Traces[tid].init
        /\ pok = (StateChecks(Traces[tid].init) = "ok")
        /\ verdict = (IF StateChecks(Traces[tid].init) = "ok" THEN "ok" ELSE "init:" \o StateChecks(Traces[tid].init))
Step == /\ verdict = "ok" /\ l <= Len(Ev(tid))
        /\ LET e == Ev(tid)[l]  j == Judge(st, e) IN
             /\ verdict' = j.v
             /\ known' = IF j.k = "" THEN known ELSE known \cup {j.k}
             /\ st' = e.post
             /\ pok' = ((e.k # "submit" \/ e.acc) /\ WellFormed(e.post) /\ StateChecks(e.post) = "ok")
             /\ (KnifeEv(st, e) => PrintT(<<"KNIFE", Traces[tid].id, l>>))
             \* after a named deviation of the code the logged sums / position are outside the reference's domain
             /\ l' = IF j.k # "" THEN Len(Ev(tid)) + 1 ELSE l + 1
        /\ UNCHANGED tid
Spec == Init /\ [][Step]_vars
Finished == verdict # "ok" \/ l > Len(Ev(tid))
SetToSeq(S) == LET RECURSIVE F(_)
                   F(T) == IF T = {} THEN <<>> ELSE LET x == CHOOSE y \in T : TRUE IN <<x>> \o F(T \ {x})
               IN F(S)
Report == Finished => PrintT(<<"VERDICT", Traces[tid].id, l - 1, verdict, SetToSeq(known)>>)
=============================================================================
