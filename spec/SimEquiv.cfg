\* hand-run instance (the check generates its configurations): timeout 600 tlc -workers 8 -config SimEquiv.cfg SimEquiv.tla
\* InnerFix = TRUE, PerMinute = TRUE is the fast loop as it is in the tree (since 651f7be3 / adf54ef1): Equiv holds.
\* InnerFix = FALSE (former defect inner-gap-fill): EquivKnown holds, Equiv is violated.
SPECIFICATION Spec
VIEW View
CONSTANTS K = 3 Chunk = 2 TF = 2 NMin = 6 Gaps = TRUE Spacing = TRUE InnerFix = TRUE PerMinute = TRUE PartialChunkRaises = FALSE RelExits = TRUE
CONSTRAINT InPre
INVARIANT Equiv
INVARIANT NoErr
CHECK_DEADLOCK FALSE
