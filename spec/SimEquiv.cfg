\* hand-run instance (the check generates its configurations): timeout 600 tlc -workers 8 -config SimEquiv.cfg SimEquiv.tla
\* InnerFix = FALSE is the fast loop as it is in the tree: EquivKnown holds, Equiv is violated (finding inner-gap-fill);
\* InnerFix = TRUE is the proposed repair: Equiv holds.
SPECIFICATION Spec
VIEW View
CONSTANTS K = 3 Chunk = 2 TF = 2 NMin = 6 Gaps = TRUE Spacing = TRUE InnerFix = FALSE PartialChunkRaises = FALSE RelExits = TRUE
CONSTRAINT InPre
INVARIANT EquivKnown
INVARIANT NoErr
CHECK_DEADLOCK FALSE
