------------------------------ MODULE Session ------------------------------
(* C11.  The process-global state a call of jesse.research.backtest runs in, and             *)
(* _isolated_backtest (jesse/research/backtest.py l.71-182) as a sequence of actions, one     *)
(* per critical section, for every history of <= MaxCalls earlier calls (each one ending      *)
(* normally or aborting at one of the crash points) followed by a probe call.                 *)
(*                                                                                            *)
(*   cache    helpers.CACHED_CONFIG: memo of jh.get_config outside pytest (helpers.py l.338)  *)
(*   cfg      jesse.config.config (its nested dicts are shared with backup_config, so         *)
(*            reset_config() restores nothing)                                                *)
(*   drivers  services.api.api.drivers - built once, when the first Broker imports the module *)
(*   router   jesse.routes.router                                                             *)
(*   store    what the store singleton holds: the exchange object built by ExchangesState(),  *)
(*            the injected warm-up candles, store.vars (Strategy.shared_vars)                 *)
(*                                                                                            *)
(* The module says what the code does.  Where that deviates from the property the deviation   *)
(* is a named constant: with all three TRUE the module describes the intended behaviour and   *)
(* ProbeSeesItsArguments is an invariant; with FALSE it describes the tree as it is and TLC   *)
(* enumerates the histories after which the probe reads something else than its arguments.    *)
(* hist/excs are history variables hidden by VIEW: every distinct process state the probe can *)
(* start in is exported once, with a shortest history leading to it (HIST lines), and         *)
(* replayed into the real code.                                                               *)
EXTENDS Integers, Sequences, FiniteSets, TLC, Json

CONSTANTS Exs, Typs, Levs, Modes, Fees, Bals, Warms, Rts, Sims, Hps, Gens,   \* the configuration lattice (Gens: generate_* flag; Hps: which
                                                  \* hyperparameters dict is passed: none / complete / strict subset)
          Outcomes,                                               \* where an earlier call may end
          PEx, PTyp, PLev, PMode, PFee, PBal, PWarm, PRt, PSim, PHp, PGen,   \* the probe's arguments
          MaxCalls,            \* number of earlier calls
          MaxFlips,            \* an earlier call differs from the probe in at most that many dimensions
          CacheInvalidated,    \* TRUE: injecting a configuration drops the memo         (code: never)
          DriversRebuilt,      \* TRUE: the API drivers are rebuilt for every session     (code: first Broker only)
          SharedVarsReset,     \* TRUE: store.reset() empties store.vars                  (code: never)
          DebugReset,          \* TRUE: a session starts with config['app']['debug_mode'] off (code: never reset)
          Export               \* TRUE: print one HIST line per finished probe

VARIABLES cache, cfg, drivers, router, store, phase, a, ncalls, isProbe, seen, pre, used, hist, excs
vars == <<cache, cfg, drivers, router, store, phase, a, ncalls, isProbe, seen, pre, used, hist, excs>>
View == <<cache, cfg, drivers, router, store, phase, a, ncalls, isProbe, seen, pre, used>>

Absent == "absent"      \* key not in CACHED_CONFIG
NoneV  == "none"        \* Python None (key missing in the config dict, get_config's default)
Uninit == {"uninit"}    \* api.drivers while jesse.services.api is not imported yet (afterwards: a set of exchange names)
NA     == "n/a"

Probe == [ex |-> PEx, typ |-> PTyp, lev |-> PLev, mode |-> PMode, fee |-> PFee, bal |-> PBal,
          warm |-> PWarm, rt |-> PRt, sim |-> PSim, hp |-> PHp, gen |-> PGen, out |-> "ok"]
Dims == {"ex", "typ", "lev", "mode", "fee", "bal", "warm", "rt", "sim", "hp", "gen"}
Vals(d) == CASE d = "ex" -> Exs [] d = "typ" -> Typs [] d = "lev" -> Levs [] d = "mode" -> Modes [] d = "fee" -> Fees
             [] d = "bal" -> Bals [] d = "warm" -> Warms [] d = "rt" -> Rts [] d = "sim" -> Sims [] d = "hp" -> Hps [] d = "gen" -> Gens
Flips(x) == Cardinality({d \in Dims : x[d] # Probe[d]})
\* all argument records that differ from the probe in at most n dimensions (built, not filtered: the full
\* lattice has tens of thousands of points)
RECURSIVE Within(_)
Within(n) == IF n = 0 THEN {Probe}
             ELSE UNION {{[x EXCEPT ![d] = v] : v \in Vals(d)} : x \in Within(n - 1), d \in Dims}
\* leverage and leverage mode are not part of a spot configuration; a call that fails in _format_config
\* installs nothing: such calls are enumerated once
Canonical(x) == /\ (x.typ = "spot" => x.lev = PLev /\ x.mode = PMode)
                /\ (x.out = "cfgerr" => Flips(x) = 0)
Menu == {y \in {[x EXCEPT !.out = o] : x \in Within(MaxFlips), o \in Outcomes} : Canonical(y)}

\* ---- jh.get_config(key) outside pytest: memoised for ever (helpers.py l.338-347) -----------------
Lookup(c, g, f, e) == IF c[f][e] # Absent THEN c[f][e] ELSE g[f][e]
Fill(c, g, f, e)   == IF c[f][e] # Absent THEN c ELSE [c EXCEPT ![f][e] = g[f][e]]
Lookup0(c, g, f)   == IF c[f] # Absent THEN c[f] ELSE g[f]
Fill0(c, g, f)     == IF c[f] # Absent THEN c ELSE [c EXCEPT ![f] = g[f]]

EmptyCache == [type |-> [e \in Exs |-> Absent], lev |-> [e \in Exs |-> Absent], mode |-> [e \in Exs |-> Absent],
               fee |-> [e \in Exs |-> Absent], warm |-> Absent, consEx |-> Absent]
\* config.py: every known exchange has default entries; all of them are overwritten by set_config for
\* the exchange a session names before anything reads them
DefaultCfg == [type |-> [e \in Exs |-> "default"], lev |-> [e \in Exs |-> "default"],
               mode |-> [e \in Exs |-> "default"], fee |-> [e \in Exs |-> "default"],
               bal |-> [e \in Exs |-> "default"], warm |-> "default", consEx |-> NoneV, rt |-> NoneV, tmode |-> "",
               debug |-> FALSE]                    \* config['app']['debug_mode']
NoExchange == [name |-> NoneV, typ |-> NoneV, lev |-> NoneV, mode |-> NoneV, fee |-> NoneV, bal |-> NoneV]
NoSeen == [driver |-> NA, typ |-> NA, lev |-> NA, mode |-> NA, feeRate |-> NA, feeTrade |-> NA, bal |-> NA,
           warmSize |-> NA, warmVisible |-> NA, rt |-> <<NA, NA>>, shared |-> NA, debug |-> NA]
Null == [ex |-> NA, typ |-> NA, lev |-> NA, mode |-> NA, fee |-> NA, bal |-> NA, warm |-> NA, rt |-> NA,
         sim |-> NA, hp |-> NA, gen |-> NA, out |-> NA]

\* store/state_exchanges.py: ExchangesState.__init__ for the one considered exchange.  The account type,
\* the leverage and its mode go through the memo, balance and fee are read from the dict directly.
ExchangeObj(c, g, e) ==
  LET typ == Lookup(c, g, "type", e)
      fut == typ = "fut"
  IN [name |-> e, typ |-> typ,
      mode |-> IF fut THEN Lookup(c, g, "mode", e) ELSE NA,
      lev  |-> IF fut THEN Lookup(c, g, "lev", e) ELSE NA,
      fee  |-> g.fee[e], bal |-> g.bal[e]]
ExchangeFill(c, g, e) ==
  LET c1 == Fill(c, g, "type", e)
  IN IF c1.type[e] = "fut" THEN Fill(Fill(c1, g, "mode", e), g, "lev", e) ELSE c1

Init == /\ cache = EmptyCache /\ cfg = DefaultCfg /\ drivers = Uninit /\ router = <<NoneV, NoneV>>
        /\ store = [exch |-> NoExchange, warmInj |-> NoneV, shared |-> "empty", traded |-> FALSE]
        /\ phase = "idle" /\ a = Null /\ ncalls = 0 /\ isProbe = FALSE /\ seen = NoSeen
        /\ pre = <<>> /\ used = <<NA, NA, NA>> /\ hist = <<>> /\ excs = <<>>

\* ---- the property, independent of the shape above: in its simulation the probe reads its arguments
Sees(s, c) ==
  CASE c = "driver"          -> s.driver = "yes"
    [] c = "account-type"    -> s.typ = PTyp
    [] c = "leverage"        -> s.lev = (IF PTyp = "fut" THEN PLev ELSE NA)
    [] c = "leverage-mode"   -> s.mode = (IF PTyp = "fut" THEN PMode ELSE NA)
    [] c = "fee-rate"        -> s.feeRate = PFee                  \* exchange.fee_rate: order fees, PnL
    [] c = "fee-in-trades"   -> s.feeTrade \in {PFee, NA}         \* ClosedTrade.fee: the 'fee' metric (NA: no trade)
    [] c = "balance"         -> s.bal = PBal
    [] c = "warmup-size"     -> s.warmSize = PWarm                \* what indicators slice their candles to
    [] c = "warmup-visible"  -> s.warmVisible = PWarm             \* warm-up candles in the store
    [] c = "routes"          -> s.rt = <<PEx, PRt>>
    [] c = "shared-vars"     -> s.shared = "empty"
    [] c = "debug-mode"      -> s.debug = (IF PGen = "logs" THEN "on" ELSE "off")   \* in debug mode logger.error
                                \* publishes to redis: a strategy that calls self.log(msg, 'error') raises
Classes == {"driver", "account-type", "leverage", "leverage-mode", "fee-rate", "fee-in-trades", "balance",
            "warmup-size", "warmup-visible", "routes", "shared-vars", "debug-mode"}
Stale(s) == {c \in Classes : ~Sees(s, c)}
AtEnd == phase = "probed"
SeesDriver      == AtEnd => Sees(seen, "driver")
SeesType        == AtEnd => Sees(seen, "account-type")
SeesLeverage    == AtEnd => Sees(seen, "leverage")
SeesMode        == AtEnd => Sees(seen, "leverage-mode")
SeesFeeRate     == AtEnd => Sees(seen, "fee-rate")
SeesFeeInTrades == AtEnd => Sees(seen, "fee-in-trades")
SeesBalance     == AtEnd => Sees(seen, "balance")
SeesWarmSize    == AtEnd => Sees(seen, "warmup-size")
SeesWarmVisible == AtEnd => Sees(seen, "warmup-visible")
SeesRoutes      == AtEnd => Sees(seen, "routes")
SeesFreshVars   == AtEnd => Sees(seen, "shared-vars")
SeesDebugMode   == AtEnd => Sees(seen, "debug-mode")
ProbeSeesItsArguments == AtEnd => Stale(seen) = {}
\* the phase in which a call with outcome o aborts
CrashPhase(o) == CASE o = "cfgerr" -> "mode"       \* KeyError in _format_config
                   [] o = "routes" -> "routed"      \* InvalidRoutes in install_routes (router already set)
                   [] o = "spacing" -> "storage"    \* ValueError: candles are not 1m candles
                   [] o = "warmup" -> "storage"     \* ValueError in inject_warmup_candles_to_store
                   [] o = "init" -> "warmed"        \* strategy constructor, before the Broker exists
                   [] o = "first" -> "prepared"     \* first hook, before an indicator is read
                   [] o = "idle" -> "stepping"      \* should_long() before the first order
                   [] o = "reject" -> "trading"     \* InsufficientMargin out of the entry order
                   [] o = "open" -> "trading"       \* on_open_position()
                   [] o = "closed" -> "closed"      \* on_close_position(), after self.metrics was read
                   [] o = "terminate" -> "closed"   \* terminate()
                   [] OTHER -> "never"
NeedsOrders(o) == o \in {"reject", "open", "closed"}        \* without a driver no order exists: nothing raises
Aborts == phase = CrashPhase(a.out) /\ (NeedsOrders(a.out) => store.traded)
Goes(p) == phase = p /\ ~Aborts

\* ---- l.97: jesse_config['app']['trading_mode'] = 'backtest' -------------------------------------
Begin(x, probe) ==
  /\ phase = "idle" /\ ~isProbe /\ (probe \/ ncalls < MaxCalls)
  /\ a' = x /\ isProbe' = probe /\ ncalls' = IF probe THEN ncalls ELSE ncalls + 1
  /\ cfg' = [cfg EXCEPT !.tmode = "backtest", !.debug = IF DebugReset THEN FALSE ELSE cfg.debug]
  /\ hist' = IF probe THEN hist ELSE Append(hist, x)
  \* the process state the probe starts in (kept so that each one is exported with its own history)
  /\ pre' = IF probe THEN <<cache, cfg, drivers, router, store, ncalls, used>> ELSE pre
  \* ghost: the simulator, the kind of hyperparameters dict and the generate_* flag of the latest earlier call.  Neither is kept by
  \* the process; remembering them makes TLC export (and the harness replay) a history for each of them
  /\ used' = IF probe THEN used ELSE <<x.sim, x.hp, x.gen>>
  /\ phase' = "mode" /\ UNCHANGED <<cache, drivers, router, store, seen, excs>>

\* ---- l.100: set_config(_format_config(config)) (config.py l.110-146) -----------------------------
SetConfig ==
  /\ Goes("mode")
  /\ cfg' = [cfg EXCEPT !.type[a.ex] = a.typ, !.fee[a.ex] = a.fee, !.bal[a.ex] = a.bal,
                        !.lev[a.ex] = IF a.typ = "fut" THEN a.lev ELSE NoneV,
                        !.mode[a.ex] = IF a.typ = "fut" THEN a.mode ELSE NoneV,
                        !.warm = a.warm]
  /\ cache' = IF CacheInvalidated THEN EmptyCache ELSE cache
  /\ phase' = "configured" /\ UNCHANGED <<drivers, router, store, a, ncalls, isProbe, seen, pre, used, hist, excs>>

\* ---- l.103: router.initiate, first half: set_routes / set_data_candles --------------------------
SetRoutes ==
  /\ Goes("configured")
  /\ router' = <<a.ex, a.rt>>
  /\ phase' = "routed" /\ UNCHANGED <<cache, cfg, drivers, store, a, ncalls, isProbe, seen, pre, used, hist, excs>>

\* ---- second half: store.reset() = install_routes() + a new store (store/__init__.py l.93-115) ---
NewStore(c, g, e) == [exch |-> ExchangeObj(c, g, e), warmInj |-> NoneV,
                      shared |-> IF SharedVarsReset THEN "empty" ELSE store.shared, traded |-> FALSE]
StoreResetAtStart ==
  /\ Goes("routed")
  /\ LET g == [cfg EXCEPT !.consEx = router[1], !.rt = router[2]]
     IN /\ cfg' = g
        /\ store' = NewStore(cache, g, router[1])
        /\ cache' = ExchangeFill(cache, g, router[1])
  /\ phase' = "reset" /\ UNCHANGED <<drivers, router, a, ncalls, isProbe, seen, pre, used, hist, excs>>

\* ---- l.105-122: validate_routes, init_storage, spacing assertion.  With DriversRebuilt the session
\* (re-)initiates the API drivers for its own exchanges right after router.initiate (importing
\* services.api if need be; drivers of earlier sessions stay, they are harmless)
InitStorage ==
  /\ Goes("reset")
  /\ IF DriversRebuilt
     THEN /\ drivers' = (drivers \ Uninit) \cup {Lookup0(cache, cfg, "consEx")}
          /\ cache' = Fill0(cache, cfg, "consEx")
     ELSE UNCHANGED <<drivers, cache>>
  /\ phase' = "storage" /\ UNCHANGED <<cfg, router, store, a, ncalls, isProbe, seen, pre, used, hist, excs>>

\* ---- l.124-137: deep copies, warm-up candles into the store -------------------------------------
InjectWarmup ==
  /\ Goes("storage")
  /\ store' = [store EXCEPT !.warmInj = a.warm]
  \* the simulator starts (backtest_mode.py l.392 / l.758): generate_logs switches config['app']['debug_mode']
  \* on; nothing ever switches it off again (reset_config restores nothing: backup_config['app'] is the same dict)
  /\ cfg' = IF a.gen = "logs" THEN [cfg EXCEPT !.debug = TRUE] ELSE cfg
  /\ phase' = "warmed" /\ UNCHANGED <<cache, drivers, router, a, ncalls, isProbe, seen, pre, used, hist, excs>>

\* ---- simulator -> _prepare_routes: the first Broker of the process imports services.api, whose API()
\* builds Sandbox drivers for get_config('app.considering_exchanges') - once (api.py l.9-32)
PrepareRoutes ==
  /\ Goes("warmed")
  /\ IF drivers = Uninit
     THEN /\ drivers' = {Lookup0(cache, cfg, "consEx")} /\ cache' = Fill0(cache, cfg, "consEx")
     ELSE UNCHANGED <<drivers, cache>>
  /\ phase' = "prepared" /\ UNCHANGED <<cfg, router, store, a, ncalls, isProbe, seen, pre, used, hist, excs>>

\* ---- first strategy step: indicators slice their candles to get_config('env.data.warmup_candles_num');
\* what the strategy can see of its account; store.vars is written
FirstStep ==
  /\ Goes("prepared")
  /\ cache' = Fill0(cache, cfg, "warm")
  /\ seen' = IF isProbe
             THEN [seen EXCEPT !.typ = store.exch.typ, !.lev = store.exch.lev, !.mode = store.exch.mode,
                               !.feeRate = store.exch.fee, !.bal = store.exch.bal,
                               !.warmSize = Lookup0(cache, cfg, "warm"), !.warmVisible = store.warmInj,
                               !.rt = router, !.shared = store.shared,
                               !.debug = IF cfg.debug THEN "on" ELSE "off"]
             ELSE seen
  /\ store' = [store EXCEPT !.shared = "dirty"]
  /\ phase' = "stepping" /\ UNCHANGED <<cfg, drivers, router, a, ncalls, isProbe, pre, used, hist, excs>>

\* ---- entry order: api.market_order returns None when the exchange has no driver (api.py l.43) ---
Submit ==
  /\ Goes("stepping")
  /\ store' = [store EXCEPT !.traded = (a.ex \in drivers)]
  /\ seen' = IF isProbe THEN [seen EXCEPT !.driver = IF a.ex \in drivers THEN "yes" ELSE "no"] ELSE seen
  /\ phase' = "trading" /\ UNCHANGED <<cache, cfg, drivers, router, a, ncalls, isProbe, pre, used, hist, excs>>

\* ---- a trade closes; the strategies look at self.metrics then (adaptive sizing), which makes
\* ClosedTrade.fee read the memoised fee (ClosedTrade.py l.96) already now
CloseTrade ==
  /\ Goes("trading")
  /\ cache' = IF store.traded THEN Fill(cache, cfg, "fee", a.ex) ELSE cache
  /\ phase' = "closed" /\ UNCHANGED <<cfg, drivers, router, store, a, ncalls, isProbe, seen, pre, used, hist, excs>>

\* ---- _generate_outputs: metrics over the closed trades read ClosedTrade.fee ---------------------
Outputs ==
  /\ Goes("closed")
  /\ cache' = IF store.traded THEN Fill(cache, cfg, "fee", a.ex) ELSE cache
  /\ seen' = IF isProbe /\ store.traded
             THEN [seen EXCEPT !.feeTrade = Lookup(cache, cfg, "fee", a.ex)] ELSE seen
  /\ phase' = "done" /\ UNCHANGED <<cfg, drivers, router, store, a, ncalls, isProbe, pre, used, hist, excs>>

\* ---- l.179: reset_config(): config = backup_config.copy() - a shallow copy of a shallow copy; every
\* value set above lives in the shared nested dicts and survives
ResetConfig ==
  /\ Goes("done")
  /\ phase' = "resetcfg" /\ UNCHANGED <<cache, cfg, drivers, router, store, a, ncalls, isProbe, seen, pre, used, hist, excs>>

\* ---- l.180: store.reset() -----------------------------------------------------------------------
Return(e) == /\ a' = Null /\ excs' = IF isProbe THEN excs ELSE Append(excs, e)
             /\ phase' = IF isProbe THEN "probed" ELSE "idle"
Emit == (Export /\ phase' = "probed") =>
          PrintT(<<"HIST", ToJson([hist |-> hist', excs |-> excs', seen |-> seen', stale |-> Stale(seen')])>>)

StoreResetAtEnd ==
  /\ Goes("resetcfg")
  /\ store' = NewStore(cache, cfg, router[1])
  /\ cache' = ExchangeFill(cache, cfg, router[1])
  /\ Return("none") /\ UNCHANGED <<cfg, drivers, router, ncalls, isProbe, seen, pre, used, hist>>
  /\ Emit

\* ---- an exception leaves _isolated_backtest: nothing is undone ----------------------------------
Crash ==
  /\ Aborts
  /\ Return("exc") /\ UNCHANGED <<cache, cfg, drivers, router, store, ncalls, isProbe, seen, pre, used, hist>>

EarlierCall == phase = "idle" /\ \E x \in Menu : Begin(x, FALSE)
ProbeCall   == phase = "idle" /\ Begin(Probe, TRUE)
Next == \/ EarlierCall \/ ProbeCall
        \/ SetConfig \/ SetRoutes \/ StoreResetAtStart \/ InitStorage \/ InjectWarmup \/ PrepareRoutes
        \/ FirstStep \/ Submit \/ CloseTrade \/ Outputs \/ ResetConfig \/ StoreResetAtEnd \/ Crash
Spec == Init /\ [][Next]_vars

\* the probe itself never aborts and every call terminates
ProbeReturns == isProbe => phase # "idle"
TypeOK == /\ phase \in {"idle", "mode", "configured", "routed", "reset", "storage", "warmed", "prepared", "stepping",
                        "trading", "closed", "done", "resetcfg", "probed"}
          /\ ncalls \in 0..MaxCalls /\ Len(hist) = ncalls
          /\ (phase \in {"idle", "probed"} <=> a = Null)
          /\ (drivers = Uninit \/ drivers \subseteq Exs)
=============================================================================
