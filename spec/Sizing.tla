------------------------------- MODULE Sizing -------------------------------
(* C17.  Contracts of the sizing / rounding / decimal helpers of jesse.utils    *)
(* and jesse.helpers as exact integer arithmetic on decimal lattices.  All      *)
(* products are arranged to stay below 2^31 (TLC integers): a * b > L is         *)
(* decided as a > L \div b.                                                      *)
(*                                                                             *)
(* Lattice of a sizing record: capital C and price P in cents (10^-2), fee rate *)
(* F in 10^-4, precision p in 0..3, quantity k in units of 10^-p.               *)
EXTENDS Integers, Sequences
Pow10(n) == CASE n = 0 -> 1 [] n = 1 -> 10 [] n = 2 -> 100 [] n = 3 -> 1000 [] n = 4 -> 10000 [] n = 5 -> 100000
              [] n = 6 -> 1000000 [] n = 7 -> 10000000 [] n = 8 -> 100000000 [] n = 9 -> 1000000000
Abs(x) == IF x < 0 THEN -x ELSE x
MulGT(a, b, lim) == a > lim \div b                \* a * b > lim   for a >= 0, b > 0, lim >= 0, without the product

\* ---- cost of k * 10^-p units at price P with fee F against capital C --------------------------------
\* k * P * (10^4 + F) <= C * 10^p * 10^4      (both sides in 10^-(2+p+4))
Budget(C, p) == C * Pow10(p)                                   \* <= 10^8
CostFits(k, P, F, C, p) ==
  LET X == Budget(C, p) IN
  /\ ~MulGT(k, P, X)                                           \* k * P <= X  (fee-less part)
  /\ LET A == k * P   D == X - A IN
     \/ F = 0
     \/ D >= 200000                                            \* A * F <= 10^8 * 20 < D * 10^4
     \/ A * F <= D * 10000
ExactFit(k, P, F, C, p) == F = 0 /\ ~MulGT(k, P, Budget(C, p)) /\ k * P = Budget(C, p)

\* floor of the exact quotient of size_to_qty: floor( C * (1 - 3F/10^4) / P * 10^p )
\*   = floor( floor( X * b / 10^4 ) / P ),  X = C * 10^p = x1 * 10^4 + x0,  b = 10^4 - 3F
FloorExactQty(C, P, F, p) ==
  LET X == Budget(C, p)  b == 10000 - 3 * F  x1 == X \div 10000  x0 == X % 10000
  IN (x1 * b + (x0 * b) \div 10000) \div P

\* ---- risk: k * 10^-p units, entry E and stop S in cents, risk r in 10^-3 of the capital C (cents) ----
\* k * |E - S| * 1000 <= r * C * 10^p
RiskFits(k, E, S, r, C, p) == LET d == Abs(E - S)  lim == (r * Budget(C, p)) \div 1000 IN d = 0 \/ ~MulGT(k, d, lim)

\* ---- rounding down: x = m * 10^-e, precision p (may be negative), result k * 10^-p -------------------
\* floor(m * 10^p / 10^e)
FloorLattice(m, e, p) == IF p >= e THEN m * Pow10(p - e) ELSE m \div Pow10(e - p)

\* ---- limbs: an integer n is <<hi, lo>> with n = hi * 10^8 + lo, 0 <= lo < 10^8 -----------------------
Base == 100000000
LimbAdd(a, b) == LET lo == a[2] + b[2] IN IF lo >= Base THEN <<a[1] + b[1] + 1, lo - Base>> ELSE <<a[1] + b[1], lo>>
LimbSub(a, b) == LET lo == a[2] - b[2] IN IF lo < 0 THEN <<a[1] - b[1] - 1, lo + Base>> ELSE <<a[1] - b[1], lo>>
=============================================================================
