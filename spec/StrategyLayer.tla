--------------------------- MODULE StrategyLayer ---------------------------
(* C10 + C06 (M).  Implementation-shaped model of jesse's strategy layer for one *)
(* futures symbol, transcribed from                                              *)
(*   strategies/Strategy.py  _execute/_check, _execute_cancel/_reset,            *)
(*       _execute_long/_short, _submit_buy_orders/_submit_sell_orders,           *)
(*       _update_position, _detect_and_handle_entry_and_exit_modifications,      *)
(*       _on_updated_position (effect classification from previous_qty/qty),     *)
(*       _on_open/_increased/_reduced/_close_position, liquidate(), _terminate   *)
(*   services/broker.py      buy/sell_at_market, buy/sell_at, start_profit_at,   *)
(*       reduce_position_at (routing with helpers.is_price_near)                 *)
(*   exchanges/sandbox       market orders are queued in store.orders.to_execute *)
(*   store/state_orders.py   storage / entry orders / execute_pending_market_... *)
(*   models/Position.py      _on_executed_order (open/close/increase/reduce/     *)
(*       flip, reduce-only handling), _update_qty (previous_qty)                 *)
(*   store/state_completed_trades.py + models/ClosedTrade.py (qty, entry, exit,  *)
(*       pnl from the recorded buy/sell rows)                                    *)
(* One action per critical section; the user (menus of declarations in every     *)
(* hook, should_cancel_entry's answer) and the market (which resting order       *)
(* fills, where the price goes) are nondeterministic.  Quirks are transcribed:   *)
(* the wrong-side exit replaced by a NON-reduce-only market order (named         *)
(* deviation `Replacement`), the trade log recording the unclamped quantity of   *)
(* a reduce-only fill, previous_qty not touched by an ignored reduce-only fill.  *)
(* The two constants Repaired* switch these to the proposed repairs.             *)
(* The properties (bottom) are stated with the operators of StrategyProps only,  *)
(* on ghosts that record what was asked for and what the fills did.              *)
EXTENDS Integers, Sequences, FiniteSets, TLC, Json, StrategyProps
CONSTANTS B,            \* base price; prices are B + offset (B = 20000: 0.015 % = 3 ticks)
          Offs,         \* offsets the market may move the current price to
          MaxDepth,     \* bound on the number of actions
          MaxOrd,       \* bound on orders in the storage of one cycle
          MultiPoint,   \* entry menu contains a two-point entry
          Oversize,     \* menus contain exits larger than the position can be when they fill: a full-size stop next to a
                        \* partial take-profit, full-size exits declared with a two-point entry
          WrongSide,    \* exit menu contains a stop on the wrong side of the entry (market replacement)
          EditLevel,    \* 0: no edits after the entry decision, 1: a few, 2: the whole menu
          RepairedReplacement,   \* proposed fix: the replacement order is reduce-only
          RepairedClamp          \* proposed fix: a reduce-only fill is recorded with the filled quantity
VARIABLES st, pc, hist
vars == <<st, pc, hist>>

\* ---------------------------------------------------------------- rationals <<num, den>>, den > 0
RECURSIVE Gcd(_, _)
Gcd(a, b) == IF b = 0 THEN a ELSE Gcd(b, a % b)
RN(n, d) == IF n = 0 THEN <<0, 1>> ELSE LET g == Gcd(SAbs(n), d) IN <<n \div g, d \div g>>
RI(k) == <<k, 1>>
RAdd(a, b) == RN(a[1] * b[2] + b[1] * a[2], a[2] * b[2])
RSub(a, b) == RN(a[1] * b[2] - b[1] * a[2], a[2] * b[2])
RMulI(a, k) == RN(a[1] * k, a[2])
RDivI(a, k) == RN(a[1], a[2] * k)
RLe(a, b) == a[1] * b[2] <= b[1] * a[2]
RGe(a, b) == RLe(b, a)

\* ---------------------------------------------------------------- state
None == [has |-> FALSE, rows |-> <<>>]
Decl(rows) == [has |-> TRUE, rows |-> rows]
NoDecls == [buy |-> None, sell |-> None, sl |-> None, tp |-> None]
NoTemp == [buy |-> <<>>, sell |-> <<>>, n |-> 0, open |-> FALSE, type |-> "close"]
NoTrade == [closed |-> FALSE, cyc |-> <<>>, side |-> "close"]
NoRule == [had |-> FALSE, ans |-> FALSE, all |-> TRUE, none |-> TRUE]
Ghost0 == [subs |-> <<>>, fills |-> <<>>, edits |-> <<>>, rule |-> NoRule, trade |-> NoTrade, crashed |-> FALSE, hst0 |-> "flat",
           cycClosed |-> FALSE, walAtClose |-> <<0, 1>>]
Init0 == [cur |-> B, q |-> 0, prevq |-> 0, en |-> RI(0), wal |-> RI(0),
          ords |-> <<>>, queue |-> <<>>, d |-> NoDecls, u |-> NoDecls, tt |-> NoTemp,
          \* ghosts (property side): fills of the running cycle, hook automaton, in-open flag, last-action records
          cyc |-> <<>>, side |-> "close", hst |-> "flat", inOpen |-> FALSE, done |-> FALSE, chain |-> 0, g |-> Ghost0]
Z(S) == [S EXCEPT !.g = Ghost0]            \* last-action ghosts are reset by every action

Active(S) == {i \in DOMAIN S.ords : S.ords[i].st = "active"}
Long(S) == S.q > 0
Short(S) == S.q < 0
Sg(S) == Sgn(S.q)

\* ---------------------------------------------------------------- broker / sandbox driver
Submit(S, side, type, q, p, ro, via, kind, rows) ==
  LET o == [side |-> side, type |-> type, q |-> q, p |-> p, ro |-> ro, via |-> via, st |-> "active"]
      i == Len(S.ords) + 1
  IN [S EXCEPT !.ords = Append(@, o),
               !.queue = IF type = "MARKET" THEN Append(@, i) ELSE @,
               \* ghost: what was submitted, when (strategy.price, position, inside an open hook?) and for which rows
               !.g.subs = Append(@, [o |-> o, cur |-> S.cur, pq |-> S.q, en |-> S.en, inOpen |-> S.inOpen, kind |-> kind, rows |-> rows])]
BuyAtMarket(S, q, via, kind, rows) == Submit(S, "buy", "MARKET", q, S.cur, FALSE, via, kind, rows)
SellAtMarket(S, q, via, kind, rows) == Submit(S, "sell", "MARKET", q, S.cur, FALSE, via, kind, rows)
\* Broker.reduce_position_at(qty, price, current_price)
ReduceAt(S, q, p, via, kind, rows) ==
  LET side == ClosingSide(S.q) IN
  IF Near(p, S.cur) THEN Submit(S, side, "MARKET", q, p, TRUE, via, kind, rows)
  ELSE IF (Long(S) /\ p > S.cur) \/ (Short(S) /\ p < S.cur) THEN Submit(S, side, "LIMIT", q, p, TRUE, via, kind, rows)
  ELSE Submit(S, side, "STOP", q, p, TRUE, via, kind, rows)

\* Strategy._submit_buy_orders / _submit_sell_orders over self._buy / self._sell
RECURSIVE SubmitEntries(_, _, _, _)
SubmitEntries(S, side, rows, k) ==
  IF k > Len(rows) THEN S
  ELSE LET r == rows[k]
           S1 == IF Near(r[2], S.cur)
                 THEN (IF side = "buy" THEN BuyAtMarket(S, SAbs(r[1]), "none", "entry", rows)
                       ELSE SellAtMarket(S, SAbs(r[1]), "none", "entry", rows))
                 ELSE IF (side = "buy" /\ r[2] > S.cur) \/ (side = "sell" /\ r[2] < S.cur)
                 THEN Submit(S, side, "STOP", SAbs(r[1]), r[2], FALSE, "none", "entry", rows)       \* start_profit_at
                 ELSE Submit(S, side, "LIMIT", SAbs(r[1]), r[2], FALSE, "none", "entry", rows)      \* buy_at / sell_at
       IN SubmitEntries(S1, side, rows, k + 1)

RECURSIVE SubmitExits(_, _, _, _)
SubmitExits(S, via, rows, k) ==
  IF k > Len(rows) \/ S.q = 0 THEN S
  ELSE SubmitExits(ReduceAt(S, SAbs(rows[k][1]), rows[k][2], via, IF via = "stop-loss" THEN "sl" ELSE "tp", rows), via, rows, k + 1)

CancelWhere(S, T(_)) ==
  [S EXCEPT !.ords = [i \in DOMAIN @ |-> IF @[i].st = "active" /\ T(@[i]) THEN [@[i] EXCEPT !.st = "canceled"] ELSE @[i]]]

\* ---------------------------------------------------------------- declarations
\* _detect_and_handle_entry_and_exit_modifications
DetectEntries(S) ==
  LET side == EntrySide(S.q)
      dcl == IF Long(S) THEN S.d.buy ELSE S.d.sell
      und == IF Long(S) THEN S.u.buy ELSE S.u.sell
      fmt == Decl(dcl.rows)                              \* _prepare_buy(make_copies=False): None -> []
  IN IF fmt = und THEN (IF Long(S) THEN [S EXCEPT !.d.buy = fmt] ELSE [S EXCEPT !.d.sell = fmt])
     ELSE LET S1 == IF Long(S) THEN [S EXCEPT !.d.buy = fmt, !.u.buy = fmt] ELSE [S EXCEPT !.d.sell = fmt, !.u.sell = fmt]
              S2 == CancelWhere(S1, LAMBDA o : o.side = side)          \* self.entry_orders of an open position
          IN SubmitEntries(S2, side, fmt.rows, 1)
DetectExit(S, via) ==
  LET dcl == IF via = "stop-loss" THEN S.d.sl ELSE S.d.tp
      und == IF via = "stop-loss" THEN S.u.sl ELSE S.u.tp
  IN IF S.q = 0 \/ ~dcl.has \/ dcl = und THEN S
     ELSE LET S1 == IF via = "stop-loss" THEN [S EXCEPT !.u.sl = dcl] ELSE [S EXCEPT !.u.tp = dcl]
              S2 == CancelWhere(S1, LAMBDA o : o.side # EntrySide(S.q) /\ o.via = via)
          IN SubmitExits(S2, via, dcl.rows, 1)
DetectMods(S) ==
  IF S.q = 0 THEN S
  ELSE LET S3 == DetectExit(DetectExit(DetectEntries(S), "stop-loss"), "take-profit")
       IN IF S3.q # 0 /\ S3.d.sl.has /\ S3.d.tp.has /\ S3.d.sl.rows = S3.d.tp.rows /\ S3.d.sl.rows # <<>>
          THEN [S3 EXCEPT !.g.crashed = TRUE]             \* InvalidStrategy: stop-loss and take-profit are the same
          ELSE S3

\* _execute_cancel: broker.cancel_all_orders() + _reset() (+ storage cleared); every queued market order is
\* cancelled with the rest, executing a cancelled order later is a no-op, so the queue is emptied here
ExecuteCancel(S) ==
  [S EXCEPT !.ords = <<>>, !.queue = <<>>, !.d = NoDecls, !.u = NoDecls]

\* ---------------------------------------------------------------- user menus (relative to the current price)
Rows1(q, p) == << <<q, p>> >>
Rows2(q1, p1, q2, p2) == << <<q1, p1>>, <<q2, p2>> >>
Tot(rows) == SeqSum([i \in DOMAIN rows |-> rows[i][1]])
EntryMenu(c, sg) == {Rows1(1, c), Rows1(2, c - 4 * sg), Rows1(1, c + 4 * sg)}
                    \cup (IF MultiPoint THEN {Rows2(1, c, 1, c - 4 * sg), Rows2(1, c, 1, c + 8 * sg)} ELSE {})   \* scale-in below / pyramiding above
\* <<stop_loss, take_profit>> set in go_long / go_short for a planned total
GoExitMenu(c, sg, rows) ==
  LET tot == Tot(rows)
      full == <<Decl(Rows1(tot, c - 6 * sg)), Decl(Rows1(tot, c + 6 * sg))>>
  IN {<<None, None>>}
     \cup (IF Len(rows) = 1 \/ Oversize THEN {full} ELSE {})
     \cup (IF Oversize /\ tot >= 2 THEN {<<Decl(Rows1(tot, c - 6 * sg)), Decl(Rows2(1, c + 4 * sg, tot - 1, c + 8 * sg))>>} ELSE {})
     \cup (IF WrongSide THEN {<<Decl(Rows1(tot, c + 2 * sg)), None>>, <<Decl(Rows1(tot, c - 6 * sg)), Decl(Rows1(tot, c - 2 * sg))>>} ELSE {})
\* edits of an open position, in the order of a menu; the user picks entry k (0 = no edit) when the hook runs
EditSeq(S, hook) ==
  LET c == S.cur sg == Sg(S) a == SAbs(S.q) IN
  (IF EditLevel >= 1 /\ hook = "update" THEN << <<"liq", None>>, <<"sl", Decl(Rows1(a, c - 8 * sg))>>, <<"tp", Decl(<<>>)>> >> ELSE <<>>)   \* (tp = []: withdrawn)
  \o (IF EditLevel >= 1 /\ hook = "open" /\ ~S.d.sl.has /\ ~S.d.tp.has THEN << <<"both", Decl(Rows1(a, c - 6 * sg))>> >> ELSE <<>>)
  \o (IF EditLevel >= 1 /\ hook = "red" THEN << <<"sl", Decl(Rows1(a, c - 4 * sg))>>, <<"sl", Decl(<<>>)>> >> ELSE <<>>)
  \o (IF EditLevel >= 2 /\ hook = "update"
      THEN << <<"sl", Decl(Rows1(a, c - 2 * sg))>>, <<"tp", IF a >= 2 THEN Decl(Rows2(1, c + 4 * sg, a - 1, c + 8 * sg)) ELSE Decl(Rows1(a, c + 8 * sg))>> >> ELSE <<>>)
  \o (IF EditLevel >= 2 /\ hook = "inc" THEN << <<"tp", Decl(Rows1(a, c + 6 * sg))>>, <<"sl", Decl(Rows1(a, c - 6 * sg))>>, <<"tp", Decl(<<>>)>> >> ELSE <<>>)
  \o (IF EditLevel >= 2 /\ hook = "red" THEN << <<"tp", Decl(Rows1(a, c + 6 * sg))>> >> ELSE <<>>)
MaxEdit == IF EditLevel = 0 THEN 0 ELSE IF EditLevel = 1 THEN 3 ELSE 5
PickEdit(S, hook, k) == LET m == EditSeq(S, hook) IN IF k = 0 \/ k > Len(m) THEN <<"none", None>> ELSE m[k]
PnlPositive(S) == IF Long(S) THEN RLe(S.en, RI(S.cur)) /\ S.en # RI(S.cur) ELSE RGe(S.en, RI(S.cur)) /\ S.en # RI(S.cur)
ApplyEdit(S0, ed) ==
  \* ghost: the resolved edit <<what, stop-loss rows, take-profit rows>> is kept for the replay into the real code
  LET S == IF S0.q = 0 \/ ed[1] = "none" THEN S0
           ELSE [S0 EXCEPT !.g.edits = Append(@, <<ed[1], ed[2].rows, Rows1(SAbs(S0.q), S0.cur + 6 * Sg(S0))>>)]
  IN
  IF S.q = 0 THEN S
  ELSE CASE ed[1] = "none" -> S
         [] ed[1] = "sl" -> [S EXCEPT !.d.sl = ed[2]]
         [] ed[1] = "tp" -> [S EXCEPT !.d.tp = ed[2]]
         [] ed[1] = "both" -> [S EXCEPT !.d.sl = ed[2], !.d.tp = Decl(Rows1(SAbs(S.q), S.cur + 6 * Sg(S)))]
         \* liquidate(): (position.qty, price) - the quantity is SIGNED; 119e8022: the submitted copy is forgotten first, so the
         \* declaration always counts as modified
         [] ed[1] = "liq" -> IF PnlPositive(S) THEN [S EXCEPT !.d.tp = Decl(Rows1(S.q, S.cur)), !.u.tp = None]
                             ELSE [S EXCEPT !.d.sl = Decl(Rows1(S.q, S.cur)), !.u.sl = None]

\* ---------------------------------------------------------------- fills
\* ClosedTrade.qty / entry_price / exit_price / pnl from the recorded rows (fee 0)
SumQ(rows) == SeqSum([i \in DOMAIN rows |-> rows[i][1]])
SumV(rows) == SeqSum([i \in DOMAIN rows |-> rows[i][1] * rows[i][2]])
TradeOf(tt) ==
  LET ent == IF tt.type = "long" THEN tt.buy ELSE tt.sell
      ext == IF tt.type = "long" THEN tt.sell ELSE tt.buy
      qty == SumQ(ent)
      ok == SumQ(ent) > 0 /\ SumQ(ext) > 0
      entry == IF ok THEN RN(SumV(ent), SumQ(ent)) ELSE RI(0)
      exit == IF ok THEN RN(SumV(ext), SumQ(ext)) ELSE RI(0)
      diff == RMulI(RSub(exit, entry), qty)
  IN [closed |-> TRUE, cyc |-> <<>>, side |-> "close",
      type |-> tt.type, qty |-> qty, ok |-> ok, entry |-> entry, exit |-> exit, n |-> tt.n,
      pnl |-> IF tt.type = "long" THEN diff ELSE RSub(RI(0), diff)]

\* Position._mutating_* + _update_qty + ClosedTrades.open_trade / close_trade
MutOpen(S, qty, p) == [S EXCEPT !.en = RI(p), !.prevq = S.q, !.q = qty,
                                !.tt.open = TRUE, !.tt.type = PosSide(qty)]
MutClose(S, p) ==
  LET prof == RMulI(RSub(RI(p), S.en), S.q)                      \* estimate_PNL(|qty|, entry, price, type)
      S1 == [S EXCEPT !.wal = RAdd(@, prof), !.prevq = S.q, !.q = 0, !.en = RI(0)]
  IN IF S.tt.open THEN [S1 EXCEPT !.g.trade = TradeOf(S.tt), !.tt = NoTemp] ELSE S1
MutReduce(S, qty, p) ==     \* qty signed, opposite to the position
  [S EXCEPT !.wal = RAdd(@, RMulI(RSub(RI(p), S.en), -qty)), !.prevq = S.q, !.q = S.q + qty]
MutIncrease(S, qty, p) ==
  [S EXCEPT !.en = RDivI(RAdd(RMulI(S.en, SAbs(S.q)), RI(SAbs(qty) * p)), SAbs(S.q) + SAbs(qty)),
            !.prevq = S.q, !.q = S.q + qty]

\* Order.execute(): status, ClosedTrades.add_executed_order, Position._on_executed_order
ExecOrder(S, i) ==
  LET o == S.ords[i]
      sq == IF o.side = "buy" THEN o.q ELSE -o.q
      \* proposed repair: a reduce-only order never fills more than the open position
      fq == IF RepairedClamp /\ o.ro /\ S.q * sq < 0 /\ o.q > SAbs(S.q) THEN -S.q ELSE sq
      row == <<SAbs(fq), o.p>>
      S1 == [S EXCEPT !.ords[i].st = "executed",
                      !.tt.buy = IF o.side = "buy" THEN Append(@, row) ELSE @,
                      !.tt.sell = IF o.side = "sell" THEN Append(@, row) ELSE @,
                      !.tt.n = @ + 1]
  IN IF S1.q = 0 THEN MutOpen(S1, fq, o.p)
     ELSE IF S1.q + fq = 0 THEN MutClose(S1, o.p)
     ELSE IF S1.q * fq > 0 THEN (IF o.ro THEN S1 ELSE MutIncrease(S1, fq, o.p))     \* ignored: previous_qty untouched
     ELSE IF SAbs(fq) > SAbs(S1.q)
          THEN (IF o.ro THEN MutClose(S1, o.p) ELSE MutOpen(MutClose(S1, o.p), S1.q + fq, o.p))     \* flip
          ELSE MutReduce(S1, fq, o.p)

\* Strategy._on_open_position: exits from the declarations; a row on the wrong side of the entry is replaced by a market order
RECURSIVE OpenExits(_, _, _, _)
OpenExits(S, via, rows, k) ==
  IF k > Len(rows) THEN S
  ELSE LET r == rows[k]
           kind == IF via = "stop-loss" THEN "sl" ELSE "tp"
           wrong == IF via = "stop-loss"
                    THEN (Long(S) /\ RGe(RI(r[2]), S.en)) \/ (Short(S) /\ RLe(RI(r[2]), S.en))
                    ELSE (Long(S) /\ RLe(RI(r[2]), S.en)) \/ (Short(S) /\ RGe(RI(r[2]), S.en))
           S1 == IF wrong
                 THEN (IF RepairedReplacement THEN Submit(S, ClosingSide(S.q), "MARKET", SAbs(r[1]), S.cur, TRUE, via, kind, rows)
                       ELSE IF Long(S) THEN SellAtMarket(S, SAbs(r[1]), via, kind, rows) ELSE BuyAtMarket(S, SAbs(r[1]), via, kind, rows))
                 ELSE ReduceAt(S, SAbs(r[1]), r[2], via, kind, rows)
       IN OpenExits(S1, via, rows, k + 1)

\* Strategy._on_updated_position(order): effect from previous_qty / qty, hook, user code (menu entry k), detection
Hooks(S, i, qb, k) ==
  LET before == S.prevq
      after == S.q
      eff == IF SAbs(before) <= 0 /\ 0 < SAbs(after) THEN "open"
             ELSE IF SAbs(before) > 0 /\ 0 >= SAbs(after) THEN "close"
             ELSE IF SAbs(after) > SAbs(before) THEN "inc" ELSE "red"
      rec == [qb |-> qb, qa |-> S.q, hooks |-> << <<eff, S.q>> >>]
      S0 == [S EXCEPT !.g.fills = Append(@, rec), !.inOpen = (eff = "open")]
      S1 == CASE eff = "open" ->
                   LET A == IF S0.d.sl.has THEN OpenExits(S0, "stop-loss", S0.u.sl.rows, 1) ELSE S0
                       C == IF A.d.tp.has THEN OpenExits(A, "take-profit", A.u.tp.rows, 1) ELSE A
                   IN DetectMods(ApplyEdit(C, PickEdit(C, "open", k)))
             [] eff = "close" -> ExecuteCancel(S0)
             [] OTHER -> DetectMods(ApplyEdit(S0, PickEdit(S0, eff, k)))
  IN [S1 EXCEPT !.inOpen = FALSE]

\* ghost bookkeeping of the property side: the running cycle and the hook automaton, from the sizes before/after;
\* the wallet is kept relative to the start of the cycle (garbage collection of history)
Account(S, qb, ord, hst0) ==
  LET qa == S.q
      eff == Effect(qb, qa)
      f == [din |-> IF eff \in {"open", "inc"} THEN SAbs(qa) - SAbs(qb) ELSE 0,
            dout |-> IF eff \in {"red", "close"} THEN SAbs(qb) - SAbs(qa) ELSE IF eff = "flip" THEN SAbs(qb) ELSE 0,
            p |-> ord.p]
      S0 == [S EXCEPT !.g.hst0 = hst0]
  IN IF eff \in {"close", "flip"}
     THEN [S0 EXCEPT !.cyc = IF eff = "flip" THEN <<[din |-> SAbs(qa), dout |-> 0, p |-> ord.p]>> ELSE <<>>,
                     !.side = PosSide(qa), !.hst = IF eff = "flip" THEN "in" ELSE "flat", !.wal = RI(0),
                     !.g.cycClosed = TRUE, !.g.walAtClose = S.wal,
                     !.g.trade = [@ EXCEPT !.cyc = Append(S.cyc, f), !.side = S.side]]
     ELSE [S0 EXCEPT !.cyc = IF eff = "none" THEN @ ELSE Append(@, f),
                     !.side = IF eff = "open" THEN PosSide(qa) ELSE @,
                     !.hst = IF qa = 0 THEN "flat" ELSE "in"]

FillOrder(S, i, k) == Account(Hooks(ExecOrder(S, i), i, S.q, k), S.q, S.ords[i], S.hst)

\* ---------------------------------------------------------------- actions
Depth == Len(hist) < MaxDepth
\* projection compared with the real objects after every replayed action: position and the active orders
Proj(S) == [q |-> S.q, done |-> S.done, nq |-> Len(S.queue),
            act |-> LET a == SelectSeq(S.ords, LAMBDA x : x.st = "active")
                    IN [j \in DOMAIN a |-> <<a[j].side, a[j].type, a[j].q, a[j].p, a[j].ro, a[j].via>>]]
Rec(a, S) == Append(hist, [a |-> a, ed |-> S.g.edits, post |-> Proj(S)])
QuietPc == pc \in {"idle", "after", "post"} /\ (pc \in {"after", "post"} => st.queue = <<>>)
Alive == ~st.done /\ ~st.g.crashed
NoChain(S) == [S EXCEPT !.chain = 0]

\* the market moves the price between two minutes
Move(p) == /\ Alive /\ QuietPc /\ Depth /\ p # st.cur
           /\ st' = NoChain([Z(st) EXCEPT !.cur = p]) /\ pc' = "idle"
           /\ hist' = Rec(<<"move", p - B>>, st')

\* a resting order fills at its price during the minute
Fill(i, k) == /\ Alive /\ QuietPc /\ Depth
              /\ i \in Active(st) /\ st.ords[i].type # "MARKET"
              /\ st' = NoChain(FillOrder([Z(st) EXCEPT !.cur = st.ords[i].p], i, k))
              /\ pc' = "idle"
              /\ hist' = LET o == st.ords[i] IN Rec(<<"fill", i, k, <<o.side, o.type, o.q, o.p, o.ro, o.via>> >>, st')

\* _execute / _check, first part: entry-cancellation rule, update_position, detection
StepA(ans, k) ==
  /\ Alive /\ QuietPc /\ Depth
  /\ (st.q = 0 => k = 0) /\ (~(Len(st.ords) > 0 /\ st.q = 0) => ans = FALSE)
  /\ LET S == Z(st)
         had == Len(S.ords) > 0 /\ S.q = 0
         rest == Active(S)
         S1 == IF had /\ ans THEN ExecuteCancel(S) ELSE S
         S2 == [S1 EXCEPT !.g.rule = [had |-> had /\ rest # {}, ans |-> ans,
                                     all |-> \A i \in rest : i \notin DOMAIN S1.ords \/ S1.ords[i].st = "canceled",
                                     none |-> \A i \in rest : i \in DOMAIN S1.ords /\ S1.ords[i].st = "active"]]
     IN st' = NoChain(IF S2.q # 0 THEN DetectMods(ApplyEdit(S2, PickEdit(S2, "update", k))) ELSE S2)
  /\ pc' = "mid"
  /\ hist' = Rec(<<"stepA", ans, k>>, st')

\* store.orders.execute_pending_market_orders(), one order per action (the hooks of a fill may append to the list)
FlushOne(k) ==
  /\ Alive /\ pc \in {"mid", "after", "post", "term", "term2"} /\ st.queue # <<>> /\ Len(hist) < MaxDepth + 8
  /\ LET i == Head(st.queue)
         S == [Z(st) EXCEPT !.queue = Tail(@), !.chain = @ + 1]
     IN IF i \in DOMAIN S.ords /\ S.ords[i].st = "active"
        THEN st' = FillOrder(S, i, k)
        ELSE /\ k = 0 /\ st' = S
  /\ pc' = IF pc = "after" THEN "post" ELSE pc
  /\ hist' = Rec(<<"flush", k, ~(Head(st.queue) \in DOMAIN st.ords /\ st.ords[Head(st.queue)].st = "active")>>, st')

\* second part: should_long / should_short, go_long / go_short (entries + exits from the menus), then after()
SgOf(sd) == IF sd = "long" THEN 1 ELSE -1
Decisions(S) ==
  {<<"none", <<>>, <<None, None>>>>} \cup
  UNION {UNION {{<<sd, rows, ex>> : ex \in GoExitMenu(S.cur, SgOf(sd), rows)} : rows \in EntryMenu(S.cur, SgOf(sd))}
         : sd \in {"long", "short"}}
StepB(dec) ==
  /\ Alive /\ pc = "mid" /\ st.queue = <<>>
  /\ LET S == NoChain(Z(st)) IN
     IF S.q = 0 /\ S.ords = <<>>
     THEN /\ dec \in Decisions(S)
          /\ LET R == [S EXCEPT !.d = NoDecls, !.u = NoDecls] IN       \* _reset()
             IF dec[1] = "none" THEN st' = R
             ELSE LET side == IF dec[1] = "long" THEN "buy" ELSE "sell"
                      D == [buy |-> IF side = "buy" THEN Decl(dec[2]) ELSE None,
                            sell |-> IF side = "sell" THEN Decl(dec[2]) ELSE None,
                            sl |-> dec[3][1], tp |-> dec[3][2]]
                  IN st' = SubmitEntries([R EXCEPT !.d = D, !.u = D], side, dec[2], 1)      \* _prepare_* make copies
     ELSE /\ dec = <<"none", <<>>, <<None, None>>>> /\ st' = S
  /\ pc' = "after"
  /\ hist' = Rec(<<"stepB", dec[1], dec[2], <<dec[3][1].rows, dec[3][2].rows>> >>, st')

\* _terminate: detection, pending market orders, forced close of an open position, cancellation of resting entries
Term1 == /\ Alive /\ QuietPc /\ Len(hist) >= MaxDepth - 4
         /\ st' = NoChain(DetectMods(Z(st))) /\ pc' = "term" /\ hist' = Rec(<<"term1">>, st')
Term2 == /\ Alive /\ pc = "term" /\ st.queue = <<>>
         /\ LET S == NoChain(Z(st)) IN
            IF S.q # 0 THEN /\ st' = ReduceAt(S, SAbs(S.q), S.cur, "none", "close", <<>>) /\ pc' = "term2"
            ELSE /\ st' = [(IF Len(S.ords) > 0 THEN ExecuteCancel(S) ELSE S) EXCEPT !.done = TRUE] /\ pc' = "end"
         /\ hist' = Rec(<<"term2">>, st')
Term3 == /\ Alive /\ pc = "term2" /\ st.queue = <<>>
         /\ st' = [NoChain(Z(st)) EXCEPT !.done = TRUE] /\ pc' = "end" /\ hist' = Rec(<<"term3">>, st')

Prices == {B + o : o \in Offs} \cup {B - o : o \in Offs}
Next == \/ \E p \in Prices : Move(p)
        \/ \E i \in 1..MaxOrd, k \in 0..MaxEdit : Fill(i, k)
        \/ \E ans \in BOOLEAN, k \in 0..MaxEdit : StepA(ans, k)
        \/ \E k \in 0..MaxEdit : FlushOne(k)
        \/ \E dec \in Decisions(st) : StepB(dec)
        \/ Term1 \/ Term2 \/ Term3
Init == st = Init0 /\ pc = "idle" /\ hist = <<>>
Spec == Init /\ [][Next]_vars
View == <<st, pc>>
Alias == [hist |-> ToJson(hist), pc |-> pc]           \* error traces show the history only (it is replayed into the code)
Bound == Len(st.ords) <= MaxOrd

\* ================================================================ properties (StrategyProps vocabulary only)
\* ---- C10: every submission of the last action
RowsHave(rows, P(_)) == \E j \in DOMAIN rows : P(rows[j])
\* the named deviation is only legitimate for a row on the wrong side of the POSITION's entry price
WrongSideOfEntry(s, r) == IF s.kind = "sl" THEN (s.pq > 0 /\ RGe(RI(r[2]), s.en)) \/ (s.pq < 0 /\ RLe(RI(r[2]), s.en))
                          ELSE (s.pq > 0 /\ RLe(RI(r[2]), s.en)) \/ (s.pq < 0 /\ RGe(RI(r[2]), s.en))
IsReplacement(s) == /\ s.o.type = "MARKET" /\ s.inOpen
                    /\ RowsHave(s.rows, LAMBDA r : SAbs(r[1]) = s.o.q /\ WrongSideOfEntry(s, r)) /\ ~RowsHave(s.rows, LAMBDA r : RowOf(s.o, r))
SubOK(s) ==
  LET o == s.o IN
  CASE s.kind = "entry" ->
         /\ ~o.ro /\ o.via = "none"
         /\ RowsHave(s.rows, LAMBDA r : /\ SAbs(r[1]) = o.q /\ (o.type = "MARKET" \/ r[2] = o.p)
                                        /\ (Knife(r[2], s.cur) \/ o.type = EntryType(o.side, r[2], s.cur)))
    [] s.kind = "close" ->
         o.ro /\ s.pq # 0 /\ o.side = ClosingSide(s.pq) /\ (Knife(o.p, s.cur) \/ o.type = ExitType(PosSide(s.pq), o.p, s.cur))
    [] OTHER ->
         /\ s.pq # 0 /\ o.side = ClosingSide(s.pq)
         /\ \/ IsReplacement(s)                                  \* named deviation: exempt from row price and routing
            \/ /\ RowsHave(s.rows, LAMBDA r : RowOf(o, r))
               /\ (Knife(o.p, s.cur) \/ o.type = ExitType(PosSide(s.pq), o.p, s.cur))
RoutingOK == \A j \in DOMAIN st.g.subs : SubOK(st.g.subs[j])
ExitsReduceOnly == \A j \in DOMAIN st.g.subs : st.g.subs[j].kind \in {"sl", "tp", "close"} => st.g.subs[j].o.ro
\* ---- C10: after every strategy step
ActiveVia(S, via) == SelectSeq(S.ords, LAMBDA o : o.st = "active" /\ o.via = via)
PoolVia(S, via) == SelectSeq(S.ords, LAMBDA o : o.st \in {"active", "executed"} /\ o.via = via)
ExitsMatch(S, via, dcl) ==
  LET a == ActiveVia(S, via) IN
  IF ~dcl.has THEN a = <<>>
  ELSE /\ InjectiveMatch(a, dcl.rows, RowOrReplacement)
       /\ \A j \in DOMAIN a : a[j].ro /\ a[j].side = ClosingSide(S.q)
       /\ InjectiveMatch(dcl.rows, PoolVia(S, via), RowCovered)
ExitCorrespondence == (pc = "after" /\ st.q # 0) => ExitsMatch(st, "stop-loss", st.d.sl) /\ ExitsMatch(st, "take-profit", st.d.tp)
NoExitWhenFlat == st.q = 0 => \A i \in Active(st) : st.ords[i].via = "none" /\ ~st.ords[i].ro
EntryCancelRule == st.g.rule.had => IF st.g.rule.ans THEN st.g.rule.all ELSE st.g.rule.none
\* ---- C06
HooksFaithful == \A j \in DOMAIN st.g.fills :
                    LET f == st.g.fills[j] IN
                    /\ f.hooks = HooksFor(f.qb, f.qa)
                    /\ HookOK(st.g.hst0, f.hooks[1][1])
OneTradePerCycle == st.g.cycClosed <=> st.g.trade.closed
TradeFaithful == st.g.trade.closed =>
                   LET t == st.g.trade c == t.cyc IN
                   /\ t.ok /\ t.type = t.side /\ t.qty = QIn(c) /\ t.n = Len(c)
                   /\ t.entry = RN(VIn(c), QIn(c)) /\ QOut(c) > 0 /\ t.exit = RN(VOut(c), QOut(c))
                   /\ t.pnl = RI(CyclePnl(c, t.side, 0, 1))
WalletIdentity == st.g.cycClosed => st.g.trade.closed /\ st.g.trade.pnl = st.g.walAtClose
FlatAtEnd == st.done => st.q = 0 /\ Active(st) = {}
NoLivelock == st.chain <= 5
\* ---- non-vacuity witnesses: each W_* must be REACHABLE in the clean instance, i.e. TLC must report the
\* invariant NotW_* as violated (otherwise an invariant above holds vacuously and the check refuses to run)
SubsHave(P(_)) == \E j \in DOMAIN st.g.subs : P(st.g.subs[j])
W_CancelYes == st.g.rule.had /\ st.g.rule.ans
W_CancelNo == st.g.rule.had /\ ~st.g.rule.ans
W_BothExitsAtAfter == pc = "after" /\ st.q # 0 /\ ActiveVia(st, "stop-loss") # <<>> /\ ActiveVia(st, "take-profit") # <<>>
W_ExitReplacedByEdit == SubsHave(LAMBDA s : s.kind \in {"sl", "tp"} /\ ~s.inOpen) /\ pc = "mid"
W_EntryStop == SubsHave(LAMBDA s : s.kind = "entry" /\ s.o.type = "STOP")
W_EntryLimit == SubsHave(LAMBDA s : s.kind = "entry" /\ s.o.type = "LIMIT")
W_EntryMarket == SubsHave(LAMBDA s : s.kind = "entry" /\ s.o.type = "MARKET")
W_ExitStop == SubsHave(LAMBDA s : s.kind = "sl" /\ s.o.type = "STOP")
W_ExitLimit == SubsHave(LAMBDA s : s.kind = "tp" /\ s.o.type = "LIMIT")
W_ExitMarket == SubsHave(LAMBDA s : s.kind \in {"sl", "tp"} /\ s.o.type = "MARKET")
W_ShortCycle == st.g.trade.closed /\ st.g.trade.side = "short"
W_LongCycle3 == st.g.trade.closed /\ st.g.trade.side = "long" /\ Len(st.g.trade.cyc) >= 3
W_Reduced == \E j \in DOMAIN st.g.fills : st.g.fills[j].hooks[1][1] = "red"
W_ForcedClose == pc = "term2"
W_FlatAfterCloseWithCancel == st.g.cycClosed /\ st.ords = <<>>
NotW_CancelYes == ~W_CancelYes
NotW_CancelNo == ~W_CancelNo
NotW_BothExitsAtAfter == ~W_BothExitsAtAfter
NotW_ExitReplacedByEdit == ~W_ExitReplacedByEdit
NotW_EntryStop == ~W_EntryStop
NotW_EntryLimit == ~W_EntryLimit
NotW_EntryMarket == ~W_EntryMarket
NotW_ExitStop == ~W_ExitStop
NotW_ExitLimit == ~W_ExitLimit
NotW_ExitMarket == ~W_ExitMarket
NotW_ShortCycle == ~W_ShortCycle
NotW_LongCycle3 == ~W_LongCycle3
NotW_Reduced == ~W_Reduced
NotW_ForcedClose == ~W_ForcedClose
NotW_FlatAfterCloseWithCancel == ~W_FlatAfterCloseWithCancel
\* export of behaviours for the replay (simulation mode): one line per state at the depth bound / after termination
EmitHist == (Len(hist) >= MaxDepth \/ st.done \/ st.g.crashed) => PrintT(<<"HIST", ToJson(hist)>>)
NoCrash == ~st.g.crashed
=============================================================================
