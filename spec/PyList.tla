------------------------------- MODULE PyList -------------------------------
(* Python list semantics on TLA+ sequences (0-based indices as in the code).   *)
(* This is the reference model of property C18: "behaves like a plain list of  *)
(* rows".  None is encoded as the string "N" in traces and as NoneV here.      *)
EXTENDS Integers, Sequences
NoneV == -9999
Min2(a, b) == IF a < b THEN a ELSE b
Max2(a, b) == IF a > b THEN a ELSE b
Clamp(i, n) == IF i < 0 THEN Max2(i + n, 0) ELSE Min2(i, n)
SliceLo(n, a) == IF a = NoneV THEN 0 ELSE Clamp(a, n)
SliceHi(n, b) == IF b = NoneV THEN n ELSE Clamp(b, n)
PySlice(s, a, b) == LET n == Len(s) lo == SliceLo(n, a) hi == SliceHi(n, b)
                    IN IF lo >= hi THEN <<>> ELSE SubSeq(s, lo + 1, hi)
PyIndexOK(s, i) == LET j == IF i < 0 THEN i + Len(s) ELSE i IN j >= 0 /\ j < Len(s)
PyGet(s, i) == s[(IF i < 0 THEN i + Len(s) ELSE i) + 1]
PySet(s, i, v) == [s EXCEPT ![(IF i < 0 THEN i + Len(s) ELSE i) + 1] = v]
PyDel(s, k) == SubSeq(s, 1, k) \o SubSeq(s, k + 2, Len(s))          \* 0 <= k < Len(s)
\* equal-length slice assignment: items has exactly the length of the addressed slice
PySetSlice(s, a, b, items) == LET n == Len(s) lo == SliceLo(n, a) hi == SliceHi(n, b)
                              IN IF lo >= hi THEN s
                                 ELSE SubSeq(s, 1, lo) \o items \o SubSeq(s, hi + 1, n)
SliceLen(n, a, b) == LET lo == SliceLo(n, a) hi == SliceHi(n, b) IN IF lo >= hi THEN 0 ELSE hi - lo
\* drop-oldest rule at list level: after a single append, when the length reaches a
\* multiple of dropAt, the oldest dropAt \div 2 rows are forgotten
DropOldest(s, dropAt) == IF dropAt # 0 /\ Len(s) > 1 /\ Len(s) % dropAt = 0
                         THEN SubSeq(s, (dropAt \div 2) + 1, Len(s)) ELSE s
=============================================================================
