------------------------------- MODULE FastSim -------------------------------
(* C01 (M), fast simulator: the chunked feed loop of backtest_mode._skip_simulator*)
(* / _simulate_new_candles (l.745-895) and _simulate_price_change_effect_multiple *)
(* _candles (l.897-983) composed with the candle store, at the level of INDEX     *)
(* EXPRESSIONS (see StepSim.tla for the symbolic store).                          *)
(*                                                                              *)
(* chunk = gcd of all route timeframes.  Quirks kept as they are in the code:     *)
(*  - the clock is not advanced when a chunk starts; it is set to the fill minute *)
(*    at a fill and to the chunk end after add_multiple_1m_candles, so with two   *)
(*    symbols it runs BACKWARDS when the second symbol fills inside the chunk;    *)
(*  - the minute loop (and the per-minute add_candle) only runs when the chunk    *)
(*    aggregate selected at least one order (environment: hasOrders);             *)
(*  - a trailing chunk shorter than `chunk` is matched without closing a candle or *)
(*    running a strategy (repaired in f8ad570d; before that the full step was     *)
(*    passed on and generate_candle_from_one_minutes raised ValueError - kept as   *)
(*    the seedable fault PartialChunkRaises / action RaiseShortWindow).           *)
(*                                                                              *)
(* Property: the fast simulator is causal at CHUNK granularity (C01: "t on a      *)
(* trading-candle boundary"; every trading timeframe is a multiple of the chunk): *)
(*   ChunkCausal      every read of the input is below the end of the chunk       *)
(*   StoreChunkCausal at every observation point every readable row derives from  *)
(*                    input indices below the end of the current chunk            *)
(*   HookStoreCausal  at a fill hook the filling symbol's own rows are < clock    *)
(*   MatchedBeforeDecide  strategies run after every symbol's chunk was matched   *)
EXTENDS Integers, Sequences, FiniteSets, TLC
CONSTANTS RouteTFs,   \* minutes of every route (trading and data), stand-ins from {1,2,3,4,6}
          RouteTF,    \* the trading timeframe (member of RouteTFs)
          N, W, NSym, MaxFills,
          ChunkSkew,  \* 0; 1 = the chunk slice reaches one candle into the next chunk
          GenSkew,    \* 0; 1 = the generate slice is shifted by one
          PartialChunkRaises  \* FALSE = the code (current_step = min(step, length - i)); TRUE = the defect fixed by f8ad570d

VARIABLES i, pc, sym, k, fills, m1, tf, clock, maxRead, matched, obs, status
vars == <<i, pc, sym, k, fills, m1, tf, clock, maxRead, matched, obs, status>>
Syms == 1..NSym
TFs  == RouteTFs \ {1}
Max2(a, b) == IF a > b THEN a ELSE b
Min2(a, b) == IF a < b THEN a ELSE b
Last(s) == s[Len(s)]
TailN(s, n) == IF n >= Len(s) THEN s ELSE SubSeq(s, Len(s) - n + 1, Len(s))
Divides(d, n) == n % d = 0
Step == CHOOSE d \in 1..N : (\A T \in RouteTFs : Divides(d, T)) /\
                            \A e \in 1..N : (\A T \in RouteTFs : Divides(e, T)) => e <= d     \* np.gcd.reduce

Upsert1m(s, c) == IF s = <<>> \/ c[1] > Last(s)[1] THEN Append(s, c)
                  ELSE IF c[1] = Last(s)[1] THEN [s EXCEPT ![Len(s)] = c] ELSE s
UpsertTF(s, c) == IF s = <<>> \/ c.ts > Last(s).ts THEN Append(s, c)
                  ELSE IF c.ts = Last(s).ts THEN [s EXCEPT ![Len(s)] = c] ELSE s
Full(lo, hi) == [j \in 1..(hi - lo + 1) |-> <<lo + j - 1, 0>>]
WarmTF(T)    == [w \in 1..(W \div T) |-> [ts |-> -W + (w - 1) * T, src |-> Full(-W + (w - 1) * T, -W + w * T - 1)]]

\* python slice candles[a:b] on a series of N rows: the indices actually read
SliceLo(a) == Max2(a, 0)
SliceHi(b) == Min2(b, N) - 1
EffStep == IF PartialChunkRaises THEN Step ELSE Min2(Step, N - i)     \* current_step in _skip_simulator
ChunkLo == i
ChunkHi == SliceHi(i + Step + ChunkSkew)
ChunkLen == ChunkHi - ChunkLo + 1
ChunkEnd == i + Step                     \* the clock value the chunk is supposed to end at

Init == /\ i = 0 /\ pc = "chunk" /\ sym = 1 /\ k = 0 /\ fills = 0
        /\ m1 = [s \in Syms |-> IF W = 0 THEN <<>> ELSE Full(-W, -1)]
        /\ tf = [s \in Syms |-> [T \in TFs |-> WarmTF(T)]]
        /\ clock = 0 /\ maxRead = -1 /\ matched = [s \in Syms |-> TRUE] /\ obs = "none" /\ status = "run"

BeginChunk == /\ pc = "chunk" /\ i < N /\ status = "run"
              /\ sym' = 1 /\ pc' = "sim" /\ matched' = [s \in Syms |-> FALSE] /\ obs' = "none"
              /\ UNCHANGED <<i, k, fills, m1, tf, clock, maxRead, status>>

\* _simulate_new_candles: short_candles = candles[i : i + candles_step]; real_candle = aggregate of the chunk;
\* the minute loop is entered only if _get_executing_orders(real_candle) is non-empty
Sim(hasOrders) ==
  /\ pc = "sim"
  /\ maxRead' = Max2(maxRead, ChunkHi)
  /\ k' = 0 /\ fills' = 0 /\ obs' = "none"
  /\ pc' = IF hasOrders THEN "minute" ELSE "bulk"
  /\ UNCHANGED <<i, sym, m1, tf, clock, matched, status>>

\* a fill in minute i + k of the chunk: partial candle published, clock := that minute's end, order.execute() -> hook
FillF == /\ pc = "minute" /\ fills < MaxFills
         /\ fills' = fills + 1
         /\ LET part == <<ChunkLo + k, fills + 1>>
                m1p  == Upsert1m(m1[sym], part) IN
            /\ m1' = [m1 EXCEPT ![sym] = m1p]
            /\ tf' = [tf EXCEPT ![sym] = [T \in TFs |->
                         LET need == (part[1] % T) + 1
                             src  == TailN(m1p, need)
                         IN UpsertTF(tf[sym][T], [ts |-> src[1][1], src |-> src])]]
         /\ clock' = ChunkLo + k + 1                  \* store.app.time = storable_temp_candle[0] + 60_000
         /\ obs' = "hook"
         /\ UNCHANGED <<i, pc, sym, k, maxRead, matched, status>>

\* end of the while loop of one minute: add_candle(short_timeframes_candles[i].copy(), '1m')
EndMinute == /\ pc = "minute"
             /\ m1' = [m1 EXCEPT ![sym] = Upsert1m(@, <<ChunkLo + k, 0>>)]
             /\ fills' = 0 /\ obs' = "none"
             /\ IF k + 1 < ChunkLen THEN k' = k + 1 /\ UNCHANGED pc ELSE pc' = "bulk" /\ UNCHANGED k
             /\ UNCHANGED <<i, sym, tf, clock, maxRead, matched, status>>

\* add_multiple_1m_candles (append when newer, overwrite the last len(chunk) rows when they are already there),
\* then store.app.time = real_candle[0] + 60_000 * len(chunk)
Bulk == /\ pc = "bulk"
        /\ LET rows == Full(ChunkLo, ChunkHi)
               cur  == m1[sym] IN
           m1' = [m1 EXCEPT ![sym] =
                    IF cur = <<>> \/ ChunkLo > Last(cur)[1] THEN cur \o rows
                    ELSE SubSeq(cur, 1, Len(cur) - ChunkLen) \o rows]
        /\ clock' = ChunkLo + ChunkLen
        /\ matched' = [matched EXCEPT ![sym] = TRUE]
        /\ pc' = "gen" /\ obs' = "none"
        /\ UNCHANGED <<i, sym, k, fills, tf, maxRead, status>>

\* l.873-894: if (i + candles_step) % count == 0: generate_candle_from_one_minutes(tf, candles[i - count + step : i + step])
Due(T)   == (i + EffStep) % T = 0
GLo(T)   == SliceLo(i - T + EffStep + GenSkew)
GHi(T)   == SliceHi(i + EffStep + GenSkew)
Short(T) == GHi(T) - GLo(T) + 1 # T
GenerateF ==
  /\ pc = "gen" /\ ~\E T \in TFs : Due(T) /\ Short(T)
  /\ LET due == {T \in TFs : Due(T)} IN
     /\ tf' = [tf EXCEPT ![sym] = [T \in TFs |->
                 IF T \in due THEN UpsertTF(tf[sym][T], [ts |-> GLo(T), src |-> Full(GLo(T), GHi(T))]) ELSE tf[sym][T]]]
     /\ maxRead' = IF due = {} THEN maxRead ELSE Max2(maxRead, i + EffStep + GenSkew - 1)
  /\ IF sym < NSym THEN sym' = sym + 1 /\ pc' = "sim" ELSE pc' = "routes" /\ UNCHANGED sym
  /\ obs' = "none"
  /\ UNCHANGED <<i, k, fills, m1, clock, matched, status>>
\* former defect (PartialChunkRaises): trailing chunk shorter than the chunk size -> "Sent only n candles but T is required"
RaiseShortWindow ==
  /\ pc = "gen" /\ \E T \in TFs : Due(T) /\ Short(T)
  /\ status' = "ValueError" /\ pc' = "dead" /\ obs' = "none"
  /\ UNCHANGED <<i, sym, k, fills, m1, tf, clock, maxRead, matched>>

\* _execute_routes(i, step) then _execute_market_orders
RouteDue == RouteTF = 1 \/ (i + EffStep) % RouteTF = 0
RunRoutesF == /\ pc = "routes"
              /\ obs' = (IF RouteDue THEN "step" ELSE "none")
              /\ i' = i + Step /\ pc' = "chunk"
              /\ UNCHANGED <<sym, k, fills, m1, tf, clock, maxRead, matched, status>>

Next == BeginChunk \/ (\E b \in BOOLEAN : Sim(b)) \/ FillF \/ EndMinute \/ Bulk \/ GenerateF \/ RaiseShortWindow \/ RunRoutesF
Spec == Init /\ [][Next]_vars

\* ------------------------------------------------------------------ the property
Idx1(s)   == {m1[s][j][1] : j \in DOMAIN m1[s]}
IdxTF(s)  == UNION {UNION {{tf[s][T][r].src[j][1] : j \in DOMAIN tf[s][T][r].src} : r \in DOMAIN tf[s][T]} : T \in TFs}
Readable  == UNION {Idx1(s) \cup IdxTF(s) : s \in Syms}

ChunkCausal      == pc \notin {"chunk", "dead"} => maxRead < ChunkEnd
StoreChunkCausal == obs # "none" => \A x \in Readable : x < (IF obs = "step" THEN i ELSE ChunkEnd)
HookStoreCausal  == obs = "hook" => \A x \in Idx1(sym) \cup IdxTF(sym) : x < clock
ClockAtStep      == obs = "step" => clock = i \/ i > N           \* strategies run with the clock at the chunk end
MatchedBeforeDecide == obs = "step" => \A s \in Syms : matched[s]
NeverRaises      == status = "run"
\* documented quirk, expected to be violated with two symbols: the clock runs backwards inside a chunk
ClockMonotone    == [][clock' >= clock]_vars
=============================================================================
