\* look-back scaled to 2, every order of new / equal / older adds and bulk inserts up to depth 6 (QLookback = TRUE: the code)
SPECIFICATION SpecM
VIEW View
CONSTRAINT Depth
CHECK_DEADLOCK FALSE
CONSTANTS LB = 2 Prefill = 0 MaxDepth = 6 MaxLen = 5 MaxMulti = 3 MaxBatch = 3 QLookback = FALSE Export = FALSE
INVARIANT StrictlyIncreasing
INVARIANT AddOK
INVARIANT MultiOK
INVARIANT BatchOK
INVARIANT NoErrorOnStored
