\* plain left-to-right kernel (the check module generates this and the quirk variants; see harness/checks/c13.py)
SPECIFICATION Spec
CONSTANTS Vals = {1, 2} MaxFed = 5 Exempt = 0 Quirk = "none"
INVARIANT TypeOK
INVARIANT LenIsFed
PROPERTY AppendOnly
PROPERTY SingleIsConfirmed
CHECK_DEADLOCK FALSE
