\* hand-run instance (the X01 check generates its configurations): timeout 300 tlc -workers 8 -config SimWhole.cfg SimWhole.tla
\* simulation + export of behaviours: add  INVARIANT Export  and run  tlc -simulate num=100 -depth 120 ...
SPECIFICATION Spec
VIEW View
CONSTANTS K = 3 Chunk = 2 TF = 2 NMin = 4 Qtys = {1} Modes = {"go"} TwoRows = FALSE WrongSide = FALSE Edits = FALSE Halves = FALSE
CONSTANTS PB = 100 PS = 10 Lev = 1 FeeNum = 1 FeeDen = 64 Start = 300 DayLen = 1440 LiqFix = TRUE
INVARIANT SameRun
INVARIANT FlatWallet
INVARIANT TradesOK
INVARIANT FlatMeansNoExits
INVARIANT LiquidateWorks
INVARIANT NoModelError
CHECK_DEADLOCK FALSE
