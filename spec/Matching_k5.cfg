SPECIFICATION Spec
CHECK_DEADLOCK FALSE
CONSTANTS K = 5 MaxOrders = 3 MaxReact = 2 Liq = FALSE
INVARIANT NoMissedFill
INVARIANT NoMissedInRange
INVARIANT TempFollowsPath
INVARIANT SkipBranchesDead
INVARIANT MarketFilledInMinute
INVARIANT TypeOK
PROPERTY FillAtFirstReach
PROPERTY NeverBeforeSubmit
PROPERTY FinalIsFinal
PROPERTY PathOrder
PROPERTY ReactionAfterFill
