------------------------------- MODULE LiqArith -------------------------------
(* C09, arithmetic part, in exact rationals.  For an entry price e > 0 and       *)
(* leverage L (Position.liquidation_price / bankruptcy_price):                   *)
(*   bankruptcy = e * (1 - 1/L)            long      e * (1 + 1/L)          short *)
(*   liquidation = e * (1 - 1/L + 4/1000)  long      e * (1 + 1/L - 4/1000) short *)
(* All three are e times a rational; over the common denominator 1000 * L they   *)
(* are the integers below (e cancels, so the facts hold for every entry price,   *)
(* averaged or not).  TLC checks every leverage 1..MaxLev and both sides:        *)
(*   the liquidation price lies strictly between the entry price and the         *)
(*   bankruptcy price on the losing side (for every leverage above 1; it also    *)
(*   holds for 1), and closing at the bankruptcy price loses exactly the initial *)
(*   margin e * q / L.                                                           *)
EXTENDS Integers
CONSTANT MaxLev
VARIABLES lev, side
vars == <<lev, side>>
Den(L) == 1000 * L
Entry(L) == 1000 * L
Bank(L, s) == IF s = "long" THEN 1000 * (L - 1) ELSE 1000 * (L + 1)
LiqP(L, s) == IF s = "long" THEN 1004 * L - 1000 ELSE 996 * L + 1000
Init == lev \in 1..MaxLev /\ side \in {"long", "short"}
Next == UNCHANGED vars
Spec == Init /\ [][Next]_vars
StrictlyBetween == IF side = "long" THEN Bank(lev, side) < LiqP(lev, side) /\ LiqP(lev, side) < Entry(lev)
                   ELSE Entry(lev) < LiqP(lev, side) /\ LiqP(lev, side) < Bank(lev, side)
\* |entry - bankruptcy| * L = entry : the loss per unit at the bankruptcy price is entry / L
LosesInitialMargin == (IF side = "long" THEN Entry(lev) - Bank(lev, side) ELSE Bank(lev, side) - Entry(lev)) * lev = Entry(lev)
\* the liquidation price keeps a maintenance buffer of 0.4 % of the entry price in front of bankruptcy
Buffer == (IF side = "long" THEN LiqP(lev, side) - Bank(lev, side) ELSE Bank(lev, side) - LiqP(lev, side)) * 1000 = 4 * Entry(lev)
\* the ordering would break at leverage 250 (1/L = 0.004): the property's range 1..125 is inside the safe range
SafeRange == MaxLev < 250
=============================================================================
