------------------------------ MODULE WholeCore ------------------------------
(* Whole-run model of a jesse futures backtest for one symbol, as pure operators   *)
(* on a state record (so that SimWhole.tla can explore it and TraceSimWhole.tla can *)
(* re-execute a recorded scenario step by step).  It composes                       *)
(*   feed        one-minute candles on a price lattice, jump-fixed minute by minute *)
(*   matching    the normal loop (_simulate_price_change_effect) and the fast loop   *)
(*               (_simulate_price_change_effect_multiple_candles, per-minute since  *)
(*               adf54ef1 / 651f7be3) incl. split_candle and _sort_execution_orders  *)
(*   strategy    Strategy._check at a trading-candle boundary with a scripted user: *)
(*               should_cancel_entry, update_position (liquidate() or one stop-loss *)
(*               edit), should_long/short + go_long/go_short with 1-2 entry rows    *)
(*               (market/limit/stop by price), stop-loss/take-profit declared in    *)
(*               go_* ("go"), in on_open_position at fixed prices ("open") or at a   *)
(*               distance from the price seen there ("rel"), re-declared for the new *)
(*               size in on_increased_position; _on_open/_increased/_reduced/_close_ *)
(*               position, _detect_and_handle_entry_and_exit_modifications,          *)
(*               Broker.reduce_position_at, _close_at_market, _execute_cancel,       *)
(*               _terminate                                                          *)
(*   account     FuturesExchange: wallet, fee charged on every fill, realised PnL,  *)
(*               reserved rows of resting non-reduce-only orders, available_margin,  *)
(*               InsufficientMargin on submission (ends the run); Position: qty,     *)
(*               average entry (rational), current price; Order.execute's clamp of a *)
(*               reduce-only order to the position size                              *)
(*   bookkeeping hook word, fills, ClosedTrades (qty, weighted entry/exit, pnl, fee, *)
(*               opened/closed minute), daily equity samples                         *)
(* Money: a lattice price x is the real price PB + PS * x; wallet, margin, pnl and   *)
(* fee are exact rationals <<num, den>> of the real currency (AcctBase).             *)
EXTENDS AcctBase, TLC
CONSTANTS PB, PS,            \* real price of lattice point x = PB + PS * x
          Lev,               \* futures leverage (cross margin: no liquidation)
          FeeNum, FeeDen,    \* fee rate
          Start,             \* starting balance
          DayLen,            \* minutes between equity samples (1440 in jesse)
          LiqFix             \* FALSE = the code: liquidate() declares (position.qty, price) and relies on the comparison with the
                             \*         stale copy self._take_profit / self._stop_loss - when that copy is an already EXECUTED row
                             \*         with the same (qty, price), nothing is submitted and the position stays open;
                             \* TRUE  = proposed repair (fixes/C10-liquidate-stale-exit-copy.diff): the copy is dropped first

Px(x) == PB + PS * x
Includes(cd, p) == p >= cd.l /\ p <= cd.h
Bull(cd) == cd.c >= cd.o
Bear(cd) == cd.c < cd.o
Cd(o_, c_, h_, l_) == [o |-> o_, c |-> c_, h |-> h_, l |-> l_]

\* ---- services.candle.split_candle: <<earlier (storable), later>> ----
Split(cd, p) ==
  LET o == cd.o c == cd.c h == cd.h l == cd.l IN
  IF Bull(cd) /\ l < p /\ p < o THEN <<Cd(o,p,o,p), Cd(p,c,h,l)>>
  ELSE IF p = o THEN <<cd, cd>>
  ELSE IF Bear(cd) /\ o < p /\ p < h THEN <<Cd(o,p,p,o), Cd(p,c,h,l)>>
  ELSE IF Bear(cd) /\ l < p /\ p < c THEN <<Cd(o,p,h,p), Cd(p,c,c,l)>>
  ELSE IF Bull(cd) /\ c < p /\ p < h THEN <<Cd(o,p,p,l), Cd(p,c,h,c)>>
  ELSE IF Bear(cd) /\ p = c THEN <<Cd(o,c,h,c), Cd(p,p,p,l)>>
  ELSE IF Bull(cd) /\ p = c THEN <<Cd(o,c,c,l), Cd(p,p,h,p)>>
  ELSE IF Bear(cd) /\ p = h THEN <<Cd(o,h,h,o), Cd(h,c,h,l)>>
  ELSE IF Bull(cd) /\ p = l THEN <<Cd(o,l,o,l), Cd(l,c,h,l)>>
  ELSE IF Bear(cd) /\ p = l THEN <<Cd(o,l,h,l), Cd(l,c,c,l)>>
  ELSE IF Bull(cd) /\ p = h THEN <<Cd(o,h,h,l), Cd(h,c,h,c)>>
  ELSE IF Bear(cd) /\ c < p /\ p < o THEN <<Cd(o,p,h,p), Cd(p,c,p,l)>>
  ELSE IF Bull(cd) /\ o < p /\ p < c THEN <<Cd(o,p,p,l), Cd(p,c,h,p)>>
  ELSE <<cd, cd>>
\* _get_fixed_jumped_candle (pc = 0: no previous candle)
FixJump(pc, cd) == IF pc = 0 THEN cd
                   ELSE IF pc < cd.o THEN [cd EXCEPT !.o = pc, !.l = Min2(pc, cd.l)]
                   ELSE IF pc > cd.o THEN [cd EXCEPT !.o = pc, !.h = Max2(pc, cd.h)]
                   ELSE cd
RECURSIVE FixAll(_, _, _)
FixAll(raw, pc, k) == IF k > Len(raw) THEN <<>> ELSE <<FixJump(pc, raw[k])>> \o FixAll(raw, raw[k].c, k + 1)
RECURSIVE MaxH(_), MinL(_)
MaxH(cs) == IF Len(cs) = 1 THEN cs[1].h ELSE Max2(cs[1].h, MaxH(Tail(cs)))
MinL(cs) == IF Len(cs) = 1 THEN cs[1].l ELSE Min2(cs[1].l, MinL(Tail(cs)))
Agg(cs)  == Cd(cs[1].o, cs[Len(cs)].c, MaxH(cs), MinL(cs))

\* ---- _sort_execution_orders(orders, candles) (quirks kept: an order on the open is listed twice; early exit on length)
RECURSIVE InsAsc(_, _), InsDesc(_, _), SortAsc(_), SortDesc(_)
InsAsc(s, x)  == IF s = <<>> THEN <<x>> ELSE IF Head(s).p <= x.p THEN <<Head(s)>> \o InsAsc(Tail(s), x) ELSE <<x>> \o s
InsDesc(s, x) == IF s = <<>> THEN <<x>> ELSE IF Head(s).p >= x.p THEN <<Head(s)>> \o InsDesc(Tail(s), x) ELSE <<x>> \o s
SortAsc(s)  == IF s = <<>> THEN <<>> ELSE InsAsc(SortAsc(SubSeq(s, 1, Len(s) - 1)), s[Len(s)])
SortDesc(s) == IF s = <<>> THEN <<>> ELSE InsDesc(SortDesc(SubSeq(s, 1, Len(s) - 1)), s[Len(s)])
Arrange(inc, cd) ==
  LET onOpen == SelectSeq(inc, LAMBDA x : x.p = cd.o)
      above  == SelectSeq(inc, LAMBDA x : x.p > cd.o)
      below  == SelectSeq(inc, LAMBDA x : ~(x.p > cd.o))
  IN onOpen \o (IF cd.o > cd.c THEN SortAsc(above) \o SortDesc(below) ELSE SortDesc(below) \o SortAsc(above))
SortOne(orders, cd) == IF Len(orders) > 1 THEN Arrange(orders, cd) ELSE orders

\* ---- state of one simulator ----
NoDecl == [has |-> FALSE, q |-> 0, p |-> 0]
Decl(q_, p_) == [has |-> TRUE, q |-> q_, p |-> p_]
NoPlan == [mode |-> "none", sl |-> 0, tp |-> 0, d |-> 0, half |-> FALSE]
\* a partial take-profit: half of the size (at least 1) when the user asks for it
TpQ(q, half) == IF half THEN Max2(1, q \div 2) ELSE q
Side0 ==
  [ q |-> 0, en |-> RI(0), cur |-> 0, wal |-> RI(Start), resB |-> <<>>, resS |-> <<>>,
    ords |-> <<>>, nid |-> 1,
    dsl |-> NoDecl, dtp |-> NoDecl,        \* self.stop_loss / self.take_profit (one row each)
    usl |-> NoDecl, utp |-> NoDecl,        \* self._stop_loss / self._take_profit
    plan |-> NoPlan,                       \* what the scripted user will declare in on_open / on_increased
    tb |-> <<>>, ts |-> <<>>, topen |-> 0, ttype |-> "none",   \* the running trade: buy rows, sell rows, opened minute
    trades |-> <<>>, hooks |-> <<>>, log |-> <<>>, daily |-> <<RI(Start)>>, status |-> "run",
    ext |-> RI(0), extPnl |-> RI(0) ]     \* margin used by / unrealised PnL of the OTHER symbol on the same wallet (WholeRun2)
Running(s) == s.status = "run"
Ord(id_, side_, typ_, q_, p_, ro_, via_) == [id |-> id_, side |-> side_, typ |-> typ_, q |-> q_, p |-> p_, ro |-> ro_, via |-> via_]
ById(s, oid) == LET mm == SelectSeq(s.ords, LAMBDA x : x.id = oid) IN mm[1]
Sg(q) == IF q > 0 THEN 1 ELSE IF q < 0 THEN -1 ELSE 0
ClosingSide(q) == IF q > 0 THEN "sell" ELSE "buy"

\* Position.pnl, Position.total_cost, FuturesExchange.available_margin
EnReal(s)  == RAdd(RI(PB), RMulI(s.en, PS))
Pnl(s)     == IF s.q = 0 THEN RI(0) ELSE RMulI(RSub(RI(Px(s.cur)), EnReal(s)), s.q)
Cost(s)    == IF s.q = 0 THEN RI(0) ELSE RDivI(RMulI(EnReal(s), Abs(s.q)), Lev)
RECURSIVE SumRows(_)
SumRows(rows) == IF rows = <<>> THEN 0 ELSE rows[1][1] * Px(rows[1][2]) + SumRows(Tail(rows))
Spent(s)   == RAdd(RSub(Cost(s), Pnl(s)), Norm(Max2(SumRows(s.resB), SumRows(s.resS)), Lev))
Margin(s)  == RSub(RSub(s.wal, Spent(s)), s.ext)
Equity(s)  == RAdd(RAdd(s.wal, Pnl(s)), s.extPnl)                  \* save_daily_portfolio_balance (futures)

\* ---- Order.__init__ -> on_order_submission (+ Sandbox registration) ----
Submit(s, side, typ, q, p, ro, via) ==
  IF ~Running(s) THEN s
  ELSE IF ~ro /\ RLt(Margin(s), Norm(q * Px(p), Lev)) THEN [s EXCEPT !.status = "InsufficientMargin"]
  ELSE [s EXCEPT !.ords = Append(@, Ord(s.nid, side, typ, q, p, ro, via)), !.nid = @ + 1,
                 !.resB = IF ~ro /\ side = "buy" THEN Append(@, <<q, p>>) ELSE @,
                 !.resS = IF ~ro /\ side = "sell" THEN Append(@, <<q, p>>) ELSE @]
\* Broker.reduce_position_at(qty, price, current_price): seen = the price the strategy sees
ReduceAt(s, q, p, seen, via) ==
  LET side == ClosingSide(s.q) IN
  IF s.q = 0 THEN s                          \* (OrderNotAllowed is not reachable from the scripted user)
  ELSE IF p = seen THEN Submit(s, side, "MARKET", q, p, TRUE, via)
  ELSE IF (s.q > 0) = (p > seen) THEN Submit(s, side, "LIMIT", q, p, TRUE, via)
  ELSE Submit(s, side, "STOP", q, p, TRUE, via)
\* Order.cancel -> on_order_cancellation
Release(s, o) == [s EXCEPT !.resB = IF ~o.ro /\ o.side = "buy" THEN RemoveFirst(@, <<o.q, o.p>>) ELSE @,
                           !.resS = IF ~o.ro /\ o.side = "sell" THEN RemoveFirst(@, <<o.q, o.p>>) ELSE @]
RECURSIVE CancelWhere(_, _, _)
CancelWhere(s, T(_), k) ==
  IF k > Len(s.ords) THEN s
  ELSE IF T(s.ords[k]) THEN CancelWhere(Release([s EXCEPT !.ords = RemoveAt(@, k)], s.ords[k]), T, k)
  ELSE CancelWhere(s, T, k + 1)
\* Strategy._execute_cancel: cancel everything, forget the declarations, fresh order storage
ExecuteCancel(s) == [CancelWhere(s, LAMBDA o : TRUE, 1) EXCEPT !.dsl = NoDecl, !.dtp = NoDecl, !.usl = NoDecl, !.utp = NoDecl]

\* ---- _detect_and_handle_entry_and_exit_modifications (the entry rows are never edited by the scripted user) ----
DetectExit(s, via, seen) ==
  LET d == IF via = "sl" THEN s.dsl ELSE s.dtp
      u == IF via = "sl" THEN s.usl ELSE s.utp
  IN IF s.q = 0 \/ ~d.has \/ d = u \/ ~Running(s) THEN s
     ELSE LET s1 == IF via = "sl" THEN [s EXCEPT !.usl = d] ELSE [s EXCEPT !.utp = d]
              s2 == CancelWhere(s1, LAMBDA o : o.via = via /\ o.side = ClosingSide(s.q), 1)
          IN ReduceAt(s2, Abs(d.q), d.p, seen, via)
DetectMods(s, seen) ==
  IF s.q = 0 \/ ~Running(s) THEN s
  ELSE LET s2 == DetectExit(DetectExit(s, "sl", seen), "tp", seen)
       IN IF Running(s2) /\ s2.q # 0 /\ s2.dsl.has /\ s2.dtp.has /\ s2.dsl = s2.dtp
          THEN [s2 EXCEPT !.status = "InvalidStrategy"]       \* stop-loss and take-profit exactly the same
          ELSE s2

\* ---- the scripted user's hooks ----
UserOnOpen(s, seen) ==
  LET aq == Abs(s.q) IN
  IF s.plan.mode = "open" THEN [s EXCEPT !.dsl = Decl(aq, s.plan.sl), !.dtp = Decl(TpQ(aq, s.plan.half), s.plan.tp)]
  ELSE IF s.plan.mode = "rel" THEN [s EXCEPT !.dsl = Decl(aq, seen - Sg(s.q) * s.plan.d),
                                             !.dtp = Decl(TpQ(aq, s.plan.half), seen + Sg(s.q) * s.plan.d)]
  ELSE s
\* on_increased_position: the exits declared in a hook are re-declared for the new size at their prices
UserOnIncreased(s) ==
  IF s.plan.mode \in {"open", "rel"} /\ s.dsl.has /\ s.dtp.has
  THEN [s EXCEPT !.dsl = Decl(Abs(s.q), s.dsl.p), !.dtp = Decl(TpQ(Abs(s.q), s.plan.half), s.dtp.p)]
  ELSE s

\* Strategy._on_open_position: the prepared stop-loss / take-profit rows, wrong-side rows replaced by a reduce-only
\* market order at the position's current price (_close_at_market), then the user's hook, then the modifications
OnOpen(s, seen) ==
  LET long == s.q > 0
      s1 == IF ~s.usl.has THEN s
            ELSE IF (long /\ RLe(s.en, RI(s.usl.p))) \/ (~long /\ RLe(RI(s.usl.p), s.en))
                 THEN ReduceAt(s, s.usl.q, s.cur, s.cur, "sl")
                 ELSE ReduceAt(s, s.usl.q, s.usl.p, seen, "sl")
      s2 == IF ~s1.utp.has \/ ~Running(s1) THEN s1
            ELSE IF (long /\ RLe(RI(s1.utp.p), s1.en)) \/ (~long /\ RLe(s1.en, RI(s1.utp.p)))
                 THEN ReduceAt(s1, s1.utp.q, s1.cur, s1.cur, "tp")
                 ELSE ReduceAt(s1, s1.utp.q, s1.utp.p, seen, "tp")
  IN DetectMods(UserOnOpen(s2, seen), seen)

\* ---- Order.execute -> completed trades, exchange, position, strategy hooks ----
\* hc = the price the strategy sees in the hooks (close of the partial candle; the current price at a market flush)
CloseTrade(s, minute) ==
  LET long == s.ttype = "long"
      ent  == IF long THEN s.tb ELSE s.ts
      ext  == IF long THEN s.ts ELSE s.tb
      RECURSIVE SumQ(_), SumQP_(_)
      SumQ(r)   == IF r = <<>> THEN 0 ELSE r[1][1] + SumQ(Tail(r))
      SumQP_(r) == IF r = <<>> THEN 0 ELSE r[1][1] * Px(r[1][2]) + SumQP_(Tail(r))
      qty  == SumQ(ent)
      ep   == Norm(SumQP_(ent), qty)
      xp   == Norm(SumQP_(ext), SumQ(ext))
      gross == RMulI(RSub(xp, ep), IF long THEN qty ELSE -qty)
      fee  == Norm((RAdd(ep, xp)[1]) * qty * FeeNum, RAdd(ep, xp)[2] * FeeDen)
  IN [s EXCEPT !.trades = Append(@, [type |-> s.ttype, qty |-> qty, entry |-> ep, exit |-> xp, pnl |-> RSub(gross, fee),
                                     fee |-> fee, opened |-> s.topen, closed |-> minute]),
               !.tb = <<>>, !.ts = <<>>, !.topen = 0, !.ttype = "none"]
Exec(s, oid, minute, hc) ==
  LET o0    == ById(s, oid)
      sg    == IF o0.side = "buy" THEN 1 ELSE -1
      clamp == o0.ro /\ s.q * sg < 0 /\ o0.q > Abs(s.q)             \* Order.execute: never more than the position
      o     == IF clamp THEN [o0 EXCEPT !.q = Abs(s.q)] ELSE o0
      sq    == sg * o.q
      q0    == s.q
      kind  == IF q0 = 0 THEN "open" ELSE IF q0 + sq = 0 THEN "close"
               ELSE IF q0 * sq > 0 THEN (IF o.ro THEN "none" ELSE "inc")
               ELSE IF Abs(sq) > Abs(q0) THEN (IF o.ro THEN "close" ELSE "flip") ELSE "red"
      fee   == Norm(o.q * Px(o.p) * FeeNum, FeeDen)
      cq    == IF kind = "red" THEN o.q ELSE IF kind \in {"close", "flip"} THEN Abs(q0) ELSE 0
      real  == IF cq = 0 THEN RI(0) ELSE RMulI(RSub(RI(Px(o.p)), EnReal(s)), IF q0 > 0 THEN cq ELSE -cq)
      q1    == IF kind = "open" THEN sq ELSE IF kind = "close" THEN 0 ELSE IF kind = "none" THEN q0 ELSE q0 + sq
      e1    == IF kind \in {"open", "flip"} THEN RI(o.p) ELSE IF kind = "close" THEN RI(0)
               ELSE IF kind = "inc" THEN RDivI(RAdd(RI(o.q * o.p), RMulI(s.en, Abs(q0))), o.q + Abs(q0)) ELSE s.en
      s1 == Release([s EXCEPT !.ords = SelectSeq(@, LAMBDA x : x.id # oid),
                              !.log = Append(@, <<o.side, o.typ, o.q, o.p, minute>>),
                              !.tb = IF o.side = "buy" THEN Append(@, <<o.q, o.p>>) ELSE @,
                              !.ts = IF o.side = "sell" THEN Append(@, <<o.q, o.p>>) ELSE @,
                              !.wal = RAdd(RSub(@, fee), real),
                              !.q = q1, !.en = e1, !.cur = hc], o0)
      s2 == IF kind = "open" THEN [s1 EXCEPT !.topen = minute, !.ttype = IF sq > 0 THEN "long" ELSE "short"]
            ELSE IF kind = "close" THEN CloseTrade(s1, minute) ELSE s1
  IN IF kind = "flip" THEN [s EXCEPT !.status = "model:flip"]        \* not reachable from the scripted user
     ELSE IF kind = "open"  THEN OnOpen([s2 EXCEPT !.hooks = Append(@, "open")], hc)
     ELSE IF kind = "close" THEN ExecuteCancel([s2 EXCEPT !.hooks = Append(@, "close")])
     ELSE IF kind = "inc"   THEN DetectMods(UserOnIncreased([s2 EXCEPT !.hooks = Append(@, "inc")]), hc)
     ELSE IF kind = "red"   THEN DetectMods([s2 EXCEPT !.hooks = Append(@, "red")], hc)
     ELSE s2

\* ---- matching: the loop on one (jump-fixed) minute, shared by both simulators since adf54ef1 ----
RECURSIVE LoopM(_, _, _)
LoopM(s, temp, minute) ==
  LET ex == SortOne(SelectSeq(s.ords, LAMBDA x : Includes(temp, x.p)), temp)
  IN IF ex = <<>> \/ ~Running(s) THEN s
     ELSE LET sp == Split(temp, ex[1].p) IN LoopM(Exec(s, ex[1].id, minute, sp[1].c), sp[2], minute)
Minute(s, cd, minute) == LET r == LoopM(s, cd, minute) IN IF Running(r) THEN [r EXCEPT !.cur = cd.c] ELSE r
\* fast simulator: the minute loop runs only when the chunk aggregate selects an order; the clock is the chunk end
RECURSIVE Minutes(_, _, _, _)
Minutes(s, cs, k, base) == IF k > Len(cs) \/ ~Running(s) THEN s ELSE Minutes(Minute(s, cs[k], base + k), cs, k + 1, base)
ChunkF(s, cs, base) ==
  LET real == Agg(cs)
      r == IF SelectSeq(s.ords, LAMBDA x : Includes(real, x.p)) = <<>> THEN s ELSE Minutes(s, cs, 1, base)
  IN IF Running(r) THEN [r EXCEPT !.cur = cs[Len(cs)].c] ELSE r

\* ---- the strategy step (Strategy._execute -> _check) and _execute_market_orders ----
RECURSIVE Flush(_, _)
Flush(s, minute) ==                       \* store.orders.execute_pending_market_orders()
  LET mk == SelectSeq(s.ords, LAMBDA x : x.typ = "MARKET") IN
  IF mk = <<>> \/ ~Running(s) THEN s ELSE Flush(Exec(s, mk[1].id, minute, s.cur), minute)
NoRow == [q |-> 0, p |-> 0]
NoEntry == [dir |-> 0, r1 |-> NoRow, r2 |-> NoRow, mode |-> "none", sl |-> 0, tp |-> 0, d |-> 0, half |-> FALSE]
IdleRow == [cancel |-> FALSE, close |-> FALSE, edit |-> 0, entry |-> NoEntry]
\* Strategy._submit_buy_orders / _submit_sell_orders for one row
SubmitEntryRow(s, dir, r) ==
  LET side == IF dir = 1 THEN "buy" ELSE "sell" IN
  IF r.q = 0 \/ ~Running(s) THEN s
  ELSE IF r.p = s.cur THEN Submit(s, side, "MARKET", r.q, s.cur, FALSE, "entry")
  ELSE IF (dir = 1) = (r.p > s.cur) THEN Submit(s, side, "STOP", r.q, r.p, FALSE, "entry")
  ELSE Submit(s, side, "LIMIT", r.q, r.p, FALSE, "entry")
HasEntry(s) == s.q = 0 /\ s.ords # <<>>
\* Strategy._check up to its market flush: should_cancel_entry, update_position (+ modifications)
DecidePre(s, row) ==
  IF ~Running(s) THEN s ELSE
  LET seen == s.cur                                                    \* self.price is cached for the whole step
      s1 == IF HasEntry(s) /\ row.cancel THEN [ExecuteCancel(s) EXCEPT !.plan = NoPlan] ELSE s
  IN \* _update_position -> update_position(): liquidate() declares (qty, price) as take-profit when in profit, else as
     \* stop-loss; the edit declares a new stop-loss price; then the modifications are handled
     IF s1.q = 0 THEN s1
     ELSE LET u == IF row.close          \* liquidate(): the declared quantity is position.qty, i.e. signed
                   THEN (IF RLt(RI(0), Pnl(s1)) THEN [s1 EXCEPT !.dtp = Decl(s1.q, seen), !.utp = IF LiqFix THEN NoDecl ELSE @]
                         ELSE [s1 EXCEPT !.dsl = Decl(s1.q, seen), !.usl = IF LiqFix THEN NoDecl ELSE @])
                   ELSE IF row.edit # 0 THEN [s1 EXCEPT !.dsl = Decl(Abs(s1.q), row.edit)] ELSE s1
          IN DetectMods(u, seen)
\* ... and after it: should_long / should_short, go_long / go_short, the entry rows
DecideEntry(s3, row) ==
  LET e  == row.entry
      tot == e.r1.q + e.r2.q
  IN IF s3.q = 0 /\ s3.ords = <<>> /\ e.dir # 0 /\ Running(s3)
     THEN LET a == [s3 EXCEPT !.plan = [mode |-> e.mode, sl |-> e.sl, tp |-> e.tp, d |-> e.d, half |-> e.half],
                              !.dsl = IF e.mode = "go" THEN Decl(tot, e.sl) ELSE NoDecl,
                              !.dtp = IF e.mode = "go" THEN Decl(TpQ(tot, e.half), e.tp) ELSE NoDecl,
                              !.usl = IF e.mode = "go" THEN Decl(tot, e.sl) ELSE NoDecl,
                              !.utp = IF e.mode = "go" THEN Decl(TpQ(tot, e.half), e.tp) ELSE NoDecl]
          IN SubmitEntryRow(SubmitEntryRow(a, e.dir, e.r1), e.dir, e.r2)
     ELSE s3
Decide(s, row, minute) == Flush(DecideEntry(Flush(DecidePre(s, row), minute), row), minute)

\* Strategy._terminate + _execute_market_orders, then the final equity sample
Terminate(s, minute) ==
  IF ~Running(s) THEN s ELSE
  LET s1 == Flush(DetectMods(s, s.cur), minute)
      s2 == IF ~Running(s1) THEN s1
            ELSE IF s1.q # 0 THEN Flush(ReduceAt(s1, Abs(s1.q), s1.cur, s1.cur, "close"), minute)
            ELSE IF s1.ords # <<>> THEN ExecuteCancel(s1) ELSE s1
  IN IF Running(s2) THEN [s2 EXCEPT !.daily = Append(@, Equity(s2))] ELSE s2
\* "if i != 0 and i % 1440 == 0: save_daily_portfolio_balance()" with i the index of the minute (chunk start) just processed
Sample(s, i) == IF Running(s) /\ i # 0 /\ i % DayLen = 0 THEN [s EXCEPT !.daily = Append(@, Equity(s))] ELSE s

\* ---- projection compared with the code after every minute (normal) / chunk (fast) ----
OrdTuple(o) == <<o.side, o.typ, o.q, o.p, IF o.ro THEN 1 ELSE 0>>
OrdBag(s) == BagOf([k \in 1..Len(s.ords) |-> OrdTuple(s.ords[k])])
=============================================================================
