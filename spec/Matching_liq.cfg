SPECIFICATION Spec
CHECK_DEADLOCK FALSE
CONSTANTS K = 3 MaxOrders = 2 MaxReact = 1 Liq = TRUE
INVARIANT NoMissedFill
INVARIANT NoMissedInRange
INVARIANT TempFollowsPath
INVARIANT SkipBranchesDead
INVARIANT MarketFilledInMinute
INVARIANT TypeOK
INVARIANT LiqEffect
PROPERTY FillAtFirstReach
PROPERTY NeverBeforeSubmit
PROPERTY FinalIsFinal
PROPERTY PathOrder
PROPERTY ReactionAfterFill
PROPERTY LiqIff
PROPERTY LiqOnlyInCheck
