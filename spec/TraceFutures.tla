---------------------------- MODULE TraceFutures ----------------------------
(* C03 / C05, code -> spec.  Validates recorded executions of the real futures  *)
(* account (Order / Position / FuturesExchange / OrdersState / ClosedTrades     *)
(* objects driven by harness/drivers/acct.py) against Futures.tla.              *)
(* Refinement trace spec: every event carries the operation, its arguments and  *)
(* the state observed after the call.  The effect operator of Futures.tla is    *)
(* re-applied to the PREVIOUS logged state and the projection of the property   *)
(* under test is compared with the logged state:                                *)
(*   Proj = "acct" (C03): wallet, position, average entry, accept/reject;       *)
(*       available margin, PnL and the reserved tables are evaluated on every   *)
(*       logged state from the order STATUSES alone (reference account);        *)
(*   Proj = "life" (C05): order records and statuses, orders reported active,   *)
(*       trade membership; everything for a call on a final order (no-op).      *)
(* One initial state per trace, deterministic, total: a mismatch is a verdict,  *)
(* never a disabled step.  Constants of a batch (Syms, Lev, FeeNum, FeeDen,     *)
(* CancelOnClose, Proj) come from the cfg written by the harness.               *)
EXTENDS Futures, IOUtils
CONSTANT Proj
Data == JsonDeserialize(IOEnv.TRACE_FILE)
Traces == Data.traces
VARIABLES tid, l, verdict, pok, known   \* pok: the previous logged state satisfied the state checks
tvars == <<st, hist, tid, l, verdict, pok, known>>
Ev(t) == Traces[t].ev

FromLog(P) ==
  [ c0 |-> P.cur, ord |-> P.ord, alist |-> P.alist, pending |-> P.pending, trades |-> P.trades, temp |-> P.temp,
    wallet |-> P.wallet, pq |-> P.pq, entry |-> P.entry, cur |-> P.cur, resB |-> P.resB, resS |-> P.resS,
    rej |-> FALSE, gfee |-> RI(0), gcash |-> ZeroCash, gm |-> NoGm ]

IdsOK(S, ids) == \A k \in 1..Len(ids) : ids[k] \in 1..Len(S.ord)
WellFormed(P) ==
  /\ IdsOK(P, P.pending) /\ \A k \in 1..Len(P.trades) : IdsOK(P, P.trades[k])
  /\ \A s \in Syms : IdsOK(P, P.alist[s]) /\ IdsOK(P, P.temp[s])
  /\ \A i \in 1..Len(P.ord) : P.ord[i].st \in {"A", "E", "C"} /\ P.ord[i].sym \in Syms
  /\ P.wallet[2] > 0 /\ \A s \in Syms : P.entry[s][2] > 0

LifeDiff(X, P) ==
  IF Len(X.ord) # Len(P.ord) THEN "orders-registered"
  ELSE IF \E i \in 1..Len(X.ord) : X.ord[i].st # P.ord[i].st THEN "order-status"
  ELSE IF X.ord # P.ord THEN "order-record"
  ELSE "ok"
AcctDiff(X, P) ==
  IF X.pq # P.pq THEN "position-qty"
  ELSE IF X.entry # P.entry THEN "entry-price"
  ELSE IF X.wallet # P.wallet THEN "wallet"
  ELSE "ok"
Diff(X, P, dup) ==
  IF Proj = "acct" THEN AcctDiff(X, P)
  ELSE LET d == LifeDiff(X, P) IN
       IF d # "ok" \/ ~dup THEN d
       ELSE IF AcctDiff(X, P) # "ok" THEN AcctDiff(X, P)
       ELSE IF \E s \in Syms : BagOf(X.resB[s]) # BagOf(P.resB[s]) \/ BagOf(X.resS[s]) # BagOf(P.resS[s])
            THEN "reserved-margin" ELSE "ok"

\* reference quantities evaluated on the logged state itself
AcctChecks(post, P) ==
  IF post.margin # RefMargin(P) THEN "available-margin"
  ELSE IF \E s \in Syms : post.pnl[s] # PnlOf(P.pq[s], P.entry[s], P.cur[s]) THEN "pnl"
  ELSE IF ~ReservedBagOf(P) THEN "reserved-bag"
  ELSE IF ~FlatHasNoEntryOf(P) THEN "entry-when-flat"
  ELSE "ok"
LifeChecks(post, P) ==
  IF \E s \in Syms : SeqSet(post.areported[s]) # ActiveIds(P, s) \/ Len(post.areported[s]) # Cardinality(ActiveIds(P, s))
  THEN "active-orders-reported"
  ELSE IF \E s \in Syms : post.acount[s] # Cardinality(ActiveIds(P, s)) THEN "active-orders-count"
  ELSE IF ~OneTradeOf(P) THEN "trade-membership"
  ELSE "ok"
PostChecks(post, P) == IF Proj = "acct" THEN AcctChecks(post, P) ELSE LifeChecks(post, P)

\* the code's float arithmetic is exact only on binary fractions: dyadic wallet and entries AND a power-of-two
\* leverage (16 / 5 is already rounded)
\* (and quantities that are binary fractions themselves: histories with 0.1 / 0.2 / 0.3 are logged x 10)
DecimalQty == "QD" \in DOMAIN Traces[tid].hdr /\ Traces[tid].hdr.QD # 1
AllDyadic(S) == ~DecimalQty /\ IsPow2(Lev) /\ Dyadic(S.wallet) /\ \A s \in Syms : Dyadic(S.entry[s])
OrderOf(e) == [sym |-> e.sym, side |-> e.side, typ |-> e.typ, q |-> e.q, p |-> e.p, ro |-> e.ro, st |-> "A"]
IsDup(S, e) ==
  CASE e.k \in {"exec", "cancel"} -> S.ord[e.id].st # "A"
    [] e.k = "flush" -> \A i \in SeqSet(S.pending) : S.ord[i].st # "A"
    [] e.k = "cancelall" -> \A i \in SeqSet(S.alist[e.sym]) : S.ord[i].st # "A"
    [] e.k = "prune" -> TRUE
    [] OTHER -> FALSE
Tag(S, e) ==
  CASE e.k = "exec" -> IF IsDup(S, e) THEN "exec/duplicate"
                       ELSE LET o == S.ord[e.id] IN "exec/" \o Kind(S.pq[o.sym], Sgn(o.side) * o.q, o.ro)
    [] e.k = "cancel" -> IF IsDup(S, e) THEN "cancel/duplicate" ELSE "cancel"
    [] e.k = "flush" -> IF IsDup(S, e) THEN "flush/duplicate" ELSE "flush"
    [] e.k = "cancelall" -> IF IsDup(S, e) THEN "cancelall/duplicate" ELSE "cancelall"
    [] OTHER -> e.k
Eff(S, e) ==
  CASE e.k = "submit" -> SubmitAccept(Z(S), OrderOf(e))
    [] e.k = "cancel" -> CancelOne(Z(S), e.id)
    [] e.k = "exec" -> ExecuteEff(Z(S), e.id)
    [] e.k = "flush" -> FlushEff(Z(S))
    [] e.k = "cancelall" -> CancelAllEff(Z(S), e.sym)
    [] e.k = "prune" -> PruneEff(Z(S), e.sym)
    [] e.k = "price" -> PriceEff(Z(S), e.sym, e.p)
    [] e.k = "obs" -> S                         \* observation point: nothing was called
R(v, k) == [v |-> v, k |-> k]
Both(S, e, P, pk) ==
  LET tag == Tag(S, e)
      d == Diff(Eff(S, e), P, IsDup(S, e))
      pc == IF pk THEN PostChecks(e.post, P) ELSE "ok"
  IN IF d # "ok" THEN R(tag \o ":" \o d, "")
     ELSE IF pc # "ok" THEN R(tag \o ":" \o pc, "") ELSE R("ok", "")

Knife(S, e) == e.k = "submit" /\ ~e.ro /\ RefMargin(S) = Norm(e.q * e.p, Lev) /\ ~AllDyadic(S)
Judge(S, e, pk) ==
  LET P == FromLog(e.post) IN
  IF ~WellFormed(S) THEN R(e.k \o ":ill-formed-pre-state", "")
  ELSE IF e.exc # "none" THEN R(e.k \o ":raises:" \o e.exc, "")
  ELSE IF ~WellFormed(P) THEN R(e.k \o ":unknown-order-in-registries", "")
  ELSE IF Proj = "acct" /\ "off" \in DOMAIN e.post /\ Len(e.post.off) > 0 THEN R(e.k \o ":value-off-the-lattice:" \o e.post.off[1], "")
  ELSE IF e.k \in {"cancel", "exec"} /\ e.id \notin 1..Len(S.ord) THEN R(e.k \o ":unknown-order", "")
  ELSE IF e.k = "submit" /\ Proj = "acct" THEN
         LET o == OrderOf(e)
             mustReject == ~o.ro /\ RLt(RefMargin(S), Norm(o.q * o.p, Lev))
             knife == Knife(S, e)           \* float comparison of equal non-dyadic values: not judged, counted
         IN IF ~knife /\ mustReject /\ e.acc THEN R("submit:accepted-over-margin", "")
            ELSE IF ~knife /\ ~mustReject /\ ~e.acc THEN R("submit:rejected-within-margin", "")
            ELSE IF ~e.acc THEN R("ok", "")                          \* a rejected submission ends the sequence
            ELSE Both(S, e, P, pk)
  ELSE IF e.k = "submit" /\ ~e.acc THEN R("ok", "")
  ELSE IF e.k \in {"submit", "cancel", "exec", "flush", "cancelall", "prune", "price", "obs"} THEN Both(S, e, P, pk)
  ELSE R("log:unknown-event", "")

\* in-vivo traces (hdr.haspre): other things happen between two order calls, so every event carries the state
\* observed before the call; object-level traces use the previous logged post-state
HasPre == "haspre" \in DOMAIN Traces[tid].hdr /\ Traces[tid].hdr.haspre
\* (e.sp: the logged pre-state is identical to the previous logged post-state and is not repeated in the file)
PreOf(e) == IF HasPre /\ ~e.sp THEN FromLog(e.pre) ELSE st
PokOf(e) == IF HasPre /\ ~e.sp THEN WellFormed(FromLog(e.pre)) /\ PostChecks(e.pre, FromLog(e.pre)) = "ok" ELSE pok
\* in-vivo: between two order calls anything may happen - except to an order that is final: its record (status,
\* quantity, price, flags) in the state observed before a call is the one logged when the previous call returned
FinalKept(S, e) ==
  (HasPre /\ ~e.sp) =>
     /\ Len(e.pre.ord) >= Len(S.ord)
     /\ \A i \in 1..Len(S.ord) : S.ord[i].st # "A" => e.pre.ord[i] = S.ord[i]
InitOK == WellFormed(FromLog(Traces[tid].init))
TInit == /\ tid \in 1..Len(Traces) /\ l = 1 /\ hist = <<>> /\ known = {}
         /\ st = FromLog(Traces[tid].init)
         /\ pok = (InitOK /\ PostChecks(Traces[tid].init, FromLog(Traces[tid].init)) = "ok")
         /\ verdict = (IF ~InitOK THEN "init:ill-formed"
                       ELSE IF Traces[tid].hdr.judgeinit /\ PostChecks(Traces[tid].init, FromLog(Traces[tid].init)) # "ok"
                            THEN "init:" \o PostChecks(Traces[tid].init, FromLog(Traces[tid].init)) ELSE "ok")
TStep == /\ verdict = "ok" /\ l <= Len(Ev(tid))
         /\ LET e == Ev(tid)[l]
                  j == IF FinalKept(st, e) THEN Judge(PreOf(e), e, IF e.k = "obs" THEN pok ELSE PokOf(e))
                       ELSE R("between-calls:final-order-changed", "") IN
              /\ verdict' = j.v
              /\ known' = IF j.k = "" THEN known ELSE known \cup {j.k}
              /\ st' = FromLog(e.post)
              /\ pok' = ((e.k # "submit" \/ e.acc) /\ WellFormed(FromLog(e.post)) /\ PostChecks(e.post, FromLog(e.post)) = "ok")
              /\ (Proj = "acct" /\ Knife(PreOf(e), e) => PrintT(<<"KNIFE", Traces[tid].id, l>>))
         /\ l' = l + 1 /\ UNCHANGED <<tid, hist>>
TSpec == TInit /\ [][TStep]_tvars
Finished == verdict # "ok" \/ l > Len(Ev(tid))
SetToSeq(S) == LET RECURSIVE F(_)
                   F(T) == IF T = {} THEN <<>> ELSE LET x == CHOOSE y \in T : TRUE IN <<x>> \o F(T \ {x})
               IN F(S)
Report == Finished => PrintT(<<"VERDICT", Traces[tid].id, l - 1, verdict, SetToSeq(known)>>)
=============================================================================
