------------------------------ MODULE AcctBase ------------------------------
(* Shared by Futures.tla / Spot.tla (C03, C04, C05): gcd-normalised rationals   *)
(* <<num, den>> (den > 0), small sequence helpers, bags of <<qty, price>> rows. *)
(* TLC integers are 32 bit: the instances keep num*den products below 2^31 and  *)
(* an overflow is a TLC error (machinery failure), never a verdict.             *)
EXTENDS Integers, Sequences, FiniteSets

Abs(x) == IF x < 0 THEN -x ELSE x
Min2(a, b) == IF a < b THEN a ELSE b
Max2(a, b) == IF a > b THEN a ELSE b
RECURSIVE Gcd(_, _)
Gcd(a, b) == IF b = 0 THEN a ELSE Gcd(b, a % b)
Norm(n, d) == LET g == Gcd(Abs(n), d) IN IF n = 0 THEN <<0, 1>> ELSE <<n \div g, d \div g>>
RI(k) == <<k, 1>>
RAdd(a, b) == Norm(a[1] * b[2] + b[1] * a[2], a[2] * b[2])
RSub(a, b) == Norm(a[1] * b[2] - b[1] * a[2], a[2] * b[2])
RMulI(a, k) == Norm(a[1] * k, a[2])
RDivI(a, k) == Norm(a[1], a[2] * k)            \* k > 0
RLt(a, b) == a[1] * b[2] < b[1] * a[2]
RLe(a, b) == a[1] * b[2] <= b[1] * a[2]
RMax(a, b) == IF RLt(a, b) THEN b ELSE a
RNeg(a) == <<-a[1], a[2]>>
RECURSIVE IsPow2(_)
IsPow2(n) == n = 1 \/ (n % 2 = 0 /\ IsPow2(n \div 2))
Dyadic(a) == IsPow2(a[2])                      \* exactly representable as a double (small values)

\* ---- sequences
RemoveAt(s, k) == SubSeq(s, 1, k - 1) \o SubSeq(s, k + 1, Len(s))
FirstIdx(s, x) == LET idx == {i \in 1..Len(s) : s[i] = x}
                  IN IF idx = {} THEN 0 ELSE CHOOSE i \in idx : \A j \in idx : i <= j
RemoveFirst(s, x) == LET k == FirstIdx(s, x) IN IF k = 0 THEN s ELSE RemoveAt(s, k)
SeqSet(s) == {s[i] : i \in 1..Len(s)}
Filter(s, T(_)) == SelectSeq(s, T)
RECURSIVE SumQP(_)
SumQP(s) == IF s = <<>> THEN 0 ELSE Abs(Head(s)[1]) * Head(s)[2] + SumQP(Tail(s))
RECURSIVE SumSeq(_)
SumSeq(s) == IF s = <<>> THEN 0 ELSE Head(s) + SumSeq(Tail(s))
RECURSIVE FoldIdx(_, _, _, _)
\* left fold of Op(acc, s[i]) over i = k..Len(s)
FoldIdx(Op(_, _), acc, s, k) == IF k > Len(s) THEN acc ELSE FoldIdx(Op, Op(acc, s[k]), s, k + 1)
BagOf(s) == [x \in SeqSet(s) |-> Cardinality({i \in 1..Len(s) : s[i] = x})]
RECURSIVE Flatten(_)
Flatten(ss) == IF ss = <<>> THEN <<>> ELSE Head(ss) \o Flatten(Tail(ss))
Count(s, x) == Cardinality({i \in 1..Len(s) : s[i] = x})
=============================================================================
