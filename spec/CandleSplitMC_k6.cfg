SPECIFICATION Spec
CHECK_DEADLOCK FALSE
CONSTANT K = 6
INVARIANT ContractHolds
INVARIANT NeverNone
INVARIANT Continuous
