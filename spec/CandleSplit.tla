----------------------------- MODULE CandleSplit -----------------------------
(* C08, second half.  services.candle.split_candle transcribed branch by branch *)
(* (Split), and its CONTRACT stated independently (SplitContract): splitting a  *)
(* candle at any price inside its range yields two valid candles that keep the  *)
(* original open, close, high and low and - for any price other than the open - *)
(* meet at the split price.                                                     *)
(* Definitions only; CandleSplitMC.tla is the model TLC explores, Matching.tla  *)
(* and FastMatching.tla use Split, TraceSplit.tla uses the contract.            *)
EXTENDS Lattice

NoCandle == Cd(0, 0, 0, 0)
\* the 14 branches in source order; <<earlier, later>>; the final ELSE is the implicit `return None`
Split(cd, p) ==
  LET o == cd.o c == cd.c h == cd.h l == cd.l IN
  IF Bull(cd) /\ l < p /\ p < o THEN <<Cd(o,p,o,p), Cd(p,c,h,l)>>
  ELSE IF p = o THEN <<cd, cd>>
  ELSE IF Bear(cd) /\ o < p /\ p < h THEN <<Cd(o,p,p,o), Cd(p,c,h,l)>>
  ELSE IF Bear(cd) /\ l < p /\ p < c THEN <<Cd(o,p,h,p), Cd(p,c,c,l)>>
  ELSE IF Bull(cd) /\ c < p /\ p < h THEN <<Cd(o,p,p,l), Cd(p,c,h,c)>>
  ELSE IF Bear(cd) /\ p = c THEN <<Cd(o,c,h,c), Cd(p,p,p,l)>>
  ELSE IF Bull(cd) /\ p = c THEN <<Cd(o,c,c,l), Cd(p,p,h,p)>>
  ELSE IF Bear(cd) /\ p = h THEN <<Cd(o,h,h,o), Cd(h,c,h,l)>>
  ELSE IF Bull(cd) /\ p = l THEN <<Cd(o,l,o,l), Cd(l,c,h,l)>>
  ELSE IF Bear(cd) /\ p = l THEN <<Cd(o,l,h,l), Cd(l,c,c,l)>>
  ELSE IF Bull(cd) /\ p = h THEN <<Cd(o,h,h,l), Cd(h,c,h,c)>>
  ELSE IF Bear(cd) /\ c < p /\ p < o THEN <<Cd(o,p,h,p), Cd(p,c,p,l)>>
  ELSE IF Bull(cd) /\ o < p /\ p < c THEN <<Cd(o,p,p,l), Cd(p,c,h,p)>>
  ELSE <<NoCandle, NoCandle>>
BranchOf(cd, p) ==
  LET o == cd.o c == cd.c h == cd.h l == cd.l IN
  IF Bull(cd) /\ l < p /\ p < o THEN 1 ELSE IF p = o THEN 2
  ELSE IF Bear(cd) /\ o < p /\ p < h THEN 3 ELSE IF Bear(cd) /\ l < p /\ p < c THEN 4
  ELSE IF Bull(cd) /\ c < p /\ p < h THEN 5 ELSE IF Bear(cd) /\ p = c THEN 6
  ELSE IF Bull(cd) /\ p = c THEN 7 ELSE IF Bear(cd) /\ p = h THEN 8
  ELSE IF Bull(cd) /\ p = l THEN 9 ELSE IF Bear(cd) /\ p = l THEN 10
  ELSE IF Bull(cd) /\ p = h THEN 11 ELSE IF Bear(cd) /\ c < p /\ p < o THEN 12
  ELSE IF Bull(cd) /\ o < p /\ p < c THEN 13 ELSE 14

\* ---- the contract (property level; says nothing about branches) ----
\* first failing clause, "ok" when the pair <<e, r>> is an admissible split of cd at p
SplitVerdict(cd, p, e, r) ==
  IF ~ValidCandle(e) THEN "earlier-part-not-a-valid-candle"
  ELSE IF ~ValidCandle(r) THEN "later-part-not-a-valid-candle"
  ELSE IF e.o # cd.o THEN "open-not-kept"
  ELSE IF r.c # cd.c THEN "close-not-kept"
  ELSE IF Max2(e.h, r.h) # cd.h THEN "high-not-kept"
  ELSE IF Min2(e.l, r.l) # cd.l THEN "low-not-kept"
  ELSE IF p # cd.o /\ e.c # p THEN "earlier-part-does-not-end-at-the-price"
  ELSE IF p # cd.o /\ r.o # p THEN "later-part-does-not-start-at-the-price"
  ELSE "ok"
SplitContract(cd, p, e, r) == SplitVerdict(cd, p, e, r) = "ok"
=============================================================================
