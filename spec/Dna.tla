--------------------------------- MODULE Dna ---------------------------------
(* C19 (M).  All genes x all declarations on a lattice: the decoding definition *)
(* (DnaDef) is walked gene by gene and the property clauses are checked in      *)
(* every state / on every step:                                                *)
(*   TypedOK, InRange, FirstIsMin, LastIsMax (invariants), Monotone (action    *)
(*   property).  One behaviour per declaration: g = GMin, GMin+1, .. GMax.     *)
(* Classes: "integral" = float declarations and int declarations with integer  *)
(* bounds, "fractional" = int declarations with a fractional bound.            *)
EXTENDS DnaDef, TLC
CONSTANTS NegLo, Hi,     \* bounds range -NegLo..Hi in units of 1/Unit (TLC's cfg parser has no negative literals)
          Unit,
          Class,         \* "integral" | "fractional" | "all"
          Rule           \* "round" | "round_clamp"
Lo == 0 - NegLo
VARIABLES typ, mn, mx, g
vars == <<typ, mn, mx, g>>

InClass(t, a, b) ==
  LET frac == t = "int" /\ ~(IntegralBound(a, Unit) /\ IntegralBound(b, Unit))
  IN /\ Satisfiable(t, a, b, Unit)
     /\ (Class = "integral" => ~frac) /\ (Class = "fractional" => frac)

Init == /\ typ \in {"int", "float"} /\ mn \in Lo..Hi /\ mx \in Lo..Hi /\ mn <= mx
        /\ InClass(typ, mn, mx) /\ g = GMin
NextGene == g < GMax /\ g' = g + 1 /\ UNCHANGED <<typ, mn, mx>>
Spec == Init /\ [][NextGene]_vars

V == Decode(typ, g, mn, mx, Unit, Rule)
TypedOK == TypedP(typ, V)
InRange == InRangeP(V, mn, mx, Unit)
FirstIsMin == (g = GMin /\ EndPointApplies(typ, mn, Unit)) => RatEQ(V, Bound(mn, Unit))
LastIsMax == (g = GMax /\ EndPointApplies(typ, mx, Unit)) => RatEQ(V, Bound(mx, Unit))
Monotone == [][RatLE(V, V')]_vars
\* ties of the rounding (the float computation could fall on either side) exist only at the two ends,
\* where the float computation is exact: (0 * range) / 79 + min and (79 * range) / 79 + min
TiesOnlyAtEnds == (typ = "int" /\ IsTie(Num(g, mn, mx), Den(Unit))) => (g = GMin \/ g = GMax \/ (mx - mn) % Span = 0)
=============================================================================
