---------------------------- MODULE TraceMetrics ----------------------------
(* C16, code -> spec.  One trace = one call of the real metrics.trades(trades,  *)
(* daily_balance).  Events: one "trade" per ClosedTrade handed to the function  *)
(* (pnl and fee exactly as the real object reports them, in units of 1/U), one  *)
(* "bal" per daily balance (positive integers in units of 1/U), then one         *)
(* "metrics" event with the returned dictionary.  The spec folds the inputs      *)
(* event by event (MetricsDef: AggStep, DDStep) and judges the reported values   *)
(* in the last step; verdict = the first wrong trade metric and every wrong       *)
(* equity ratio (<<>> = accepted).                                               *)
(*                                                                             *)
(* A reported float x arrives as [nan, inf, n, d, close, sign]: n/d is the       *)
(* fraction with denominator <= MaxDen nearest to x and close says that it is    *)
(* within 1e-9 (relative) of x.  Expected values are exact rationals; they are   *)
(* compared after normalisation, no tolerance.  An expected value whose          *)
(* denominator exceeds MaxDen is outside the lattice (not judged, counted).      *)
EXTENDS MetricsDef, TLC, Json, IOUtils
Data == JsonDeserialize(IOEnv.TRACE_FILE)
Traces == Data.traces
MaxDen == 20000
VARIABLES tid, l, agg, nb, bals, d1, d2, verdict, skipped
vars == <<tid, l, agg, nb, bals, d1, d2, verdict, skipped>>
Ev(t) == Traces[t].ev
Hdr(t) == Traces[t].hdr
Init == /\ tid \in 1..Len(Traces) /\ l = 1 /\ agg = Agg0 /\ nb = 0 /\ bals = <<>> /\ d1 = DD0(1) /\ d2 = DD0(1)
        /\ verdict = <<>> /\ skipped = 0

Inside(r) == Norm(r)[2] <= MaxDen
Match(x, r) == ~x.nan /\ x.inf = 0 /\ x.close /\ <<x.n, x.d>> = Norm(r)
IsInt(x, v) == Match(x, <<v, 1>>)
Undefined(x) == x.nan \/ (x.inf = 0 /\ x.close /\ x.n = 0)        \* an undefined average is reported as NaN (or 0)

\* the list of (name, ok) checks of the trade metrics, in the order of the property statement
\* net profit percentage = 100 * net profit / starting balance; the starting balance is the rational sn / sd
Npp(a, U, sn, sd) == RatMul(Norm(<<100 * a.net, U>>), Norm(<<sd, sn>>))
TradeChecks(m, a, U, sn, sd) ==
  << <<"total", IsInt(m.total, a.n)>>,
     <<"total_winning_trades", IsInt(m.total_winning_trades, a.w)>>,
     <<"total_losing_trades", IsInt(m.total_losing_trades, a.l)>>,
     <<"win_rate", Match(m.win_rate, IF a.w = 0 THEN <<0, 1>> ELSE <<a.w, a.w + a.l>>)>>,
     <<"net_profit", Match(m.net_profit, <<a.net, U>>)>>,
     <<"gross_profit", Match(m.gross_profit, <<a.gp, U>>)>>,
     <<"gross_loss", Match(m.gross_loss, <<a.gl, U>>)>>,
     <<"starting_balance", Match(m.starting_balance, <<sn, sd>>)>>,
     <<"net_profit_percentage", ~Inside(Npp(a, U, sn, sd)) \/ Match(m.net_profit_percentage, Npp(a, U, sn, sd))>>,
     <<"longs_count", IsInt(m.longs_count, a.longs)>>,
     <<"shorts_count", IsInt(m.shorts_count, a.shorts)>>,
     <<"longs_percentage", Match(m.longs_percentage, <<100 * a.longs, a.n>>)>>,
     <<"shorts_percentage", Match(m.shorts_percentage, <<100 * a.shorts, a.n>>)>>,
     <<"fee", Match(m.fee, <<a.fee, U>>)>>,
     <<"largest_winning_trade", Match(m.largest_winning_trade, <<a.lw, U>>)>>,
     <<"largest_losing_trade", Match(m.largest_losing_trade, <<a.ll, U>>)>>,
     <<"average_win", IF a.w = 0 THEN Undefined(m.average_win) ELSE ~Inside(<<a.gp, U * a.w>>) \/ Match(m.average_win, <<a.gp, U * a.w>>)>>,
     <<"average_loss", IF a.l = 0 THEN Undefined(m.average_loss) ELSE ~Inside(<<-a.gl, U * a.l>>) \/ Match(m.average_loss, <<-a.gl, U * a.l>>)>>,
     <<"expectancy", IF a.w + a.l = 0 THEN IsInt(m.expectancy, 0)
                     ELSE ~Inside(<<a.net, U * (a.w + a.l)>>) \/ Match(m.expectancy, <<a.net, U * (a.w + a.l)>>)>>,
     <<"winning_streak", IsInt(m.winning_streak, a.ws)>>,
     <<"losing_streak", IsInt(m.losing_streak, a.ls)>>,
     <<"current_streak", IsInt(m.current_streak, a.cur)>> >>
SkippedTrade(a, U, sn, sd) ==
  (IF Inside(Npp(a, U, sn, sd)) THEN 0 ELSE 1) + (IF a.w = 0 \/ Inside(<<a.gp, U * a.w>>) THEN 0 ELSE 1)
  + (IF a.l = 0 \/ Inside(<<-a.gl, U * a.l>>) THEN 0 ELSE 1) + (IF a.w + a.l = 0 \/ Inside(<<a.net, U * (a.w + a.l)>>) THEN 0 ELSE 1)

Times100(r) == <<100 * r[1], r[2]>>
\* equity ratios; `short` = the balance list is short and small enough for the return-based ratios.
\* Every ratio is judged on its own: the result is the sequence of failing clauses (<<>> = all fine).
Keep(seq) == SelectSeq(seq, LAMBDA v : v # "ok")
EquityFails(m, short) ==
  LET std == Times100(DDValue(d1))  impl == Times100(DDValue(d2))
      dd == IF m.max_drawdown.nan \/ m.max_drawdown.inf # 0 THEN "max_drawdown:not-a-number"
            ELSE IF m.max_drawdown.sign > 0 THEN "max_drawdown:positive"
            ELSE IF Inside(std) /\ ~Match(m.max_drawdown, std)
                 THEN (IF Match(m.max_drawdown, impl) THEN "max_drawdown:starting-balance-not-a-peak" ELSE "max_drawdown")
            ELSE "ok"
      om == IF short /\ OmegaDefined(bals) /\ Inside(Omega(bals)) /\ ~Match(m.omega_ratio, Omega(bals)) THEN "omega_ratio" ELSE "ok"
      sh == IF short /\ SharpeDefined(bals) /\ Inside(Sharpe2(bals))
               /\ ~(Match(m.sharpe2, Sharpe2(bals)) /\ (Sharpe2(bals)[1] = 0 \/ m.sharpe_ratio.sign = MeanSign(bals)))
            THEN "sharpe_ratio" ELSE "ok"
      so == IF short /\ SortinoDefined(bals) /\ Inside(Sortino2(bals))
               /\ ~(Match(m.sortino2, Sortino2(bals)) /\ (Sortino2(bals)[1] = 0 \/ m.sortino_ratio.sign = MeanSign(bals)))
            THEN (IF Inside(Sortino2Impl(bals)) /\ Match(m.sortino2, Sortino2Impl(bals))
                  THEN "sortino_ratio:downside-deviation-divided-by-samples-not-returns" ELSE "sortino_ratio")
            ELSE "ok"
      c == Norm(<<bals[Len(bals)] - bals[1], bals[1]>>)
      ar == IF nb = 366 /\ Inside(Times100(c)) /\ ~Match(m.annual_return, Times100(c)) THEN "annual_return" ELSE "ok"
      cal(d) == IF d[1] = 0 THEN <<0, 1>> ELSE Norm(<<c[1] * d[2], c[2] * (-d[1])>>)
      cs == cal(DDValue(d1))  ci == cal(DDValue(d2))
      ca == IF nb = 366 /\ Inside(cs) /\ ~Match(m.calmar_ratio, cs)
            \* the understated drawdown propagates into Calmar; when that variant's value is outside the lattice it cannot
            \* be confirmed digit by digit and the mismatch is attributed to the drawdown defect established above
            THEN (IF DDValue(d1) # DDValue(d2) /\ (~Inside(ci) \/ Match(m.calmar_ratio, ci))
                  THEN "calmar_ratio:starting-balance-not-a-peak" ELSE "calmar_ratio") ELSE "ok"
  IN Keep(<<dd, om, sh, so, ar, ca>>)

FirstBad(checks) == LET bad == {i \in DOMAIN checks : ~checks[i][2]} IN
                    IF bad = {} THEN "ok" ELSE checks[CHOOSE i \in bad : \A j \in bad : i <= j][1]

Step ==
  /\ verdict = <<>> /\ l <= Len(Ev(tid))
  /\ LET e == Ev(tid)[l]  h == Hdr(tid) IN
     CASE e.k = "trade" ->
            /\ agg' = AggStep(agg, [pnl |-> e.pnl, typ |-> e.typ, fee |-> e.fee])
            /\ UNCHANGED <<nb, bals, d1, d2, verdict, skipped>>
       [] e.k = "bal" ->
            /\ nb' = nb + 1
            \* short lists are kept whole; of a long list only the first and the latest sample are kept
            /\ bals' = (IF h.short \/ nb = 0 THEN Append(bals, e.x) ELSE <<bals[1], e.x>>)
            /\ d1' = (IF nb = 0 THEN DD0(e.x) ELSE DDStep(d1, e.x))
            /\ d2' = (IF nb <= 1 THEN DD0(e.x) ELSE DDStep(d2, e.x))
            /\ UNCHANGED <<agg, verdict, skipped>>
       [] e.k = "metrics" ->
            /\ verdict' = (IF e.exc # "none" THEN <<"raises:" \o e.exc>>
                           ELSE IF agg.n = 0 THEN Keep(<<FirstBad(<< <<"total", IsInt(e.m.total, 0)>>, <<"win_rate", IsInt(e.m.win_rate, 0)>>,
                                                             <<"net_profit_percentage", IsInt(e.m.net_profit_percentage, 0)>> >>)>>)
                           ELSE Keep(<<FirstBad(TradeChecks(e.m, agg, h.U, h.sn, h.sd))>>)
                                \o (IF nb >= 2 THEN EquityFails(e.m, h.short) ELSE <<>>)
                                \* the caller's daily-balance list is an input: the call must leave it as it was
                                \o (IF e.argsame THEN <<>> ELSE <<"daily-balance-argument-modified">>))
            /\ skipped' = (IF agg.n = 0 THEN 0 ELSE SkippedTrade(agg, h.U, h.sn, h.sd))
            /\ UNCHANGED <<agg, nb, bals, d1, d2>>
  /\ l' = l + 1 /\ UNCHANGED tid
Spec == Init /\ [][Step]_vars
Finished == verdict # <<>> \/ l > Len(Ev(tid))
Report == Finished => PrintT(<<"VERDICT", Traces[tid].id, l - 1, verdict, skipped>>)
=============================================================================
