----------------------------- MODULE CandleStore -----------------------------
(* C07 (and the store side of C20).  Implementation-shaped model of how the two *)
(* backtest simulators call the candle store for ONE symbol, with SYMBOLIC      *)
(* aggregation: a one-minute candle is <<minute, version>> (version 0 = the     *)
(* full candle, k > 0 = the k-th partial candle published at a fill), a         *)
(* timeframe candle is [ts, src] with src the sequence of one-minute candles it *)
(* was built from.  Any wrong window, off-by-one slice or stale source is       *)
(* therefore visible without enumerating prices.                                *)
(*                                                                              *)
(* Actions = critical sections of                                               *)
(*   services.candle.inject_warmup_candles_to_store            Warmup           *)
(*   backtest_mode._step_simulator l.409-447                   AddMinute, Fill, *)
(*     (_simulate_price_change_effect,                          EndMatch         *)
(*      _update_all_routes_a_partial_candle l.986-1025)                          *)
(*   backtest_mode._skip_simulator / _simulate_new_candles      BeginChunk,FFill,*)
(*     l.854-894, _simulate_price_change_effect_multiple_candles FEndMinute,     *)
(*     l.897-983, CandlesState.add_multiple_1m_candles           AddChunk        *)
(* Reads = CandlesState.get_candles / get_current_candle (l.329-392).           *)
(* Named deviations (TRUE = the deviation, FALSE = what the property asks; the   *)
(* first three were in the code until commits 75ff7bf2 / f8ad570d repaired      *)
(* them, the fourth is a plausible "speed-up" that must never be made):         *)
(*   QStale        get_candles returns the stored forming row untouched when its *)
(*                 timestamp is the forming window's start                       *)
(*   QEmptyRead    get_candles indexes [-1] of an empty array (IndexError) when  *)
(*                 a window is forming and no candle of that timeframe is stored *)
(*   QPartialChunk the fast simulator generates a timeframe candle from a slice  *)
(*                 that runs past the end of the series (ValueError)             *)
(*   QEpochGrid    (TRUE = the code) the partial-candle update sizes the forming    *)
(*                 candle by `timestamp % timeframe`; EpochOffset is the timestamp *)
(*                 of the first stored candle (0 for everything up to 1D, not 0    *)
(*                 mod T for 3D / 1W sessions starting on an arbitrary day)        *)
(*   QChunkTrading the fast simulator's step is the gcd of the TRADING routes    *)
(*                 only (the code: gcd of trading AND data routes, which is what *)
(*                 makes "at most one candle per timeframe per chunk" enough)    *)
EXTENDS Integers, Sequences, FiniteSets, TLC, Json
CONSTANTS TFs, TradeTF, Warm, N, MaxFills, Fast, QStale, QEmptyRead, QPartialChunk, QChunkTrading,
          EpochOffset, QEpochGrid, Export
ASSUME /\ \A T \in TFs : T > 1 /\ Warm % T = 0
       /\ TradeTF \in TFs \cup {1}
\* _calculate_minimum_candle_step: gcd over router.all_formatted_routes (trading + data routes)
RECURSIVE GCD(_, _)
GCD(a, b) == IF b = 0 THEN a ELSE GCD(b, a % b)
RECURSIVE GCDSet(_)
GCDSet(S) == IF S = {} THEN 0 ELSE LET x == CHOOSE y \in S : TRUE IN GCD(x, GCDSet(S \ {x}))
Chunk == IF ~Fast THEN 1 ELSE IF QChunkTrading THEN TradeTF ELSE GCDSet(TFs \cup {TradeTF})

VARIABLES i,       \* trading-minute index being processed (step) / start of the chunk (fast); -1 before the first
          k,       \* fast: offset of the minute being matched inside the chunk
          phase,   \* "init" | "exec" | "match" | "fmatch" | "fchunk" | "done"
          m1,      \* stored one-minute candles
          tf,      \* stored candles per timeframe
          fills,   \* fills so far in the current minute
          obs,     \* "none" | "step" | "hook" | "end": can somebody read the store in this state?
          err,     \* exception that ended the simulation
          hist     \* history (hidden by VIEW): one letter per action
vars == <<i, k, phase, m1, tf, fills, obs, err, hist>>
View == <<i, k, phase, m1, tf, fills, obs, err>>

Last(s) == s[Len(s)]
Min2(a, b) == IF a < b THEN a ELSE b
Tail_(s, n) == SubSeq(s, Len(s) - Min2(n, Len(s)) + 1, Len(s))       \* arr[-n:]
Full(lo, hi) == [j \in 1..(hi - lo + 1) |-> <<lo + j - 1, 0>>]        \* input minutes lo..hi (absolute), full candles
Row(src) == [ts |-> src[1][1], src |-> src]                           \* generate_candle_from_one_minutes

\* CandlesState.add_candle for the cases the simulators produce (len 0 / newer / equal to last); an older
\* timestamp goes to the look-back loop, which is modelled in AddCandle.tla - here it must never happen
AddRow(s, c, key(_)) == IF s = <<>> \/ key(c) > key(Last(s)) THEN Append(s, c)
                        ELSE IF key(c) = key(Last(s)) THEN [s EXCEPT ![Len(s)] = c] ELSE s
K1(c) == c[1]
KT(c) == c.ts
Add1m(s, c) == AddRow(s, c, K1)
AddTF(s, c) == AddRow(s, c, KT)
OlderAdd1m(s, c) == s # <<>> /\ c[1] < Last(s)[1]
OlderAddTF(s, c) == s # <<>> /\ c.ts < Last(s).ts
H(a) == hist' = Append(hist, a)

Init == /\ i = (IF Fast THEN 0 ELSE -1) /\ k = 0 /\ phase = "init" /\ m1 = <<>> /\ tf = [T \in TFs |-> <<>>] /\ fills = 0
        /\ obs = "none" /\ err = "none" /\ hist = <<>>

\* ---- warm-up injection: batch add of the 1m rows, then a candle at every (j+1) % T = 0 from rows j-(T-1)..j
Warmup ==
  /\ phase = "init"
  /\ m1' = Full(0, Warm - 1)
  /\ tf' = [T \in TFs |-> [w \in 1..(Warm \div T) |-> Row(Full((w - 1) * T, w * T - 1))]]
  /\ phase' = "exec" /\ obs' = "none" /\ UNCHANGED <<i, k, fills, err>> /\ H("W")

Abs(j) == Warm + j            \* absolute minute (= timestamp, the store starts aligned at 0) of trading minute j
\* the partial-candle upsert of _update_all_routes_a_partial_candle for the minute with timestamp ts
Partial(ts, ver) ==
  LET m1p == Add1m(m1, <<ts, ver>>) IN
  /\ m1' = m1p
  /\ tf' = [T \in TFs |-> LET need == IF QEpochGrid THEN ((EpochOffset + ts) % T) + 1 ELSE ((Len(m1p) - 1) % T) + 1
                       IN AddTF(tf[T], Row(Tail_(m1p, need)))]

\* ---- step simulator --------------------------------------------------------------------------
AddMinute ==
  /\ ~Fast /\ phase = "exec" /\ err = "none" /\ i + 1 < N
  /\ i' = i + 1 /\ m1' = Add1m(m1, <<Abs(i + 1), 0>>) /\ phase' = "match" /\ fills' = 0 /\ obs' = "none"
  /\ UNCHANGED <<k, tf, err>> /\ H("m")
Fill ==
  /\ phase = "match" /\ fills < MaxFills
  /\ fills' = fills + 1 /\ Partial(Abs(i), fills + 1) /\ obs' = "hook"
  /\ UNCHANGED <<i, k, phase, err>> /\ H("f")
EndMatch ==
  /\ phase = "match"
  /\ m1' = Add1m(m1, <<Abs(i), 0>>)
  /\ tf' = [T \in TFs |-> IF (i + 1) % T = 0 THEN AddTF(tf[T], Row(Full(Abs(i - (T - 1)), Abs(i)))) ELSE tf[T]]
  /\ phase' = "exec" /\ obs' = (IF (i + 1) % TradeTF = 0 THEN "step" ELSE "none")
  /\ UNCHANGED <<i, k, fills, err>> /\ H("e")

\* ---- fast simulator --------------------------------------------------------------------------
ChunkLen == Min2(Chunk, N - i)                        \* candles[i : i + step] is clipped at the end of the series
\* generation after the chunk: slice [i - T + step : i + step] of the INPUT, clipped by Python at N
Generate(store, T) ==
  LET lo == i - T + Chunk  hi == Min2(i + Chunk, N) IN
  IF (i + Chunk) % T # 0 THEN [e |-> "none", s |-> store]
  ELSE IF hi - lo = T THEN [e |-> "none", s |-> AddTF(store, Row(Full(Abs(lo), Abs(hi - 1))))]
  ELSE IF QPartialChunk THEN [e |-> "ValueError(generate_candle_from_one_minutes)", s |-> store]
  ELSE [e |-> "none", s |-> store]                    \* repaired: an incomplete window is not generated
BeginChunk ==       \* there are resting orders inside the chunk's range: the minutes are matched one by one
  /\ Fast /\ phase = "exec" /\ err = "none" /\ i < N
  /\ phase' = "fmatch" /\ k' = 0 /\ fills' = 0 /\ obs' = "none"
  /\ UNCHANGED <<i, m1, tf, err>> /\ H("b")
FFill ==
  /\ phase = "fmatch" /\ fills < MaxFills
  /\ fills' = fills + 1 /\ Partial(Abs(i + k), fills + 1) /\ obs' = "hook"
  /\ UNCHANGED <<i, k, phase, err>> /\ H("f")
FEndMinute ==
  /\ phase = "fmatch"
  /\ m1' = Add1m(m1, <<Abs(i + k), 0>>)
  /\ k' = k + 1 /\ fills' = 0 /\ obs' = "none"
  /\ phase' = (IF k + 1 = ChunkLen THEN "fchunk" ELSE "fmatch")
  /\ UNCHANGED <<i, tf, err>> /\ H("n")
\* add_multiple_1m_candles + generation + the strategy step; taken directly from "exec" when no order is in range
AddChunk ==
  /\ Fast /\ err = "none" /\ i < N /\ phase \in {"exec", "fchunk"}
  /\ LET ch == Full(Abs(i), Abs(i + ChunkLen - 1))
         n == Len(m1)  c == Len(ch)
         m1n == IF n = 0 \/ ch[1][1] > Last(m1)[1] THEN [e |-> "none", s |-> m1 \o ch]
                ELSE IF c <= n /\ ch[1][1] >= m1[n - c + 1][1] /\ ch[c][1] >= Last(m1)[1]
                     THEN LET ov == c - (ch[c][1] - Last(m1)[1]) IN
                          IF ov = c THEN [e |-> "none", s |-> SubSeq(m1, 1, n - ov) \o ch]
                          ELSE [e |-> "ValueError(add_multiple_1m_candles)", s |-> m1]
                ELSE [e |-> "IndexError(add_multiple_1m_candles)", s |-> m1]
         gen == [T \in TFs |-> Generate(tf[T], T)]
         bad == {T \in TFs : gen[T].e # "none"}
     IN /\ m1' = m1n.s
        /\ IF m1n.e # "none" THEN err' = m1n.e /\ UNCHANGED tf
           ELSE IF bad # {} THEN err' = gen[CHOOSE T \in bad : TRUE].e /\ UNCHANGED tf
           ELSE err' = "none" /\ tf' = [T \in TFs |-> gen[T].s]
        /\ obs' = (IF m1n.e = "none" /\ bad = {} /\ (i + Chunk) % TradeTF = 0 THEN "step" ELSE "none")
  /\ i' = i + Chunk /\ k' = 0 /\ fills' = 0 /\ phase' = "exec" /\ H("c")
BeginSim == /\ phase = "init" /\ Warm = 0 /\ phase' = "exec" /\ UNCHANGED <<i, k, m1, tf, fills, obs, err>> /\ H("S")

\* ---- end of the run: the caller reads the store ------------------------------------------------
Finished == IF Fast THEN i >= N ELSE i = N - 1
Terminate == /\ phase = "exec" /\ err = "none" /\ Finished
             /\ phase' = "done" /\ obs' = "end" /\ UNCHANGED <<i, k, m1, tf, fills, err>> /\ H("t")

Edge == Export => PrintT(<<"EDGE", ToJson([hist |-> hist', obs |-> obs', err |-> err'])>>)
WarmupStart == Warm > 0 /\ Warmup
\* NextM (plain disjunction: TLC reports coverage per action) is used for model checking, Next (the same plus the
\* EDGE export) for exporting the transitions
NextM == \/ WarmupStart \/ BeginSim
         \/ AddMinute \/ Fill \/ EndMatch
         \/ BeginChunk \/ FFill \/ FEndMinute \/ AddChunk
         \/ Terminate
Next == NextM /\ Edge
SpecM == Init /\ [][NextM]_vars
Spec == Init /\ [][Next]_vars

\* ---- reads: transcription of CandlesState.get_candles / get_current_candle ---------------------
Forming(T, dif) == Row(Tail_(m1, dif))
GetCandles(T) ==
  LET dif == Len(m1) % T  lc == Len(tf[T])  sc == Len(m1) IN
  IF dif = 0 /\ lc = 0 THEN [ok |-> TRUE, rows |-> <<>>]
  ELSE IF dif = 0 THEN [ok |-> TRUE, rows |-> tf[T]]
  ELSE IF lc = 0 THEN (IF QEmptyRead THEN [ok |-> FALSE, rows |-> <<>>] ELSE [ok |-> TRUE, rows |-> <<Forming(T, dif)>>])
  ELSE IF Last(tf[T]).ts = m1[sc - dif + 1][1]
       THEN (IF QStale THEN [ok |-> TRUE, rows |-> tf[T]]
             ELSE [ok |-> TRUE, rows |-> Append(SubSeq(tf[T], 1, lc - 1), Forming(T, dif))])
  ELSE [ok |-> TRUE, rows |-> Append(tf[T], Forming(T, dif))]
GetCurrent(T) ==
  LET dif == Len(m1) % T IN
  IF dif # 0 THEN Forming(T, dif) ELSE IF tf[T] = <<>> THEN <<>> ELSE Last(tf[T])

\* ---- the property, stated on the stored minutes only -------------------------------------------
\* one row per started window, row w = the stored minutes of window w (the last one possibly forming)
Windows(T) == LET n == Len(m1)  c == (n + T - 1) \div T IN
              [w \in 1..c |-> Row(SubSeq(m1, (w - 1) * T + 1, Min2(w * T, n)))]
Observable == obs # "none"
NoReadError == Observable => \A T \in TFs : GetCandles(T).ok
RowsAreAggregations == Observable => \A T \in TFs : GetCandles(T).ok => GetCandles(T).rows = Windows(T)
CurrentIsAggregation == Observable => \A T \in TFs : m1 # <<>> => GetCurrent(T) = Last(Windows(T))
NoSimulatorError == err = "none"
\* C20 side: every stored series is gapless / strictly increasing; steps and the end see full candles only
OneMinuteGapless == \A j \in 1..Len(m1) : m1[j][1] = j - 1
FullCandlesAtSteps == obs \in {"step", "end"} => \A j \in 1..Len(m1) : m1[j][2] = 0
TFStrictlyIncreasing == \A T \in TFs : \A j \in 1..(Len(tf[T]) - 1) : tf[T][j].ts < tf[T][j + 1].ts
AllMinutesStored == phase = "done" => Len(m1) = Warm + N
=============================================================================
