------------------------------- MODULE WholeRun -------------------------------
(* The two simulators of WholeCore driven over one chunk of the feed, producing the *)
(* projected state after every minute (normal simulator) / after the chunk (fast    *)
(* simulator) - the observation points of the whole-run binding.  A scenario step is *)
(* [raw |-> the chunk's raw one-minute candles, row |-> the decision row the scripted*)
(* user follows if the chunk ends on a trading-candle boundary].                     *)
EXTENDS WholeCore
Row4(cd) == <<cd.o, cd.c, cd.h, cd.l>>
Proj(s, minute, c1, ctf) ==
  [ t |-> minute, q |-> s.q, en |-> (IF s.q = 0 THEN RI(0) ELSE s.en), wal |-> s.wal, mar |-> Margin(s), ords |-> OrdBag(s),
    hooks |-> s.hooks, c1 |-> Row4(c1), ctf |-> Row4(ctf), ntr |-> Len(s.trades) ]
\* the fixed candles of the trading window a minute (clock value `minute`) lies in, given the window so far
WinAdd(win, minute, tf, cd) == IF (minute - 1) % tf = 0 THEN <<cd>> ELSE Append(win, cd)

\* normal simulator: per minute  match -> (strategy step at a boundary) -> pending market orders -> [projection] -> sample
RECURSIVE RunN(_, _, _, _, _, _, _)
RunN(s, cs, k, m0, row, tf, win) ==
  IF k > Len(cs) \/ ~Running(s) THEN [s |-> s, pr |-> <<>>, win |-> win]
  ELSE LET minute == m0 + k
           a == Minute(s, cs[k], minute)
           b == IF minute % tf = 0 THEN Decide(a, row, minute) ELSE a
           c == Flush(b, minute)
           w == WinAdd(win, minute, tf, cs[k])
       IN IF ~Running(c) THEN [s |-> c, pr |-> <<>>, win |-> w]
          ELSE LET rest == RunN(Sample([c EXCEPT !.hooks = <<>>], minute - 1), cs, k + 1, m0, row, tf, w)
               IN [s |-> rest.s, pr |-> <<Proj(c, minute, cs[k], Agg(w))>> \o rest.pr, win |-> rest.win]
RECURSIVE WinAll(_, _, _, _, _)
WinAll(win, cs, k, m0, tf) == IF k > Len(cs) THEN win ELSE WinAll(WinAdd(win, m0 + k, tf, cs[k]), cs, k + 1, m0, tf)
\* fast simulator: per chunk  match the chunk -> (strategy step) -> pending market orders -> [projection] -> sample
RunF(s, cs, m0, row, tf, win) ==
  IF ~Running(s) THEN [s |-> s, pr |-> <<>>, win |-> win]
  ELSE LET minute == m0 + Len(cs)
           a == ChunkF(s, cs, m0)
           b == IF minute % tf = 0 THEN Decide(a, row, minute) ELSE a
           c == Flush(b, minute)
           w == WinAll(win, cs, 1, m0, tf)
       IN IF ~Running(c) THEN [s |-> c, pr |-> <<>>, win |-> w]
          ELSE [s |-> Sample([c EXCEPT !.hooks = <<>>], m0), pr |-> <<Proj(c, minute, cs[Len(cs)], Agg(w))>>, win |-> w]
=============================================================================
