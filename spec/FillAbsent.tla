------------------------------ MODULE FillAbsent ------------------------------
(* C20, first half.  import_candles_mode._fill_absent_candles as a function     *)
(* (ImplFill: the loop with its `started` flag, pydash.find = first match,      *)
(* first_candle = temp_candles[0]) and, independently, the property             *)
(* (FillOK): exactly one candle per minute of the requested interval, in        *)
(* strictly increasing order, every provided candle unchanged, every missing    *)
(* minute a flat zero-volume candle at the previous close - or at the first     *)
(* known open before any candle exists.                                         *)
(* A candle is <<ts, open, close, high, low, volume, id>> (ts = minute index,   *)
(* id > 0 for provided candles, 0 for generated ones).                          *)
(* FillAbsentMC.tla enumerates every presence pattern of every interval of at   *)
(* most MaxLen minutes; TraceCandleSeries.tla judges recorded outputs of the    *)
(* real function with FillVerdict.                                              *)
EXTENDS Integers, Sequences, FiniteSets

Last(s) == s[Len(s)]
FlatAt(ts, p) == <<ts, p, p, p, p, 0, 0>>
Core(c) == <<c[1], c[2], c[3], c[4], c[5], c[6]>>

\* ---- implementation ------------------------------------------------------------------------
Matches(given, ts) == {j \in 1..Len(given) : given[j][1] = ts}
Find(given, ts) == given[CHOOSE j \in Matches(given, ts) : \A jj \in Matches(given, ts) : j <= jj]
RECURSIVE Loop(_, _, _, _, _)
Loop(given, ts, remaining, started, out) ==
  IF remaining <= 0 THEN out
  ELSE IF Matches(given, ts) = {}
       THEN (IF started THEN Loop(given, ts + 1, remaining - 1, TRUE, Append(out, FlatAt(ts, Last(out)[3])))
             ELSE Loop(given, ts + 1, remaining - 1, FALSE, Append(out, FlatAt(ts, given[1][2]))))
       ELSE Loop(given, ts + 1, remaining - 1, TRUE, Append(out, Find(given, ts)))
ImplFill(given, start, end) == Loop(given, start, (end - start) + 1, FALSE, <<>>)

\* named deviation (NOT the code): the `started` flag replaced by a tracked last close that is tested for
\* truthiness (`last_close or first_open`): a previous close of exactly 0 falls back to the first known open
NoClose == -999999
RECURSIVE LoopT(_, _, _, _, _)
LoopT(given, ts, remaining, lastClose, out) ==
  IF remaining <= 0 THEN out
  ELSE IF Matches(given, ts) = {}
       THEN LoopT(given, ts + 1, remaining - 1, lastClose,
                  Append(out, FlatAt(ts, IF lastClose # NoClose /\ lastClose # 0 THEN lastClose ELSE given[1][2])))
       ELSE LoopT(given, ts + 1, remaining - 1, Find(given, ts)[3], Append(out, Find(given, ts)))
ImplFillTruthy(given, start, end) == LoopT(given, start, (end - start) + 1, NoClose, <<>>)

\* ---- property (given: strictly increasing timestamps, non-empty) ------------------------------
Inside(given, start, end) == {j \in 1..Len(given) : given[j][1] >= start /\ given[j][1] <= end}
FillVerdict(given, start, end, out) ==
  LET n == end - start + 1 IN
  IF Len(out) # n THEN "not-one-candle-per-minute-of-the-interval"
  ELSE IF \E k \in 1..n : out[k][1] # start + k - 1 THEN "timestamps-not-strictly-one-minute-apart"
  ELSE IF \E j \in Inside(given, start, end) : out[given[j][1] - start + 1] # given[j] THEN "provided-candle-changed"
  ELSE IF \E k \in 1..n : Matches(given, start + k - 1) = {} /\
            Core(out[k]) # Core(FlatAt(start + k - 1,
                                IF \E j \in Inside(given, start, end) : given[j][1] < start + k - 1
                                THEN out[k - 1][3]            \* previous close
                                ELSE given[1][2]))            \* first known open
       THEN "missing-minute-not-flat-at-previous-close"
  ELSE "ok"

=============================================================================
