------------------------------ MODULE FillAbsent ------------------------------
(* C20, first half.  import_candles_mode._fill_absent_candles as a function     *)
(* (ImplFill: the loop with its `started` flag, pydash.find = first match,      *)
(* first_candle = temp_candles[0]) and, independently, the property             *)
(* (FillOK): exactly one candle per minute of the requested interval, in        *)
(* strictly increasing order, every provided candle unchanged, every missing    *)
(* minute a flat zero-volume candle at the previous close - or at the first     *)
(* known open before any candle exists.                                         *)
(* A candle is <<ts, open, close, high, low, volume, id>> (ts = minute index,   *)
(* id > 0 for provided candles, 0 for generated ones).                          *)
(* FillAbsentMC.tla enumerates every presence pattern of every interval of at   *)
(* most MaxLen minutes; TraceCandleSeries.tla judges recorded outputs of the    *)
(* real function with FillVerdict.                                              *)
EXTENDS Integers, Sequences, FiniteSets

Last(s) == s[Len(s)]
FlatAt(ts, p) == <<ts, p, p, p, p, 0, 0>>
Core(c) == <<c[1], c[2], c[3], c[4], c[5], c[6]>>

\* ---- implementation ------------------------------------------------------------------------
Matches(given, ts) == {j \in 1..Len(given) : given[j][1] = ts}
Find(given, ts) == given[CHOOSE j \in Matches(given, ts) : \A jj \in Matches(given, ts) : j <= jj]
RECURSIVE Loop(_, _, _, _, _)
Loop(given, ts, remaining, started, out) ==
  IF remaining <= 0 THEN out
  ELSE IF Matches(given, ts) = {}
       THEN (IF started THEN Loop(given, ts + 1, remaining - 1, TRUE, Append(out, FlatAt(ts, Last(out)[3])))
             ELSE Loop(given, ts + 1, remaining - 1, FALSE, Append(out, FlatAt(ts, given[1][2]))))
       ELSE Loop(given, ts + 1, remaining - 1, TRUE, Append(out, Find(given, ts)))
ImplFill(given, start, end) == Loop(given, start, (end - start) + 1, FALSE, <<>>)

\* named deviation (NOT the code): the `started` flag replaced by a tracked last close that is tested for
\* truthiness (`last_close or first_open`): a previous close of exactly 0 falls back to the first known open
NoClose == -999999
RECURSIVE LoopT(_, _, _, _, _)
LoopT(given, ts, remaining, lastClose, out) ==
  IF remaining <= 0 THEN out
  ELSE IF Matches(given, ts) = {}
       THEN LoopT(given, ts + 1, remaining - 1, lastClose,
                  Append(out, FlatAt(ts, IF lastClose # NoClose /\ lastClose # 0 THEN lastClose ELSE given[1][2])))
       ELSE LoopT(given, ts + 1, remaining - 1, Find(given, ts)[3], Append(out, Find(given, ts)))
ImplFillTruthy(given, start, end) == LoopT(given, start, (end - start) + 1, NoClose, <<>>)

\* named deviation (NOT the code): the per-minute search replaced by a cursor that assumes an ascending batch
RECURSIVE LoopC(_, _, _, _, _, _)
LoopC(given, ts, remaining, started, cur, out) ==
  IF remaining <= 0 THEN out
  ELSE IF cur <= Len(given) /\ given[cur][1] = ts THEN LoopC(given, ts + 1, remaining - 1, TRUE, cur + 1, Append(out, given[cur]))
  ELSE IF started THEN LoopC(given, ts + 1, remaining - 1, TRUE, cur, Append(out, FlatAt(ts, Last(out)[3])))
  ELSE LoopC(given, ts + 1, remaining - 1, FALSE, cur, Append(out, FlatAt(ts, given[1][2])))
ImplFillCursor(given, start, end) == LoopC(given, start, (end - start) + 1, FALSE, 1, <<>>)

\* ---- property.  The batch is ANY non-empty list of candles: unsorted, a minute delivered twice, candles outside
\* the interval.  Contract (what the search-based function does): a minute for which a candle was provided keeps that
\* candle - of several candles with the same timestamp the FIRST one in the list; every other minute is flat at the
\* previous close; before any provided minute of the interval it is flat at the open of the first candle of the list
\* (the earliest candle's open is accepted as well) ------------------------------
Inside(given, start, end) == {j \in 1..Len(given) : given[j][1] >= start /\ given[j][1] <= end}
FillVerdict(given, start, end, out) ==
  LET n == end - start + 1 IN
  IF Len(out) # n THEN "not-one-candle-per-minute-of-the-interval"
  ELSE IF \E k \in 1..n : out[k][1] # start + k - 1 THEN "timestamps-not-strictly-one-minute-apart"
  ELSE IF \E j \in Inside(given, start, end) : out[given[j][1] - start + 1] # Find(given, given[j][1])
       THEN (IF \E j \in Inside(given, start, end) : out[given[j][1] - start + 1][7] = 0 THEN "provided-candle-replaced-by-a-filler"
             ELSE "provided-candle-changed")
  ELSE IF \E k \in 1..n : Matches(given, start + k - 1) = {} /\
            LET ts == start + k - 1
                earliest == given[CHOOSE j \in 1..Len(given) : \A jj \in 1..Len(given) : given[j][1] <= given[jj][1]]
            IN IF \E j \in Inside(given, start, end) : given[j][1] < ts
               THEN Core(out[k]) # Core(FlatAt(ts, out[k - 1][3]))                      \* previous close
               ELSE Core(out[k]) \notin {Core(FlatAt(ts, given[1][2])), Core(FlatAt(ts, earliest[2]))}   \* first known open
       THEN "missing-minute-not-flat-at-previous-close"
  ELSE "ok"

=============================================================================
