------------------------------- MODULE WholeRun2 -------------------------------
(* Two symbols on one futures wallet: the simulators of WholeCore/WholeRun composed  *)
(* as the code does it - per minute (normal) / chunk (fast) symbol A is matched, then *)
(* symbol B, then the routes execute in order (A's step, B's step), then the pending  *)
(* market orders of BOTH symbols are executed in submission order                     *)
(* (store.orders.to_execute is one global list), then the equity sample.              *)
(* State: [a, b] - one WholeCore side per symbol; wallet, order-id counter, equity     *)
(* samples and status are shared and kept identical in both records; each record also *)
(* carries the margin used by and the unrealised PnL of the other symbol (ext,        *)
(* extPnl), refreshed after every operation.                                          *)
EXTENDS WholeRun
Sync(x, y) == [y EXCEPT !.wal = x.wal, !.nid = x.nid, !.daily = x.daily, !.status = x.status,
                        !.ext = Spent(x), !.extPnl = Pnl(x)]
OnA(S, a2) == [a |-> a2, b |-> Sync(a2, S.b)]
OnB(S, b2) == [a |-> Sync(b2, S.a), b |-> b2]
Both0 == [a |-> Side0, b |-> Side0]
Run2(S) == Running(S.a) /\ Running(S.b)

\* store.orders.execute_pending_market_orders(): one global list in submission order
MinMarketId(s) == LET mk == SelectSeq(s.ords, LAMBDA x : x.typ = "MARKET") IN IF mk = <<>> THEN 0 ELSE mk[1].id
RECURSIVE Flush2(_, _)
Flush2(S, minute) ==
  LET ia == MinMarketId(S.a)  ib == MinMarketId(S.b) IN
  IF ~Run2(S) \/ (ia = 0 /\ ib = 0) THEN S
  ELSE IF ib = 0 \/ (ia # 0 /\ ia < ib) THEN Flush2(OnA(S, Exec(S.a, ia, minute, S.a.cur)), minute)
  ELSE Flush2(OnB(S, Exec(S.b, ib, minute, S.b.cur)), minute)
\* the routes at a trading-candle boundary: A's Strategy._check, then B's (each with the global flush in the middle)
Step2(S, rowA, rowB, minute) ==
  LET s1 == Flush2(OnA(S, DecidePre(S.a, rowA)), minute)
      s2 == IF Run2(s1) THEN OnA(s1, DecideEntry(s1.a, rowA)) ELSE s1
      s3 == IF Run2(s2) THEN Flush2(OnB(s2, DecidePre(s2.b, rowB)), minute) ELSE s2
      s4 == IF Run2(s3) THEN OnB(s3, DecideEntry(s3.b, rowB)) ELSE s3
  IN s4
Proj2(S, minute, ca, wa, cb, wb) ==
  [ t |-> minute, wal |-> S.a.wal, mar |-> Margin(S.a),
    qa |-> S.a.q, ena |-> (IF S.a.q = 0 THEN RI(0) ELSE S.a.en), oa |-> OrdBag(S.a), ha |-> S.a.hooks, c1a |-> Row4(ca), ctfa |-> Row4(Agg(wa)), na |-> Len(S.a.trades),
    qb |-> S.b.q, enb |-> (IF S.b.q = 0 THEN RI(0) ELSE S.b.en), ob |-> OrdBag(S.b), hb |-> S.b.hooks, c1b |-> Row4(cb), ctfb |-> Row4(Agg(wb)), nb |-> Len(S.b.trades) ]
ClearHooks(S) == [a |-> [S.a EXCEPT !.hooks = <<>>], b |-> [S.b EXCEPT !.hooks = <<>>]]
Sample2(S, i) == IF Run2(S) /\ i # 0 /\ i % DayLen = 0
                 THEN LET a2 == [S.a EXCEPT !.daily = Append(@, Equity(S.a))] IN OnA(S, a2) ELSE S

\* normal simulator, per minute
RECURSIVE RunN2(_, _, _, _, _, _, _, _, _, _)
RunN2(S, csA, csB, k, m0, rowA, rowB, tf, wa, wb) ==
  IF k > Len(csA) \/ ~Run2(S) THEN [s |-> S, pr |-> <<>>, wa |-> wa, wb |-> wb]
  ELSE LET minute == m0 + k
           s1 == OnA(S, Minute(S.a, csA[k], minute))
           s2 == IF Run2(s1) THEN OnB(s1, Minute(s1.b, csB[k], minute)) ELSE s1
           s3 == IF Run2(s2) /\ minute % tf = 0 THEN Step2(s2, rowA, rowB, minute) ELSE s2
           s4 == Flush2(s3, minute)
           wa2 == WinAdd(wa, minute, tf, csA[k])
           wb2 == WinAdd(wb, minute, tf, csB[k])
       IN IF ~Run2(s4) THEN [s |-> s4, pr |-> <<>>, wa |-> wa2, wb |-> wb2]
          ELSE LET rest == RunN2(Sample2(ClearHooks(s4), minute - 1), csA, csB, k + 1, m0, rowA, rowB, tf, wa2, wb2)
               IN [s |-> rest.s, pr |-> <<Proj2(s4, minute, csA[k], wa2, csB[k], wb2)>> \o rest.pr, wa |-> rest.wa, wb |-> rest.wb]
\* fast simulator, per chunk
RunF2(S, csA, csB, m0, rowA, rowB, tf, wa, wb) ==
  IF ~Run2(S) THEN [s |-> S, pr |-> <<>>, wa |-> wa, wb |-> wb]
  ELSE LET minute == m0 + Len(csA)
           s1 == OnA(S, ChunkF(S.a, csA, m0))
           s2 == IF Run2(s1) THEN OnB(s1, ChunkF(s1.b, csB, m0)) ELSE s1
           s3 == IF Run2(s2) /\ minute % tf = 0 THEN Step2(s2, rowA, rowB, minute) ELSE s2
           s4 == Flush2(s3, minute)
           wa2 == WinAll(wa, csA, 1, m0, tf)
           wb2 == WinAll(wb, csB, 1, m0, tf)
       IN IF ~Run2(s4) THEN [s |-> s4, pr |-> <<>>, wa |-> wa2, wb |-> wb2]
          ELSE [s |-> Sample2(ClearHooks(s4), m0), pr |-> <<Proj2(s4, minute, csA[Len(csA)], wa2, csB[Len(csB)], wb2)>>, wa |-> wa2, wb |-> wb2]
\* end of the session: for r in routes: r.strategy._terminate(); _execute_market_orders()   then the final sample
Terminate2(S, minute) ==
  IF ~Run2(S) THEN S ELSE
  LET tA(x) == IF x.q # 0 THEN ReduceAt(x, Abs(x.q), x.cur, x.cur, "close") ELSE IF x.ords # <<>> THEN ExecuteCancel(x) ELSE x
      s1 == Flush2(OnA(S, DetectMods(S.a, S.a.cur)), minute)               \* _terminate(A): modifications, pending market orders
      s2 == IF Run2(s1) THEN Flush2(OnA(s1, tA(s1.a)), minute) ELSE s1     \*                closing order, _execute_market_orders
      s3 == IF Run2(s2) THEN Flush2(OnB(s2, DetectMods(s2.b, s2.b.cur)), minute) ELSE s2
      s4 == IF Run2(s3) THEN Flush2(OnB(s3, tA(s3.b)), minute) ELSE s3
  IN IF Run2(s4) THEN OnA(s4, [s4.a EXCEPT !.daily = Append(@, Equity(s4.a))]) ELSE s4
=============================================================================
