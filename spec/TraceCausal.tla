---------------------------- MODULE TraceCausal ----------------------------
(* C13, code -> spec.  One trace = one (indicator, field, parameters, candle series); its events are   *)
(* the sequential series the real function returned on growing prefixes of that candle series, in      *)
(* increasing length.  TLC decides whether the recorded runs are a behaviour of the transducer of      *)
(* IndicatorStream: going from the run on k candles to the run on k' > k candles must be explainable   *)
(* by k' - k Emit steps, i.e. the longer series extends the shorter one (Stable, tolerance one logging *)
(* unit; for the extrema detector the last `exempt` = order positions of the shorter run are free).    *)
(* Total and deterministic: a mismatch yields a verdict naming the clause and the first position.      *)
EXTENDS Integers, Sequences, TLC, Json, IOUtils
Data == JsonDeserialize(IOEnv.TRACE_FILE)
Traces == Data.traces
VARIABLES tid, l, fed, out, verdict
tvars == <<tid, l, fed, out, verdict>>
IS == INSTANCE IndicatorStream WITH Vals <- {}, MaxFed <- 0, Exempt <- 0, Quirk <- "none"
Tol == 1
Ev(t) == Traces[t].ev
Init == tid \in 1..Len(Traces) /\ l = 1 /\ fed = 0 /\ out = <<>> /\ verdict = "ok"

Judge(h, e) ==
  IF e.len <= fed THEN "trace:lengths-not-increasing"
  ELSE IF h.kind = "str"
       THEN LET i == IS!FirstUnstableStr(out, e.out, fed) IN
            IF i = 0 THEN "ok" ELSE "prefix:pos=" \o ToString(i) \o ":short=" \o ToString(fed) \o ":long=" \o ToString(e.len)
       ELSE LET i == IS!FirstUnstable(out, e.out, fed, h.exempt, Tol) IN
            IF i = 0 THEN "ok"
            ELSE "prefix:pos=" \o ToString(i) \o ":short=" \o ToString(fed) \o ":long=" \o ToString(e.len)
                 \o ":" \o ToString(out[i]) \o "/" \o ToString(e.out[i])

Step == /\ verdict = "ok" /\ l <= Len(Ev(tid))
        /\ LET e == Ev(tid)[l] h == Traces[tid].hdr IN
           /\ verdict' = Judge(h, e)
           /\ fed' = e.len /\ out' = e.out
        /\ l' = l + 1 /\ UNCHANGED tid
Spec == Init /\ [][Step]_tvars
Finished == verdict # "ok" \/ l > Len(Ev(tid))
Report == Finished => PrintT(<<"VERDICT", Traces[tid].id, l - 1, verdict>>)
=============================================================================
