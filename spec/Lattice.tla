------------------------------- MODULE Lattice -------------------------------
(* Prices on an integer lattice (or dense ranks of real prices - only order     *)
(* matters), candles, the gap normalisation of backtest_mode and the CANONICAL  *)
(* PRICE PATH of a minute, on which properties C02 / C08 are stated.            *)
(* Nothing in the canonical-path part is implementation-shaped: it is the       *)
(* property-level oracle (DESIGN.md appendix A).                                *)
EXTENDS Integers, Sequences, FiniteSets

Min2(a, b) == IF a < b THEN a ELSE b
Max2(a, b) == IF a > b THEN a ELSE b
Abs(x) == IF x < 0 THEN -x ELSE x

Cd(o_, c_, h_, l_) == [o |-> o_, c |-> c_, h |-> h_, l |-> l_]
ValidCandle(cd) == cd.l <= cd.o /\ cd.l <= cd.c /\ cd.o <= cd.h /\ cd.c <= cd.h
CandlesOn(Px) == {cd \in [o : Px, c : Px, h : Px, l : Px] : ValidCandle(cd)}

\* services.candle.candle_includes_price / is_bullish / is_bearish
Includes(cd, p) == p >= cd.l /\ p <= cd.h
Bull(cd) == cd.c >= cd.o
Bear(cd) == cd.c < cd.o

\* backtest_mode._get_fixed_jumped_candle(previous, candle), as a function of the previous close
FixJump(pc, cd) == IF pc < cd.o THEN [cd EXCEPT !.o = pc, !.l = Min2(pc, cd.l)]
                   ELSE IF pc > cd.o THEN [cd EXCEPT !.o = pc, !.h = Max2(pc, cd.h)]
                   ELSE cd
\* property wording: "price range extended to the previous close"
ExtLo(pc, cd) == Min2(pc, cd.l)
ExtHi(pc, cd) == Max2(pc, cd.h)
InExt(pc, cd, p) == ExtLo(pc, cd) <= p /\ p <= ExtHi(pc, cd)
\* fast mode: inner minutes of a chunk keep their open, only the range is extended
ExtOnly(pc, cd) == [cd EXCEPT !.h = Max2(pc, cd.h), !.l = Min2(pc, cd.l)]

\* ---- canonical path: open, low, high, close (rising) / open, high, low, close (falling) ----
\* a path position is the integer leg * Stride + distance travelled on that leg
Stride == 100000
Leg(cd, k) == IF Bull(cd) THEN (CASE k = 0 -> <<cd.o, cd.l>> [] k = 1 -> <<cd.l, cd.h>> [] k = 2 -> <<cd.h, cd.c>>)
                          ELSE (CASE k = 0 -> <<cd.o, cd.h>> [] k = 1 -> <<cd.h, cd.l>> [] k = 2 -> <<cd.l, cd.c>>)
OnLeg(g, p) == Min2(g[1], g[2]) <= p /\ p <= Max2(g[1], g[2])
NoReach == 3 * Stride
Reaches(cd, p) == {k * Stride + Abs(p - Leg(cd, k)[1]) : k \in {kk \in 0..2 : OnLeg(Leg(cd, kk), p)}}
\* first position at or after `from` at which the path is at price p
FirstReach(cd, from, p) == LET s == {x \in Reaches(cd, p) : x >= from} IN
                           IF s = {} THEN NoReach ELSE CHOOSE x \in s : \A y \in s : x <= y
PathEnd(cd) == 2 * Stride + Abs(cd.c - Leg(cd, 2)[1])

\* aggregation of a non-empty sequence of minute candles (fast-mode chunk candle)
RECURSIVE MaxH(_), MinL(_)
MaxH(s) == IF Len(s) = 1 THEN s[1].h ELSE Max2(s[1].h, MaxH(Tail(s)))
MinL(s) == IF Len(s) = 1 THEN s[1].l ELSE Min2(s[1].l, MinL(Tail(s)))
Agg(s) == Cd(s[1].o, s[Len(s)].c, MaxH(s), MinL(s))
=============================================================================
