------------------------------- MODULE Equity -------------------------------
(* C16 (T, in vivo).  The daily equity series of a real research.backtest.      *)
(* One trace per run.  hdr: type ("futures" | "spot"), start (starting balance), *)
(* n (simulated minutes), syms.  Events, in recording order:                    *)
(*   "daily": written by the wrapper around save_daily_portfolio_balance right  *)
(*            after the real function appended its sample: the sample (value),   *)
(*            the wallet / free quote, every position (qty, entry, mark price,   *)
(*            base holding) and every active order (symbol, side, qty, price)    *)
(*   "final": the same projection taken when the simulation hands over to the    *)
(*            report generation (the final portfolio), and the equity series     *)
(*            (store.app.daily_balance) as the report will see it.               *)
(* Money in units of 1/1024, quantities in 1/1024, marks: integer ticks          *)
(* (mark = 1024 * tick), order prices and entries in 1/1024.  `exact` says      *)
(* that every logged number is an exact multiple of its unit; otherwise (an      *)
(* average entry in thirds) a tolerance of 4 units per open position applies.    *)
(*                                                                             *)
(* Equity equation (the property, independent of how jesse computes it):        *)
(*   futures: wallet + sum over ALL symbols of qty * (mark - entry)             *)
(*   spot:    free quote + sum over ALL active buy orders of |qty| * price       *)
(*            + sum over ALL symbols of base holding * mark                      *)
EXTENDS Integers, Sequences, FiniteSets, TLC, Json, IOUtils
Data == JsonDeserialize(IOEnv.TRACE_FILE)
Traces == Data.traces
VARIABLES tid, l, nd, lastv, vals, verdict
vars == <<tid, l, nd, lastv, vals, verdict>>
Ev(t) == Traces[t].ev
Hdr(t) == Traces[t].hdr
Init == tid \in 1..Len(Traces) /\ l = 1 /\ nd = 0 /\ lastv = 0 /\ vals = <<>> /\ verdict = "ok"
Abs(x) == IF x < 0 THEN -x ELSE x
SumF(s, f(_)) == LET F[i \in 0..Len(s)] == IF i = 0 THEN 0 ELSE F[i - 1] + f(s[i]) IN F[Len(s)]
FloorDiv(a, b) == a \div b

Samples(n) == 1 + ((n - 1) \div 1440) + 1
OpenCount(e) == Cardinality({i \in DOMAIN e.pos : e.pos[i].qty # 0})
Tol(e) == IF e.exact THEN 0 ELSE 4 * OpenCount(e) + 4 * Len(e.active) + 2
\* unrealised PnL of one position in money units: qty/1024 * (mark - entry)/1024 * 1024
Pnl(p) == IF p.qty = 0 THEN 0 ELSE FloorDiv(p.qty * (p.mark - p.entry), 1024)
EquityFutures(e) == e.wallet + SumF(e.pos, Pnl)
Reserved(e, syms) == SumF(e.active, LAMBDA o : IF o.side = "buy" /\ o.sym \in syms THEN FloorDiv(Abs(o.qty) * o.price, 1024) ELSE 0)
BaseValue(e) == SumF(e.pos, LAMBDA p : p.base * p.tick)
AllSyms(e) == {e.pos[i].sym : i \in DOMAIN e.pos}
EquitySpot(e) == e.wallet + Reserved(e, AllSyms(e)) + BaseValue(e)
Equity(e, typ) == IF typ = "futures" THEN EquityFutures(e) ELSE EquitySpot(e)
\* classification of a wrong spot sample: it is what one gets when the resting buy orders of only one symbol are counted
OneRouteOnly(e) == \E s \in AllSyms(e) : Abs(e.value - (e.wallet + Reserved(e, {s}) + BaseValue(e))) <= Tol(e)

DailyVerdict(e, h) ==
  IF e.len # nd + 1 THEN "series-has-samples-that-no-day-boundary-produced"      \* len = length of the series right after sampling
  ELSE IF nd = 0 /\ e.value # h.start THEN "first-sample-not-the-starting-balance"
  ELSE IF Abs(e.value - Equity(e, h.type)) <= Tol(e) THEN "ok"
  ELSE IF h.type = "spot" /\ OneRouteOnly(e) THEN "sample:spot:resting-buy-orders-of-other-routes-not-counted"
  ELSE "sample:" \o h.type \o ":not-the-account-equity"

Step ==
  /\ verdict = "ok" /\ l <= Len(Ev(tid))
  /\ LET e == Ev(tid)[l]  h == Hdr(tid) IN
     CASE e.k = "daily" -> /\ verdict' = DailyVerdict(e, h) /\ nd' = nd + 1 /\ lastv' = e.value /\ vals' = Append(vals, e.value)
       [] e.k = "final" -> /\ verdict' = (IF nd # Samples(h.n) \/ Len(e.series) # Samples(h.n) THEN "sample-count"
                                         ELSE IF e.series # vals THEN "series-differs-from-the-samples-taken"
                                         ELSE IF Abs(lastv - Equity(e, h.type)) > Tol(e) THEN "last-sample-not-the-final-portfolio-value"
                                         \* annual return / Calmar of the report: (last / first) ^ (365 / days) with days = the
                                         \* number of daily returns of the series (ar, cal: the days implied by the reported values)
                                         ELSE IF e.ardef /\ ~(e.ar.close /\ e.ar.d = 1 /\ e.ar.n = nd - 1)
                                              THEN "annual_return:not-annualised-over-the-daily-returns-of-the-series"
                                         ELSE IF e.caldef /\ ~(e.cal.close /\ e.cal.d = 1 /\ e.cal.n = nd - 1)
                                              THEN "calmar_ratio:not-annualised-over-the-daily-returns-of-the-series"
                                         ELSE "ok")
                           /\ UNCHANGED <<nd, lastv, vals>>
  /\ l' = l + 1 /\ UNCHANGED tid
Spec == Init /\ [][Step]_vars
Finished == verdict # "ok" \/ l > Len(Ev(tid))
Report == Finished => PrintT(<<"VERDICT", Traces[tid].id, l - 1, verdict>>)
=============================================================================
