SPECIFICATION Spec
CONSTANT InnerFix = TRUE
CONSTANT PerMinute = TRUE
CONSTANT PartialChunkRaises = FALSE
INVARIANT Report
CHECK_DEADLOCK FALSE
