SPECIFICATION Spec
CONSTANT InnerFix = FALSE
CONSTANT PartialChunkRaises = FALSE
INVARIANT Report
CHECK_DEADLOCK FALSE
