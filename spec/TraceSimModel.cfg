SPECIFICATION Spec
CONSTANT InnerFix = FALSE
INVARIANT Report
CHECK_DEADLOCK FALSE
