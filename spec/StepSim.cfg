\* hand-run instance (the check generates its configurations): timeout 120 tlc -config StepSim.cfg StepSim.tla
SPECIFICATION Spec
CONSTANTS TFs = {2, 3} RouteTF = 2 N = 6 W = 6 NSym = 2 MaxFills = 2 FeedSkew = 0 GenSkew = 0 EarlyRoutes = FALSE
INVARIANT Causal
INVARIANT StoreCausal
INVARIANT MatchedBeforeDecide
INVARIANT TypeOK
CHECK_DEADLOCK FALSE
