------------------------------- MODULE SimCore -------------------------------
(* Shared, constant-level transcription of jesse's two matching loops and the      *)
(* strategy step (see SimEquiv.tla for the map to the code).  Used by SimEquiv     *)
(* (M: lock-step product explored by TLC) and by TraceSimModel (binding: TLC       *)
(* re-executes recorded scenarios and compares with what the real simulators did). *)
EXTENDS Integers, Sequences, FiniteSets, TLC
CONSTANTS
  InnerFix,   \* TRUE  = the code since 651f7be3: every minute of a chunk is jump-fixed against the previous one before
              \*         matching, as the normal simulator does;
              \* FALSE = the former defect (C12 finding inner-gap-fill): only the first minute of a chunk was jump-fixed, for the
              \*         others high/low were widened to the previous close but the open was kept
  PerMinute   \* TRUE  = the code since adf54ef1: inside the chunk the candidates are selected and sorted per minute on that
              \*         minute's candle and re-selected + re-sorted on the rest of it after a fill (the normal loop);
              \* FALSE = the former loop (C02 findings): selected on the chunk aggregate, sorted once over the minutes, first
              \*         included candidate in list order, re-selected on the aggregate WITHOUT sorting after a fill

Min2(a, b) == IF a < b THEN a ELSE b
Max2(a, b) == IF a > b THEN a ELSE b
Includes(cd, p) == p >= cd.l /\ p <= cd.h
Bull(cd) == cd.c >= cd.o
Bear(cd) == cd.c < cd.o
Cd(o_, c_, h_, l_) == [o |-> o_, c |-> c_, h |-> h_, l |-> l_]

\* ---- services.candle.split_candle: <<earlier (storable), later>> ----
Split(cd, p) ==
  LET o == cd.o c == cd.c h == cd.h l == cd.l IN
  IF Bull(cd) /\ l < p /\ p < o THEN <<Cd(o,p,o,p), Cd(p,c,h,l)>>
  ELSE IF p = o THEN <<cd, cd>>
  ELSE IF Bear(cd) /\ o < p /\ p < h THEN <<Cd(o,p,p,o), Cd(p,c,h,l)>>
  ELSE IF Bear(cd) /\ l < p /\ p < c THEN <<Cd(o,p,h,p), Cd(p,c,c,l)>>
  ELSE IF Bull(cd) /\ c < p /\ p < h THEN <<Cd(o,p,p,l), Cd(p,c,h,c)>>
  ELSE IF Bear(cd) /\ p = c THEN <<Cd(o,c,h,c), Cd(p,p,p,l)>>
  ELSE IF Bull(cd) /\ p = c THEN <<Cd(o,c,c,l), Cd(p,p,h,p)>>
  ELSE IF Bear(cd) /\ p = h THEN <<Cd(o,h,h,o), Cd(h,c,h,l)>>
  ELSE IF Bull(cd) /\ p = l THEN <<Cd(o,l,o,l), Cd(l,c,h,l)>>
  ELSE IF Bear(cd) /\ p = l THEN <<Cd(o,l,h,l), Cd(l,c,c,l)>>
  ELSE IF Bull(cd) /\ p = h THEN <<Cd(o,h,h,l), Cd(h,c,h,c)>>
  ELSE IF Bear(cd) /\ c < p /\ p < o THEN <<Cd(o,p,h,p), Cd(p,c,p,l)>>
  ELSE IF Bull(cd) /\ o < p /\ p < c THEN <<Cd(o,p,p,l), Cd(p,c,h,p)>>
  ELSE <<cd, cd>>

\* ---- _get_fixed_jumped_candle ----
FixJump(pc, cd) == IF pc = 0 THEN cd
                   ELSE IF pc < cd.o THEN [cd EXCEPT !.o = pc, !.l = Min2(pc, cd.l)]
                   ELSE IF pc > cd.o THEN [cd EXCEPT !.o = pc, !.h = Max2(pc, cd.h)]
                   ELSE cd

\* ---- _sort_execution_orders(orders, candles) ----
RECURSIVE InsAsc(_, _), InsDesc(_, _), SortAsc(_), SortDesc(_)
InsAsc(s, x)  == IF s = <<>> THEN <<x>> ELSE IF Head(s).p <= x.p THEN <<Head(s)>> \o InsAsc(Tail(s), x) ELSE <<x>> \o s
InsDesc(s, x) == IF s = <<>> THEN <<x>> ELSE IF Head(s).p >= x.p THEN <<Head(s)>> \o InsDesc(Tail(s), x) ELSE <<x>> \o s
SortAsc(s)  == IF s = <<>> THEN <<>> ELSE InsAsc(SortAsc(SubSeq(s, 1, Len(s) - 1)), s[Len(s)])     \* stable
SortDesc(s) == IF s = <<>> THEN <<>> ELSE InsDesc(SortDesc(SubSeq(s, 1, Len(s) - 1)), s[Len(s)])  \* stable
Arrange(inc, cd) ==
  LET onOpen == SelectSeq(inc, LAMBDA x : x.p = cd.o)
      above  == SelectSeq(inc, LAMBDA x : x.p > cd.o)
      below  == SelectSeq(inc, LAMBDA x : ~(x.p > cd.o))          \* quirk: contains the on-open orders again
  IN onOpen \o (IF cd.o > cd.c THEN SortAsc(above) \o SortDesc(below) ELSE SortDesc(below) \o SortAsc(above))
RECURSIVE SortExec(_, _, _, _)
SortExec(orders, cds, j, acc) ==
  IF j > Len(cds) THEN acc
  ELSE LET inc  == SelectSeq(orders, LAMBDA x : Includes(cds[j], x.p))
           add  == IF Len(inc) = 1 THEN inc ELSE IF Len(inc) > 1 THEN Arrange(inc, cds[j]) ELSE <<>>
           acc2 == acc \o add
       IN IF Len(acc2) = Len(orders) THEN acc2 ELSE SortExec(orders, cds, j + 1, acc2)      \* quirk: early exit on length

\* ---- one side (simulator) ----
\* pos: -1/0/1, entry: fill price of the entry, cur: position.current_price, bal: realised PnL,
\* ords: ACTIVE orders in submission order (final orders are garbage), ex: declared exits, log: fills since the last comparison
\* declared exits: absolute prices (set in go_long/go_short) or, when rel, a distance d from the price the strategy sees in
\* on_open_position (self.stop_loss = qty, self.price -/+ d)
NoEx == [sl |-> 0, tp |-> 0, rel |-> FALSE, d |-> 0]
\* gap (ghost, fast side only): an order was filled in a minute inside a chunk whose raw open differs from the previous close -
\* the situation in which the unrepaired fast loop works on a candle with another open than the normal simulator
Side0 == [pos |-> 0, entry |-> 0, cur |-> 0, bal |-> 0, ords |-> <<>>, nid |-> 1, ex |-> NoEx, log |-> <<>>, err |-> "none", gap |-> FALSE]
Ord(id_, side_, typ_, p_, role_) == [id |-> id_, side |-> side_, typ |-> typ_, p |-> p_, role |-> role_]
ById(s, oid) == LET m == SelectSeq(s.ords, LAMBDA x : x.id = oid) IN m[1]
IsActive(s, oid) == \E j \in DOMAIN s.ords : s.ords[j].id = oid
\* Broker.reduce_position_at: type by the price the strategy sees in the hook
ExitType(dir, p, cur) == IF p = cur THEN "MARKET"
                         ELSE IF (dir = 1) = (p > cur) THEN "LIMIT" ELSE "STOP"
\* Strategy._submit_buy_orders / _submit_sell_orders
EntryType(dir, p, cur) == IF p = cur THEN "MARKET"
                          ELSE IF (dir = 1) = (p > cur) THEN "STOP" ELSE "LIMIT"

\* Order.execute(): position update and strategy hooks; hc = the price the hook sees (close of the partial candle)
Exec(s, oid, minute, hc) ==
  LET o    == ById(s, oid)
      q2   == s.pos + (IF o.side = "buy" THEN 1 ELSE -1)
      rest == SelectSeq(s.ords, LAMBDA x : x.id # oid)
      lg   == Append(s.log, <<o.side, o.typ, o.p, minute>>)
  IN IF s.pos = 0
     THEN \* _on_open_position: stop-loss first, then take-profit
          LET cs == IF q2 = 1 THEN "sell" ELSE "buy"
              sl == IF s.ex.rel THEN hc - q2 * s.ex.d ELSE s.ex.sl
              tp == IF s.ex.rel THEN hc + q2 * s.ex.d ELSE s.ex.tp IN
          [s EXCEPT !.pos = q2, !.entry = o.p, !.cur = hc, !.log = lg, !.nid = @ + 2,
                    !.ords = rest \o << Ord(s.nid, cs, ExitType(q2, sl, hc), sl, "sl"),
                                        Ord(s.nid + 1, cs, ExitType(q2, tp, hc), tp, "tp") >>]
     ELSE IF q2 = 0
     THEN \* _on_close_position -> _execute_cancel: everything resting is cancelled, trade closed
          [s EXCEPT !.pos = 0, !.entry = 0, !.cur = hc, !.log = lg, !.ords = <<>>, !.ex = NoEx,
                    !.bal = @ + (IF s.pos = 1 THEN o.p - s.entry ELSE s.entry - o.p)]
     ELSE [s EXCEPT !.err = "position-size"]

\* ---- NORMAL simulator: one minute ----
RECURSIVE LoopN(_, _, _, _)
LoopN(s, temp, minute, ig) ==
  LET ex0 == SelectSeq(s.ords, LAMBDA x : Includes(temp, x.p))
      ex  == IF Len(ex0) > 1 THEN SortExec(ex0, <<temp>>, 1, <<>>) ELSE ex0
  IN IF ex = <<>> \/ s.err # "none" THEN s
     ELSE LET sp == Split(temp, ex[1].p)
              s1 == Exec(s, ex[1].id, minute, sp[1].c)
          IN LoopN([s1 EXCEPT !.gap = @ \/ ig], sp[2], minute, ig)
MinuteN(s, cd, minute) == [LoopN(s, cd, minute, FALSE) EXCEPT !.cur = cd.c]
\* the minutes of one chunk, each jump-fixed against the previous raw close
RECURSIVE MinutesN(_, _, _, _, _)
MinutesN(s, raw, pc, k, base) ==
  IF k > Len(raw) THEN s
  ELSE MinutesN(MinuteN(s, FixJump(pc, raw[k]), base + k), raw, raw[k].c, k + 1, base)

\* ---- FAST simulator: one chunk ----
RECURSIVE MaxH(_), MinL(_)
MaxH(cs) == IF Len(cs) = 1 THEN cs[1].h ELSE Max2(cs[1].h, MaxH(Tail(cs)))
MinL(cs) == IF Len(cs) = 1 THEN cs[1].l ELSE Min2(cs[1].l, MinL(Tail(cs)))
Agg(cs)  == Cd(cs[1].o, cs[Len(cs)].c, MaxH(cs), MinL(cs))
Ext(cs, k) == IF k = 1 THEN cs[1]
              ELSE Cd(cs[k].o, cs[k].c, Max2(cs[k].h, cs[k - 1].c), Min2(cs[k].l, cs[k - 1].c))
InnerGap(raw, k) == k > 1 /\ raw[k].o # raw[k - 1].c
Ids(os) == [j \in 1..Len(os) |-> os[j].id]
\* index of the first candidate that is still active and inside the (rest of the) minute; 0 if none
FirstHit(s, ids, temp) ==
  LET hit == {j \in 1..Len(ids) : IsActive(s, ids[j]) /\ Includes(temp, ById(s, ids[j]).p)}
  IN IF hit = {} THEN 0 ELSE CHOOSE j \in hit : \A m \in hit : j <= m
RECURSIVE LoopF(_, _, _, _, _, _)
LoopF(s, ids, temp, minute, real, ig) ==
  LET j == FirstHit(s, ids, temp) IN
  IF j = 0 \/ s.err # "none" THEN [s |-> s, ids |-> ids]
  ELSE LET o  == ById(s, ids[j])
           sp == Split(temp, o.p)
           s1 == Exec(s, o.id, minute, sp[1].c)
           s2 == [s1 EXCEPT !.gap = @ \/ ig]
       IN LoopF(s2, Ids(SelectSeq(s2.ords, LAMBDA x : Includes(real, x.p))), sp[2], minute, real, ig)   \* not re-sorted
RECURSIVE MinutesF(_, _, _, _, _, _, _)
MinutesF(s, ids, cs, k, base, real, raw) ==
  IF k > Len(cs) THEN s
  ELSE LET r == LoopF(s, ids, Ext(cs, k), base + k, real, InnerGap(raw, k)) IN MinutesF(r.s, r.ids, cs, k + 1, base, real, raw)
\* the per-minute loop of the repaired fast simulator: the normal loop on each (jump-fixed) minute of the chunk
RECURSIVE MinutesP(_, _, _, _, _)
MinutesP(s, cs, k, base, raw) ==
  IF k > Len(cs) THEN s
  ELSE MinutesP([LoopN(s, Ext(cs, k), base + k, InnerGap(raw, k)) EXCEPT !.cur = cs[k].c], cs, k + 1, base, raw)
ChunkF(s, raw, pc, base) ==
  LET cs   == [k \in 1..Len(raw) |-> IF k = 1 THEN FixJump(pc, raw[1]) ELSE IF InnerFix THEN FixJump(raw[k - 1].c, raw[k]) ELSE raw[k]]
      real == Agg(cs)
      ex0  == SelectSeq(s.ords, LAMBDA x : Includes(real, x.p))
      ex   == IF Len(ex0) > 1 THEN SortExec(ex0, cs, 1, <<>>) ELSE ex0
      \* quirk kept by both variants: the minute loop only runs when the chunk aggregate selects at least one order
      s2   == IF ex0 = <<>> THEN s
              ELSE IF PerMinute THEN MinutesP(s, cs, 1, base, raw)
              ELSE MinutesF(s, Ids(ex), cs, 1, base, real, raw)
  IN [s2 EXCEPT !.cur = raw[Len(raw)].c]

\* ---- the strategy step at a trading-candle boundary (Strategy._check + _execute_market_orders) ----
RECURSIVE Flush(_, _)
Flush(s, minute) ==        \* store.orders.execute_pending_market_orders()
  LET mk == SelectSeq(s.ords, LAMBDA x : x.typ = "MARKET") IN
  IF mk = <<>> \/ s.err # "none" THEN s ELSE Flush(Exec(s, mk[1].id, minute, s.cur), minute)
NoEntry == [dir |-> 0, p |-> 0, sl |-> 0, tp |-> 0, rel |-> FALSE, d |-> 0]
HasEntry(s) == s.pos = 0 /\ s.ords # <<>>
Decide(s, row, minute) ==
  LET s1 == IF HasEntry(s) /\ row.cancel THEN [s EXCEPT !.ords = <<>>, !.ex = NoEx] ELSE s           \* should_cancel_entry
      s2 == IF s1.pos # 0 /\ row.close                                                                \* liquidate()
            THEN [s1 EXCEPT !.ords = Append(@, Ord(s1.nid, IF s1.pos = 1 THEN "sell" ELSE "buy", "MARKET", s1.cur, "close")),
                            !.nid = @ + 1]
            ELSE s1
      s3 == Flush(s2, minute)
      e  == row.entry
      s4 == IF s3.pos = 0 /\ s3.ords = <<>> /\ e # NoEntry
            THEN [s3 EXCEPT !.ords = <<Ord(s3.nid, IF e.dir = 1 THEN "buy" ELSE "sell", EntryType(e.dir, e.p, s3.cur), e.p, "entry")>>,
                            !.nid = @ + 1, !.ex = [sl |-> e.sl, tp |-> e.tp, rel |-> e.rel, d |-> e.d]]
            ELSE s3
  IN Flush(s4, minute)

\* ---- the antecedent of C12, evaluated on the NORMAL side, window by window (a window = one trading candle)
RestingPx(os) == {os[j].p : j \in {i \in DOMAIN os : os[i].typ # "MARKET"}}                \* prices of resting orders
FilledPx(lg)  == {lg[j][3] : j \in {i \in DOMAIN lg : lg[i][2] # "MARKET"}}                \* prices of resting fills
RestingFills(lg) == Len(SelectSeq(lg, LAMBDA f : f[2] # "MARKET"))
NewFills(before, after) == SubSeq(after, Len(before) + 1, Len(after))

\* Strategy._terminate at the end of the session: an open position is closed with a MARKET order at the current price,
\* resting entry orders are cancelled
Terminate(s, minute) ==
  IF s.pos # 0
  THEN Flush([s EXCEPT !.ords = Append(@, Ord(s.nid, IF s.pos = 1 THEN "sell" ELSE "buy", "MARKET", s.cur, "close")), !.nid = @ + 1], minute)
  ELSE [s EXCEPT !.ords = <<>>]
=============================================================================
