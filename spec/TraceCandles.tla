---------------------------- MODULE TraceCandles ----------------------------
(* C07, code -> spec (monitor).  Validates what a strategy / caller READ from   *)
(* the real candle store during real backtests (both simulators, warm-up,       *)
(* trading + data routes) and what the candle-generation helpers returned,      *)
(* against the property-level oracle: every candle of every timeframe is the    *)
(* aggregation (Candles!Agg) of the stored one-minute candles of its aligned    *)
(* window, one row per started window, the last one possibly forming; the       *)
(* stored one-minute candles are the input candles up to the documented         *)
(* jump normalisation.  One initial state per trace, deterministic, total.      *)
(*                                                                              *)
(* hdr.syms[s] = [name, inp (raw input rows, warm-up first), fin (stored 1m     *)
(* rows at the end of the run)]; timestamps are minute indices relative to the  *)
(* first stored candle, so row k of the store has ts = k - 1 and window w of a  *)
(* timeframe of T minutes is rows (w-1)T+1 .. wT.                               *)
EXTENDS Integers, Sequences, TLC, Json, IOUtils, Candles
Data == JsonDeserialize(IOEnv.TRACE_FILE)
Traces == Data.traces
VARIABLES tid, l, seen
vars == <<tid, l, seen>>
Ev(t) == Traces[t].ev
Hdr(t) == Traces[t].hdr
Init == tid \in 1..Len(Traces) /\ l = 1 /\ seen = {}

Fold(acc, r) == <<acc[1], acc[2], r[3], CMax(acc[4], r[4]), CMin(acc[5], r[5]), acc[6] + r[6]>>
\* aggregation of f[lo..n-1] followed by `last` as row n (the last 1m row may be a partial candle inside a fill hook)
AggLast(f, lo, n, last) == IF lo = n THEN last ELSE Fold(Agg(f, lo, n - 1), last)

ReadVerdict(t, e) ==
  LET T == e.T
      f == Hdr(t).syms[e.s].fin
      n1 == e.n1
      cnt == (n1 + T - 1) \div T
      nt == Len(e.m1tail)
      last1 == e.m1tail[nt]
      lo == (cnt - 1) * T + 1
      expLast == AggLast(f, lo, n1, last1)
      nr == Len(e.rows)
      pidx == IF e.part = <<>> THEN 0 ELSE e.part[1][1] + 1
      staleRow == AggLast(f, lo, pidx, e.part[1])
      \* the store counts windows from its first candle; a timeframe is "off the epoch grid" when that start is not a
      \* multiple of the timeframe counted from 1970-01-01 (3D / 1W sessions starting on an arbitrary day)
      offgrid == IF Hdr(t).epoch0 % T # 0 THEN "(timeframe-off-the-epoch-grid)" ELSE ""
      \* reads go through the strategy API: Strategy.candles (the route's own property) or self.get_candles(...)
      site == IF e.via = "Strategy.candles" THEN "Strategy.candles" \o offgrid
              ELSE IF T = 1 THEN "get_candles(1m)" ELSE "get_candles" \o offgrid
      cursite == IF e.via = "Strategy.candles" THEN "Strategy.current_candle" ELSE "get_current_candle"
  IN
  IF n1 = 0 THEN (IF e.ok /\ e.n = 0 THEN "ok" ELSE site \o ":empty-store-read-not-empty")
  ELSE IF n1 - 1 > Len(f) \/ nt = 0 THEN "machinery:1m-rows-missing"
  ELSE IF nt = 2 /\ e.m1tail[1] # f[n1 - 1] THEN "1m:completed-row-changed-after-it-was-read"
  ELSE IF e.at # "hook" /\ n1 <= Len(f) /\ last1 # f[n1] THEN "1m:last-row-at-a-strategy-step-is-not-the-stored-candle"
  ELSE IF last1[1] # n1 - 1 THEN "1m:timestamps-not-one-minute-apart"
  ELSE IF ~e.ok THEN site \o ":raises(" \o e.exc \o ")" \o (IF n1 < T THEN ":before-first-complete-candle" ELSE ":other")
  ELSE IF e.n # cnt THEN site \o (IF e.n < cnt THEN ":missing-row-for-a-started-window" ELSE ":more-rows-than-started-windows")
  ELSE IF nr = 0 THEN "machinery:no-rows-logged"
  ELSE IF e.rows[nr] # expLast THEN
         (IF n1 % T = 0 THEN site \o ":last-complete-row-differs"
          ELSE IF pidx >= lo /\ pidx <= n1 /\ e.rows[nr] = staleRow THEN site \o ":forming-row-stale-after-fill"
          ELSE site \o ":forming-row-differs")
  ELSE IF cnt >= 2 /\ nr >= 2 /\ e.rows[nr - 1] # Agg(f, lo - T, lo - 1) THEN site \o ":completed-row-differs"
  ELSE IF e.isfull /\ Len(e.full) # cnt THEN site \o ":row-count"
  ELSE IF e.isfull /\ e.full[cnt] # expLast THEN site \o ":full-array-last-row-differs"
  ELSE IF e.isfull /\ \E w \in 1..(cnt - 1) : e.full[w] # Agg(f, (w - 1) * T + 1, w * T) THEN site \o ":completed-row-differs"
  ELSE IF ~e.curok THEN cursite \o ":raises(" \o e.curexc \o ")"
  ELSE IF e.cur[1] # expLast THEN cursite \o ":differs"
  ELSE IF e.ohlcp # <<>> /\ <<e.ohlcp[1], e.ohlcp[2], e.ohlcp[3], e.ohlcp[4]>> # <<expLast[2], expLast[3], expLast[4], expLast[5]>>
       THEN "Strategy.open/close/high/low:differs"
  ELSE IF e.ohlcp # <<>> /\ e.ohlcp[5] # expLast[3] THEN "Strategy.price:differs-from-the-current-close"
  ELSE "ok"

\* the stored one-minute candles equal the input candles except for the jump normalisation
FinalVerdict(t, e) ==
  LET sy == Hdr(t).syms[e.s]  f == sy.fin  inp == sy.inp  W == Hdr(t).W
      Fixed(k) == FixJump(inp[k - 1][3], inp[k])
      \* warm-up rows and the first trading minute are stored as given (or normalised); every later trading minute
      \* IS normalised when its open gaps (both simulators; inside a fast-mode chunk too)
      raw == {k \in (W + 2)..Len(f) : f[k] = inp[k] /\ f[k] # Fixed(k)}
      bad == {k \in 1..Len(f) : ~(f[k] = inp[k] \/ (k > 1 /\ f[k] = Fixed(k)))}
  IN IF Len(f) > Len(inp) THEN "1m:more-stored-rows-than-input"
     ELSE IF Hdr(t).exc = "none" /\ Len(f) # Len(inp) THEN "1m:stored-count-differs-from-input"
     ELSE IF \E k \in 1..Len(f) : f[k][1] # k - 1 THEN "1m:timestamps-not-one-minute-apart"
     ELSE IF bad # {} THEN "1m:stored-row-is-neither-the-input-nor-its-jump-normalisation"
     ELSE IF raw # {} THEN "1m:gapping-open-not-normalised:" \o Hdr(t).mode
     ELSE "ok"

ExcVerdict(t, e) ==
  IF ~e.candle_related THEN "ok"
  ELSE "run-raises(" \o e.cls \o "):" \o e.site \o
       (IF Hdr(t).mode = "fast" /\ e.n % Hdr(t).step # 0 THEN ":fast:length-not-multiple-of-chunk" ELSE ":other")

\* candle-generation helpers driven directly
GenVerdict(e) ==          \* services.candle._get_generated_candles(timeframe, rows)
  LET T == e.T  k == Len(e.inp) \div T IN
  IF ~e.ok THEN "_get_generated_candles:raises(" \o e.exc \o ")"
  ELSE IF Len(e.out) # k THEN "_get_generated_candles:row-count"
  ELSE IF \E w \in 1..k : e.out[w] # Agg(e.inp, (w - 1) * T + 1, w * T) THEN "_get_generated_candles:row-differs"
  ELSE "ok"
OneVerdict(e) ==          \* services.candle.generate_candle_from_one_minutes(timeframe, rows, accept_forming)
  IF ~e.ok THEN (IF Len(e.inp) = e.T THEN "generate_candle_from_one_minutes:raises-on-a-complete-window(" \o e.exc \o ")" ELSE "ok")
  ELSE IF Len(e.inp) = 0 THEN "generate_candle_from_one_minutes:returns-for-no-candles"
  ELSE IF e.out[1] # AggAll(e.inp) THEN "generate_candle_from_one_minutes:differs"
  ELSE "ok"
TableVerdict(e) ==
  IF \E i \in 1..Len(e.names) : \E j \in 1..Len(TFNames) :
        TFNames[j] = e.names[i] /\ (e.utils[i] # TFMinutes[j] \/ e.sim[i] # TFMinutes[j])
  THEN "timeframe-table:minutes-differ" ELSE "ok"

\* A monitor: every event is judged on its own, so the validation goes on after a rejected event (a frequent
\* known defect must not hide another one).  The first occurrence of each distinct clause is reported (BAD).
Judge(t, e) == CASE e.k = "read" -> ReadVerdict(t, e)
                 [] e.k = "final" -> FinalVerdict(t, e)
                 [] e.k = "exc" -> ExcVerdict(t, e)
                 [] e.k = "gen" -> GenVerdict(e)
                 [] e.k = "one" -> OneVerdict(e)
                 [] e.k = "tables" -> TableVerdict(e)
                 [] OTHER -> "machinery:unknown-event"
Step ==
  /\ l <= Len(Ev(tid))
  /\ LET v == Judge(tid, Ev(tid)[l]) IN
     IF v = "ok" \/ v \in seen THEN UNCHANGED seen
     ELSE seen' = seen \cup {v} /\ PrintT(<<"BAD", Traces[tid].id, l, v>>)
  /\ l' = l + 1 /\ UNCHANGED tid
Spec == Init /\ [][Step]_vars
Finished == l > Len(Ev(tid))
Report == Finished => PrintT(<<"VERDICT", Traces[tid].id, l - 1, IF seen = {} THEN "ok" ELSE "rejected">>)
=============================================================================
