-------------------------- MODULE TraceRouteEvents --------------------------
(* X02, code -> spec (monitor).  Judges recorded multi-route sessions of the     *)
(* real code (harness/drivers/route_runs.py):                                    *)
(*  - every position event of route A (effect of a fill, from the sizes before / *)
(*    after) is delivered exactly once to every OTHER route's matching           *)
(*    on_route_* hook, with A's strategy object as argument, never to A, while   *)
(*    that fill is being processed (hence in fill order) and at the fill's time; *)
(*  - every Strategy._execute_cancel of A calls A's on_cancel once and delivers  *)
(*    on_route_canceled once to every other route;                               *)
(*  - at every simulated time exactly the routes whose timeframe boundary it is  *)
(*    are executed, in router order, at that time;                               *)
(*  - shared_vars: what a route reads in before() is what was written last.      *)
(* Time comes from the 1m candles handed to the matching functions (`match`).    *)
(* Deterministic and TOTAL; operators from RouteProps / StrategyProps.           *)
EXTENDS Integers, Sequences, FiniteSets, TLC, Json, IOUtils, StrategyProps, RouteProps
Data == JsonDeserialize(IOEnv.TRACE_FILE)
Traces == Data.traces
VARIABLES tid, l, vs, now, fill, xc, gotF, gotX, onc, execs, sv, st
vars == <<tid, l, vs, now, fill, xc, gotF, gotX, onc, execs, sv, st>>
Ev(t) == Traces[t].ev
Hdr == Traces[tid].hdr
NR == Hdr.nroutes
NoFill == [o |-> 0]
Init == /\ tid \in 1..Len(Traces) /\ l = 1 /\ vs = <<>> /\ now = -1 /\ fill = NoFill /\ xc = 0 /\ gotF = <<>> /\ gotX = <<>>
        /\ onc = 0 /\ execs = <<>> /\ sv = 0
        /\ st = [fills |-> 0, dels |-> 0, cancels |-> 0, steps |-> 0, times |-> 0, multi |-> 0]
RECURSIVE AddAll(_, _, _)
AddAll(v, n, cs) == IF cs = <<>> THEN v
                    ELSE IF \E i \in DOMAIN v : v[i][2] = Head(cs) THEN AddAll(v, n, Tail(cs))
                    ELSE AddAll(Append(v, <<n, Head(cs)>>), n, Tail(cs))
If(c, s) == IF c THEN <<>> ELSE <<s>>
FillTime(f) == IF f.cm >= 0 THEN f.cm + 1 ELSE IF now >= 0 THEN now ELSE f.t

\* the routes executed at time `now`, when time moves on (or the run ends)
StepClauses == IF now < 0 THEN <<>>
               ELSE If(execs = DueRoutes(now, Hdr.tf), "routes-executed:not-exactly-the-due-routes-in-router-order")
Deliveries(got, a, ev) ==
  If(DeliveredExactlyOnce(got, a, ev, NR), "route-event:" \o ev \o ":not-delivered-exactly-once-to-every-other-route")
  \o If(\A k \in DOMAIN got : got[k][4], "route-event:" \o ev \o ":argument-is-not-the-sender's-strategy")

Step ==
  /\ l <= Len(Ev(tid))
  /\ LET e == Ev(tid)[l] IN
     CASE e.k = "match" ->
            LET t == e.t0 + Len(e.lo) IN
            /\ vs' = AddAll(vs, l, IF t > now THEN StepClauses ELSE <<>>)
            /\ execs' = IF t > now THEN <<>> ELSE execs
            /\ st' = IF t > now /\ now >= 0 THEN [st EXCEPT !.times = @ + 1, !.multi = @ + (IF Len(execs) >= 2 THEN 1 ELSE 0)] ELSE st
            /\ now' = t
            /\ UNCHANGED <<fill, xc, gotF, gotX, onc, sv>>
       [] e.k = "fillb" ->
            /\ fill' = e /\ gotF' = <<>>
            /\ vs' = AddAll(vs, l, If(fill.o = 0, "machinery:nested-fill"))
            /\ UNCHANGED <<now, xc, gotX, onc, execs, sv, st>>
       [] e.k = "rhook" ->
            /\ gotF' = IF xc = 0 /\ fill.o # 0 THEN Append(gotF, <<e.s, e.n, e.a, e.same>>) ELSE gotF
            /\ gotX' = IF xc # 0 THEN Append(gotX, <<e.s, e.n, e.a, e.same>>) ELSE gotX
            /\ vs' = AddAll(vs, l, If(xc # 0 \/ fill.o # 0, "route-event:" \o e.n \o ":without-a-position-event-or-cancellation")
                                   \o If(e.t = (IF fill.o # 0 THEN FillTime(fill) ELSE IF now >= 0 THEN now ELSE e.t),
                                         "route-event:" \o e.n \o ":receiver-sees-another-time")
                                   \* no look-ahead across routes: the newest 1m candle of its own symbol that the receiver can read
                                   \* belongs to a minute that is over at the time of the event
                                   \o If(e.pm + 1 <= e.t, "route-event:receiver-reads-candles-of-its-own-symbol-from-after-the-event:"
                                                           \o (IF Hdr.fast THEN "fast-simulator" ELSE "normal-simulator")))
            /\ st' = [st EXCEPT !.dels = @ + 1]
            /\ UNCHANGED <<now, fill, xc, onc, execs, sv>>
       [] e.k = "xcb" ->
            /\ xc' = e.s /\ gotX' = <<>> /\ onc' = 0
            /\ vs' = AddAll(vs, l, If(xc = 0, "machinery:nested-cancel"))
            /\ UNCHANGED <<now, fill, gotF, execs, sv, st>>
       [] e.k = "oncancel" ->
            /\ onc' = IF xc = e.s THEN onc + 1 ELSE onc
            /\ vs' = AddAll(vs, l, If(xc = e.s, "on_cancel-outside-its-own-cancellation"))
            /\ UNCHANGED <<now, fill, xc, gotF, gotX, execs, sv, st>>
       [] e.k = "xce" ->
            /\ vs' = AddAll(vs, l, Deliveries(gotX, e.s, "canceled") \o If(onc = 1, "route-event:canceled:own-on_cancel-not-called-exactly-once"))
            /\ xc' = 0 /\ gotX' = <<>> /\ onc' = 0
            /\ st' = [st EXCEPT !.cancels = @ + 1]
            /\ UNCHANGED <<now, fill, gotF, execs, sv>>
       [] e.k = "fille" ->
            LET eff == Effect(fill.qb, e.qa) IN
            /\ vs' = AddAll(vs, l, If(fill.o = e.o, "machinery:fill-pairing")
                                   \o (IF eff \in {"open", "inc", "red", "close"} THEN Deliveries(gotF, e.s, eff)
                                       ELSE If(gotF = <<>> \/ eff = "flip", "route-event:delivered-for-a-fill-without-effect")))
            /\ fill' = NoFill /\ gotF' = <<>>
            /\ st' = [st EXCEPT !.fills = @ + 1]
            /\ UNCHANGED <<now, xc, gotX, onc, execs, sv>>
       [] e.k = "step" ->
            /\ execs' = Append(execs, e.s)
            /\ vs' = AddAll(vs, l, If(now < 0 \/ e.t = now, "route-executed:at-another-time-than-the-end-of-the-matched-candles")
                                   \o If(now < 0 \/ Boundary(now, Hdr.tf[e.s]), "route-executed:off-its-timeframe-boundary"))
            /\ st' = [st EXCEPT !.steps = @ + 1]
            /\ UNCHANGED <<now, fill, xc, gotF, gotX, onc, sv>>
       [] e.k = "svr" ->
            /\ vs' = AddAll(vs, l, If(e.v = sv, "shared_vars:read-is-not-the-last-write"))
            /\ UNCHANGED <<now, fill, xc, gotF, gotX, onc, execs, sv, st>>
       [] e.k = "svw" ->
            /\ sv' = e.v /\ UNCHANGED <<vs, now, fill, xc, gotF, gotX, onc, execs, st>>
       [] e.k = "end" ->
            /\ vs' = AddAll(vs, l, IF e.completed THEN StepClauses ELSE <<>>)
            /\ UNCHANGED <<now, fill, xc, gotF, gotX, onc, execs, sv, st>>
       [] OTHER -> UNCHANGED <<vs, now, fill, xc, gotF, gotX, onc, execs, sv, st>>
  /\ l' = l + 1 /\ UNCHANGED tid
Spec == Init /\ [][Step]_vars
Finished == l > Len(Ev(tid))
Report == Finished => /\ PrintT(<<"VERDICT", Traces[tid].id, l - 1, vs>>)
                      /\ PrintT(<<"STATS", Traces[tid].id, st.fills, st.dels, st.cancels, st.steps, st.times, st.multi>>)
=============================================================================
