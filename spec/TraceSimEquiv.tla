--------------------------- MODULE TraceSimEquiv ---------------------------
(* C12, code -> spec: differential trace spec.  One trace = the results of the   *)
(* REAL normal simulator and the REAL fast simulator on equal arguments.         *)
(* TLC (1) re-checks the property's precondition on the NORMAL run - at most one *)
(* resting (LIMIT/STOP) order executed inside every aligned window of the trading*)
(* timeframe, no liquidation, the normal run itself completed - and discards the *)
(* pair otherwise (verdict "discard:...", counted, never judged); (2) compares   *)
(* the executed orders in execution order as (side, type, qty, price, minute),   *)
(* the closed trades, the final balances and the strategy executions (index and  *)
(* clock of every before() call).  Numbers are exact texts of the                *)
(* doubles: both simulators perform the same arithmetic on the same fills, so    *)
(* there is no tolerance.  Deterministic and total: one verdict per trace.       *)
(*                                                                              *)
(* minute = executed_at in minutes since the session start, i.e. the END of the  *)
(* one-minute candle the order was filled in; that candle is index minute - 1 and*)
(* lies in window (minute - 1) \div tf of the trading timeframe.                 *)
EXTENDS Integers, Sequences, FiniteSets, TLC, Json, IOUtils
Data   == JsonDeserialize(IOEnv.TRACE_FILE)
Traces == Data.traces

VARIABLES tid, ph, j, seen, verdict
vars == <<tid, ph, j, seen, verdict>>

Hdr(t)  == Traces[t].hdr
Nm(t)   == Traces[t].norm
Fs(t)   == Traces[t].fast
Resting(f) == f.type # "MARKET"
Win(f, t)  == (f.minute - 1) \div Hdr(t).tf
Ragged(t)  == Hdr(t).n % Hdr(t).chunk # 0

Init == tid \in 1..Len(Traces) /\ ph = "pre" /\ j = 1 /\ seen = {} /\ verdict = "ok"

\* ---- (1) the precondition, from the normal run only
Pre0 == /\ ph = "pre" /\ j = 1
        /\ \/ Nm(tid).exc # "none" \/ Nm(tid).liq > 0
        /\ verdict' = (IF Nm(tid).exc # "none" THEN "discard:normal-run-raises:" \o Nm(tid).exc ELSE "discard:liquidation")
        /\ UNCHANGED <<tid, ph, j, seen>>
Pre == /\ ph = "pre" /\ Nm(tid).exc = "none" /\ Nm(tid).liq = 0
       /\ LET fl == Nm(tid).fills IN
          IF j > Len(fl) THEN ph' = "raise" /\ j' = 1 /\ UNCHANGED <<seen, verdict>>
          ELSE IF ~Resting(fl[j]) THEN j' = j + 1 /\ UNCHANGED <<ph, seen, verdict>>
          ELSE IF Win(fl[j], tid) \in seen
               THEN verdict' = "discard:two-resting-fills-in-one-trading-candle" /\ UNCHANGED <<ph, j, seen>>
               ELSE seen' = seen \cup {Win(fl[j], tid)} /\ j' = j + 1 /\ UNCHANGED <<ph, verdict>>
       /\ UNCHANGED tid

\* ---- (2) the comparison
Raise == /\ ph = "raise"
         /\ IF Fs(tid).exc # "none"
            THEN verdict' = "fast-raises:" \o Fs(tid).exc \o (IF Ragged(tid) THEN "/length-not-multiple-of-chunk" ELSE "/aligned-length")
                 /\ UNCHANGED ph
            ELSE ph' = "orders" /\ UNCHANGED verdict
         /\ UNCHANGED <<tid, j, seen>>

\* Classification of a difference (not a verdict of its own): the recorder also logs, for every position hook, its name, the
\* minute, the price the strategy saw (self.price) and whether that minute lies inside a chunk with a raw open different
\* from the previous close (ig = 1; computed from the input series).  If the first hook observation that differs between the
\* runs is only a different price in such a minute and it is not later than the first differing order, the difference is
\* reported under the known defect class "inner-gap-fill" (the fast simulator does not jump-fix the minutes inside a chunk).
Min2(a, b) == IF a < b THEN a ELSE b
KnownClass(t, md) ==
  LET hn == Nm(t).hooks  hf == Fs(t).hooks
      D  == {i \in 1..Min2(Len(hn), Len(hf)) : hn[i] # hf[i]}
  IN D # {} /\ LET i == CHOOSE x \in D : \A y \in D : x <= y
               IN hn[i].h = hf[i].h /\ hn[i].t = hf[i].t /\ hn[i].p # hf[i].p /\ hf[i].ig = 1 /\ hf[i].t <= md
\* likewise for what a candle-reading strategy read (minute, timeframe, value): if the first differing read is not later than
\* the first differing order, the verdict names the timeframe whose candles the two simulators showed differently
ReadClass(t, md) ==
  LET rn == Nm(t).reads  rf == Fs(t).reads
      D  == {i \in 1..Min2(Len(rn), Len(rf)) : rn[i] # rf[i]}
  IN IF D = {} THEN "none"
     ELSE LET i == CHOOSE x \in D : \A y \in D : x <= y
          IN IF rn[i].t = rf[i].t /\ rn[i].tf = rf[i].tf /\ rn[i].t <= md THEN rn[i].tf ELSE "none"
Classify(t, v, md) == IF KnownClass(t, md) THEN "orders-differ-after:hook-price:inner-gap-fill"
                      ELSE IF ReadClass(t, md) # "none" THEN "orders-differ-after:strategy-read-differs:" \o ReadClass(t, md)
                      ELSE v
OrderFields == <<"side", "type", "qty", "price", "minute">>
OrderDiff(a, b) == IF a.side # b.side THEN "side" ELSE IF a.type # b.type THEN "type" ELSE IF a.qty # b.qty THEN "qty"
                   ELSE IF a.price # b.price THEN "price" ELSE IF a.minute # b.minute THEN "minute" ELSE "none"
Orders == /\ ph = "orders"
          /\ LET a == Nm(tid).fills  b == Fs(tid).fills IN
             IF j > Len(a) /\ j > Len(b) THEN ph' = "trades" /\ j' = 1 /\ UNCHANGED verdict
             ELSE IF j > Len(a) THEN verdict' = Classify(tid, "orders:fast-executes-more:" \o b[j].type, b[j].minute) /\ UNCHANGED <<ph, j>>
             ELSE IF j > Len(b) THEN verdict' = Classify(tid, "orders:fast-executes-fewer:" \o a[j].type, a[j].minute) /\ UNCHANGED <<ph, j>>
             ELSE IF OrderDiff(a[j], b[j]) # "none"
                  THEN verdict' = Classify(tid, "orders:" \o OrderDiff(a[j], b[j]), Min2(a[j].minute, b[j].minute)) /\ UNCHANGED <<ph, j>>
             ELSE j' = j + 1 /\ UNCHANGED <<ph, verdict>>
          /\ UNCHANGED <<tid, seen>>

TradeFields == <<"symbol", "type", "qty", "entry_price", "exit_price", "pnl", "fee", "opened_minute", "closed_minute", "orders">>
FirstDiff(x, y) == CHOOSE m \in 1..Len(x) : x[m] # y[m] /\ \A q \in 1..(m - 1) : x[q] = y[q]
TradesStep == /\ ph = "trades"
              /\ LET a == Nm(tid).trades  b == Fs(tid).trades IN
                 IF j > Len(a) /\ j > Len(b) THEN ph' = "balances" /\ j' = 1 /\ UNCHANGED verdict
                 ELSE IF j > Len(a) \/ j > Len(b) THEN verdict' = "trades:count" /\ UNCHANGED <<ph, j>>
                 ELSE IF a[j] # b[j] THEN verdict' = "trades:" \o TradeFields[FirstDiff(a[j], b[j])] /\ UNCHANGED <<ph, j>>
                 ELSE j' = j + 1 /\ UNCHANGED <<ph, verdict>>
              /\ UNCHANGED <<tid, seen>>

Balances == /\ ph = "balances"
            /\ LET a == Nm(tid).bal  b == Fs(tid).bal IN
               IF j > Len(a) /\ j > Len(b) THEN ph' = "steps" /\ j' = 1 /\ UNCHANGED verdict
               ELSE IF j > Len(a) \/ j > Len(b) THEN verdict' = "balance:count" /\ UNCHANGED <<ph, j>>
               ELSE IF a[j] # b[j] THEN verdict' = "balance:" \o a[j][1] /\ UNCHANGED <<ph, j>>
               ELSE j' = j + 1 /\ UNCHANGED <<ph, verdict>>
            /\ UNCHANGED <<tid, seen>>

\* the strategy executions themselves (index and clock of every before() call): "reproduces the normal simulation" includes
\* running the strategy at the same trading-candle boundaries - one run more or less on an incomplete trailing candle is a
\* difference even when it happens to place no order
Steps == /\ ph = "steps"
         /\ LET a == Nm(tid).steps  b == Fs(tid).steps IN
            IF j > Len(a) /\ j > Len(b) THEN ph' = "done" /\ UNCHANGED <<j, verdict>>
            ELSE IF j > Len(a) THEN verdict' = "steps:fast-runs-the-strategy-more-often" /\ UNCHANGED <<ph, j>>
            ELSE IF j > Len(b) THEN verdict' = "steps:fast-runs-the-strategy-less-often" /\ UNCHANGED <<ph, j>>
            ELSE IF a[j] # b[j] THEN verdict' = "steps:time" /\ UNCHANGED <<ph, j>>
            ELSE j' = j + 1 /\ UNCHANGED <<ph, verdict>>
         /\ UNCHANGED <<tid, seen>>
Next == verdict = "ok" /\ (Pre0 \/ Pre \/ Raise \/ Orders \/ TradesStep \/ Balances \/ Steps)
Spec == Init /\ [][Next]_vars
Finished == verdict # "ok" \/ ph = "done"
\* second element: number of resting fills of the normal run seen by the precondition walk (coverage, not a verdict)
Report == Finished => PrintT(<<"VERDICT", Traces[tid].id, Cardinality(seen), verdict>>)
=============================================================================
