\* batch of recorded traces: TRACE_FILE=<json> in the environment; constants of the batch are written by the harness
SPECIFICATION TSpec
INVARIANT Report
CHECK_DEADLOCK FALSE
CONSTANTS
 Proj = "acct"
 Syms = {"A"} FeeNum = 1 FeeDen = 16 CancelOnClose = FALSE
 Qtys = {1} Prices = {1} Start = 0 MaxDepth = 0 MaxAct = 0 MaxOrd = 0 Dups = TRUE Export = FALSE
 QuirkDoubleRelease = FALSE QuirkFlip = FALSE
