------------------------------- MODULE TraceHp -------------------------------
(* C19, code -> spec: self.hp as seen by a strategy inside a real               *)
(* research.backtest (first step and last step), judged against the precedence  *)
(* chain of HpDef.  hdr = the scenario; ev[j] = [set, vals, intsok] where vals   *)
(* are the observed values as exact rationals and intsok says that every value   *)
(* of an int declaration that came out of the decoder is a Python int.           *)
EXTENDS HpDef, TLC, Json, IOUtils
Data == JsonDeserialize(IOEnv.TRACE_FILE)
Traces == Data.traces
VARIABLES tid, l, verdict
vars == <<tid, l, verdict>>
Ev(t) == Traces[t].ev
Init == tid \in 1..Len(Traces) /\ l = 1 /\ verdict = "ok"
Which(s) == IF s.hasExplicit THEN "explicit" ELSE IF Len(s.dna) > 0 /\ Len(s.decls) > 0 THEN "dna"
            ELSE IF Len(s.decls) > 0 THEN "defaults" ELSE "nothing"
Step == /\ verdict = "ok" /\ l <= Len(Ev(tid))
        /\ LET e == Ev(tid)[l]  s == Traces[tid].hdr  obs == [set |-> e.set, vals |-> e.vals] IN
           verdict' = IF e.exc # "none" THEN "raises:" \o e.exc
                      ELSE IF ~SameValues(obs, Expected(s)) THEN "expected-" \o Which(s) \o ":at-" \o e.at
                      ELSE IF Which(s) = "dna" /\ ~e.intsok THEN "type:int-parameter-not-int" ELSE "ok"
        /\ l' = l + 1 /\ UNCHANGED tid
Spec == Init /\ [][Step]_vars
Finished == verdict # "ok" \/ l > Len(Ev(tid))
Report == Finished => PrintT(<<"VERDICT", Traces[tid].id, l - 1, verdict>>)
=============================================================================
