SPECIFICATION Spec
VIEW View
CONSTRAINT Depth
CHECK_DEADLOCK FALSE
CONSTANTS Bucket = 2  DropAt = 0  MaxLen = 7  MaxDepth = 8  MaxMulti = 3  Export = FALSE Writes = FALSE
INVARIANT VisibleIsList
INVARIANT LenOK
INVARIANT NoValidOpRaises
INVARIANT CapacityOK
INVARIANT GetItemOK
INVARIANT GetSliceOK
INVARIANT PastOK
INVARIANT DropBound
