----------------------------- MODULE TraceSizing -----------------------------
(* C17, code -> spec.  TLC judges batches of recorded calls of the real helpers *)
(* (one trace = one batch of records of one kind; every record is judged, the   *)
(* distinct failing clauses are collected with the index of their first record).*)
(*                                                                             *)
(* kinds:  size   utils.size_to_qty(C, P, precision=p, fee_rate=F) -> q         *)
(*         risk   utils.risk_to_qty(C, r, E, S, precision=p, fee_rate=F) -> q   *)
(*         sum / sub   utils.sum_floats / subtract_floats on 8-decimal operands *)
(*         rdown  helpers.round_decimals_down(x, p);  rqty  round_qty_for_live_mode *)
(*         rdownb / rqtyb  the same helpers on inputs next to a step boundary      *)
(*         lsl    utils.limit_stop_loss;   erisk  utils.estimate_risk           *)
(* acc fields: was an order for the quantity at that price accepted by a fresh  *)
(* real futures / spot exchange object holding exactly the capital ("yes",      *)
(* "no", "skip" when not tried).                                                *)
EXTENDS Sizing, TLC, Json, IOUtils
Data == JsonDeserialize(IOEnv.TRACE_FILE)
Traces == Data.traces
VARIABLES tid, l, fails
vars == <<tid, l, fails>>
Ev(t) == Traces[t].ev
Init == tid \in 1..Len(Traces) /\ l = 1 /\ fails = <<>>

Accept(e, fit) ==
  IF e.accF = "no" THEN "not-accepted:futures:" \o (IF fit THEN "exact-fit" ELSE "slack") ELSE "ok"
\* second, independent verdict of a sizing record whose contract clauses hold: the spot account
SpotAccept(e) ==
  LET P == IF e.k = "size" THEN e.P ELSE e.E IN
  IF e.k \in {"size", "risk"} /\ e.exc = "none" /\ e.onlat /\ e.q >= 0 /\ e.accS = "no" /\ CostFits(e.q, P, e.F, e.C, e.p)
  THEN "not-accepted:spot:" \o (IF ExactFit(e.q, P, e.F, e.C, e.p) THEN "exact-fit" ELSE "slack") ELSE "ok"

SizeVerdict(e) ==
  IF e.exc # "none" THEN "raises:" \o e.exc
  ELSE IF ~e.onlat \/ e.q < 0 THEN "not-a-multiple-of-the-precision-step"
  ELSE IF ~CostFits(e.q, e.P, e.F, e.C, e.p) THEN "overspend"
  ELSE IF e.q < FloorExactQty(e.C, e.P, e.F, e.p) - 1 THEN "more-than-one-step-below-exact"
  ELSE Accept(e, ExactFit(e.q, e.P, e.F, e.C, e.p))

RiskVerdict(e) ==
  IF e.exc # "none" THEN "raises:" \o e.exc
  ELSE IF ~e.onlat \/ e.q < 0 THEN "not-a-multiple-of-the-precision-step"
  ELSE IF ~CostFits(e.q, e.E, e.F, e.C, e.p) THEN "overspend"
  ELSE IF ~RiskFits(e.q, e.E, e.S, e.r, e.C, e.p) THEN "over-risk"
  ELSE Accept(e, ExactFit(e.q, e.E, e.F, e.C, e.p))

\* utils.risk_to_size(C, r, d, E) -> size Z (units of 1e-4; capital C, entry E and risk per unit d in cents, r in 1e-3 of
\* the capital): the size never exceeds the capital and the quantity it buys (Z / E) never risks more than r:
\*   Z/1e4 * d / E <= r/1000 * C/100   <=>   Z * 10 * d <= r * C * E     (one logging unit of slack: 10 * d)
RsizeVerdict(e) ==
  IF e.exc # "none" THEN "raises:" \o e.exc
  ELSE IF e.Z < 0 THEN "negative-size"
  ELSE IF e.Z > e.C * 100 + 1 THEN "size-above-capital"
  ELSE IF MulGT(e.Z, 10 * e.d, e.r * e.C * e.E + 10 * e.d) THEN "over-risk"
  ELSE "ok"

\* ---- low-price lattice: entry E and stop S in units of 1e-10 (prices 1e-6 .. 1e-4), capital C in whole currency
\* units (<= 20), risk r in 1e-3 of the capital, quantity q an integer (precision 0)
\* floor(a * 100 / d) without leaving 31 bits (a <= 2 * 10^9 / 100 is not needed: long division)
DivScaled(a, d) == LET q1 == a \div d  r1 == a % d IN q1 * 100 + (r1 * 100) \div d
\* cost: q * E * 1e-10 <= C   <=>   q <= floor(C * 10^10 / E)
CostFitsP(e) == e.q <= DivScaled(e.C * 100000000, e.E)
\* risk: q * d * 1e-10 <= r * C * 1e-3   <=>   q <= floor(r * C * 10^7 / d);  a bound above 2 * 10^9 cannot be exceeded
RiskFitsP(e) == LET d == Abs(e.E - e.S)  a == e.r * e.C * 100000 IN
                a \div d > 20000000 \/ e.q <= DivScaled(a, d)
RiskPVerdict(e) ==
  IF e.exc # "none" THEN "raises:" \o e.exc                          \* the distance is never zero on this lattice
  ELSE IF ~e.onlat \/ e.q < 0 THEN "not-a-multiple-of-the-precision-step"
  ELSE IF ~CostFitsP(e) THEN "overspend"
  ELSE IF ~RiskFitsP(e) THEN "over-risk"
  ELSE "ok"
\* estimate_risk: exactly |entry - stop|; R = round(result * 1e12)
EriskPVerdict(e) == IF e.exc # "none" THEN "raises:" \o e.exc ELSE IF e.R # Abs(e.E - e.S) * 100 THEN "not-the-distance" ELSE "ok"
\* risk_to_size at low prices: C in {1, 2}, r <= 100, d = risk per unit in 1e-10, Z = size in 1e-4:
\*   Z * 1e-4 * d / E <= r * C * 1e-3   <=>   Z * d <= 10 * r * C * E   (one logging unit of slack: d)
RsizePVerdict(e) ==
  IF e.exc # "none" THEN "raises:" \o e.exc
  ELSE IF e.Z < 0 THEN "negative-size"
  ELSE IF e.Z > e.C * 10000 + 1 THEN "size-above-capital"
  ELSE IF MulGT(e.Z, e.d, 10 * e.r * e.C * e.E + e.d) THEN "over-risk"
  ELSE "ok"

DecVerdict(e) ==
  LET a == <<e.Ahi, e.Alo>>  b == <<e.Bhi, e.Blo>>
      want == IF e.k = "sum" THEN LimbAdd(a, b) ELSE LimbSub(a, b) IN
  IF e.exc # "none" THEN "raises:" \o e.exc
  ELSE IF ~e.exact8 THEN "result-has-more-than-8-decimals"
  ELSE IF <<e.Rhi, e.Rlo>> # want THEN "not-the-decimal-result" ELSE "ok"

\* operands beyond 15 significant digits (magnitude >= 1e7 with 7-8 decimals): the exact decimal sum is not a float;
\* the result must be a float nearest to it.  r0, rm, rp: ranks (exact rational order) of the distances from the exact
\* decimal sum of the result, of the float just below the result and of the float just above it.
DecXVerdict(e) == IF e.exc # "none" THEN "raises:" \o e.exc
                  ELSE IF e.r0 > e.rm \/ e.r0 > e.rp THEN "not-the-float-nearest-to-the-decimal-result" ELSE "ok"

\* rx, rr, ru: ranks of the input, the result and the minimum unit 10^-p among these three floats
RoundVerdict(e) ==
  LET kx == FloorLattice(e.m, e.e, e.p) IN
  IF e.exc # "none" THEN (IF e.k = "rqty" /\ e.p < 0 /\ kx = 0 THEN "ok" ELSE "raises:" \o e.exc)   \* documented ValueError
  ELSE IF e.k = "rqty" /\ kx = 0 THEN (IF e.rr = e.ru THEN "ok" ELSE "zero-result-not-the-minimum-unit")
  ELSE IF e.rr > e.rx THEN "rounds-up"
  ELSE IF ~e.onlat THEN "not-a-multiple-of-the-precision-step"
  ELSE IF e.kr < kx - 1 THEN "more-than-one-step-below-exact"
  ELSE "ok"

\* boundary family: the input lies next to the step boundary B = n / 10^p (a tail of nines / zeros beyond the precision,
\* or a few ulps either side).  rx, rr, rb, rbl, ru: ranks (exact rational order) of the input, the result, B, the
\* previous boundary (n - 1) / 10^p and the minimum unit 10^-p.  adj: the input is the float immediately below B.
RoundBVerdict(e) ==
  LET kx == IF e.rx >= e.rb THEN e.n ELSE e.n - 1  rq == e.k = "rqtyb" IN
  IF e.rx < e.rbl THEN "machinery:input-outside-the-boundary-family"
  ELSE IF e.exc # "none" THEN "raises:" \o e.exc
  ELSE IF rq /\ kx = 0 THEN (IF e.rr = e.ru THEN "ok" ELSE "zero-result-not-the-minimum-unit")
  ELSE IF e.rr > e.rx THEN (IF e.adj THEN "rounds-up:input-one-ulp-below-a-step" ELSE "rounds-up")
  ELSE IF ~e.onlat THEN "not-a-multiple-of-the-precision-step"
  ELSE IF e.kr < kx - 1 THEN "more-than-one-step-below-exact"
  ELSE "ok"

\* entry E, stop S in cents, cap pct in percent, result R in 10^-4
LslVerdict(e) ==
  LET dist == Abs(e.E * 100 - e.R) IN
  IF e.exc # "none" THEN "raises:" \o e.exc
  ELSE IF dist > Abs(e.E - e.S) * 100 THEN "farther-than-the-requested-stop"
  ELSE IF dist > e.E * e.pct THEN "farther-than-the-cap"
  ELSE IF (e.typ = "long" /\ e.R > e.E * 100) \/ (e.typ = "short" /\ e.R < e.E * 100) THEN "wrong-side"
  ELSE "ok"
\* low-price lattice: entry E and stop S in units of 1e-10, cap pct in tenths of a percent, result R = round(result * 1e12)
\* (units of 1e-12; the logging rounding is the one unit of slack).  cap in 1e-12 units = E * pct / 10 (exact rational).
LslpVerdict(e) ==
  LET dist == Abs(e.E * 100 - e.R) IN
  IF e.exc # "none" THEN "raises:" \o e.exc
  ELSE IF dist > Abs(e.E - e.S) * 100 + 1 THEN "farther-than-the-requested-stop"
  ELSE IF dist * 10 > e.E * e.pct + 10 THEN "farther-than-the-cap"
  ELSE IF (e.typ = "long" /\ e.R > e.E * 100) \/ (e.typ = "short" /\ e.R < e.E * 100) THEN "wrong-side"
  ELSE "ok"
EriskVerdict(e) == IF e.exc # "none" THEN "raises:" \o e.exc ELSE IF e.R # Abs(e.E - e.S) THEN "not-the-distance" ELSE "ok"

Verdict(e) == CASE e.k = "size" -> SizeVerdict(e) [] e.k = "risk" -> RiskVerdict(e) [] e.k = "rsize" -> RsizeVerdict(e)
                [] e.k = "riskp" -> RiskPVerdict(e) [] e.k = "eriskp" -> EriskPVerdict(e) [] e.k = "rsizep" -> RsizePVerdict(e)
                [] e.k \in {"sum", "sub"} -> DecVerdict(e) [] e.k \in {"sumx", "subx"} -> DecXVerdict(e) [] e.k \in {"rdown", "rqty"} -> RoundVerdict(e)
                [] e.k \in {"rdownb", "rqtyb"} -> RoundBVerdict(e)
                [] e.k = "lsl" -> LslVerdict(e) [] e.k = "lslp" -> LslpVerdict(e) [] e.k = "erisk" -> EriskVerdict(e)
                [] OTHER -> "unknown-record-kind"
Step == /\ l <= Len(Ev(tid))
        /\ LET v == Verdict(Ev(tid)[l])  w == SpotAccept(Ev(tid)[l])
               Add(f, x) == IF x = "ok" \/ \E i \in 1..Len(f) : f[i][1] = x THEN f ELSE Append(f, <<x, l>>)
           IN fails' = Add(Add(fails, v), w)
        /\ l' = l + 1 /\ UNCHANGED tid
Spec == Init /\ [][Step]_vars
Finished == l > Len(Ev(tid))
Report == Finished => PrintT(<<"VERDICT", Traces[tid].id, Len(Ev(tid)), fails>>)
=============================================================================
