--------------------------- MODULE TraceSeqSingle ---------------------------
(* C14, code -> spec.  One trace = one (indicator, field, parameters, candle series of n candles).     *)
(* Events, as recorded from the real function:                                                          *)
(*   seq    the sequential series on the whole input           -> one entry per candle (LenIsFed)       *)
(*   win    the sequential series on the trailing window       -> one entry per candle of the window    *)
(*          (logged only when n exceeds the warm-up window; otherwise the window is the input)          *)
(*   single the non-sequential result on the whole input       -> a scalar, equal (one logging unit) to *)
(*          the entry `lag` before the end of the series the call effectively sees: the seq series when *)
(*          n <= window, the win series otherwise.  lag = 0 except for the extrema flags (lag = order). *)
EXTENDS Integers, Sequences, TLC, Json, IOUtils
Data == JsonDeserialize(IOEnv.TRACE_FILE)
Traces == Data.traces
VARIABLES tid, l, cur, verdict
tvars == <<tid, l, cur, verdict>>
IS == INSTANCE IndicatorStream WITH Vals <- {}, MaxFed <- 0, Exempt <- 0, Quirk <- "none", fed <- Len(cur), out <- cur
Tol == 1
Ev(t) == Traces[t].ev
Init == tid \in 1..Len(Traces) /\ l = 1 /\ cur = <<>> /\ verdict = "ok"

LenVerdict(what, e) ==
  IF Len(e.out) = e.n THEN "ok" ELSE what \o ":entries=" \o ToString(Len(e.out)) \o ":candles=" \o ToString(e.n)

Judge(h, e) ==
  CASE e.k = "seq" -> LenVerdict("length", e)
    [] e.k = "win" -> IF e.n # IS!WindowLen(h.n, h.window) THEN "trace:window-size"
                      ELSE LenVerdict("length-window", e)
    [] e.k = "single" ->
         IF ~e.scalar THEN "single:not-a-scalar"
         ELSE LET i == IS!SingleIndex(cur, h.lag) IN
              IF i = 0 THEN "ok"                       \* series too short to have that entry
              ELSE IF h.kind = "str"
                   THEN (IF cur[i] = e.v THEN "ok" ELSE "single:" \o (IF h.n > h.window THEN "window" ELSE "last"))
                   ELSE IF IS!Near(cur[i], e.v, Tol) THEN "ok"
                        ELSE "single:" \o (IF h.n > h.window THEN "window" ELSE "last")
                             \o ":" \o ToString(cur[i]) \o "/" \o ToString(e.v)
    [] OTHER -> "trace:unknown-event"

Step == /\ verdict = "ok" /\ l <= Len(Ev(tid))
        /\ LET e == Ev(tid)[l] h == Traces[tid].hdr IN
           /\ verdict' = Judge(h, e)
           /\ cur' = IF e.k \in {"seq", "win"} THEN e.out ELSE cur
        /\ l' = l + 1 /\ UNCHANGED tid
Spec == Init /\ [][Step]_tvars
Finished == verdict # "ok" \/ l > Len(Ev(tid))
Report == Finished => PrintT(<<"VERDICT", Traces[tid].id, l - 1, verdict>>)
=============================================================================
