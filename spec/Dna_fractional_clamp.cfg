SPECIFICATION Spec
CONSTANTS
 NegLo = 10
 Hi = 20
 Unit = 2
 Class = "fractional"
 Rule = "round_clamp"
INVARIANT TypedOK
INVARIANT InRange
INVARIANT FirstIsMin
INVARIANT LastIsMax
INVARIANT TiesOnlyAtEnds
PROPERTY Monotone
CHECK_DEADLOCK FALSE
