---------------------------- MODULE CandleSplitMC ----------------------------
(* C08, second half, as a model: one behaviour per (candle, price) of the       *)
(* lattice 1..K; TLC checks the contract of CandleSplit.tla in every reachable  *)
(* state (K = 6 covers every ordinal arrangement of the five values o, h, l, c, *)
(* price).                                                                      *)
EXTENDS CandleSplit, TLC
CONSTANT K
Px == 1..K
Candles == CandlesOn(Px)
\* ---- model ----
VARIABLES cd, p, parts, pc
vars == <<cd, p, parts, pc>>
Init == cd \in Candles /\ p \in {q \in Px : Includes(cd, q)} /\ parts = <<NoCandle, NoCandle>> /\ pc = "call"
DoSplit == pc = "call" /\ parts' = Split(cd, p) /\ pc' = "returned" /\ UNCHANGED <<cd, p>>
Spec == Init /\ [][DoSplit]_vars

ContractHolds == pc = "returned" => SplitContract(cd, p, parts[1], parts[2])
NeverNone == pc = "returned" => parts[1] # NoCandle
\* the part of the minute already travelled plus the part still ahead is the canonical path:
\* the later part starts where the earlier one ends, so successive splits walk one continuous path
Continuous == pc = "returned" /\ p # cd.o => parts[1].c = parts[2].o
\* every one of the 13 returning branches is exercised on lattice >= 4 (non-vacuity, see cfg)
BranchesSeen == UNION {{BranchOf(c2, q) : q \in {x \in Px : Includes(c2, x)}} : c2 \in Candles}
ASSUME K >= 4 => BranchesSeen = 1..13
\* _get_fixed_jumped_candle: the normalised candle is valid, opens at the previous close and has
\* exactly the range "extended to the previous close"
ASSUME \A c2 \in Candles, q \in Px :
          LET f == FixJump(q, c2) IN /\ ValidCandle(f) /\ f.o = q /\ f.c = c2.c
                                     /\ f.l = ExtLo(q, c2) /\ f.h = ExtHi(q, c2)
=============================================================================
