------------------------- MODULE TraceCandleSeries -------------------------
(* C20, code -> spec.  Judges recorded executions of the real code:             *)
(*   fill     import_candles_mode._fill_absent_candles(given, start, end)       *)
(*   add      CandlesState.add_candle on a stored series (any timeframe)        *)
(*   multi    CandlesState.add_multiple_1m_candles                              *)
(*   batch    CandlesState.batch_add_candle (also: warm-up injection of a real  *)
(*            research.backtest, hdr.init = <<>>, post = what the strategy reads)*)
(*   spacing  research.backtest on candle sets (traded / data-route-only        *)
(*            symbols) whose leading candles are d ms apart                     *)
(* against the property only (list semantics: strictly increasing timestamps,   *)
(* append on newer, replace on equal-to-stored, otherwise unchanged - an        *)
(* exception on an unknown older timestamp is tolerated, a lost replacement is  *)
(* not).  One initial state per trace; deterministic; a monitor that goes on    *)
(* after a rejected event (first occurrence of each clause is reported).        *)
(* In add/multi traces a stored candle is <<ts, version>>.                      *)
EXTENDS Integers, Sequences, FiniteSets, TLC, Json, IOUtils, FillAbsent
Data == JsonDeserialize(IOEnv.TRACE_FILE)
Traces == Data.traces
VARIABLES tid, l, list, seen
vars == <<tid, l, list, seen>>
Ev(t) == Traces[t].ev
Init == tid \in 1..Len(Traces) /\ l = 1 /\ list = Traces[tid].hdr.init /\ seen = {}

TsOf(s) == {s[j][1] : j \in 1..Len(s)}
Incr(s) == \A j \in 1..(Len(s) - 1) : s[j][1] < s[j + 1][1]
\* list-level upsert of one candle; "refused" when the timestamp is older than the last one and not stored
Upsert(s, c) == IF s = <<>> \/ c[1] > Last(s)[1] THEN Append(s, c)
                ELSE IF c[1] \in TsOf(s) THEN [j \in 1..Len(s) |-> IF s[j][1] = c[1] THEN c ELSE s[j]]
                ELSE s
Known(s, c) == s = <<>> \/ c[1] > Last(s)[1] \/ c[1] \in TsOf(s)
RECURSIVE UpsertAll(_, _, _)
UpsertAll(s, ch, j) == IF j > Len(ch) THEN s ELSE UpsertAll(Upsert(s, ch[j]), ch, j + 1)

FillJudge(e) ==
  IF ~e.ok THEN "fill_absent_candles:raises(" \o e.exc \o ")"
  ELSE LET v == FillVerdict(e.given, e.start, e.end, e.out) IN
       IF v = "ok" THEN "ok" ELSE "fill_absent_candles:" \o v

\* result: [v |-> verdict, s |-> the series the validation continues with (what the code really stores)]
AddJudge(e) ==
  LET c == IF "row" \in DOMAIN e THEN e.row ELSE <<e.ts, e.v>>      \* field-level traces carry the whole candle <<ts, o, c, h, l, v>>
      exp == Upsert(list, c)
      site == "add_candle(" \o Traces[tid].hdr.tf \o ")"
      where == IF list = <<>> THEN "first" ELSE IF e.ts > Last(list)[1] THEN "newer" ELSE IF e.ts = Last(list)[1] THEN "equal-to-last"
               ELSE IF e.ts \in TsOf(list) THEN
                     (IF e.ts = list[1][1] THEN "stored-older:index-0" ELSE IF Len(list) >= 2 /\ e.ts = list[2][1] THEN "stored-older:index-1"
                      ELSE "stored-older") ELSE "unknown-older"
  IN IF ~Incr(e.post) THEN site \o ":timestamps-not-strictly-increasing:" \o where
     ELSE IF e.exc # "none" THEN
          (IF e.post # list THEN site \o ":raises-and-changes-the-series:" \o where
           ELSE IF Known(list, c) THEN site \o ":raises(" \o e.exc \o "):" \o where ELSE "ok")
     ELSE IF e.post = exp THEN "ok"
     ELSE IF ~Known(list, c) /\ Len(e.post) = Len(list) + 1 /\ c \in {e.post[j] : j \in 1..Len(e.post)}
             /\ \A j \in 1..Len(list) : list[j] \in {e.post[jj] : jj \in 1..Len(e.post)} THEN "ok"   \* sorted insert of an unknown older candle
     ELSE IF Len(e.post) = Len(list) /\ e.post = list /\ e.ts \in TsOf(list) THEN site \o ":lost-replacement:" \o where
     ELSE site \o ":series-differs:" \o where
MultiJudge(e) ==
  LET ch == e.chunk
      n == Len(ch)  m == Len(list)
      allnew == m = 0 \/ ch[1][1] > Last(list)[1]
      tail == n <= m /\ \A j \in 1..n : list[m - n + j][1] = ch[j][1]
      exp == UpsertAll(list, ch, 1)
      where == IF allnew THEN "all-new" ELSE IF tail THEN "repeats-the-stored-tail" ELSE "other"
  IN IF ~Incr(e.post) THEN "add_multiple_1m_candles:timestamps-not-strictly-increasing:" \o where
     ELSE IF e.exc # "none" THEN
          (IF e.post # list THEN "add_multiple_1m_candles:raises-and-changes-the-series:" \o where
           ELSE IF allnew \/ tail THEN "add_multiple_1m_candles:raises(" \o e.exc \o "):" \o where ELSE "ok")
     ELSE IF e.post = exp THEN "ok"
     ELSE "add_multiple_1m_candles:series-differs:" \o where
\* batch_add_candle(rows): the list-level upsert of every row in order; an exception is tolerated only at an
\* unknown older row and must leave the rows before it stored
RECURSIVE FirstUnknown(_, _, _)
FirstUnknown(s, ch, j) == IF j > Len(ch) THEN 0 ELSE IF ~Known(s, ch[j]) THEN j ELSE FirstUnknown(Upsert(s, ch[j]), ch, j + 1)
BatchJudge(e) ==
  LET ch == e.chunk
      exp == UpsertAll(list, ch, 1)
      u == FirstUnknown(list, ch, 1)
      site == "batch_add_candle(" \o Traces[tid].hdr.tf \o ")"
      where == IF \E i, j \in 1..Len(ch) : i < j /\ ch[i][1] = ch[j][1] THEN "repeated-row-inside-the-batch"
               ELSE IF \E j \in 2..Len(ch) : ch[j][1] < ch[j - 1][1] THEN "older-row-inside-the-batch"
               ELSE IF list # <<>> /\ ch[1][1] <= Last(list)[1] THEN "batch-overlaps-the-stored-tail" ELSE "all-new"
  IN IF ~Incr(e.post) THEN site \o ":timestamps-not-strictly-increasing:" \o where
     ELSE IF e.exc # "none" THEN
          (IF u = 0 THEN site \o ":raises(" \o e.exc \o "):" \o where
           ELSE IF e.post # UpsertAll(list, SubSeq(ch, 1, u - 1), 1) THEN site \o ":raises-and-changes-the-series:" \o where ELSE "ok")
     ELSE IF e.post = exp THEN "ok"
     ELSE site \o ":series-differs:" \o where
SpacingJudge(e) ==
  \* every candle set passed (traded symbols and data-route-only symbols) must be checked; a correctly spaced
  \* (multi-symbol) input must run
  IF e.anybad /\ ~e.raised THEN "research.backtest:accepts-leading-candles-not-one-minute-apart:" \o e.layout \o ":" \o e.bad
  ELSE IF e.clean /\ e.raised THEN "research.backtest:rejects-one-minute-candles:" \o e.layout \o "(" \o e.exc \o ")"
  ELSE "ok"

Judge(e) == CASE e.k = "fill" -> FillJudge(e)
              [] e.k = "add" -> AddJudge(e)
              [] e.k = "multi" -> MultiJudge(e)
              [] e.k = "batch" -> BatchJudge(e)
              [] e.k = "spacing" -> SpacingJudge(e)
              [] OTHER -> "machinery:unknown-event"
Step ==
  /\ l <= Len(Ev(tid))
  /\ LET e == Ev(tid)[l]  v == Judge(e) IN
     /\ IF v = "ok" \/ v \in seen THEN UNCHANGED seen
        ELSE seen' = seen \cup {v} /\ PrintT(<<"BAD", Traces[tid].id, l, v>>)
     /\ list' = IF e.k \in {"add", "multi", "batch"} THEN e.post ELSE list
  /\ l' = l + 1 /\ UNCHANGED tid
Spec == Init /\ [][Step]_vars
Finished == l > Len(Ev(tid))
Report == Finished => PrintT(<<"VERDICT", Traces[tid].id, l - 1, IF seen = {} THEN "ok" ELSE "rejected">>)
=============================================================================
