----------------------------- MODULE FastMatching -----------------------------
(* C02 - one chunk of the FAST simulator,                                        *)
(* backtest_mode._simulate_price_change_effect_multiple_candles, implementation- *)
(* shaped.  Variant = "tree" is the code as it stands:                           *)
(*   Begin     chunk candle = aggregation; _get_executing_orders(chunk candle);  *)
(*             nothing inside -> done; > 1 -> _sort_execution_orders(orders, RAW *)
(*             minute candles) (early exit on length, duplicates across minutes, *)
(*             orders priced in no raw minute range are DROPPED - quirk GapDrop) *)
(*   minute k  temp = minute k with its range extended to the previous close     *)
(*   TryNext / Fill / React* as in Matching.tla                                  *)
(*   Reselect  _get_executing_orders(CHUNK candle), NOT sorted (quirk NoResort)  *)
(*   EndMinute candidate list exhausted -> next minute, same list from index 0   *)
(* Variant = "fixed" is the proposed repair (fixes/C02-fast-per-minute-          *)
(* candidates.diff): candidates are selected and sorted per minute on the part   *)
(* of the minute still ahead, as the normal simulator does.                      *)
(*                                                                               *)
(* PROPERTY (minute form, DESIGN.md section 4/C02): an order is executed (or     *)
(* cancelled by a reaction) during the first minute after its creation whose     *)
(* range, extended to the previous close, contains its price, and never in a     *)
(* minute whose extended range does not contain it.                              *)
EXTENDS CandleSplit, TLC, Json
CONSTANTS K, MaxOrders, ChunkLen, MaxReact, Variant, Export
Px == 1..K
Candles == CandlesOn(Px)

VARIABLES mins,     \* the chunk as passed: mins[1] already gap-normalised, the others raw
          k,        \* minute being matched (1..ChunkLen)
          kDone,    \* GHOST: minutes completely matched
          temp, ords, cands, cursor, pc, nreact,
          cur       \* position.current_price as set by the loop at the latest fill
vars == <<mins, k, kDone, temp, ords, cands, cursor, pc, nreact, cur>>
Active(i) == ords[i].st = "A"
Idx == DOMAIN ords
Chunk == Agg(mins)
\* minute i as matched: range extended to the previous close
Ext(i) == IF i = 1 THEN mins[1] ELSE ExtOnly(mins[i - 1].c, mins[i])

FilterSeq(s, P(_)) == LET RECURSIVE F(_)
                          F(t) == IF t = <<>> THEN <<>> ELSE (IF P(Head(t)) THEN <<Head(t)>> ELSE <<>>) \o F(Tail(t))
                      IN F(s)
StableSort(os, s, LE(_, _)) ==
  LET RECURSIVE S(_)
      S(t) == IF t = <<>> THEN <<>> ELSE
              LET rest == S(SubSeq(t, 1, Len(t) - 1)) x == t[Len(t)] IN
              LET RECURSIVE Place(_)
                  Place(u) == IF u = <<>> THEN <<x>>
                              ELSE IF LE(Head(u), x) THEN <<Head(u)>> \o Place(Tail(u)) ELSE <<x>> \o u
              IN Place(rest)
  IN S(s)
SortAsc(os, s) == StableSort(os, s, LAMBDA a, b : os[a].p <= os[b].p)
SortDesc(os, s) == StableSort(os, s, LAMBDA a, b : os[a].p >= os[b].p)
Executing(os, cd) == FilterSeq([i \in 1..Len(os) |-> i], LAMBDA i : os[i].st = "A" /\ Includes(cd, os[i].p))
SortOne(os, sel, cd) ==
  LET inc == FilterSeq(sel, LAMBDA i : Includes(cd, os[i].p)) IN
  IF Len(inc) = 0 THEN <<>>
  ELSE IF Len(inc) = 1 THEN inc
  ELSE LET red == cd.o > cd.c
           onOpen == FilterSeq(inc, LAMBDA i : os[i].p = cd.o)
           above  == FilterSeq(inc, LAMBDA i : os[i].p > cd.o)
           below  == FilterSeq(inc, LAMBDA i : ~(os[i].p > cd.o))
       IN onOpen \o (IF red THEN SortAsc(os, above) \o SortDesc(os, below)
                            ELSE SortDesc(os, below) \o SortAsc(os, above))
\* _sort_execution_orders(orders, short_candles): candle by candle, early exit when the lengths agree
RECURSIVE SortMulti(_, _, _, _)
SortMulti(os, sel, j, acc) ==
  IF j > Len(mins) THEN acc
  ELSE LET acc2 == acc \o SortOne(os, sel, mins[j]) IN
       IF Len(acc2) = Len(sel) THEN acc2 ELSE SortMulti(os, sel, j + 1, acc2)
SelectOne(os, cd) == LET ex == Executing(os, cd) IN IF Len(ex) > 1 THEN SortOne(os, ex, cd) ELSE ex

Init == /\ mins \in [1..ChunkLen -> Candles]
        /\ \E n \in 1..MaxOrders : ords \in [1..n -> [p : Px, st : {"A"}, born : {0}, at : {0}]]
        /\ k = 0 /\ kDone = 0 /\ temp = mins[1] /\ cands = <<>> /\ cursor = 0 /\ pc = "select" /\ nreact = 0 /\ cur = 0

StartMinute(os, i) == IF Variant = "fixed" THEN SelectOne(os, Ext(i)) ELSE cands
Begin == /\ pc = "select"
         /\ LET ex == Executing(ords, Chunk) IN
            IF Len(ex) = 0
            THEN /\ pc' = "done" /\ kDone' = ChunkLen /\ UNCHANGED <<k, temp, cands, cursor>>
            ELSE /\ cands' = (IF Variant = "fixed" THEN SelectOne(ords, Ext(1))
                              ELSE IF Len(ex) > 1 THEN SortMulti(ords, ex, 1, <<>>) ELSE ex)
                 /\ k' = 1 /\ temp' = Ext(1) /\ cursor' = 1 /\ pc' = "loop" /\ UNCHANGED kDone
         /\ UNCHANGED <<mins, ords, nreact, cur>>

TryNext == /\ pc = "loop" /\ cursor <= Len(cands)
           /\ LET i == cands[cursor] IN ~Active(i) \/ ~Includes(temp, ords[i].p)
           /\ cursor' = cursor + 1
           /\ UNCHANGED <<mins, k, kDone, temp, ords, cands, pc, nreact, cur>>

Fill == /\ pc = "loop" /\ cursor <= Len(cands)
        /\ LET i == cands[cursor] IN
           /\ Active(i) /\ Includes(temp, ords[i].p)
           /\ temp' = Split(temp, ords[i].p)[2]
           /\ ords' = [ords EXCEPT ![i].st = "E", ![i].at = k]
           /\ cur' = IF ords[i].p = temp.o THEN temp.c ELSE ords[i].p
        /\ pc' = "react"
        /\ UNCHANGED <<mins, k, kDone, cands, cursor, nreact>>

ReactSubmit(p) == /\ pc = "react" /\ nreact < MaxReact
                  /\ ords' = Append(ords, [p |-> p, st |-> "A", born |-> k, at |-> 0])
                  /\ nreact' = nreact + 1 /\ UNCHANGED <<mins, k, kDone, temp, cands, cursor, pc, cur>>
\* a hook submits a MARKET order: ACTIVE in the store at position.current_price, matched like a resting order
ReactMarket == /\ pc = "react" /\ nreact < MaxReact
               /\ ords' = Append(ords, [p |-> cur, st |-> "A", born |-> k, at |-> 0])
               /\ nreact' = nreact + 1 /\ UNCHANGED <<mins, k, kDone, temp, cands, cursor, pc, cur>>
ReactCancel(j) == /\ pc = "react" /\ nreact < MaxReact /\ Active(j)
                  /\ ords' = [ords EXCEPT ![j].st = "C", ![j].at = k]
                  /\ nreact' = nreact + 1 /\ UNCHANGED <<mins, k, kDone, temp, cands, cursor, pc, cur>>
Reselect == /\ pc = "react"
            /\ cands' = (IF Variant = "fixed" THEN SelectOne(ords, temp) ELSE Executing(ords, Chunk))
            /\ cursor' = 1 /\ pc' = "loop"
            /\ UNCHANGED <<mins, k, kDone, temp, ords, nreact, cur>>

EndMinute == /\ pc = "loop" /\ cursor > Len(cands)
             /\ kDone' = k
             /\ IF k < ChunkLen
                THEN /\ k' = k + 1 /\ temp' = Ext(k + 1) /\ cursor' = 1 /\ cands' = StartMinute(ords, k + 1)
                     /\ UNCHANGED pc
                ELSE /\ pc' = "done" /\ UNCHANGED <<k, temp, cursor, cands>>
             /\ UNCHANGED <<mins, ords, nreact, cur>>

Next == Begin \/ TryNext \/ Fill \/ (\E p \in Px : ReactSubmit(p)) \/ ReactMarket \/ (\E j \in Idx : ReactCancel(j)) \/ Reselect
        \/ EndMinute
Spec == Init /\ [][Next]_vars

\* =========================== property (minute form) ===========================
InMinute(m, p) == LET pcl == IF m = 1 THEN mins[1].o ELSE mins[m - 1].c IN InExt(pcl, mins[m], p)
\* every completed minute after the order's creation whose extended range contains the price
\* finds the order executed or cancelled by then
Missed(i) == \E m \in 1..kDone : m > ords[i].born /\ InMinute(m, ords[i].p) /\ (Active(i) \/ ords[i].at > m)
NoMissedFill == \A i \in Idx : ~Missed(i)
NoFillOutsideRange == \A i \in Idx : ords[i].st = "E" => InMinute(ords[i].at, ords[i].p)
FinalIsFinal == [][\A i \in Idx : ords[i].st # "A" => ords'[i] = ords[i]]_vars

\* ---- classification of a miss (also the finding signature) ----
MissMin(i) == CHOOSE m \in 1..kDone : /\ m > ords[i].born /\ InMinute(m, ords[i].p) /\ (Active(i) \/ ords[i].at > m)
                                      /\ \A m2 \in 1..(m - 1) : ~(m2 > ords[i].born /\ InMinute(m2, ords[i].p))
ViaGap(i) == ~Includes(mins[MissMin(i)], ords[i].p)     \* only the extension to the previous close contains the price
PriorFill(i) == \E j \in Idx : j # i /\ ords[j].st = "E" /\ ords[j].at <= MissMin(i)
NInitial == Cardinality({i \in Idx : ords[i].born = 0 /\ Includes(Chunk, ords[i].p)})
\* export of every violating scenario (tree variant, MaxReact = 0): used to replay the model's
\* counter-examples into the real function (INVARIANT ExportCEX instead of NoMissedFill)
Scenario == [mins |-> [m \in 1..ChunkLen |-> <<mins[m].o, mins[m].c, mins[m].h, mins[m].l>>],
             prices |-> [i \in {j \in Idx : ords[j].born = 0} |-> ords[i].p]]
Reported == \A i \in Idx : Missed(i) =>
                PrintT(<<"CEX", ToJson(Scenario), i, IF ViaGap(i) THEN "gap" ELSE "nogap",
                         IF PriorFill(i) THEN "after-fill" ELSE "no-fill", NInitial>>)
ExportCEX == Export => Reported          \* always TRUE; prints as a side effect
TypeOK == ValidCandle(temp) /\ cursor \in 0..(Len(cands) + 1) /\ kDone \in 0..ChunkLen
=============================================================================
