SPECIFICATION Spec
CHECK_DEADLOCK FALSE
CONSTANTS MaxLen = 7 Starts = {3} Export = FALSE QTruthy = FALSE
INVARIANT FillIsGaplessAndFaithful
