SPECIFICATION Spec
CHECK_DEADLOCK FALSE
CONSTANTS MaxLen = 7 Starts = {3} Export = FALSE Variant = "code"
INVARIANT FillIsGaplessAndFaithful
