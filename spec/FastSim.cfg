\* hand-run instance (the check generates its configurations): timeout 120 tlc -config FastSim.cfg FastSim.tla
SPECIFICATION Spec
CONSTANTS RouteTFs = {2, 4} RouteTF = 4 N = 8 W = 4 NSym = 2 MaxFills = 2 ChunkSkew = 0 GenSkew = 0 PartialChunkRaises = FALSE
INVARIANT ChunkCausal
INVARIANT StoreChunkCausal
INVARIANT HookStoreCausal
INVARIANT ClockAtStep
INVARIANT MatchedBeforeDecide
INVARIANT NeverRaises
CHECK_DEADLOCK FALSE
