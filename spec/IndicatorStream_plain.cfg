SPECIFICATION Spec
CONSTANTS Vals = {1, 2} MaxFed = 5 Exempt = 0 Quirk = "none"
INVARIANT TypeOK
INVARIANT LenIsFed
PROPERTY AppendOnly
PROPERTY StableButTail
PROPERTY SingleIsConfirmed
CHECK_DEADLOCK FALSE
