------------------------------ MODULE TraceSpot ------------------------------
(* C04 / C05, code -> spec.  Validates recorded executions of the real spot     *)
(* account (Order / Position / SpotExchange / OrdersState / ClosedTrades driven *)
(* by harness/drivers/acct.py) against the INTENDED cash account of Spot.tla    *)
(* (both quirk constants FALSE in the cfg).  Refinement trace spec: the effect  *)
(* operator is re-applied to the previous logged state and the projection of    *)
(* the property under test is compared with the logged state:                   *)
(*   Proj = "acct" (C04): quote, base, position, stop/limit sums, accept/reject, *)
(*                        non-negativity, no short, position = base, sums =     *)
(*                        resting sells (from the order STATUSES);              *)
(*   Proj = "life" (C05): order records and statuses, orders reported active,   *)
(*                        trade membership; everything for a call on a final    *)
(*                        order (it must be a no-op).                           *)
(* Total: a mismatch is a verdict, never a disabled step.  A mismatch that is   *)
(* exactly one of the two named deviations of Spot.tla (the same effect with    *)
(* the quirk switched on reproduces the logged state) is recorded in `known`    *)
(* with its class and the validation goes on from the logged state; any other   *)
(* mismatch ends the trace with a verdict.  Exact integer lattice.              *)
EXTENDS Spot, IOUtils
CONSTANT Proj
Data == JsonDeserialize(IOEnv.TRACE_FILE)
Traces == Data.traces
VARIABLES tid, l, verdict, pok, known   \* pok: the previous logged state satisfied the state checks
tvars == <<st, hist, tid, l, verdict, pok, known>>
Ev(t) == Traces[t].ev

FromLog(P) ==
  [ c0 |-> P.cur, ord |-> P.ord, alist |-> P.alist, pending |-> P.pending, trades |-> P.trades, temp |-> P.temp,
    quote |-> P.quote, base |-> P.base, pos |-> P.pos, cur |-> P.cur, stopSum |-> P.stopSum, limitSum |-> P.limitSum,
    rej |-> FALSE, gquote |-> 0, gbase |-> ZeroMap ]

IdsOK(S, ids) == \A k \in 1..Len(ids) : ids[k] \in 1..Len(S.ord)
WellFormed(P) ==
  /\ IdsOK(P, P.pending) /\ \A k \in 1..Len(P.trades) : IdsOK(P, P.trades[k])
  /\ \A s \in Syms : IdsOK(P, P.alist[s]) /\ IdsOK(P, P.temp[s])
  /\ \A i \in 1..Len(P.ord) : P.ord[i].st \in {"A", "E", "C"} /\ P.ord[i].sym \in Syms

LifeDiff(X, P) ==
  IF Len(X.ord) # Len(P.ord) THEN "orders-registered"
  ELSE IF \E i \in 1..Len(X.ord) : X.ord[i].st # P.ord[i].st THEN "order-status"
  ELSE IF X.ord # P.ord THEN "order-record"
  ELSE "ok"
AcctDiff(X, P) ==
  IF X.quote # P.quote THEN "quote-balance"
  ELSE IF X.base # P.base THEN "base-balance"
  ELSE IF X.pos # P.pos THEN "position-qty"
  ELSE IF X.stopSum # P.stopSum THEN "stop-sell-sum"
  ELSE IF X.limitSum # P.limitSum THEN "limit-sell-sum"
  ELSE "ok"
Diff(X, P, dup) ==
  IF Proj = "acct" THEN AcctDiff(X, P)
  ELSE LET d == LifeDiff(X, P) IN IF d # "ok" \/ ~dup THEN d ELSE AcctDiff(X, P)
\* under the flip quirk the size of a short position is off the lattice, and so is everything the position of
\* that symbol becomes afterwards within the same call: the position of a symbol that went short during the
\* call is not compared (balances, sums and order statuses are)
RECURSIVE FlipSyms(_, _)
FlipSyms(S, ids) ==
  IF ids = <<>> THEN {}
  ELSE LET id == Head(ids)  o == S.ord[id]  S1 == ExecOneQ(S, id, FALSE, TRUE)
       IN (IF o.st = "A" /\ S1.pos[o.sym] < 0 THEN {o.sym} ELSE {}) \cup FlipSyms(S1, Tail(ids))
Flipped(S, e) == CASE e.k = "exec" -> FlipSyms(IF S.ord[e.id].st = "A" /\ S.ord[e.id].typ # "MKT"
                                                 THEN PriceEff(S, S.ord[e.id].sym, S.ord[e.id].p) ELSE S, <<e.id>>)
                   [] e.k = "flush" -> FlipSyms(S, S.pending)
                   [] OTHER -> {}
\* a deviation is NAMED after a quirk only when the whole logged state (order statuses and account) is the quirk's effect
FullDiff(X, P) == IF LifeDiff(X, P) # "ok" THEN LifeDiff(X, P) ELSE AcctDiff(X, P)
DiffFlip(S, e, X, P) == LET fs == Flipped(S, e) IN
  IF fs = {} THEN FullDiff(X, P)
  ELSE FullDiff([X EXCEPT !.pos = [s \in Syms |-> IF s \in fs /\ (P.pos[s] < 0 \/ e.k = "flush") THEN P.pos[s] ELSE X.pos[s]]], P)

AcctChecks(P) ==
  IF ~NonNegativeOf(P) THEN "negative-balance"
  ELSE IF \E s \in Syms : P.pos[s] < 0 THEN "short-position"
  ELSE IF \E s \in Syms : P.pos[s] # P.base[s] THEN "position-is-not-base"
  ELSE IF ~SumsOf(P) THEN "sell-sums-are-not-resting-sells"
  ELSE "ok"
LifeChecks(post, P) ==
  IF \E s \in Syms : SeqSet(post.areported[s]) # ActiveIds(P, s) \/ Len(post.areported[s]) # Cardinality(ActiveIds(P, s))
  THEN "active-orders-reported"
  ELSE IF \E s \in Syms : post.acount[s] # Cardinality(ActiveIds(P, s)) THEN "active-orders-count"
  ELSE IF ~OneTradeOf(P) THEN "trade-membership"
  ELSE "ok"
PostChecks(post, P) == IF Proj = "acct" THEN AcctChecks(P) ELSE LifeChecks(post, P)

OrderOf(e) == [sym |-> e.sym, side |-> e.side, typ |-> e.typ, q |-> e.q, p |-> e.p, ro |-> e.ro, st |-> "A"]
OTag(o) == o.side \o "-" \o o.typ
IsDup(S, e) ==
  CASE e.k \in {"exec", "cancel"} -> S.ord[e.id].st # "A"
    [] e.k = "flush" -> \A i \in SeqSet(S.pending) : S.ord[i].st # "A"
    [] e.k = "cancelall" -> \A i \in SeqSet(S.alist[e.sym]) : S.ord[i].st # "A"
    [] e.k = "prune" -> TRUE
    [] OTHER -> FALSE
Tag(S, e) ==
  CASE e.k = "submit" -> "submit/" \o OTag(OrderOf(e))
    [] e.k = "exec" -> IF IsDup(S, e) THEN "exec/duplicate" ELSE "exec/" \o OTag(S.ord[e.id])
    [] e.k = "cancel" -> IF IsDup(S, e) THEN "cancel/duplicate" ELSE "cancel/" \o OTag(S.ord[e.id])
    [] e.k = "flush" -> IF IsDup(S, e) THEN "flush/duplicate" ELSE "flush"
    [] e.k = "cancelall" -> IF IsDup(S, e) THEN "cancelall/duplicate" ELSE "cancelall"
    [] OTHER -> e.k
\* the effect of the logged operation with the quirks dr / fl
EffQ(S, e, dr, fl) ==
  CASE e.k = "submit" -> SubmitAccept(Z(S), OrderOf(e))
    [] e.k = "cancel" -> CancelOneQ(Z(S), e.id, dr)
    [] e.k = "exec" -> ExecuteEffQ(Z(S), e.id, dr, fl)
    [] e.k = "flush" -> FlushEffQ(Z(S), dr, fl)
    [] e.k = "cancelall" -> CancelAllEffQ(Z(S), e.sym, dr)
    [] e.k = "prune" -> PruneEff(Z(S), e.sym)
    [] e.k = "price" -> PriceEff(Z(S), e.sym, e.p)
    [] e.k = "obs" -> S                         \* observation point: nothing was called
R(v, k) == [v |-> v, k |-> k]
\* compare the logged post-state with the intended effect; name the deviation when it is one of the quirks
Both0(S, e, P, pk) ==
  LET tag == Tag(S, e)
      dup == IsDup(S, e)
      d == Diff(EffQ(S, e, FALSE, FALSE), P, dup)
      pc == IF pk THEN PostChecks(e.post, P) ELSE "ok"
  IN IF d = "ok" THEN (IF pc = "ok" THEN R("ok", "") ELSE R(tag \o ":" \o pc, ""))
     ELSE IF FullDiff(EffQ(S, e, TRUE, FALSE), P) = "ok" THEN R("ok", e.k \o ":sell-sum-released-twice")
     ELSE IF DiffFlip(S, e, EffQ(S, e, FALSE, TRUE), P) = "ok" THEN R("ok", e.k \o ":position-flips-short")
     ELSE IF DiffFlip(S, e, EffQ(S, e, TRUE, TRUE), P) = "ok" THEN R("ok", e.k \o ":sell-sum-released-twice+position-flips-short")
     ELSE R(tag \o ":" \o d, "")

IsFlipClass(k) == k \in {x \o y : x \in {"exec", "flush"}, y \in {":position-flips-short", ":sell-sum-released-twice+position-flips-short"}}
\* a logged non-negative value that is not on the lattice is a verdict of its own (unless the position went short)
Both(S, e, P, pk) ==
  LET b == Both0(S, e, P, pk) IN
  IF Proj = "acct" /\ Len(e.post.off) > 0 /\ b.v = "ok" /\ ~IsFlipClass(b.k)
  THEN R(e.k \o ":value-off-the-lattice:" \o e.post.off[1], "") ELSE b

Judge(S, e, pk) ==
  LET P == FromLog(e.post) IN
  IF ~WellFormed(S) THEN R(e.k \o ":ill-formed-pre-state", "")
  ELSE IF e.exc # "none" THEN R(e.k \o ":raises:" \o e.exc, "")
  ELSE IF ~WellFormed(P) THEN R(e.k \o ":unknown-order-in-registries", "")
  ELSE IF e.k \in {"cancel", "exec"} /\ e.id \notin 1..Len(S.ord) THEN R(e.k \o ":unknown-order", "")
  ELSE IF e.k = "submit" /\ Proj = "acct" THEN
         LET o == OrderOf(e)
             mustReject == IF o.side = "buy" THEN o.q * o.p * K > S.quote
                           ELSE o.q + (IF o.typ = "STP" THEN RefStopSum(S, o.sym) ELSE RefLimitSum(S, o.sym)) > S.base[o.sym]
             \* the code's own test on ITS sums, when these are already wrong because of an earlier named deviation
             explained == ~SumsOf(S) /\ (ImplRejects(S, o) = ~e.acc)
             k == IF mustReject # ~e.acc /\ explained THEN "submit:validated-against-corrupt-sell-sum" ELSE ""
         IN IF mustReject /\ e.acc /\ ~explained THEN R("submit/" \o OTag(o) \o ":accepted-over-balance", "")
            ELSE IF ~mustReject /\ ~e.acc /\ ~explained THEN R("submit/" \o OTag(o) \o ":rejected-within-balance", "")
            ELSE IF ~e.acc THEN R("ok", k)
            ELSE LET b == Both(S, e, P, pk) IN R(b.v, IF k # "" THEN k ELSE b.k)
  ELSE IF e.k = "submit" /\ ~e.acc THEN R("ok", "")
  ELSE IF e.k \in {"submit", "cancel", "exec", "flush", "cancelall", "prune", "price", "obs"} THEN Both(S, e, P, pk)
  ELSE R("log:unknown-event", "")

\* in-vivo traces (hdr.haspre): other things happen between two order calls, so every event carries the state
\* observed before the call; object-level traces use the previous logged post-state
HasPre == "haspre" \in DOMAIN Traces[tid].hdr /\ Traces[tid].hdr.haspre
\* (e.sp: the logged pre-state is identical to the previous logged post-state and is not repeated in the file)
PreOf(e) == IF HasPre /\ ~e.sp THEN FromLog(e.pre) ELSE st
PokOf(e) == IF HasPre /\ ~e.sp THEN WellFormed(FromLog(e.pre)) /\ PostChecks(e.pre, FromLog(e.pre)) = "ok" ELSE pok
\* in-vivo: between two order calls anything may happen - except to an order that is final: its record (status,
\* quantity, price, flags) in the state observed before a call is the one logged when the previous call returned
FinalKept(S, e) ==
  (HasPre /\ ~e.sp) =>
     /\ Len(e.pre.ord) >= Len(S.ord)
     /\ \A i \in 1..Len(S.ord) : S.ord[i].st # "A" => e.pre.ord[i] = S.ord[i]
InitOK == WellFormed(FromLog(Traces[tid].init))
TInit == /\ tid \in 1..Len(Traces) /\ l = 1 /\ hist = <<>> /\ known = {}
         /\ st = FromLog(Traces[tid].init)
         /\ pok = (InitOK /\ PostChecks(Traces[tid].init, FromLog(Traces[tid].init)) = "ok")
         /\ verdict = (IF ~InitOK THEN "init:ill-formed"
                       ELSE IF Traces[tid].hdr.judgeinit /\ PostChecks(Traces[tid].init, FromLog(Traces[tid].init)) # "ok"
                            THEN "init:" \o PostChecks(Traces[tid].init, FromLog(Traces[tid].init)) ELSE "ok")
TStep == /\ verdict = "ok" /\ l <= Len(Ev(tid))
         /\ LET e == Ev(tid)[l]
                  j == IF FinalKept(st, e) THEN Judge(PreOf(e), e, IF e.k = "obs" THEN pok ELSE PokOf(e))
                       ELSE R("between-calls:final-order-changed", "") IN
              /\ verdict' = j.v
              /\ known' = IF j.k = "" THEN known ELSE known \cup {j.k}
              /\ st' = FromLog(e.post)
              /\ pok' = ((e.k # "submit" \/ e.acc) /\ WellFormed(FromLog(e.post)) /\ PostChecks(e.post, FromLog(e.post)) = "ok")
              \* a short spot position is outside the domain of the reference account: the trace ends there
              \* (also in the lifecycle projection)
              /\ l' = (IF IsFlipClass(j.k) \/ \E s \in Syms : e.post.pos[s] < 0 THEN Len(Ev(tid)) + 1 ELSE l + 1)
         /\ UNCHANGED <<tid, hist>>
TSpec == TInit /\ [][TStep]_tvars
Finished == verdict # "ok" \/ l > Len(Ev(tid))
SetToSeq(S) == LET RECURSIVE F(_)
                   F(T) == IF T = {} THEN <<>> ELSE LET x == CHOOSE y \in T : TRUE IN <<x>> \o F(T \ {x})
               IN F(S)
Report == Finished => PrintT(<<"VERDICT", Traces[tid].id, l - 1, verdict, SetToSeq(known)>>)
=============================================================================
