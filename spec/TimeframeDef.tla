---------------------------- MODULE TimeframeDef ----------------------------
(* C17: the supported timeframes and their lengths, from their names:           *)
(* <count><unit>, m = minute, h = 60 m, D = 1440 m, W = 7 D, M = 30 D.          *)
EXTENDS Integers, Sequences, FiniteSets
TF == { [name |-> "1m", n |-> 1, u |-> "m"], [name |-> "3m", n |-> 3, u |-> "m"], [name |-> "5m", n |-> 5, u |-> "m"],
        [name |-> "15m", n |-> 15, u |-> "m"], [name |-> "30m", n |-> 30, u |-> "m"], [name |-> "45m", n |-> 45, u |-> "m"],
        [name |-> "1h", n |-> 1, u |-> "h"], [name |-> "2h", n |-> 2, u |-> "h"], [name |-> "3h", n |-> 3, u |-> "h"],
        [name |-> "4h", n |-> 4, u |-> "h"], [name |-> "6h", n |-> 6, u |-> "h"], [name |-> "8h", n |-> 8, u |-> "h"],
        [name |-> "12h", n |-> 12, u |-> "h"], [name |-> "1D", n |-> 1, u |-> "D"], [name |-> "3D", n |-> 3, u |-> "D"],
        [name |-> "1W", n |-> 1, u |-> "W"], [name |-> "1M", n |-> 1, u |-> "M"] }
UnitMinutes(u) == CASE u = "m" -> 1 [] u = "h" -> 60 [] u = "D" -> 1440 [] u = "W" -> 10080 [] u = "M" -> 43200
Names == {t.name : t \in TF}
MinutesTable == [nm \in Names |-> LET t == CHOOSE t \in TF : t.name = nm IN t.n * UnitMinutes(t.u)]   \* evaluated once
Minutes(name) == MinutesTable[name]
IsLongest(x, S) == x \in S /\ \A y \in S : Minutes(y) <= Minutes(x)
Longest(S) == CHOOSE x \in S : IsLongest(x, S)
=============================================================================
