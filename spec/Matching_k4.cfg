SPECIFICATION Spec
CHECK_DEADLOCK FALSE
CONSTANTS K = 4 MaxOrders = 3 MaxReact = 1 Liq = FALSE
INVARIANT NoMissedFill
INVARIANT NoMissedInRange
INVARIANT TempFollowsPath
INVARIANT SkipBranchesDead
INVARIANT MarketFilledInMinute
INVARIANT TypeOK
PROPERTY FillAtFirstReach
PROPERTY NeverBeforeSubmit
PROPERTY FinalIsFinal
PROPERTY PathOrder
PROPERTY ReactionAfterFill
