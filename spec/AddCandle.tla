------------------------------ MODULE AddCandle ------------------------------
(* C20, second half.  CandlesState.add_candle (l.139-177) and                   *)
(* add_multiple_1m_candles (l.394-422) on ONE stored series: the environment    *)
(* adds candles with new, repeated and older timestamps in any order.           *)
(* A candle is <<ts, version>>.  Implementation-shaped: the look-back loop      *)
(*     for i in range(max(LB, len(arr) - 1)): if arr[-i].ts == ts: replace      *)
(* is transcribed literally (arr[-0] is arr[0]; arr[-i] raises IndexError for   *)
(* i > len).  QLookback = FALSE is the behaviour the property asks for (every   *)
(* stored timestamp is found).  The property is stated on the ghost `pre`       *)
(* (the series before the last operation), independently of the loop.           *)
EXTENDS Integers, Sequences, FiniteSets, TLC, Json
CONSTANTS LB,          \* look-back constant (20 in the code)
          Prefill,     \* rows stored before the exploration starts
          MaxDepth, MaxLen, MaxMulti,
          MaxBatch,    \* longest batch of batch_add_candle (0: action disabled)
          QLookback,   \* TRUE = as the code
          Export
VARIABLES arr, nextv, err, pre, op, hist
vars == <<arr, nextv, err, pre, op, hist>>
View == <<arr, err, pre, op>>

Last(s) == s[Len(s)]
Max2(a, b) == IF a > b THEN a ELSE b
TsSet(s) == {s[j][1] : j \in 1..Len(s)}
PosOf(s, ts) == CHOOSE j \in 1..Len(s) : s[j][1] = ts
H(o) == hist' = Append(hist, o)
Init == /\ arr = [j \in 1..Prefill |-> <<2 * j, 0>>]        \* even timestamps: odd ones are "unknown older" candidates
        /\ nextv = 1 /\ err = "none" /\ pre = arr /\ op = [k |-> "init", ts |-> 0] /\ hist = <<>>

\* the look-back loop: position (1-based) inspected at iteration i, 0 when the index is out of range
Pos(i, n) == IF i = 0 THEN 1 ELSE IF i <= n THEN n - i + 1 ELSE 0
RECURSIVE Look(_, _, _, _)
Look(s, ts, i, bound) ==       \* result: [e |-> error, p |-> position replaced or 0]
  IF i >= bound THEN [e |-> "none", p |-> 0]
  ELSE IF Pos(i, Len(s)) = 0 THEN [e |-> "IndexError", p |-> 0]
  ELSE IF s[Pos(i, Len(s))][1] = ts THEN [e |-> "none", p |-> Pos(i, Len(s))]
  ELSE Look(s, ts, i + 1, bound)

\* add_candle as a function: [s |-> series afterwards, e |-> exception]
ImplAdd(s, c) ==
  LET ts == c[1] IN
  IF s = <<>> \/ ts > Last(s)[1] THEN [s |-> Append(s, c), e |-> "none"]
  ELSE IF ts = Last(s)[1] THEN [s |-> [s EXCEPT ![Len(s)] = c], e |-> "none"]
  ELSE IF QLookback
       THEN LET r == Look(s, ts, 0, Max2(LB, Len(s) - 1)) IN
            [s |-> IF r.p # 0 THEN [s EXCEPT ![r.p] = c] ELSE s, e |-> r.e]
       ELSE [s |-> IF ts \in TsSet(s) THEN [s EXCEPT ![PosOf(s, ts)] = c] ELSE s, e |-> "none"]
Add(ts) ==
  /\ err = "none" /\ ts >= 1
  /\ LET r == ImplAdd(arr, <<ts, nextv>>) IN arr' = r.s /\ err' = r.e
  /\ pre' = arr /\ op' = [k |-> "add", ts |-> ts] /\ nextv' = nextv + 1
  /\ H([k |-> "add", ts |-> ts, v |-> nextv])

\* batch_add_candle (warm-up injection, imports): one add_candle per row, in order.  The rows after the first
\* may repeat a timestamp of the batch, step back, or go on (two overlapping exchange pages in one batch)
RECURSIVE ImplBatch(_, _, _)
ImplBatch(s, rows, j) ==
  IF j > Len(rows) THEN [s |-> s, e |-> "none"]
  ELSE LET r == ImplAdd(s, rows[j]) IN IF r.e # "none" THEN r ELSE ImplBatch(r.s, rows, j + 1)
Batch(tss) ==
  /\ err = "none" /\ Len(arr) + Len(tss) <= MaxLen + MaxBatch
  /\ LET rows == [j \in 1..Len(tss) |-> <<tss[j], nextv + j - 1>>]
         r == ImplBatch(arr, rows, 1) IN arr' = r.s /\ err' = r.e
  /\ pre' = arr /\ op' = [k |-> "batch", tss |-> tss] /\ nextv' = nextv + Len(tss)
  /\ H([k |-> "batch", tss |-> tss, v |-> nextv])
\* batches: any first timestamp, then each further row repeats / follows / precedes the one before it
RECURSIVE Walks(_, _)
Walks(first, n) == IF n = 1 THEN {<<first>>}
                   ELSE {Append(w, w[Len(w)] + d) : w \in Walks(first, n - 1), d \in {0, 2, -2}}

\* add_multiple_1m_candles: n consecutive minutes (timestamps step 2 in this model's scale) starting at ts
Gapless(s) == \A j \in 1..(Len(s) - 1) : s[j + 1][1] = s[j][1] + 2
Multi(ts, n) ==      \* only used on one-minute series, which are gapless (first half of the property)
  /\ err = "none" /\ ts >= 1 /\ Len(arr) + n <= MaxLen + MaxMulti /\ Gapless(arr)
  /\ LET ch == [j \in 1..n |-> <<ts + 2 * (j - 1), nextv>>]
         m == Len(arr) IN
     /\ IF m = 0 \/ ch[1][1] > Last(arr)[1] THEN arr' = arr \o ch /\ err' = "none"
        ELSE IF n > m THEN arr' = arr /\ err' = "IndexError"
        ELSE IF ch[1][1] >= arr[m - n + 1][1] /\ ch[n][1] >= Last(arr)[1]
             THEN LET ov == n - ((ch[n][1] - Last(arr)[1]) \div 2) IN
                  IF ov = n THEN arr' = SubSeq(arr, 1, m - n) \o ch /\ err' = "none"
                  ELSE arr' = arr /\ err' = "ValueError"          \* numpy: cannot broadcast n rows into ov rows
             ELSE arr' = arr /\ err' = "IndexError"
     /\ pre' = arr /\ op' = [k |-> "multi", ts |-> ts, n |-> n] /\ nextv' = nextv + 1
     /\ H([k |-> "multi", ts |-> ts, n |-> n, v |-> nextv])

Cands == IF arr = <<>> THEN {2} ELSE (Max2(arr[1][1] - 1, 1)) .. (Last(arr)[1] + 4)
Edge == Export => PrintT(<<"EDGE", ToJson([hist |-> hist', post |-> SubSeq(arr', Max2(1, Len(arr') - 5), Len(arr')), err |-> err'])>>)
AddAny == \E ts \in Cands : Len(arr) < MaxLen /\ Add(ts)
MultiAny == \E ts \in {t \in Cands : t % 2 = 0}, n \in 1..MaxMulti : Multi(ts, n)
BatchAny == \E ts \in {t \in Cands : t % 2 = 0}, n \in 2..MaxBatch : \E w \in Walks(ts, n) :
               (\A j \in 1..n : w[j] >= 1) /\ Batch(w)
NextM == AddAny \/ MultiAny \/ BatchAny
Next == NextM /\ Edge
SpecM == Init /\ [][NextM]_vars            \* model checking (per-action coverage)
Spec == Init /\ [][Next]_vars              \* the same with the EDGE export
Depth == Len(hist) < MaxDepth

\* ---- the property -----------------------------------------------------------------------------
StrictlyIncreasing == \A j \in 1..(Len(arr) - 1) : arr[j][1] < arr[j + 1][1]
\* append on newer, replace on equal-to-stored, otherwise unchanged (an exception on an UNKNOWN older timestamp
\* is tolerated, a lost replacement or an exception on a stored timestamp is not)
AddOK ==
  op.k = "add" =>
    LET ts == op.ts IN
    IF pre = <<>> \/ ts > Last(pre)[1]
    THEN err = "none" /\ Len(arr) = Len(pre) + 1 /\ SubSeq(arr, 1, Len(pre)) = pre /\ Last(arr)[1] = ts
    ELSE IF ts \in TsSet(pre)
    THEN err = "none" /\ Len(arr) = Len(pre)
         /\ \A j \in 1..Len(pre) : IF pre[j][1] = ts THEN arr[j][1] = ts /\ arr[j] # pre[j] ELSE arr[j] = pre[j]
    ELSE arr = pre
\* bulk insert: all-new chunks are appended, a chunk that repeats the stored tail replaces it; anything else may
\* be refused (exception, series unchanged) but must not be stored wrongly
MultiOK ==
  op.k = "multi" =>
    LET ts == op.ts  n == op.n  m == Len(pre)
        tss == {ts + 2 * (j - 1) : j \in 1..n} IN
    IF m = 0 \/ ts > Last(pre)[1]
    THEN err = "none" /\ Len(arr) = m + n /\ SubSeq(arr, 1, m) = pre /\ \A j \in 1..n : arr[m + j][1] = ts + 2 * (j - 1)
    ELSE IF n <= m /\ \A j \in 1..n : pre[m - n + j][1] = ts + 2 * (j - 1)
    THEN err = "none" /\ Len(arr) = m /\ SubSeq(arr, 1, m - n) = SubSeq(pre, 1, m - n)
         /\ \A j \in 1..n : arr[m - n + j][1] = ts + 2 * (j - 1) /\ arr[m - n + j] # pre[m - n + j]
    ELSE err # "none" /\ arr = pre
\* a batch is the list-level upsert of its rows in order (an unknown older row is ignored)
LUpsert(s, c) == IF s = <<>> \/ c[1] > Last(s)[1] THEN Append(s, c)
                 ELSE IF c[1] \in TsSet(s) THEN [j \in 1..Len(s) |-> IF s[j][1] = c[1] THEN c ELSE s[j]] ELSE s
RECURSIVE LUpsertAll(_, _, _)
LUpsertAll(s, tss, j) == IF j > Len(tss) THEN s ELSE LUpsertAll(LUpsert(s, <<tss[j], -1>>), tss, j + 1)
BatchOK ==
  op.k = "batch" =>
    LET exp == LUpsertAll(pre, op.tss, 1) IN
    err = "none" => (Len(arr) = Len(exp) /\ \A j \in 1..Len(exp) : arr[j][1] = exp[j][1]
                                                /\ (IF exp[j][2] = -1 THEN arr[j] \notin {pre[i] : i \in 1..Len(pre)}
                                                    ELSE arr[j] = exp[j]))
NoErrorOnStored == (op.k = "add" /\ op.ts \in TsSet(pre)) => err = "none"
=============================================================================
