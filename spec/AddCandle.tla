------------------------------ MODULE AddCandle ------------------------------
(* C20, second half.  CandlesState.add_candle (l.139-177) and                   *)
(* add_multiple_1m_candles (l.394-422) on ONE stored series: the environment    *)
(* adds candles with new, repeated and older timestamps in any order.           *)
(* A candle is <<ts, version>>.  Implementation-shaped: the look-back loop      *)
(*     for i in range(max(LB, len(arr) - 1)): if arr[-i].ts == ts: replace      *)
(* is transcribed literally (arr[-0] is arr[0]; arr[-i] raises IndexError for   *)
(* i > len).  QLookback = FALSE is the behaviour the property asks for (every   *)
(* stored timestamp is found).  The property is stated on the ghost `pre`       *)
(* (the series before the last operation), independently of the loop.           *)
EXTENDS Integers, Sequences, FiniteSets, TLC, Json
CONSTANTS LB,          \* look-back constant (20 in the code)
          Prefill,     \* rows stored before the exploration starts
          MaxDepth, MaxLen, MaxMulti,
          QLookback,   \* TRUE = as the code
          Export
VARIABLES arr, nextv, err, pre, op, hist
vars == <<arr, nextv, err, pre, op, hist>>
View == <<arr, err, pre, op>>

Last(s) == s[Len(s)]
Max2(a, b) == IF a > b THEN a ELSE b
TsSet(s) == {s[j][1] : j \in 1..Len(s)}
PosOf(s, ts) == CHOOSE j \in 1..Len(s) : s[j][1] = ts
H(o) == hist' = Append(hist, o)
Init == /\ arr = [j \in 1..Prefill |-> <<2 * j, 0>>]        \* even timestamps: odd ones are "unknown older" candidates
        /\ nextv = 1 /\ err = "none" /\ pre = arr /\ op = [k |-> "init", ts |-> 0] /\ hist = <<>>

\* the look-back loop: position (1-based) inspected at iteration i, 0 when the index is out of range
Pos(i, n) == IF i = 0 THEN 1 ELSE IF i <= n THEN n - i + 1 ELSE 0
RECURSIVE Look(_, _, _, _)
Look(s, ts, i, bound) ==       \* result: [e |-> error, p |-> position replaced or 0]
  IF i >= bound THEN [e |-> "none", p |-> 0]
  ELSE IF Pos(i, Len(s)) = 0 THEN [e |-> "IndexError", p |-> 0]
  ELSE IF s[Pos(i, Len(s))][1] = ts THEN [e |-> "none", p |-> Pos(i, Len(s))]
  ELSE Look(s, ts, i + 1, bound)

Add(ts) ==
  /\ err = "none" /\ ts >= 1
  /\ LET c == <<ts, nextv>> IN
     /\ IF arr = <<>> \/ ts > Last(arr)[1] THEN arr' = Append(arr, c) /\ err' = "none"
        ELSE IF ts = Last(arr)[1] THEN arr' = [arr EXCEPT ![Len(arr)] = c] /\ err' = "none"
        ELSE IF QLookback
             THEN LET r == Look(arr, ts, 0, Max2(LB, Len(arr) - 1)) IN
                  /\ err' = r.e
                  /\ arr' = IF r.p # 0 THEN [arr EXCEPT ![r.p] = c] ELSE arr
             ELSE /\ err' = "none"
                  /\ arr' = IF ts \in TsSet(arr) THEN [arr EXCEPT ![PosOf(arr, ts)] = c] ELSE arr
     /\ pre' = arr /\ op' = [k |-> "add", ts |-> ts] /\ nextv' = nextv + 1
     /\ H([k |-> "add", ts |-> ts, v |-> nextv])

\* add_multiple_1m_candles: n consecutive minutes (timestamps step 2 in this model's scale) starting at ts
Gapless(s) == \A j \in 1..(Len(s) - 1) : s[j + 1][1] = s[j][1] + 2
Multi(ts, n) ==      \* only used on one-minute series, which are gapless (first half of the property)
  /\ err = "none" /\ ts >= 1 /\ Len(arr) + n <= MaxLen + MaxMulti /\ Gapless(arr)
  /\ LET ch == [j \in 1..n |-> <<ts + 2 * (j - 1), nextv>>]
         m == Len(arr) IN
     /\ IF m = 0 \/ ch[1][1] > Last(arr)[1] THEN arr' = arr \o ch /\ err' = "none"
        ELSE IF n > m THEN arr' = arr /\ err' = "IndexError"
        ELSE IF ch[1][1] >= arr[m - n + 1][1] /\ ch[n][1] >= Last(arr)[1]
             THEN LET ov == n - ((ch[n][1] - Last(arr)[1]) \div 2) IN
                  IF ov = n THEN arr' = SubSeq(arr, 1, m - n) \o ch /\ err' = "none"
                  ELSE arr' = arr /\ err' = "ValueError"          \* numpy: cannot broadcast n rows into ov rows
             ELSE arr' = arr /\ err' = "IndexError"
     /\ pre' = arr /\ op' = [k |-> "multi", ts |-> ts, n |-> n] /\ nextv' = nextv + 1
     /\ H([k |-> "multi", ts |-> ts, n |-> n, v |-> nextv])

Cands == IF arr = <<>> THEN {2} ELSE (Max2(arr[1][1] - 1, 1)) .. (Last(arr)[1] + 4)
Edge == Export => PrintT(<<"EDGE", ToJson([hist |-> hist', post |-> SubSeq(arr', Max2(1, Len(arr') - 5), Len(arr')), err |-> err'])>>)
AddAny == \E ts \in Cands : Len(arr) < MaxLen /\ Add(ts)
MultiAny == \E ts \in {t \in Cands : t % 2 = 0}, n \in 1..MaxMulti : Multi(ts, n)
NextM == AddAny \/ MultiAny
Next == NextM /\ Edge
SpecM == Init /\ [][NextM]_vars            \* model checking (per-action coverage)
Spec == Init /\ [][Next]_vars              \* the same with the EDGE export
Depth == Len(hist) < MaxDepth

\* ---- the property -----------------------------------------------------------------------------
StrictlyIncreasing == \A j \in 1..(Len(arr) - 1) : arr[j][1] < arr[j + 1][1]
\* append on newer, replace on equal-to-stored, otherwise unchanged (an exception on an UNKNOWN older timestamp
\* is tolerated, a lost replacement or an exception on a stored timestamp is not)
AddOK ==
  op.k = "add" =>
    LET ts == op.ts IN
    IF pre = <<>> \/ ts > Last(pre)[1]
    THEN err = "none" /\ Len(arr) = Len(pre) + 1 /\ SubSeq(arr, 1, Len(pre)) = pre /\ Last(arr)[1] = ts
    ELSE IF ts \in TsSet(pre)
    THEN err = "none" /\ Len(arr) = Len(pre)
         /\ \A j \in 1..Len(pre) : IF pre[j][1] = ts THEN arr[j][1] = ts /\ arr[j] # pre[j] ELSE arr[j] = pre[j]
    ELSE arr = pre
\* bulk insert: all-new chunks are appended, a chunk that repeats the stored tail replaces it; anything else may
\* be refused (exception, series unchanged) but must not be stored wrongly
MultiOK ==
  op.k = "multi" =>
    LET ts == op.ts  n == op.n  m == Len(pre)
        tss == {ts + 2 * (j - 1) : j \in 1..n} IN
    IF m = 0 \/ ts > Last(pre)[1]
    THEN err = "none" /\ Len(arr) = m + n /\ SubSeq(arr, 1, m) = pre /\ \A j \in 1..n : arr[m + j][1] = ts + 2 * (j - 1)
    ELSE IF n <= m /\ \A j \in 1..n : pre[m - n + j][1] = ts + 2 * (j - 1)
    THEN err = "none" /\ Len(arr) = m /\ SubSeq(arr, 1, m - n) = SubSeq(pre, 1, m - n)
         /\ \A j \in 1..n : arr[m - n + j][1] = ts + 2 * (j - 1) /\ arr[m - n + j] # pre[m - n + j]
    ELSE err # "none" /\ arr = pre
NoErrorOnStored == (op.k = "add" /\ op.ts \in TsSet(pre)) => err = "none"
=============================================================================
