----------------------------- MODULE ScenarioCount -----------------------------
(* Completeness of the exhaustive scenario runs (C02 / C08): the set of scenario *)
(* keys executed against the real matching functions must be EXACTLY the set of  *)
(* environments of Matching.tla / FastMatching.tla for the given constants:      *)
(* every candle (sequence of ChunkLen candles) of the lattice x every sequence   *)
(* of <= MaxOrders resting order prices x every reaction script (<= MaxReact     *)
(* reactions, each bound to the f-th fill, f nondecreasing in 1..MaxF; a         *)
(* reaction submits one order at a lattice price, submits a MARKET order at the   *)
(* current price, or cancels the order with creation ordinal j <= MaxOrders +    *)
(* MaxReact).  TLC builds that set from the    *)
(* constants and compares it with the keys read from the file.                   *)
EXTENDS Lattice, TLC, Json, IOUtils
Data == JsonDeserialize(IOEnv.TRACE_FILE)
K == Data.K
MaxOrders == Data.MaxOrders
MinOrders == Data.MinOrders
MaxReact == Data.MaxReact
MaxF == Data.MaxF
ChunkLen == Data.ChunkLen
Px == 1..K
Candles == CandlesOn(Px)
Flat(cd) == <<cd.o, cd.c, cd.h, cd.l>>
RECURSIVE CandleSeqs(_)
CandleSeqs(n) == IF n = 0 THEN {<<>>} ELSE {Flat(cd) \o s : cd \in Candles, s \in CandleSeqs(n - 1)}
RECURSIVE Tuples(_, _)
Tuples(S, n) == IF n = 0 THEN {<<>>} ELSE {<<x>> \o s : x \in S, s \in Tuples(S, n - 1)}
PriceSeqs == UNION {{<<n>> \o s : s \in Tuples(Px, n)} : n \in MinOrders..MaxOrders}
\* reaction kinds: 0 submit a resting order at p, 1 cancel order j, 2 submit a MARKET order at the current price
Acts == {<<0, p>> : p \in Px} \cup {<<1, j>> : j \in 1..(MaxOrders + MaxReact)} \cup {<<2, 0>>}
\* r reactions with nondecreasing fill ordinals
RECURSIVE Reacts(_, _)
Reacts(r, fmin) == IF r = 0 THEN {<<>>}
                   ELSE UNION {{<<f>> \o a \o s : a \in Acts, s \in Reacts(r - 1, f)} : f \in fmin..MaxF}
Scripts == UNION {{<<r>> \o s : s \in Reacts(r, 1)} : r \in 0..MaxReact}
Expected == {<<ChunkLen>> \o c \o p \o s : c \in CandleSeqs(ChunkLen), p \in PriceSeqs, s \in Scripts}
Seen == {Data.keys[i] : i \in DOMAIN Data.keys}
ASSUME PrintT(<<"SCENARIOS", Cardinality(Expected), Cardinality(Seen), Len(Data.keys),
                IF Seen = Expected THEN "complete" ELSE "INCOMPLETE">>)
VARIABLE x
Init == x = 0
Next == UNCHANGED x
=============================================================================
