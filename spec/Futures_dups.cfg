\* reference configuration (the checks generate their configurations from harness/drivers/acct.py:model_cfg)
SPECIFICATION Spec
VIEW ViewFull
CONSTRAINT Depth
CHECK_DEADLOCK FALSE
CONSTANTS
 Syms = {"A"}
 Qtys = {1}
 Prices = {8, 12}
 FeeNum = 1 FeeDen = 16 Start = 30
 MaxDepth = 5 MaxAct = 3 MaxOrd = 3
 Dups = TRUE CancelOnClose = TRUE Export = FALSE
 Lev = 2
INVARIANT ActiveReported
INVARIANT ExecutedInExactlyOneTrade
INVARIANT ReservedBag
INVARIANT FlatHasNoEntry
PROPERTY FinalIsFinal
PROPERTY FinalOpsAreNoOps
