"""Verification harness for jesse-ai/jesse: drives the real code, records traces, lets TLC decide."""
