"""Thin runner around TLC (tla2tools 1.8).  Python never judges: it starts TLC, passes trace files
through the environment (IOEnv) and parses TLC's own output."""
import os, re, shutil, subprocess, tempfile, time, json
from concurrent.futures import ThreadPoolExecutor

JAR = "/opt/veriftools/tla/tla2tools.jar:/opt/veriftools/tla/CommunityModules-deps.jar"
SPEC_DIR = os.path.join(os.path.dirname(os.path.dirname(os.path.abspath(__file__))), "spec")


class TLCError(Exception):
    """machinery failure: TLC could not evaluate the spec (parse error, overflow, timeout ...)"""


class TLCResult:
    def __init__(self):
        self.generated = 0
        self.distinct = 0
        self.depth = 0
        self.prints = []          # raw PrintT payloads (strings)
        self.violation = None     # dict(kind, name, trace) when an invariant/property is violated
        self.coverage = {}        # action name -> (distinct, generated)
        self.raw = ""
        self.wall = 0.0
        self.cmd = ""
        self.finished = False

    @property
    def transitions(self):
        return max(self.generated - 1, 0)


_RE_STATES = re.compile(r"(\d+) states generated, (\d+) distinct states found")
_RE_DEPTH = re.compile(r"The depth of the complete state graph search is (\d+)")
_RE_COV = re.compile(r"^<(\w+) line \d+, col \d+ to line \d+, col \d+ of module (\w+)(?: \([\d ]+\))?>: (\d+):(\d+)", re.M)
_RE_SIMDONE = re.compile(r"The number of states generated: (\d+)")


def run(module, cfg_text=None, cfg_file=None, workers=1, env=None, timeout=1800, coverage=False,
        simulate=None, depth=None, seed=None, scratch=None, extra=None, deque=False, allow_violation=True,
        heap="8g"):
    """Run TLC on spec/<module>.tla with a config given as text or file name (in spec/).
    Returns TLCResult; raises TLCError on anything that is neither a clean finish nor a property violation."""
    own = scratch is None
    scratch = scratch or tempfile.mkdtemp(prefix="tlc-")
    try:
        if cfg_text is not None:
            cfg_path = os.path.join(scratch, module + ".cfg")
            with open(cfg_path, "w") as f:
                f.write(cfg_text)
        else:
            cfg_path = os.path.join(SPEC_DIR, cfg_file)
        meta = os.path.join(scratch, "meta")
        java = ["java", "-XX:+UseParallelGC", "-Xmx" + heap, "-Xss16m"]
        if deque:
            java.append("-Dtlc2.tool.queue.IStateQueue=StateDeque")
        cmd = java + ["-cp", JAR, "tlc2.TLC", "-workers", str(workers), "-metadir", meta, "-noGenerateSpecTE",
                      "-config", cfg_path]
        if coverage:
            cmd += ["-coverage", "1"]
        if simulate is not None:
            cmd += ["-simulate", simulate]
            if depth:
                cmd += ["-depth", str(depth)]
        if seed is not None and simulate is not None:
            cmd += ["-seed", str(seed)]
        if extra:
            cmd += list(extra)
        cmd.append(os.path.join(SPEC_DIR, module + ".tla"))
        e = dict(os.environ)
        e.pop("JAVA_TOOL_OPTIONS", None)
        if env:
            e.update({k: str(v) for k, v in env.items()})
        t0 = time.time()
        try:
            p = subprocess.run(cmd, cwd=scratch, env=e, stdout=subprocess.PIPE, stderr=subprocess.STDOUT,
                               timeout=timeout, text=True, errors="replace")
        except subprocess.TimeoutExpired as ex:
            raise TLCError("TLC timeout after %ss: %s" % (timeout, " ".join(cmd)))
        r = TLCResult()
        r.wall = time.time() - t0
        r.raw = p.stdout
        r.cmd = " ".join(cmd)
        _parse(r)
        if r.violation is not None:
            if not allow_violation:
                raise TLCError("unexpected violation %s\n%s" % (r.violation["name"], r.raw[-3000:]))
            return r
        if not r.finished:
            i = r.raw.find("Error:")
            raise TLCError("TLC did not finish cleanly (exit %s): %s\n%s" % (
                p.returncode, r.cmd, r.raw[i:i + 3000] if i >= 0 else r.raw[-3000:]))
        return r
    finally:
        if own:
            shutil.rmtree(scratch, ignore_errors=True)


def _parse(r):
    out = r.raw
    for m in _RE_STATES.finditer(out):
        r.generated, r.distinct = int(m.group(1)), int(m.group(2))
    m = _RE_DEPTH.search(out)
    if m:
        r.depth = int(m.group(1))
    m = _RE_SIMDONE.search(out)
    if m and not r.generated:
        r.generated = int(m.group(1))
    k = out.rfind("The coverage statistics at")        # interim dumps (one per minute) must not be summed
    for m in _RE_COV.finditer(out[k:] if k >= 0 else out):
        name = m.group(1)
        d, g = int(m.group(3)), int(m.group(4))
        od, og = r.coverage.get(name, (0, 0))
        r.coverage[name] = (od + d, og + g)
    # PrintT payloads: lines that start with << or a quote, outside of error traces
    prints = []
    acc = None
    for line in out.splitlines():
        if acc is not None:                      # continuation of a tuple TLC pretty-printed over several lines
            acc.append(line.strip())
            if line.rstrip().endswith(">>"):
                prints.append("<<" + " ".join(acc)[2:].lstrip())
                acc = None
            continue
        if line.startswith("<<\"") or line.startswith("\"@"):
            prints.append(line)
        elif line.startswith("<< \"") and not line.rstrip().endswith(">>"):
            acc = [line.strip()]
    r.prints = prints
    fin = "Model checking completed. No error has been found." in out or \
          re.search(r"Finished in \d", out) is not None and "Error:" not in out
    if simulate_finished(out):
        fin = True
    r.finished = bool(fin) and "Error:" not in out
    m = re.search(r"Error: Invariant (\S+) is violated", out)
    kind = "invariant"
    if not m:
        m = re.search(r"Error: Action property (\S+) is violated", out)
        kind = "action_property"
    if not m:
        m = re.search(r"Error: Temporal properties were violated", out)
        kind = "temporal"
    if not m and "Error: Deadlock reached" in out:
        m = re.search(r"Error: Deadlock reached", out)
        kind = "deadlock"
    if not m and "Error: Assumption" in out:
        m = re.search(r"Error: Assumption (.*) is false", out)
        kind = "assumption"
    if m:
        name = m.group(1) if m.groups() else kind
        i = out.find("Error: The behavior up to this point is")
        trace = out[i:i + 20000] if i >= 0 else ""
        r.violation = {"kind": kind, "name": name.rstrip("."), "trace": trace}


def simulate_finished(out):
    return "simulation" in out.lower() and ("The number of states generated" in out) and "Error:" not in out


def parse_tuple(line):
    """Parse a PrintT'ed TLA+ tuple of strings / ints / nested tuples into Python lists."""
    s = line.strip()
    pos = [0]

    def ws():
        while pos[0] < len(s) and s[pos[0]] in " \n\t":
            pos[0] += 1

    def val():
        ws()
        if s.startswith("<<", pos[0]):
            pos[0] += 2
            items = []
            ws()
            if s.startswith(">>", pos[0]):
                pos[0] += 2
                return items
            while True:
                items.append(val())
                ws()
                if s.startswith(">>", pos[0]):
                    pos[0] += 2
                    return items
                if s[pos[0]] != ",":
                    raise ValueError("bad tuple at %d in %r" % (pos[0], s[:200]))
                pos[0] += 1
        if s[pos[0]] == '"':
            j = pos[0] + 1
            buf = []
            while s[j] != '"':
                if s[j] == "\\":
                    j += 1
                buf.append(s[j])
                j += 1
            pos[0] = j + 1
            return "".join(buf)
        m = re.match(r"-?\d+", s[pos[0]:])
        if m:
            pos[0] += len(m.group(0))
            return int(m.group(0))
        m = re.match(r"TRUE|FALSE", s[pos[0]:])
        if m:
            pos[0] += len(m.group(0))
            return m.group(0) == "TRUE"
        raise ValueError("cannot parse %r at %d" % (s[:200], pos[0]))

    return val()


def tagged(result, tag):
    """all PrintT tuples whose first element is `tag`"""
    res = []
    for line in result.prints:
        if line.startswith('<<"%s"' % tag):
            res.append(parse_tuple(line))
    return res


def run_parallel(jobs, max_procs=16):
    """jobs: list of kwargs dicts for run(); executes them concurrently (each its own JVM)."""
    with ThreadPoolExecutor(max_workers=max_procs) as ex:
        futs = [ex.submit(run, **j) for j in jobs]
        return [f.result() for f in futs]


def sany(path):
    p = subprocess.run(["java", "-cp", JAR, "tla2sany.SANY", path], stdout=subprocess.PIPE, stderr=subprocess.STDOUT,
                       text=True, cwd=os.path.dirname(path))
    ok = p.returncode == 0 and "Semantic errors" not in p.stdout and "Fatal errors" not in p.stdout \
         and "*** Errors" not in p.stdout and "Could not parse" not in p.stdout
    return ok, p.stdout


def validate_traces(module, cfg_file, traces, scratch, parts=8, hdr=None, timeout=1800, tag="VERDICT", extra_env=None,
                    heap=None, max_procs=16):
    """Trace validation in batches: `traces` is a list of dicts with unique integer 'id'.  They are split into
    `parts` JSON files, each checked by its own single-worker TLC (deterministic trace specs are linear).  Returns
    ({id: (events_consumed, verdict)}, [TLCResult]).  A trace without verdict line is a machinery failure."""
    from . import encode
    if not traces:
        return {}, []
    parts = max(1, min(parts, len(traces)))
    chunks = [traces[i::parts] for i in range(parts)]
    jobs = []
    for i, ch in enumerate(chunks):
        d = os.path.join(scratch, "tv-%s-%d" % (module, i))
        os.makedirs(d, exist_ok=True)
        path = os.path.join(d, "traces.json")
        doc = {"traces": ch}
        if hdr:
            doc["hdr"] = hdr
        encode.dump(doc, path)
        env = {"TRACE_FILE": path}
        if extra_env:
            env.update(extra_env)
        jobs.append(dict(module=module, cfg_file=cfg_file, workers=1, env=env, scratch=d, timeout=timeout,
                         allow_violation=False))
        if heap:
            jobs[-1]["heap"] = heap
    results = run_parallel(jobs, max_procs=max_procs)
    verdicts = {}
    for r in results:
        for t in tagged(r, tag):
            verdicts[t[1]] = (t[2], t[3]) if len(t) == 4 else tuple(t[2:])
    missing = [t["id"] for t in traces if t["id"] not in verdicts]
    if missing:
        raise TLCError("no verdict for %d traces (first ids %s) in %s\n%s" % (len(missing), missing[:5], module,
                                                                            results[0].raw[-2000:]))
    return verdicts, results
