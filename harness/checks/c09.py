"""C09 - isolated-margin liquidation happens exactly at the liquidation price.
M: LiqArith.tla (exact rationals: bankruptcy < liquidation < entry, mirrored for shorts, for every leverage 1..125;
   closing at the bankruptcy price loses exactly entry/L per unit) and Matching.tla with the LiqCheck action
   (liquidation iff a position is open after matching and the range contains its liquidation price; then closed,
   nothing left resting; never at another moment).
T: direct reads of the real Position.liquidation_price / bankruptcy_price for every leverage and both sides, plain and
   averaged entries (TraceLiqPrice.tla); two-pass in-vivo runs: pass 1 reads the implementation's own liquidation
   price, pass 2 crafts candles that touch it exactly / miss it by one ulp / jump over it / close on it / gap over
   it, with and without protective stops, averaged entries, isolated / cross / spot, both simulators - every
   liquidation check of every run is judged by TLC (TraceMatching.tla, clauses liq:*)."""
import random, time
from concurrent.futures import ThreadPoolExecutor
from .. import tlc
from ..core import Machinery
from ..session import run_isolated, futures_config, spot_config
from ..drivers import matching as mt
from . import c02

META = dict(
    category="model_checking",
    technique="TLA+: exact-rational arithmetic model of the liquidation / bankruptcy formulas for every leverage 1..125 "
              "(LiqArith.tla) and the liquidation check as an action of the matching model (Matching.tla) checked by TLC; "
              "direct reads of the real Position properties and two-pass in-vivo backtests (touch / one-ulp miss / jump / "
              "gap around the implementation's own liquidation price) validated by TLC (TraceLiqPrice.tla, "
              "TraceMatching.tla)",
    text="TLC proves in exact rationals, for every leverage 1..125 and both sides, that the liquidation price lies "
         "strictly between the entry price and the bankruptcy price and that a close at the bankruptcy price loses "
         "exactly entry/leverage per unit, and - in the matching model - that a force-close happens exactly when a "
         "position is open after matching and the candle's range contains its liquidation price, closes it, leaves no "
         "resting order and never happens at another moment. The real code is bound to this by reading the Position "
         "properties for all 125 leverages and by recorded backtests whose candles are crafted around the "
         "implementation's own liquidation price (exactly on it, one ulp short, beyond it, in a gap), where TLC "
         "decides for every liquidation check the iff, the closing order (market, reduce-only, closing side, whole "
         "position, bankruptcy price), the wallet loss (initial margin + fee), the cancellation of every resting order "
         "and the counter; cross-margin and spot sessions must never liquidate.",
    note="The iff is judged on ranks of {candle lows/highs, previous close, liquidation price}; a liquidation price that "
         "lies only in a close->open gap is counted as a knife-edge case (the statement does not say whether the range "
         "includes the gap) and not judged. Amounts are compared after rounding to 0.001 with a tolerance derived from "
         "the rounding. Single symbol, one position.",
    design_ref="4/C09")


def liq_items(ctx, n):
    rng = random.Random(ctx.seed * 77 + 5)
    levs_all = list(range(1, 126))
    items = []
    combos = []
    for pat in mt.LIQ_PATTERNS:
        for side in (1, -1):
            for fast in (False, True):
                combos.append((pat, side, fast))
    i = 0
    while len(items) < n:
        pat, side, fast = combos[i % len(combos)]
        r = random.Random(ctx.seed * 1009 + i)
        lev = r.choice([1, 2, 3, 5, 10, 20, 25, 50, 75, 100, 124, 125]) if r.random() < 0.6 else r.choice(levs_all)
        kind = r.random()
        if kind < 0.72:
            mode, typ = 'isolated', 'futures'
        elif kind < 0.9:
            mode, typ = 'cross', 'futures'
        else:
            mode, typ = 'spot', 'spot'
        if typ == 'spot' and side == -1:
            side = 1
        fee = r.choice([0.0, 1 / 1024, 1 / 2048])
        P0 = r.choice([1000, 500, 1600])
        avg = r.random() < 0.35
        stop_rel = r.choice([None, None, None, 0.5, 0.9, 1.3])
        if typ == 'spot':
            stop_rel = None if stop_rel is None or stop_rel > 1 else stop_rel
            cfg = spot_config(fee=fee, balance=10000)
            lev_aim = r.choice([2, 5, 10])
        else:
            cfg = futures_config(lev=lev, fee=fee, mode=mode, balance=10000)
            lev_aim = lev
        if side == -1 and lev_aim == 1 and stop_rel and stop_rel > 1:
            stop_rel = 0.5
        dist = P0 * ((1 / lev_aim - 0.004) if lev_aim > 1 else 0.5)       # entry -> liquidation price
        if pat in ('touch_new_not_old', 'touch_old_not_new'):
            avg = True
        p = dict(side=side, P0=P0, q1=r.choice([1, 2]), q2=1, d=round(min(8.0, dist * 0.3), 3), avg=avg,
                 tf=3 if (fast and pat == 'gap_inside_chunk') else r.choice([1, 1, 3]), stop_rel=stop_rel, aim_lev=lev_aim)
        if typ == 'futures' and mode == 'isolated' and not p['avg'] and r.random() < 0.45 and pat not in (
                'open_and_touch_in_same_candle',):
            # all-in / nearly all-in position with a fee: initial margin + entry fee + liquidation fee > wallet
            lev2 = r.choice([5, 10, 20, 25, 50, 75, 100, 125])
            margin = p['q1'] * P0 / lev2
            cfg = futures_config(lev=lev2, fee=r.choice([0.0005, 0.001]), mode='isolated',
                                 balance=margin if r.random() < 0.6 else margin * 1.0005)
            dist = P0 * (1 / lev2 - 0.004)
            p = dict(p, aim_lev=lev2, d=round(min(8.0, dist * 0.3), 3), allin=True)
        items.append(dict(id=len(items) + 1, p=p, cfg=cfg, pattern=pat, fast=fast))
        i += 1
    return items


def run(ctx):
    ctx.assumptions += [
        "two-pass driver: the liquidation price used to craft the candles is the float the implementation itself reports "
        "in pass 1 (same prefix, deterministic strategy), so 'touch' and 'one ulp short' are exact",
        "whether the position is open after matching and its entry price are taken as recorded (position accounting is C03)",
        "direct reads: the leverage is set on the real FuturesExchange and read by Position through its strategy"]
    mt.preimport()
    pool = ThreadPoolExecutor(max_workers=3)
    liq_props = ["LiqEffect", "LiqIff", "LiqOnlyInCheck", "NoMissedFill", "FinalIsFinal", "TypeOK"]
    jobs = {
        'liq_arith_1_125': pool.submit(tlc.run, "LiqArith", cfg_text=(
            "SPECIFICATION Spec\nCHECK_DEADLOCK FALSE\nCONSTANT MaxLev = 125\nINVARIANT StrictlyBetween\n"
            "INVARIANT LosesInitialMargin\nINVARIANT Buffer\nINVARIANT SafeRange\n"), workers=1, coverage=True, timeout=300),
        'matching_liqcheck': pool.submit(tlc.run, "Matching", cfg_text=c02.matching_cfg(*ctx.pick((3, 2, 1), (4, 2, 1)),
                                         liq=True, props=liq_props), workers=ctx.pick(4, 10), coverage=ctx.quick,
                                         timeout=ctx.pick(600, 2400), heap="12g"),
    }
    samples = []
    # ---- direct reads of the real Position properties, every leverage
    t0 = time.time()
    groups = [(list(range(1, 126)), 'isolated', 'futures'), ([1, 2, 3, 10, 50, 125], 'cross', 'futures'), ([1], 'cross', 'spot')]
    res = run_isolated(mt.liq_price_reads, groups)
    rtraces = []
    for g, r in zip(groups, res):
        if r and r[0] == 'EXC':
            raise Machinery("liq price reads failed: %s" % r[1])
        rtraces.append({'id': len(rtraces) + 1, 'hdr': {}, 'ev': r})
    verdicts, _ = tlc.validate_traces("TraceLiqPrice", "TraceLiqPrice.cfg", rtraces, ctx.sub("tv-liqprice"), parts=3)
    n_reads = 0
    for tid, v in sorted(verdicts.items()):
        n_reads += v[0]
        for clause, l in v[3]:
            e = rtraces[tid - 1]['ev'][l - 1]
            ctx.violation(clause, "Position properties, %r: %s" % (e, clause), {'kind': 'reads', 'group': list(groups[tid - 1])})
    for t in rtraces:
        for e in t['ev']:
            ctx.nontrivial.add(('read', e['lev'], e['side'], e['mode'], e['avg']))
    samples.append({'kind': 'direct read of the real Position properties (ranks and 6-digit amounts)', 'case': rtraces[0]['ev'][7]})
    ctx.log("direct reads: %d cases judged, %.0fs" % (n_reads, time.time() - t0))
    # ---- two-pass in-vivo runs
    t0 = time.time()
    items = liq_items(ctx, ctx.pick(252, 6000))
    res = run_isolated(mt.run_liq_case, items)
    traces, stats, skipped = [], {}, []
    for it, r in zip(items, res):
        if r[0] == 'EXC':
            if 'Hang' in r[1]:
                skipped.append((it['id'], 'hang'))
                continue
            raise Machinery("liquidation driver failed: %s" % r[1])
        if r[0] is None:
            skipped.append((it['id'], r[1].get('why') or r[1].get('exc')))
            continue
        traces.append(r[0])
        stats[it['id']] = r[1]
    verdicts, results = tlc.validate_traces("TraceMatching", "TraceMatching.cfg", traces, ctx.sub("tv-liq"), parts=14)
    by = {it['id']: it for it in items}
    nb = c02.report(ctx, verdicts, lambda tid: {'kind': 'liq', 'item': by[tid]}, "two-pass")
    liqd = sum(1 for s in stats.values() if s['liq'])
    skips = sum(v[2] for v in verdicts.values())
    checks = sum(s['checks'] for s in stats.values())
    open_checks = sum(s['open_checks'] for s in stats.values())
    for i, s in stats.items():
        it = by[i]
        if s['open_checks'] > 0:
            ctx.nontrivial.add(('run', it['p']['side'], it['cfg']['futures_leverage'], it['cfg'].get('futures_leverage_mode'),
                                it['cfg']['type'], it['pattern'], it['fast'], it['p']['avg'], it['p']['stop_rel'], it['p']['tf'],
                                bool(it['p'].get('allin'))))
    ctx.evaluations += len(items) + n_reads
    k = next((j for j, t in enumerate(traces) if stats[t['id']]['liq']), 0)
    samples.append({'kind': 'two-pass run (pattern %s), liquidation checks of the encoded trace' % by[traces[k]['id']]['pattern'],
                    'item': by[traces[k]['id']], 'events': [e for e in traces[k]['ev'] if e['k'].startswith('liq')][-6:]})
    agg = {'runs': len(traces), 'runs_skipped': len(skipped), 'skip_reasons': sorted({str(s[1]) for s in skipped}),
           'runs_with_a_liquidation': liqd, 'liquidation_checks_judged': checks,
           'checks_with_an_open_position': open_checks, 'knife_edge_gap_cases_not_judged': skips,
           'violating_clauses': nb, 'tlc_states': sum(r.generated for r in results),
           'all_in_positions_with_fee': sum(1 for i in stats if by[i]['p'].get('allin')),
           'all_in_positions_liquidated': sum(1 for i, s in stats.items() if by[i]['p'].get('allin') and s['liq']),
           'patterns': {p: sum(1 for i in stats if by[i]['pattern'] == p) for p in mt.LIQ_PATTERNS}}
    ctx.log("two-pass: %s %.0fs" % (agg, time.time() - t0))
    # ---- two routes in one isolated-margin session: a liquidation must leave the other symbol alone
    t0 = time.time()
    pitems = []
    for i in range(ctx.pick(16, 192)):
        r = random.Random(ctx.seed * 313 + i)
        fast = bool(i & 1)
        pp = dict(victim='BTC-USDT', follower='ETH-USDT', follower_first=bool(i & 2), react=bool(i & 4),
                  side=1 if i & 8 else -1, qv=r.choice([1, 2]), P0=r.choice([200, 1000]), how=r.choice(['touch', 'jump']),
                  tf=r.choice([1, 3]) if fast else 1)
        pitems.append(dict(id=500000 + i, p=pp, fast=fast,
                           cfg=futures_config(lev=r.choice([2, 5, 10, 25]), fee=r.choice([0.0, 0.001]), mode='isolated',
                                              balance=10000)))
    pres = run_isolated(mt.run_liq_pair, pitems)
    ptraces, pstats = [], {}
    for it, r in zip(pitems, pres):
        if r[0] == 'EXC':
            raise Machinery("two-route liquidation driver failed: %s" % r[1])
        ptraces += r[0]
        pstats[it['id']] = r[1]
    pverd, presults = tlc.validate_traces("TraceMatching", "TraceMatching.cfg", ptraces, ctx.sub("tv-pair"), parts=8)
    pby = {}
    for it in pitems:
        pby[it['id'] * 4] = pby[it['id'] * 4 + 1] = it
    npb = c02.report(ctx, pverd, lambda tid: {'kind': 'pair', 'item': pby[tid]}, "two-routes")
    for it in pitems:
        if pstats[it['id']]['liq']:
            ctx.nontrivial.add(('pair',) + tuple(sorted((k, str(v)) for k, v in it['p'].items())) + (it['fast'],))
    ctx.evaluations += len(pitems)
    pair_agg = {'runs': len(pitems), 'runs_with_a_liquidation': sum(1 for s in pstats.values() if s['liq']),
                'follower_market_orders_(entry, close-event exit, end of run)': sum(s['follower_markets'] for s in pstats.values()),
                'followers_closed_at_the_end': sum(1 for s in pstats.values() if s['follower_qty_end'] == 0),
                'violating_clauses': npb, 'runs_ending_in_a_jesse_exception': sum(1 for s in pstats.values() if s['exc'])}
    ctx.log("two-routes: %s %.0fs" % (pair_agg, time.time() - t0))
    samples.append({'kind': 'two routes, isolated: follower trace around the victim\'s liquidation',
                    'item': pitems[4], 'events': [e for e in ptraces[9]['ev'] if e['k'] in ('xliq', 'xliq_end', 'submit', 'exec', 'cancel')][-10:]})
    for name, fut in jobs.items():
        r = fut.result()
        ctx.add_tlc(r, name)
        if r.violation:
            raise Machinery("%s: the model violates %s\n%s" % (name, r.violation["name"], r.violation["trace"][:3000]))
    pool.shutdown()
    ctx.coverage.update({
        "traces_validated_against_impl": len(traces) + len(rtraces) + len(ptraces), "position_property_reads": n_reads,
        "two_pass": agg, "two_routes": pair_agg, "samples": samples,
        "rule": "two-pass run = (side, leverage, margin mode, account type, approach pattern, simulator, averaged entry, "
                "protective stop, timeframe); non-trivial when at least one liquidation check saw an open position; "
                "distinct by that tuple. Direct reads distinct by (leverage, side, mode, averaged).",
    })


def replay(ctx, rp):
    p = rp["payload"]
    if p['kind'] == 'liq':
        res = run_isolated(mt.run_liq_case, [dict(p['item'], id=1)])
        if res[0][0] == 'EXC' or res[0][0] is None:
            raise Machinery(str(res[0][1]))
        print("run:", res[0][1])
        verdicts, _ = tlc.validate_traces("TraceMatching", "TraceMatching.cfg", [res[0][0]], ctx.scratch, parts=1)
        print("replay verdict:", verdicts[1])
        c02.report(ctx, verdicts, lambda tid: p, "replay")
    elif p['kind'] == 'pair':
        res = run_isolated(mt.run_liq_pair, [dict(p['item'], id=1)])
        if res[0][0] == 'EXC':
            raise Machinery(str(res[0][1]))
        print("run:", res[0][1])
        verdicts, _ = tlc.validate_traces("TraceMatching", "TraceMatching.cfg", res[0][0], ctx.scratch, parts=1)
        print("replay verdict:", sorted(verdicts.items()))
        c02.report(ctx, verdicts, lambda tid: p, "replay")
    elif p['kind'] == 'reads':
        g = p['group']
        res = run_isolated(mt.liq_price_reads, [(g[0], g[1], g[2])])
        verdicts, _ = tlc.validate_traces("TraceLiqPrice", "TraceLiqPrice.cfg", [{'id': 1, 'hdr': {}, 'ev': res[0]}],
                                          ctx.scratch, parts=1)
        print("replay verdict:", verdicts[1])
        for clause, l in verdicts[1][3]:
            ctx.violation(clause, "replay: %s on %r" % (clause, res[0][l - 1]), p)
    else:
        c02.replay(ctx, rp)
