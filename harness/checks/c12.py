"""C12 - fast mode reproduces the normal simulation when fills are unambiguous.

M: SimEquiv.tla - the matching loops of both simulators (minute loop with re-selection and re-sort on the split
   candle; chunk loop with aggregate selection, raw-candle sort and no re-sort) run in lock-step on the same feed and
   the same policy decisions on a price lattice; TLC checks that inside the property's precondition the executed
   orders, position, realised balance and resting orders coincide at every trading-candle boundary.
T: TraceSimEquiv.tla - the real research.backtest is run with fast_mode False/True on equal arguments; TLC re-checks
   the precondition on the normal run (discarding, never judging, pairs outside it) and compares executed orders,
   closed trades and final balances."""
import math, random, json
from .. import tlc, session as S
from ..core import Machinery
from ..drivers import simruns as R

META = dict(
    category="model_checking",
    technique="TLA+ lock-step product of the two matching algorithms and the strategy step transcribed from backtest_mode / "
              "Strategy (SimCore.tla, SimEquiv.tla) explored exhaustively by TLC on a price lattice; the model is bound to the code "
              "both ways (TraceSimModel.tla: TLC-exported witness scenarios and random scenarios are run on the real normal and "
              "fast simulators and TLC checks the model predicts each of them fill for fill); differential trace spec "
              "(TraceSimEquiv.tla): pairs of real research.backtest runs (fast_mode off/on, equal arguments) judged by TLC, the "
              "precondition re-derived by TLC from the normal run",
    text="TLC explores every feed on lattices 3-5 and every decision of a policy menu (market/limit/stop entries, absolute exits or "
         "exits placed in on_open_position relative to the price seen there, cancel, liquidate) for chunks of 1-3 minutes, trading "
         "candle = chunk or a multiple, aligned and ragged lengths, and checks that inside antecedent (<= 1 resting fill per trading "
         "candle in the normal run) and quantifier (resting prices spaced wider than the candle moves) both simulators execute the "
         "same orders (side, type, price, minute) and reach the same position and balance (the variant of the fast loop found in "
         "the tree is detected on two canonical scenarios; for the former loop TLC lists its divergences - class inner-gap-fill - "
         "and those witnesses are replayed on the code as regression scenarios). For the code, TLC compares executed orders, closed trades and "
         "final balances of real paired runs over spot/futures, trading 1m..1h, smaller/larger data routes, fees, leverage modes, "
         "warm-up, ragged lengths; pairs outside the precondition are counted and discarded. Bounded: lattice/depth of the model, "
         "quantity 1 and fee 0 in the model, finitely many random sessions, the policy family of make_policy_strategy.",
    note="Trusted: TLC, the JSON encoder, the recorder wrappers (Order.execute + strategy callbacks), determinism of "
         "research.backtest. The spacing quantifier is formalised as: in no trading window do two different resting-order prices of "
         "the normal run lie inside the window's price range. Findings of this check (both fixed): trailing partial chunk raised ValueError (f8ad570d); "
         "inner-gap-fill - minutes inside a chunk were not jump-fixed (651f7be3).",
    design_ref="4/C12")

TFS = ['1m', '3m', '5m', '15m', '30m', '1h']


# candle-reading policies: trading timeframe + data routes incl. larger NON-multiples of the trading timeframe (the chunk is
# then smaller than both), nested ones as control
READ_COMBOS = [('3m', ['5m']), ('30m', ['45m']), ('45m', ['1h']), ('5m', ['15m']), ('15m', []), ('3m', ['15m']), ('5m', []),
               ('1m', ['3m']), ('15m', ['5m']), ('3m', ['5m', '15m'])]


# ragged tails: every residue class of the length modulo the chunk, with an "eager" policy that enters at market whenever it is
# flat (exits close enough to rest into the tail and fill there) - an extra or missing strategy execution on the incomplete
# trading candle then shows up in the orders as well as in the recorded strategy steps
RAGGED_COMBOS = [('5m', []), ('3m', []), ('15m', ['1h']), ('5m', ['15m']), ('15m', ['5m'])]


def gen_item(rng, idx, quick, ragged=False, force=None):
    typ = ['futures', 'spot'][idx % 2]
    ttf = TFS[(idx // 2) % len(TFS)]
    reads = (idx % 4 == 3) and not ragged
    tt = R.TFM[ttf]
    bigger = [t for t in TFS + ['2h', '4h'] if R.TFM[t] > tt and R.TFM[t] % tt == 0]
    smaller = [t for t in TFS if 1 < R.TFM[t] < tt and tt % R.TFM[t] == 0]
    c = rng.random()
    if force:
        ttf, dtfs = force['ttf'], list(force['dtfs'])
        tt = R.TFM[ttf]
    elif reads:
        ttf, dtfs = READ_COMBOS[(idx // 4) % len(READ_COMBOS)]
        dtfs = list(dtfs)
        tt = R.TFM[ttf]
    elif c < 0.45 or not bigger:
        dtfs = []
    elif c < 0.8:
        dtfs = [rng.choice(bigger)]
    elif smaller:
        dtfs = [rng.choice(smaller)]          # a smaller data route shrinks the chunk below the trading candle
    else:
        dtfs = [rng.choice(bigger)]
    mins = [tt] + [R.TFM[d] for d in dtfs]
    L = 1
    for m in mins:
        L = L * m // math.gcd(L, m)
    steps = rng.randint(40, 70 if quick else 140) if not force else rng.randint(6, 30)       # strategy steps
    n = tt * steps
    n = max(L * 2, n - n % L)
    chunk = 0
    for m in mins:
        chunk = math.gcd(chunk, m)
    if ragged:
        if chunk == 1:
            return None
        n += force['residue'] if force else rng.randint(1, chunk - 1)
    step = rng.choice([1, 2])
    wick = rng.choice([1, 2])
    # a trading candle of tt minutes moves ~ (step+wick) * sqrt(tt) * 1.6; exits are placed well beyond that
    span = int((step + wick) * math.sqrt(tt) * 1.7) + 3
    seed = rng.randrange(1, 10 ** 6)
    pol = {'seed': seed, 'entry_every': rng.choice([2, 3, 4, 5]), 'long_phase': 1, 'short_phase': rng.choice([0, 2, 3]),
           'exits_in': rng.choice(['go', 'on_open', 'mixed']), 'p_cancel': rng.choice([0.0, 0.3, 1.0]),
           'p_edit': rng.choice([0.0, 0.1]),
           # spot: liquidate() while a take-profit rests is refused by the exchange (sell sums, C04) - not this property
           'p_liquidate': 0.0 if typ == 'spot' else rng.choice([0.0, 0.05, 0.15]), 'p_edit_on_reduced': 0.0,
           'max_entry_rows': rng.choice([1, 1, 2]), 'max_exit_rows': rng.choice([1, 1, 2]),
           'entry_offsets': rng.choice([(0, 0, -1, -2, 1, 2), (0, -1, -3, 2, 3), (0,), (-2, -1, 1, 2)]),
           'sl_dist': (span, span + 6), 'tp_dist': (span, span + 6), 'spot': typ == 'spot'}
    if force:           # eager: long at market whenever flat, exits a few ticks away so that they rest into the tail and fill
        near = max(2, span // 3)
        pol.update({'entry_every': 1, 'long_phase': 0, 'allow_short': False, 'entry_offsets': (0,), 'max_entry_rows': 1,
                    'max_exit_rows': 1, 'p_cancel': 0.0, 'p_edit': 0.0, 'p_liquidate': 0.0,
                    'sl_dist': (near, near + 2), 'tp_dist': (near, near + 2)})
    warm = rng.choice([0, 0, 240])
    if idx % 5 == 4:          # warm-up minutes that are NOT a multiple of the route timeframes (247 = 13 * 19; 240 is not one of 45m)
        warm = 247
    return dict(typ=typ, nsym=1, ttf=ttf, dtfs=dtfs, warm=warm, n=n, seed=seed, policy=pol,
                fee=rng.choice([0.0, 1 / 1024, 0.0006]), lev=rng.choice([1, 2, 5]),
                levmode=rng.choice(['cross', 'cross', 'cross', 'isolated']), chunk=chunk, ragged=bool(ragged),
                candle_policy=bool(reads),
                # mark-price values read inside the execution hooks feed the take-profit (a quarter of the pairs)
                mark_policy=(idx % 4 == 1 or idx % 8 == 6),
                # the session's first candle is not on a trading-timeframe boundary counted from the epoch (00:07, 00:11 ...)
                ts_off=(rng.choice([7, 11, 13, 23]) if idx % 3 == 2 else 0),
                walk=dict(step=step, wick=wick, gap_p=rng.choice([0.0, 0.1, 0.3]), start=200 + 8 * span + rng.choice([0, 37])))


def side(r):
    return {"fills": [dict(side=f['side'], type=f['type'], qty=f['qty'], price=f['price'], minute=f['minute']) for f in r['fills']],
            "trades": r['trades'], "bal": r['bal'], "liq": r['liq'], "exc": r['exc'], "hooks": r['hooks'], "reads": r['reads'],
            # every strategy execution: index and clock of its before() call
            "steps": [[int(e['f'][2]), e['t']] for e in r['seq'] if e['k'] == 'obs' and e['f'][0] == 'before']}


def make_trace(tid, item, rn, rf):
    return {"id": tid, "hdr": {"tf": R.TFM[item['ttf']], "chunk": item['chunk'], "n": item['n'], "typ": item['typ']},
            "norm": side(rn), "fast": side(rf)}


def run_pairs(items):
    jobs = []
    for it in items:
        jobs.append(dict(it, mode='step'))
        jobs.append(dict(it, mode='fast'))
    res = S.run_isolated(R.run_item, jobs, procs=16)
    for x in res:
        if isinstance(x, tuple) and x and x[0] == 'EXC':
            raise Machinery("driver failed: %s" % x[1])
    return [(res[2 * j], res[2 * j + 1]) for j in range(len(items))]


def sig_of(v):
    return v


def judge(ctx, traces, bymap, parts, stats):
    verdicts, results = tlc.validate_traces("TraceSimEquiv", "TraceSimEquiv.cfg", traces, ctx.scratch, parts=parts, timeout=1500)
    for r in results:
        ctx.coverage["trace_states_checked_by_tlc"] = ctx.coverage.get("trace_states_checked_by_tlc", 0) + r.generated
    for tid, (nrest, v) in sorted(verdicts.items()):
        it = bymap[tid]
        if v.startswith("discard:"):
            stats['discarded'][v] = stats['discarded'].get(v, 0) + 1
            continue
        stats['judged'] += 1
        if v == "ok":
            stats['agree'] += 1
            if nrest >= 2:
                ctx.nontrivial.add((it['typ'], it['ttf'], tuple(it['dtfs']), it['seed']))
            continue
        ctx.violation(sig_of(v), "pair %d (%s trading %s data=%s n=%d chunk=%d warm=%d): %s" % (
            tid, it['typ'], it['ttf'], it['dtfs'], it['n'], it['chunk'], it['warm'], v), {"item": it})


def trace_part(ctx):
    R.warm_parent()
    rng = random.Random(ctx.seed)
    n_pairs = ctx.pick(220, 5000)
    n_ragged = ctx.pick(6, 60)
    items = [gen_item(rng, j, ctx.quick) for j in range(n_pairs)]
    rag = []
    j = 0
    while len(rag) < n_ragged:
        it = gen_item(rng, j, ctx.quick, ragged=True)
        j += 1
        if it:
            rag.append(it)
    for rep in range(ctx.pick(1, 6)):
        for ttf, dtfs in RAGGED_COMBOS:
            ch = 0
            for m in [R.TFM[ttf]] + [R.TFM[d] for d in dtfs]:
                ch = math.gcd(ch, m)
            residues = list(range(1, ch)) if ch <= 5 else sorted(rng.sample(range(1, ch), 4))
            for res in residues:
                j += 1
                rag.append(gen_item(rng, j, ctx.quick, ragged=True, force=dict(ttf=ttf, dtfs=dtfs, residue=res)))
    items += rag
    stats = {'judged': 0, 'agree': 0, 'discarded': {}}
    samples = []
    tid = 0
    batch = ctx.pick(len(items), 600)
    fills_total = 0
    for off in range(0, len(items), batch):
        its = items[off:off + batch]
        pairs = run_pairs(its)
        traces, bymap = [], {}
        for it, (rn, rf) in zip(its, pairs):
            tid += 1
            traces.append(make_trace(tid, it, rn, rf))
            bymap[tid] = it
            fills_total += len(rn['fills'])
            if len(samples) < 2 and len(rn['fills']) >= 6 and not it['ragged'] and it['ttf'] != '1m':
                samples.append({"config": {k: it[k] for k in ('typ', 'ttf', 'dtfs', 'n', 'chunk', 'warm', 'fee', 'levmode', 'seed')},
                                "normal_fills": rn['fills'][:6], "fast_fills": rf['fills'][:6],
                                "normal_trades": rn['trades'][:2], "final_balances": rn['bal']})
        judge(ctx, traces, bymap, 16, stats)
        ctx.log("T: %d pairs, judged %d, agree %d, discarded %s" % (tid, stats['judged'], stats['agree'], stats['discarded']))
    ctx.evaluations = len(items)
    if stats['judged'] < len(items) // 3:
        raise Machinery("only %d of %d pairs inside the precondition - the policy generator no longer spaces exits wide enough"
                        % (stats['judged'], len(items)))
    cfgs = {(it['typ'], it['ttf'], tuple(it['dtfs'])) for it in items}
    ctx.coverage.update({
        "traces_validated_against_impl": len(items), "real_backtests_run": 2 * len(items),
        "pairs_inside_precondition": stats['judged'], "pairs_agreeing": stats['agree'],
        "pairs_discarded_by_precondition": stats['discarded'], "ragged_length_pairs": len(rag),
        "normal_fills_recorded": fills_total, "configurations_covered": len(cfgs), "samples": samples,
        "rule": "random single-symbol sessions from the seed over {spot,futures} x trading 1m..1h x (no / larger / smaller data "
                "route) x fee x leverage mode x warm-up, policy with exits spaced wider than a trading candle moves; plus a few "
                "series whose length is not a multiple of the chunk; non-trivial = inside the precondition (decided by TLC) "
                "with >= 2 resting fills in the normal run; distinct by configuration x policy seed",
    })


def whole_to_trace(tid, sc, rn, rf):
    conv = lambda r: {"fills": [dict(side=f[0], type=f[1], qty=str(f[2]), price=str(f[3]), minute=f[4]) for f in r['fills']],
                      "trades": [[t['type'], str(t['qty']), str(t['entry']), str(t['exit']), str(t['pnl']), str(t['fee']),
                                  str(t['opened']), str(t['closed']), "0", "0"] for t in r['trades']],
                      "bal": [["USDT", str(r['wal'])]], "liq": 0, "exc": ("none" if r['exc'] == 'run' else r['exc']),
                      "hooks": [], "reads": [],
                      "steps": []}   # the whole-run driver records no before() calls; X01 compares its projections
    tr = {"id": tid, "hdr": {"tf": sc['tf'], "chunk": sc['chunk'], "n": sum(len(e['raw']) for e in sc['hist']), "typ": "futures"},
          "norm": conv(rn), "fast": conv(rf)}
    it = dict(typ='futures', ttf='%dm' % sc['tf'], dtfs=[], n=0, chunk=sc['chunk'], warm=0, seed=tid, whole=sc)
    return tr, it


def whole_phase(ctx):
    """thorough only: whole-run scenarios of the X01 model (scripted multi-row entries, partial exits, edits, rejections,
    fees, leverage) executed on both real simulators; TLC judges C12 on them with the same differential trace spec
    (precondition re-derived from the normal run)."""
    from ..drivers import simwhole as W
    rng = random.Random(ctx.seed + 77)
    scens = [W.rand_whole(rng) for _ in range(1500)]
    res = W.run_wholes(scens)
    traces, bymap = [], {}
    for j, (sc, (rn, rf)) in enumerate(zip(scens, res)):
        tr, it = whole_to_trace(j + 1, sc, rn, rf)
        traces.append(tr)
        bymap[j + 1] = it
    stats = {'judged': 0, 'agree': 0, 'discarded': {}}
    judge(ctx, traces, bymap, 16, stats)
    ctx.coverage["whole_run_scenarios"] = {"pairs": len(scens), "inside_precondition": stats['judged'], "agree": stats['agree'],
                                           "discarded": stats['discarded']}
    ctx.log("whole-run phase: %s" % ctx.coverage["whole_run_scenarios"])


def run(ctx):
    ctx.assumptions += ["single symbol; candle series start aligned to every timeframe; warm-up a multiple of every timeframe",
                        "precondition decided by TLC on the normal run: <= 1 LIMIT/STOP execution per aligned window of "
                        "the trading timeframe, total_liquidations = 0, the normal run completes"]
    from ..drivers import simequiv as c12_model
    variant = c12_model.model_part(ctx)
    ctx.log("M done: %d states" % ctx.coverage.get("states", 0))
    trace_part(ctx)
    if not ctx.quick:
        whole_phase(ctx)
    bad = c12_model.binding_part(ctx, variant)
    ctx.log("binding done: %d scenarios" % ctx.coverage.get("model_scenarios_replayed_on_code", 0))
    if bad:
        txt = ("SimCore.tla does not describe what a real simulator did on %d scenario(s) inside the antecedent and quantifier of "
               "C12 (first: %s)" % (len(bad), json.dumps(bad[0])[:1200]))
        if ctx.violations:
            ctx.notes.append(txt)         # the differential checks already report the change; the model is merely out of date
        else:
            raise Machinery(txt + " - update the model")


def replay(ctx, rp):
    p = rp["payload"]
    if "item" in p and "whole" in p["item"]:
        from ..drivers import simwhole as W
        R.warm_parent()
        sc = p["item"]["whole"]
        (rn, rf), = W.run_wholes([sc])
        tr, it = whole_to_trace(1, sc, rn, rf)
        stats = {'judged': 0, 'agree': 0, 'discarded': {}}
        judge(ctx, [tr], {1: it}, 1, stats)
        print("replay (whole-run scenario): normal fills %s | fast fills %s; %s" % (rn['fills'], rf['fills'], stats))
    elif "item" in p:
        R.warm_parent()
        it = p["item"]
        (rn, rf), = run_pairs([it])
        stats = {'judged': 0, 'agree': 0, 'discarded': {}}
        judge(ctx, [make_trace(1, it, rn, rf)], {1: it}, 1, stats)
        print("replay: normal %d fills (%s), fast %d fills (%s); %s" % (len(rn['fills']), rn['exc'], len(rf['fills']), rf['exc'], stats))
    else:
        from ..drivers import simequiv as c12_model
        c12_model.replay_scenario(ctx, p)
