"""C16 - reported metrics are consistent with the trades and the equity series.
M: Metrics.tla builds every trade list up to length 4/5 over PnL -2..2 x {long, short}: the incremental folds equal the
   definitions (MetricsDef.tla), the numpy streak computation of metrics.trades refines the run-length definition, the
   identities of the property hold on the definitions.  EquityRatios.tla does the same for balance lists (drawdown fold,
   never positive) and compares the drawdown variant metrics.max_drawdown computes with the standard definition.
R: every exported trade list / balance list is pushed through the real metrics.trades with synthetic ClosedTrade
   objects (fee 0 and fee 1/1024 sessions) and TLC (TraceMetrics.tla) judges every reported value as an exact rational;
   plus random long lists (50..2000 trades) and 366-day balance lists (annual return, Calmar).
T: real research.backtest runs (1-4 days, 1-2 routes in both orders, spot and futures) with the daily sampler wrapped;
   TLC (Equity.tla) checks first sample, sample count, the equity equation at every sampling instant over ALL routes
   and the last sample against the final portfolio."""
import json, random, math
from fractions import Fraction
from .. import tlc, encode
from ..core import Machinery

META = dict(
    category="model_checking",
    technique="TLA+ fold definitions of every count/sum/ratio/streak metric and of the equity ratios in exact rationals "
              "(MetricsDef.tla), model-checked over all trade lists <= 5 and balance lists <= 5 (Metrics.tla, "
              "EquityRatios.tla: implementation-shaped streak / drawdown computations vs. the definitions); every exported "
              "list replayed through the real metrics.trades and judged by TLC (TraceMetrics.tla); daily equity samples of "
              "real backtests validated against the equity equation by TLC (Equity.tla)",
    text="TLC enumerates all trade lists up to length 5 over PnL -2..2 x {long, short} and all short balance lists, checks "
         "the metric identities on the definitions and that jesse's vectorised streak and drawdown computations refine "
         "them; each enumerated list (and long random ones up to 2000 trades, 366-day balance lists) is run through the "
         "real metrics.trades with real ClosedTrade objects and every reported metric is compared, as an exact rational, "
         "with the fold of the recorded inputs: counts, win rate, net/gross sums, percentages, fee, largest/average "
         "win/loss, expectancy, streaks, max drawdown (never positive), Omega, Sharpe and Sortino through their squares, "
         "annual return and Calmar on 365-day lists. The daily equity series of real backtests (spot/futures, 1-2 routes "
         "in both orders) is checked sample by sample against wallet + unrealised PnL / free + reserved quote + base value. "
         "Outside: annual return / Calmar for periods other than 365 days (fractional powers), Serenity index, "
         "ratio_avg_win_loss and holding periods.",
    note="Trusted: TLC, the encoder (rational reconstruction with denominator <= 20000 and a closeness flag; scaled "
         "integers with exactness flags), the recorder wrapper around save_daily_portfolio_balance, the drivers.",
    design_ref="4/C16, 5")

MAXDEN = 20000
KEYS = ["starting_balance", "total", "total_winning_trades", "total_losing_trades", "win_rate", "net_profit", "gross_profit", "gross_loss",
        "net_profit_percentage", "longs_count", "shorts_count", "longs_percentage", "shorts_percentage", "fee",
        "largest_winning_trade", "largest_losing_trade", "average_win", "average_loss", "expectancy", "winning_streak",
        "losing_streak", "current_streak", "max_drawdown", "omega_ratio", "sharpe_ratio", "sortino_ratio", "annual_return",
        "calmar_ratio"]


def enc(x):
    """a reported number as the nearest fraction with denominator <= MAXDEN + closeness flag (encoding, not a verdict)"""
    e = {"nan": False, "inf": 0, "n": 0, "d": 1, "close": False, "sign": 0}
    try:
        xf = float(x)
    except Exception:
        e["nan"] = True
        return e
    if xf != xf:
        e["nan"] = True
        return e
    if xf in (float("inf"), float("-inf")):
        e["inf"] = 1 if xf > 0 else -1
        e["sign"] = e["inf"]
        return e
    e["sign"] = (xf > 0) - (xf < 0)
    f = Fraction(xf)
    g = f.limit_denominator(MAXDEN)
    if abs(g.numerator) > encode.LIM:
        return e
    e["n"], e["d"] = g.numerator, g.denominator
    e["close"] = abs(g - f) <= Fraction(1, 10 ** 9) * max(1, abs(f))
    return e


# ------------------------------------------------------------------ real metrics.trades on synthetic ClosedTrade objects
def _mk_trade(move, typ, qty, hold, ex):
    import numpy as np
    import jesse.helpers as jh
    from jesse.models import ClosedTrade
    from ..session import T0
    t = ClosedTrade()
    t.id = jh.generate_unique_id(); t.exchange = ex; t.symbol = 'BTC-USDT'; t.type = typ
    t.strategy_name = 'x'; t.timeframe = '1m'; t.leverage = 1
    t.opened_at = T0; t.closed_at = T0 + hold * 1000
    entry = 100.0
    exit_ = entry + move if typ == 'long' else entry - move
    (t.buy_orders if typ == 'long' else t.sell_orders).append(np.array([float(qty), entry]))
    (t.sell_orders if typ == 'long' else t.buy_orders).append(np.array([float(qty), exit_]))
    return t


def metrics_batch(item):
    """forked child: one object-level session with the given fee, many metrics.trades calls.
    item = {fee_den (0 = no fee), U, specs: [{trades: [[move, typ, qty]], daily: [ints], short: bool}]}"""
    from ..session import ObjSession, T0
    from jesse.services import metrics
    from jesse.store import store
    fee = 0.0 if not item["fee_den"] else 1.0 / item["fee_den"]
    U = item["U"]
    bal = Fraction(item.get("bal", "1000"))
    s = ObjSession(typ='futures', fee=fee, balance=float(bal))
    store.app.starting_time = T0
    s.exchange.assets[s.exchange.settlement_currency] = 1234.0      # the current balance differs from the starting balance
    out = []
    for sp in item["specs"]:
        store.app.starting_time = sp.get("start_ts", T0)           # the date index of the daily returns starts here
        ts = [_mk_trade(m, ty, q, 60 + 60 * (i % 3), s.ex) for i, (m, ty, q) in enumerate(sp["trades"])]
        ev = []
        for t in ts:
            ev.append({"k": "trade", "pnl": encode.exact_int(t.pnl, 1.0 / U, "pnl"), "typ": str(t.type),
                       "fee": encode.exact_int(t.fee, 1.0 / U, "fee")})
        for x in sp["daily"]:
            ev.append({"k": "bal", "x": int(x)})
        me = {"k": "metrics", "exc": "none", "m": {}, "argsame": True}
        try:
            arg = [float(x) for x in sp["daily"]]
            before = list(arg)
            if sp.get("final", True):
                m = metrics.trades(ts, arg)
            else:
                m = metrics.trades(ts, arg, final=False)          # the way Strategy.metrics calls it
            me["argsame"] = (arg == before and len(arg) == len(before))
            keys = KEYS if ts else ["total", "win_rate", "net_profit_percentage"]
            for k in keys:
                if k not in m:
                    me["exc"] = "missing-key-" + k
                    break
                me["m"][k] = enc(m[k])
            if ts and me["exc"] == "none":
                for k, k2 in (("sharpe_ratio", "sharpe2"), ("sortino_ratio", "sortino2")):
                    v = m[k]
                    try:
                        me["m"][k2] = enc(float(v) ** 2)
                    except OverflowError:
                        me["m"][k2] = enc(float("inf"))
        except Exception as ex:
            me["exc"] = type(ex).__name__
        if me["exc"] != "none":
            me["m"] = {}
        ev.append(me)
        out.append({"hdr": {"U": U, "sn": bal.numerator, "sd": bal.denominator, "short": bool(sp["short"]), "src": sp.get("src", "")}, "ev": ev})
    return out


# starting balances that are not multiples of 0.01 (3-7 decimals, a tiny coin-quoted one); all exact in binary and with
# small denominators so that net profit / starting balance stays inside the rational lattice
# session start dates (UTC ms): 2021-01-01, and leap years: 2020-01-01, 2020-03-01, 2024-01-01, 2024-12-30 (crossing into 2025)
STARTS = [1609459200000, 1577836800000, 1583020800000, 1704067200000, 1735516800000]
BALANCES = ["1000", "1000.125", "0.1234375", "2345.625", "7.03125", "0.375"]


def chunked(specs, fee_den, U, size, balances=("1000",)):
    return [{"fee_den": fee_den, "U": U, "specs": specs[i:i + size], "bal": balances[(i // size) % len(balances)]}
            for i in range(0, len(specs), size)]


def cum_daily(trades, start=1000):
    d = [start]
    for m, ty, q in trades:
        d.append(max(1, d[-1] + int(m * q)))
    return d


# ------------------------------------------------------------------ in-vivo equity runs
def sc(x, flags):
    f = Fraction(float(x)) * 1024
    if f.denominator != 1:
        flags[0] = False
    return int(round(f))


def _proj(acct, pos, active, flags):
    """account projection -> (wallet, pos list, active list) in lattice units"""
    quote = 'USDT'
    if acct['type'] == 'futures':
        wallet = sc(acct['wallet'], flags)
    else:
        wallet = sc(acct['assets'][quote], flags)
    pl = []
    for sym in sorted(pos):
        p = pos[sym]
        qty = p['qty'] or 0.0
        price = p['price'] if p['price'] is not None and p['price'] == p['price'] else 0.0
        entry = p['entry'] if (p['entry'] is not None and p['entry'] == p['entry'] and qty != 0) else 0.0
        tick = Fraction(float(price))
        if tick.denominator != 1:
            raise Machinery("off-lattice mark price %r" % (price,))
        base = acct['assets'].get(sym.split('-')[0], 0.0) if acct['type'] == 'spot' else 0.0
        pl.append({"sym": sym, "qty": sc(qty, flags), "entry": sc(entry, flags), "mark": int(tick) * 1024, "tick": int(tick),
                   "base": sc(base, flags)})
    al = []
    for o in active:
        al.append({"sym": o['sym'], "side": o['side'], "qty": sc(o['qty'], flags), "price": sc(o['price'], flags)})
    return wallet, pl, al


def equity_run(item):
    """forked child: one real research.backtest with the daily sampler wrapped"""
    from .. import session as S
    typ, syms, n, seed = item["typ"], item["syms"], item["n"], item["seed"]
    fee = 0.0 if not item["fee_den"] else 1.0 / item["fee_den"]
    bal = Fraction(item.get("bal", "10000"))
    cfg = S.spot_config(fee=fee, balance=float(bal)) if typ == 'spot' else S.futures_config(fee=fee, lev=item.get("lev", 2), balance=float(bal))
    candles = {s: S.lattice_walk(n, seed * 7 + (13 if s.startswith('ETH') else 0), start=100 + (20 if s.startswith('ETH') else 0),
                                 floor=40, ts0=item.get("ts0", S.T0)) for s in syms}
    pol = dict(item["policy"], spot=(typ == 'spot'), seed=seed)
    if typ == 'spot':
        # one entry fill per position and no exit edits: exits are declared once (re-declaring them while the old sell
        # orders still rest is rejected by the spot account for lack of base - strategy-layer behaviour, not C16's subject)
        pol.update(max_entry_rows=1, p_edit=0.0, p_edit_on_reduced=0.0, no_sl=True, p_liquidate=0.0)
    rec = S.Recorder(account=True).install()
    reads = {"metrics": 0, "daily_balances": 0, "portfolio_value": 0, "errors": 0}

    def observe(strategy, hook, order):
        """a strategy that looks at its own report while running (read-only use of the public properties)"""
        if not item.get("reads"):
            return
        try:
            if hook in ("before", "on_open_position") and strategy.index % 13 == 1:
                _ = strategy.portfolio_value
                reads["portfolio_value"] += 1
                _ = list(strategy.daily_balances)
                reads["daily_balances"] += 1
            if (hook == "after" and strategy.index % 97 == 3) or (hook == "on_close_position" and strategy.trades_count % 7 == 0) \
                    or (hook == "update_position" and strategy.index % 211 == 5):
                _ = strategy.metrics
                reads["metrics"] += 1
        except Exception:
            reads["errors"] += 1
    try:
        routes = [{'symbol': s_, 'timeframe': item.get("tf", "1m")} for s_ in syms]
        out = S.run_backtest(pol, cfg, candles, routes=routes, fast=bool(item.get("fast")), observe=observe)
    finally:
        rec.uninstall()
    ex = cfg['exchange']
    ev = []
    for e in rec.ev:
        if e['k'] != 'daily':
            continue
        flags = [True]
        a = e['accts'][ex]
        wallet, pl, al = _proj(a, a['pos'], e['active'], flags)
        ev.append({"k": "daily", "value": sc(e['value'], flags), "wallet": wallet, "pos": pl, "active": al, "exact": flags[0],
                   "t": int(e['t']), "len": int(e['n']), "series": []})
        ev[-1]["exact"] = flags[0]
    res = {"hdr": {"type": typ, "start": int(bal * 1024), "n": n, "syms": list(syms), "seed": seed, "tf": item.get("tf", "1m"),
                   "fast": bool(item.get("fast")), "ts0": int(item.get("ts0", S.T0) // 1000)}, "ev": ev, "exc": out["exc"],
           "ntrades": 0, "reads": reads}
    fin = out.get("final") or {}
    if out["exc"] is None and "accts" in fin:
        flags = [True]
        a = dict(fin["accts"][ex])
        pos = {k[len(ex) + 1:]: v for k, v in fin["pos"].items() if k.startswith(ex + "-")}
        active = [o for o in fin["orders"] if o["status"] == "ACTIVE"]
        wallet, pl, al = _proj(a, pos, active, flags)
        ev.append({"k": "final", "value": 0, "wallet": wallet, "pos": pl, "active": al, "exact": flags[0], "t": 0, "len": len(fin["daily"]),
                   "series": [sc(x, [True]) for x in fin["daily"]]})
        ev[-1].update(implied_days(fin["daily"], (out.get("result") or {}).get("metrics") or {}))
        res["ntrades"] = len(fin.get("trades", []))
        res["mtrace"] = report_trace(fin.get("trades", []), (out.get("result") or {}).get("metrics"), bal)
    return res


def implied_days(daily, m):
    """the number of days the reported annual return / Calmar were annualised over, solved from
    1 + r = (last / first) ** (365 / days)  (an encoding of the reported number; TLC compares it with the number of
    daily returns of the series).  ardef / caldef: the relation determines the days (the equity changed, values finite)."""
    none = {"nan": False, "inf": 0, "n": 0, "d": 1, "close": False, "sign": 0}
    res = {"ardef": False, "ar": dict(none), "caldef": False, "cal": dict(none)}
    try:
        first, last = float(daily[0]), float(daily[-1])
        if len(daily) < 2 or first <= 0 or last <= 0 or abs(last / first - 1) < 1e-6:
            return res
        g = math.log(last / first)
        ar = float(m.get("annual_return", float("nan")))
        if ar != ar or abs(ar) == float("inf") or ar <= -99.999999:
            pass                                                   # the power under- / overflowed: days not recoverable
        elif ar != 0:
            res["ardef"], res["ar"] = True, enc(365 * g / math.log1p(ar / 100))
        else:
            res["ardef"], res["ar"] = True, enc(0.0)               # reports no growth although the equity changed
        cal, dd = float(m.get("calmar_ratio", float("nan"))), float(m.get("max_drawdown", float("nan")))
        if cal == cal and dd == dd and dd < 0 and abs(cal) != float("inf"):
            c = cal * abs(dd) / 100
            if c <= -0.99999999:
                pass
            elif c != 0:
                res["caldef"], res["cal"] = True, enc(365 * g / math.log1p(c))
            else:
                res["caldef"], res["cal"] = True, enc(0.0)
    except Exception:
        pass
    return res


def report_trace(trades, m, bal):
    """result['metrics'] of the run against the closed trades captured from the store (trade metrics only; exact runs only)"""
    if m is None:
        return None
    U = 1024
    ev, tot = [], 0
    for t in trades:
        fp, ff = Fraction(float(t["pnl"])) * U, Fraction(float(t["fee"])) * U
        if fp.denominator != 1 or ff.denominator != 1:
            return None                      # an average entry in thirds: not on the lattice
        tot += abs(int(fp))
        ev.append({"k": "trade", "pnl": int(fp), "typ": str(t["type"]), "fee": int(ff)})
    if tot * 100 * bal.denominator >= 2 * 10 ** 9:
        return None
    me = {"k": "metrics", "exc": "none", "m": {}, "argsame": True}
    keys = KEYS if trades else ["total", "win_rate", "net_profit_percentage"]
    for k in keys:
        if k not in m:
            me["exc"] = "missing-key-" + k
            me["m"] = {}
            break
        me["m"][k] = enc(m[k])
    if trades and me["exc"] == "none":
        me["m"]["sharpe2"] = enc(float("nan"))
        me["m"]["sortino2"] = enc(float("nan"))
    ev.append(me)
    return {"hdr": {"U": U, "sn": bal.numerator, "sd": bal.denominator, "short": False, "src": "in-vivo"}, "ev": ev}


POLICIES = [
    dict(qtys=(1, 2), p_cancel=0.01, entry_offsets=(-1, -2, 0, 0), entry_every=2, long_phase=1, short_phase=0, tp_dist=(15, 30),
         sl_dist=(15, 30), p_edit=0.01, p_liquidate=0.0005, p_edit_on_reduced=0.0),
    dict(qtys=(1,), p_cancel=0.0, entry_offsets=(-6, -8, -10), entry_every=1, long_phase=0, short_phase=0, allow_short=False,
         tp_dist=(20, 40), sl_dist=(20, 40), p_edit=0.0, p_liquidate=0.0, max_entry_rows=2),
    dict(qtys=(1,), p_cancel=0.02, entry_offsets=(-2, -3, -4, 0), entry_every=3, long_phase=1, short_phase=2, tp_dist=(5, 12),
         sl_dist=(6, 12), p_edit=0.02, p_liquidate=0.002),
    dict(qtys=(1, 2), p_cancel=0.0, entry_offsets=(-3, -5, 2, 0), entry_every=2, long_phase=1, short_phase=0, tp_dist=(8, 20),
         sl_dist=(9, 20), p_edit=0.05, p_liquidate=0.001, max_entry_rows=2),
    dict(qtys=(2,), p_cancel=0.05, entry_offsets=(-1, -2, 0, 0), entry_every=5, long_phase=2, short_phase=4, tp_dist=(3, 6),
         sl_dist=(3, 6), p_edit=0.1, p_liquidate=0.01, exits_in='on_open'),
]


def equity_items(ctx, rng):
    items = []
    n_runs = ctx.pick(64, 640)
    k = 0
    while len(items) < n_runs:
        typ = ("futures", "spot")[k % 2]
        routes = [("BTC-USDT",), ("ETH-USDT",), ("BTC-USDT", "ETH-USDT"), ("ETH-USDT", "BTC-USDT")][(k // 2) % 4]
        if len(routes) == 1 and k % 3:
            routes = [("BTC-USDT", "ETH-USDT"), ("ETH-USDT", "BTC-USDT")][k % 2]
        days = 1 + (k // 8) % 4
        extra = rng.choice([0, 1, 2, 7, 100, 1439])
        n = max(2, (days - 1) * 1440 + extra + (1 if days == 1 and extra == 0 else 0))
        if rng.random() < 0.25:
            n = days * 1440 + rng.choice([0, 1])        # exactly on / just after a day boundary
        tf = "5m" if k % 5 == 4 else "1m"
        if tf == "5m":
            n = max(5, n - n % 5)
        items.append({"typ": typ, "syms": list(routes), "n": n, "seed": ctx.seed * 1000 + k, "fee_den": rng.choice([0, 64, 1024]),
                      "policy": POLICIES[k % len(POLICIES)], "lev": rng.choice([1, 2, 4]), "tf": tf, "fast": (k // 3) % 3 == 2,
                      "bal": ["10000", "1250.125", "2345.625", "5000.0625"][(k // 2) % 4], "ts0": STARTS[k % len(STARTS)],
                      "reads": k % 4 != 0})
        k += 1
    return items


# ------------------------------------------------------------------ TLC configs
def met_cfg(maxlen, export):
    inv = ["AggIsFold", "StreakRefinement", "CountIdentity", "SumIdentity", "StreakSanity", "ExpectancyIdentity", "LargestSanity",
           "ExportEdge"]
    return ("SPECIFICATION Spec\nCONSTANTS\n MaxLen = %d\n PnlMax = 2\n Export = %s\n" % (maxlen, "TRUE" if export else "FALSE")
            + "".join("INVARIANT %s\n" % i for i in inv) + "CHECK_DEADLOCK FALSE\n")


def eq_cfg(maxlen, balances, export, invs):
    return ("SPECIFICATION Spec\nCONSTANTS\n MaxLen = %d\n Balances = {%s}\n Export = %s\n" % (
        maxlen, ", ".join(map(str, balances)), "TRUE" if export else "FALSE")
            + "".join("INVARIANT %s\n" % i for i in invs) + "CHECK_DEADLOCK FALSE\n")


def sig_metrics(verdict):
    return "metrics:" + verdict


# ------------------------------------------------------------------ run
def run(ctx):
    from ..session import run_isolated
    # import jesse once in the parent (no session is run here): the forked children inherit the loaded modules
    import jesse.services.metrics, jesse.models, jesse.research, jesse.strategies, jesse.modes.backtest_mode  # noqa
    rng = random.Random(ctx.seed)
    ctx.assumptions += ["synthetic ClosedTrade objects: one entry and one exit order each, entry 100, integer price moves, "
                        "quantities 1/2/4, fee rate 0 or 1/1024 (all values exact in binary)",
                        "balance lists are positive integers; return-based ratios only on lists of <= 5 balances over "
                        "{8,10,12} / {6,8,9,12}; annual return and Calmar only on 366-sample lists",
                        "an undefined average (no winners / no losers) may be reported as NaN or 0",
                        "equity runs: integer tick prices, integer quantities, fee rate 0, 1/64 or 1/1024, 1-2 routes on one exchange"]
    samples = []
    # ---------------- M: trade-list model
    mlen = ctx.pick(4, 5)
    r = tlc.run("Metrics", cfg_text=met_cfg(mlen, False), workers=4, coverage=True, timeout=1200)
    ctx.add_tlc(r, "Metrics: all trade lists <= %d over PnL -2..2 x {long, short}" % mlen)
    if r.violation:
        raise Machinery("Metrics.tla violates %s\n%s" % (r.violation["name"], r.violation["trace"][:2000]))
    elen = ctx.pick(3, 4)
    r2 = tlc.run("Metrics", cfg_text=met_cfg(elen, True), workers=1, timeout=1200)
    lists = [[(p, ty, 1) for p, ty in json.loads(e[1])["trades"]] for e in tlc.tagged(r2, "EDGE")]
    if len(lists) != sum(10 ** k for k in range(1, elen + 1)):
        raise Machinery("Metrics export: %d lists" % len(lists))
    # longer lists drawn from the next level of the same tree (random, seeded)
    vals = [(p, ty) for p in range(-2, 3) for ty in ("long", "short")]
    extra = [[rng.choice(vals) + (1,) for _ in range(elen + 1 + (j % 2))] for j in range(ctx.pick(1500, 12000))]
    specs0 = [{"trades": l, "daily": cum_daily(l), "short": False, "src": "M"} for l in [[]] + lists + extra]
    # the same short lists in a session with a fee (no exact break-even trades there, fee sums are non-trivial)
    specs_fee = [{"trades": [(8 * p, ty, q) for (p, ty, _), q in zip(l, [1, 2, 4, 1, 2, 4])], "daily": cum_daily(l), "short": False,
                  "src": "M-fee"} for l in lists[:ctx.pick(700, 11110)]]
    # long random lists, 366-day balance lists
    specs_long = []
    for j in range(ctx.pick(24, 240)):
        n = rng.choice([50, 200, 366, 1000, 2000])
        bias = rng.choice([0, 0, 3, -3])
        l = [(max(-20, min(20, rng.randint(-20, 20) + bias)) if rng.random() > 0.1 else 0, rng.choice(["long", "short"]),
              rng.choice([1, 2, 4])) for _ in range(n)]
        if j % 4 == 0:
            l = [(abs(m) + 1, ty, q) for m, ty, q in l]          # all wins
        if j % 4 == 1 and j % 8 == 1:
            l = [(-abs(m) - 1, ty, q) for m, ty, q in l]         # all losses
        daily = [rng.randint(5000, 9000)]
        for _ in range(365):
            step = rng.choice([0, 0, 1, -1, 5, -7, 40, -35, 300, -280])
            daily.append(min(40000, max(100, daily[-1] + step)))
        if j % 5 == 0:
            daily = sorted(daily)                                  # no drawdown after the start
        if j % 5 == 1:
            daily = sorted(daily, reverse=True)                    # falls from the first day
        specs_long.append({"trades": l, "daily": daily, "short": False, "src": "long"})
    # ---------------- M: balance-list model
    blen = ctx.pick(4, 5)
    sets = [([8, 10, 12], blen), ([6, 8, 9, 12], ctx.pick(3, 4))]
    specs_bal = []
    model_cex = None
    for bset, ml in sets:
        r = tlc.run("EquityRatios", cfg_text=eq_cfg(ml, bset, False, ["FoldIsDefinition", "NeverPositive", "ImplNotDeeper", "RatioSanity"]),
                    workers=2, coverage=True, timeout=900)
        ctx.add_tlc(r, "EquityRatios: all balance lists <= %d over %r" % (ml, bset))
        if r.violation:
            raise Machinery("EquityRatios.tla violates %s\n%s" % (r.violation["name"], r.violation["trace"][:2000]))
        r3 = tlc.run("EquityRatios", cfg_text=eq_cfg(ml, bset, True, ["ExportEdge"]), workers=1, timeout=900)
        for e in tlc.tagged(r3, "EDGE"):
            b = json.loads(e[1])["b"]
            specs_bal.append({"trades": [(1, "long", 1)], "daily": b, "short": True, "src": "M-bal"})
    rc = tlc.run("EquityRatios", cfg_text=eq_cfg(3, [8, 10, 12], False, ["ImplIsStandard"]), workers=1, timeout=300)
    if rc.violation:
        tr = " ".join(rc.violation["trace"].split())
        model_cex = tr[tr.rfind("State"):][:300]
        ctx.notes.append("model level: the drawdown variant of metrics.max_drawdown (running maximum from the second sample) "
                         "differs from the standard definition; TLC's shortest counter-example: " + model_cex)
    ctx.log("M done: %d trade lists, %d balance lists to replay" % (len(specs0) + len(specs_fee) + len(specs_long), len(specs_bal)))
    # ---------------- R: real metrics.trades in forked children
    for j, sp in enumerate(specs0 + specs_fee + specs_long + specs_bal):
        sp["final"] = (j % 3 != 1)
    for j, sp in enumerate(specs_long + specs_bal + specs0):
        sp["start_ts"] = STARTS[j % len(STARTS)]
    jobs = chunked(specs0, 0, 1, 200, BALANCES) + chunked(specs_fee, 1024, 1024, 400) + chunked(specs_long, 0, 1, 6) \
        + chunked(specs_bal, 0, 1, 100, BALANCES)
    res = run_isolated(metrics_batch, jobs, procs=16)
    traces = []
    for job, out in zip(jobs, res):
        if isinstance(out, tuple) and out and out[0] == 'EXC':
            raise Machinery("metrics driver failed: %s" % out[1])
        for sp, t in zip(job["specs"], out):
            t["id"] = len(traces) + 1
            t["_spec"] = {"fee_den": job["fee_den"], "U": job["U"], "spec": sp, "bal": job["bal"]}
            traces.append(t)
    payload = {t["id"]: t.pop("_spec") for t in traces}
    # ---------------- T: in-vivo runs (executed here so that their reports are judged together with the synthetic calls)
    items = equity_items(ctx, rng)
    runs = run_isolated(equity_run, items, procs=16)
    n_report = 0
    for it, rr in zip(items, runs):
        if isinstance(rr, dict) and rr.get("mtrace"):
            t = rr["mtrace"]
            t["id"] = len(traces) + 1
            payload[t["id"]] = {"kind": "equity", "item": it}
            traces.append(t)
            n_report += 1
    for want in ("M", "M-fee", "long", "M-bal", "in-vivo"):
        t = next((t for t in traces if t["hdr"]["src"] == want and len(t["ev"]) > 3), None)
        if t is not None:
            samples.append({"kind": "R metrics call (%s)" % want, "inputs": [e for e in t["ev"] if e["k"] != "metrics"][:8],
                            "reported": {k: v for k, v in list(t["ev"][-1]["m"].items())[:8]}})
    verdicts, results = tlc.validate_traces("TraceMetrics", "TraceMetrics.cfg", traces, ctx.scratch, parts=14, timeout=1500)
    bad = skipped = 0
    import collections
    ctx.log("verdict classes: %r" % (collections.Counter(x for v in verdicts.values() for x in (v[1] or ["ok"])).most_common(12),))
    for i, (l, fails, sk) in sorted(verdicts.items()):
        skipped += sk
        t = traces[i - 1]
        if fails:
            bad += 1
        for verdict in fails:
            ctx.violation(sig_metrics(verdict), "metrics call %d (%s, %d trades, %d balances): %s; reported %s" % (
                i, t["hdr"]["src"], sum(1 for e in t["ev"] if e["k"] == "trade"), sum(1 for e in t["ev"] if e["k"] == "bal"), verdict,
                json.dumps({k: v for k, v in t["ev"][-1]["m"].items() if k.split(":")[0] in verdict})[:300]), payload[i])
        pn = [e["pnl"] for e in t["ev"] if e["k"] == "trade"]
        if (len(pn) >= 2 and min(pn) < 0 < max(pn)) or t["hdr"]["src"] == "M-bal":
            ctx.nontrivial.add(("metrics", i))
    ctx.log("R: %d metrics calls judged, %d rejected, %d expected values outside the lattice (not judged)" % (len(traces), bad, skipped))
    # ---------------- T: in-vivo equity
    etraces = []
    nreads = {"metrics": 0, "daily_balances": 0, "portfolio_value": 0, "errors": 0}
    exc_kinds = {}
    excs = 0
    open_samples = 0
    resting_two = 0
    for it, rr in zip(items, runs):
        if isinstance(rr, tuple) and rr and rr[0] == 'EXC':
            raise Machinery("equity driver failed: %s" % rr[1])
        if rr["exc"] is not None:
            exc_kinds[rr["exc"][:60]] = exc_kinds.get(rr["exc"][:60], 0) + 1
            excs += 1                 # a run that ends in a jesse exception is not judged for count / last sample
        tr = {"id": len(etraces) + 1, "hdr": rr["hdr"], "ev": rr["ev"]}
        etraces.append(tr)
        for k_, v_ in rr.get("reads", {}).items():
            nreads[k_] += v_
        n_open = sum(1 for e in rr["ev"] if e["k"] == "daily" and any(p["qty"] for p in e["pos"]))
        open_samples += n_open
        resting_two += sum(1 for e in rr["ev"] if e["k"] == "daily" and len({o["sym"] for o in e["active"] if o["side"] == "buy"}) >= 2)
        if n_open >= 2:
            ctx.nontrivial.add(("equity", tr["id"]))
    if etraces:
        t = max(etraces, key=lambda t: sum(len(e["active"]) + sum(1 for p in e["pos"] if p["qty"]) for e in t["ev"]))
        samples.append({"kind": "T equity run", "hdr": t["hdr"], "events": t["ev"][:3]})
    ev2, res2 = tlc.validate_traces("Equity", "Equity.cfg", etraces, ctx.scratch, parts=8, timeout=900)
    ebad = 0
    for i, (l, verdict) in sorted(ev2.items()):
        if verdict != "ok":
            ebad += 1
            t = etraces[i - 1]
            cls = "%s:%d-route%s" % (t["hdr"]["type"], len(t["hdr"]["syms"]), "s" if len(t["hdr"]["syms"]) > 1 else "")
            ctx.violation("equity:" + verdict, "run %d (%s %r %s%s, %d minutes, seed %d) rejected at event %d: %s; event %s" % (
                i, t["hdr"]["type"], t["hdr"]["syms"], t["hdr"]["tf"], " fast" if t["hdr"]["fast"] else "", t["hdr"]["n"],
                t["hdr"]["seed"], l, verdict, json.dumps(t["ev"][l - 1])[:500]),
                          {"kind": "equity", "item": items[i - 1]})
    ctx.log("exceptions: %r; reads by the strategies while running: %r" % (exc_kinds, nreads))
    ctx.log("T: %d runs (%d ended in an exception), %d samples with an open position, %d with resting buys on two symbols, %d rejected"
            % (len(etraces), excs, open_samples, resting_two, ebad))
    ctx.evaluations = len(traces) + sum(len(t["ev"]) for t in etraces)
    ctx.coverage.update({
        "traces_validated_against_impl": len(traces) + len(etraces),
        "metrics_calls": len(traces), "reports_of_real_backtests_judged": n_report, "metrics_rejected": bad, "expected_values_outside_lattice": skipped,
        "equity_runs": len(etraces), "equity_runs_fast_mode": sum(1 for t in etraces if t["hdr"]["fast"]),
        "session_start_dates_utc_ms": STARTS,
        "equity_runs_5m": sum(1 for t in etraces if t["hdr"]["tf"] == "5m"), "equity_runs_ending_in_exception": excs, "equity_samples": sum(len(t["ev"]) for t in etraces),
        "equity_samples_with_open_position": open_samples, "equity_samples_with_resting_buys_on_two_symbols": resting_two,
        "equity_rejected": ebad,
        "reports_whose_annualisation_days_were_judged": sum(1 for t in etraces for e in t["ev"] if e["k"] == "final" and e.get("ardef")),
        "reports_whose_calmar_days_were_judged": sum(1 for t in etraces for e in t["ev"] if e["k"] == "final" and e.get("caldef")), "strategy_reads_during_runs": nreads, "equity_exception_kinds": exc_kinds, "model_counterexample_max_drawdown": model_cex,
        "trace_events_checked_by_tlc": sum(x.generated for x in results) + sum(x.generated for x in res2),
        "samples": samples,
        "rule": "metrics: one case per trade list / balance list; non-trivial = >= 2 trades with mixed signs or a balance-list "
                "case; equity: one case per run, non-trivial = >= 2 daily samples with an open position",
        "exhaustive": True,
    })


def replay(ctx, rp):
    p = rp["payload"]
    if p.get("kind") == "equity":
        rr = equity_run(p["item"])
        tr = [{"id": 1, "hdr": rr["hdr"], "ev": rr["ev"]}]
        v, _ = tlc.validate_traces("Equity", "Equity.cfg", tr, ctx.scratch, parts=1)
        l, verdict = v[1]
        print("replay verdict:", l, verdict, "exc:", rr["exc"])
        if verdict != "ok":
            ctx.violation("equity:" + verdict, "replay rejected at event %d: %s" % (l, verdict), p)
        if rr.get("mtrace"):
            t = dict(rr["mtrace"], id=1)
            v, _ = tlc.validate_traces("TraceMetrics", "TraceMetrics.cfg", [t], ctx.scratch, parts=1)
            print("replay verdict (report):", v[1][1] or "ok")
            for verdict in v[1][1]:
                ctx.violation(sig_metrics(verdict), "replay: %s" % verdict, p)
        return
    out = metrics_batch({"fee_den": p["fee_den"], "U": p["U"], "specs": [p["spec"]], "bal": p.get("bal", "1000")})
    t = out[0]
    t["id"] = 1
    v, _ = tlc.validate_traces("TraceMetrics", "TraceMetrics.cfg", [t], ctx.scratch, parts=1)
    l, fails, sk = v[1]
    print("replay verdict:", l, fails or "ok")
    for verdict in fails:
        ctx.violation(sig_metrics(verdict), "replay: %s" % verdict, p)
