"""C08 - fills inside one minute follow one continuous price path; the split_candle contract.
M: CandleSplitMC.tla (every candle x price of lattice 6 against the contract, all 13 branches reached) and
   Matching.tla with the path-order properties (PathOrder, ReactionAfterFill, TempFollowsPath).
T: (c) the real split_candle on the complete lattice set plus ranked real-valued cases and the real
   _get_fixed_jumped_candle table, judged by TLC with the contract only (TraceSplit.tla);
   (a) complete scenario families (every ordinal arrangement of O/H/L/C and of the order prices incl. ties, real-valued
   through random monotone maps, reactions scripted into the hooks) against the real _simulate_price_change_effect;
   (b) in-vivo backtests of the normal simulator whose hooks place the reaction orders - all judged by the monitor
   TraceMatching.tla on the canonical path."""
import random, time
from concurrent.futures import ThreadPoolExecutor
from .. import tlc
from ..core import Machinery
from ..drivers import matching as mt
from . import c02

META = dict(
    category="model_checking",
    technique="TLA+ transcription of split_candle checked exhaustively by TLC against its contract on lattice 6 "
              "(CandleSplitMC.tla); the matching loop model (Matching.tla) checked against path-order properties stated "
              "on the canonical price path; the real split_candle / gap normalisation on the complete lattice set and "
              "ranked real-valued cases, complete minute-scenario families and recorded backtests of the normal "
              "simulator validated by TLC (TraceSplit.tla, TraceMatching.tla)",
    text="TLC proves that every branch of split_candle yields, for every candle and every price inside its range on a "
         "lattice that realises every ordinal arrangement of open/high/low/close/price, two valid candles that keep "
         "open, close, high and low and meet at the price, and that the matching loop built on it fills resting orders "
         "in the order the open-low-high-close (open-high-low-close) path reaches them and reaction orders only on the "
         "part of the path after the triggering fill. The real functions are bound to this by calling split_candle on "
         "the same complete set and on ranked real-valued candles, and by executing every minute scenario of the model's "
         "environment (ties, prices on O/H/L/C, reactions from hooks) against the real simulator - TLC judges all of "
         "them with the contract and the path oracle alone.",
    note="Bounded: lattice 6 for the split, lattice 3-5 / <= 3 resting orders / <= 2 reactions for the loop. The "
         "fast simulator is not claimed to follow the intra-minute path (statement: normal simulator). Trusted: TLC, the "
         "rank encoder, the recorder.",
    design_ref="4/C08")

PATH = ['path']


def split_cfg(K):
    return ("SPECIFICATION Spec\nCHECK_DEADLOCK FALSE\nCONSTANT K = %d\nINVARIANT ContractHolds\nINVARIANT NeverNone\n"
            "INVARIANT Continuous\n" % K)


def split_table(ctx):
    t0 = time.time()
    ev, counts, calls = mt.split_table(6, ctx.pick(20000, 100000), ctx.seed)
    B = 2500
    traces = [{'id': i // B + 1, 'hdr': {}, 'ev': ev[i:i + B]} for i in range(0, len(ev), B)]
    verdicts, results = tlc.validate_traces("TraceSplit", "TraceSplit.cfg", traces, ctx.sub("tv-split"), parts=10)
    drift = 0
    for tid, v in sorted(verdicts.items()):
        drift += v[2]
        for clause, l in v[3]:
            j = (tid - 1) * B + l - 1
            ctx.violation(clause, "table case %d: %s; call %r -> %r" % (j, clause, calls[j], ev[j]),
                          {'kind': 'table', 'call': calls[j]})
    counts.update({'cases_judged_by_tlc': sum(v[0] for v in verdicts.values()),
                   'results_differing_from_the_transcription_Split': drift})
    for e in ev:
        ctx.nontrivial.add((e['k'], tuple(e['cd']), e.get('p', e.get('pc'))))
    ctx.evaluations += len(ev)
    ctx.log("split table: %s %.0fs" % (counts, time.time() - t0))
    return counts, ev


def run(ctx):
    ctx.assumptions += ["the canonical path of a minute is taken on the gap-normalised candle (open = previous close), as "
                        "the simulator and the statement's 'rising / falling' wording do",
                        "orders of the scenarios vary in side and type; quantities are 1; the strategy is a stub whose "
                        "hook runs the scripted reaction inside Order.execute()"]
    mt.preimport()
    pool = ThreadPoolExecutor(max_workers=3)
    Km, Nm, Rm = ctx.pick((4, 3, 1), (5, 3, 2))
    props = ["PathOrder", "ReactionAfterFill", "TempFollowsPath", "FinalIsFinal", "SkipBranchesDead", "MarketFilledInMinute",
             "FillAtFirstReach", "TypeOK"]
    jobs = {
        'candle_split_k6': pool.submit(tlc.run, "CandleSplitMC", cfg_text=split_cfg(6), workers=1, coverage=True, timeout=600),
        'matching_path': pool.submit(tlc.run, "Matching", cfg_text=c02.matching_cfg(Km, Nm, Rm, props=props),
                                     workers=ctx.pick(6, 14), coverage=ctx.quick, timeout=ctx.pick(600, 2400), heap="12g"),
    }
    if not ctx.quick:
        jobs['candle_split_k7'] = pool.submit(tlc.run, "CandleSplitMC", cfg_text=split_cfg(7), workers=2, timeout=900)
    samples = []
    # (c) split table
    counts, ev = split_table(ctx)
    samples.append({'kind': 'real split_candle call (dense ranks of the floats of the call)', 'case': ev[400]})
    samples.append({'kind': 'real split_candle call on a real-valued candle', 'case': ev[counts['lattice_cases'] + 3]})
    # (a) scenario families, normal simulator only
    fams = []
    plan = ctx.pick([(3, 2, 1, 2), (4, 2, 1, 1), (3, 3, 0, 1)], [(4, 3, 1, 2), (3, 2, 2, 2), (5, 3, 0, 1)])
    for (K, N, R, F) in plan:
        fam = list(mt.step_family(K, N, R, F))
        doc = {'K': K, 'MaxOrders': N, 'MinOrders': 0, 'MaxReact': R, 'MaxF': F, 'ChunkLen': 1}
        st, traces = c02.run_family(ctx, fam, "step-K%dN%dR%dF%d" % (K, N, R, F), PATH, count_doc=doc, vmode='real')
        fams.append(st)
        if len(samples) < 3:
            j = next((i for i, s in enumerate(fam) if len(s['prices']) >= 2 and s['script']), 0)
            samples.append({'kind': 'scenario executed against the real _simulate_price_change_effect',
                            'scenario': fam[j], 'trace': traces[j]})
    rng = random.Random(ctx.seed + 8)
    big = c02.random_scenarios(rng, ctx.pick(1500, 40000), 5, 3, 2, 3, 'step')
    st, _ = c02.run_family(ctx, big, "sampled-K5", PATH, vmode='mix')
    fams.append(st)
    # (b) in vivo, normal simulator, hooks place the reaction orders
    items = c02.vivo_items(ctx, ctx.pick(48, 1200), PATH, sims=('step',), hooks_bias=True)
    agg, vtr = c02.run_vivo(ctx, items, "in-vivo-step")
    model = {}
    for name, fut in jobs.items():
        r = fut.result()
        ctx.add_tlc(r, name)
        if r.violation:
            raise Machinery("%s: the model violates %s\n%s" % (name, r.violation["name"], r.violation["trace"][:3000]))
    pool.shutdown()
    ctx.coverage.update({
        "traces_validated_against_impl": sum(f['scenarios'] for f in fams) + agg['runs'] + counts['cases_judged_by_tlc'],
        "split_table": counts, "scenario_families": fams, "in_vivo": agg, "samples": samples,
        "rule": "split table: every (candle, price in range) of lattice 6 plus real-valued cases, distinct by the rank "
                "pattern of (o,c,h,l,price). Scenario = (candle, sequence of resting order prices, reaction script), "
                "complete products checked by TLC; non-trivial when >= 2 resting orders lie inside the range or a "
                "reaction is scripted. In-vivo run non-trivial with >= 3 fills and >= 1 cancellation.",
        "exhaustive": True,
    })


def replay(ctx, rp):
    p = rp["payload"]
    if p['kind'] == 'table':
        e = mt.table_call(p['call'])
        print("call:", p['call'], "->", e)
        traces = [{'id': 1, 'hdr': {}, 'ev': [e]}]
        verdicts, _ = tlc.validate_traces("TraceSplit", "TraceSplit.cfg", traces, ctx.scratch, parts=1)
        print("replay verdict:", verdicts[1])
        for clause, l in verdicts[1][3]:
            ctx.violation(clause, "replay: %s" % clause, p)
    else:
        c02.replay(ctx, rp)
