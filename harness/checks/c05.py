"""C05 - order lifecycle: one terminal transition, idempotent execute/cancel, active list, one trade per executed order.
M: the order registry inside Futures.tla and Spot.tla (status guards of Order.execute/cancel, OrdersState.active_storage /
   to_execute, ClosedTrades.add_executed_order/close_trade, Sandbox.cancel_all_orders) with the C05 environment switched
   on (Dups: execute / cancel on ANY order at any time, repeatedly; cancel-all; pending market orders flushed after a
   cancel-all; pruning of the active list) and final orders kept in the state (VIEW ViewFull).
R: every transition of small Dups instances replayed on the real objects, TLC re-applies the effect to the logged
   pre-state (a call on a final order must leave orders, balances, position, margin tables and trade records unchanged).
T: long random histories with duplicate / late calls injected (futures and spot), judged step by step.
Only the lifecycle projection is judged here (Proj = "life"): account arithmetic belongs to C03 / C04."""
import random, json
from .. import tlc
from ..core import Machinery
from ..drivers import acct
from . import c03, c04

PID = "C05"

META = dict(
    category="model_checking",
    technique="TLA+ order registry inside Futures.tla / Spot.tla explored by TLC under an environment that executes and "
              "cancels any order at any time (also final ones), mixes cancel-all with pending market orders and prunes "
              "the active list; every transition replayed on real Order/OrdersState/ClosedTrades objects and every "
              "recorded call re-derived by TLC from the logged pre-state (TraceFutures/TraceSpot, lifecycle projection)",
    text="TLC checks for every interleaving up to the stated depth (<= 4-5 orders, duplicate and late execute/cancel "
         "calls, cancel-all, flush of market orders that were cancelled meanwhile, pruning; spot and futures) that a "
         "final order record never changes, that calls touching only final orders leave wallet/balances, positions, "
         "reserved tables and trade records unchanged, that the raw active list filtered by status is exactly the set "
         "of ACTIVE orders of the symbol, and that every executed order is in exactly one trade (closed trades + the "
         "open trade). Binding: each transition and long random histories with injected duplicate calls are executed "
         "on the real objects with a snapshot after every call (order statuses, store.orders.get_active_orders / "
         "count_active_orders, to_execute, trade.orders of closed and open trades, balances, position, margin tables); "
         "TLC decides each step from the logged pre-state. Bounded; object-level sessions, not whole backtests.",
    note="Trusted: TLC, the encoder, the object-level session, the setattr wrappers of the in-vivo recorder. Duplicate "
         "and late calls are injected at object level; the real backtests contribute every order call the simulators "
         "and the Strategy class make themselves; the policies provoke jesse's own calls on final orders (two MARKET "
         "exits pending together: the flush executes the one that the close cancelled; a MARKET exit submitted in a "
         "position hook during matching: executed by the matching loop and again by the flush). The other call sites "
         "(matching loops, Sandbox.cancel_all_orders, the modification handler) test is_active before they call. "
         "Strategy hooks and trade boundaries (after reset_trade_orders) are observation points for ActiveReported. "
         "Isolated-margin sessions reach the liquidation price: the liquidation order gets a repeated execute() and a late "
         "cancel() injected, and the record of every final order must be unchanged in the state seen before the next call.",
    design_ref="4/C05")


def m_instances(ctx):
    f = dict(syms=["A"], qtys=[1], prices=[8, 12], lev=2, fee=(1, 16), start=30, maxact=3, dups=True, coc=True)
    s = dict(syms=["A"], qtys=[1], prices=[8, 12], fee=(1, 16), start=30, maxact=3, dups=True, coc=False)
    q = [("futures", dict(f, depth=5, maxord=3)), ("spot", dict(s, depth=5, maxord=3)),
         ("spot", dict(s, coc=True, depth=5, maxord=3))]
    t = [("futures", dict(f, depth=6, maxord=3)), ("futures", dict(f, syms=["A", "B"], lev=4, depth=4, maxord=3)),
         ("spot", dict(s, depth=7, maxord=4)), ("spot", dict(s, coc=True, depth=6, maxord=4)),
         ("spot", dict(s, syms=["A", "B"], depth=5, maxord=3))]
    return ctx.pick(q, t)


def r_instances(ctx):
    f = dict(syms=["A"], qtys=[1], prices=[8, 12], lev=2, fee=(1, 16), start=30, maxact=3, dups=True, coc=True)
    s = dict(syms=["A"], qtys=[1], prices=[8, 12], fee=(1, 16), start=30, maxact=3, dups=True, coc=False)
    q = [("futures", dict(f, prices=[8], depth=5, maxord=2)), ("spot", dict(s, coc=True, prices=[8], depth=4, maxord=3))]
    t = [("futures", dict(f, depth=5, maxord=2)), ("futures", dict(f, prices=[8], depth=5, maxord=3)),
         ("spot", dict(s, depth=5, maxord=2)), ("spot", dict(s, coc=True, prices=[8], depth=5, maxord=3))]
    return ctx.pick(q, t)


def run(ctx):
    rng = random.Random(ctx.seed)
    ctx.assumptions += [
        "object-level sessions (real Order / OrdersState / ClosedTrades / Sandbox objects); market orders are created "
        "through the Sandbox driver (so they sit in store.orders.to_execute) and flushed by execute_pending_market_orders",
        "the simulator's duplicate calls are modelled as environment operations (execute/cancel on a final order, flush "
        "after cancel-all); real backtests (policy strategies on lattice candles, cross margin) add their own order calls"]
    samples = []
    invs = {"futures": ["ActiveReported", "ExecutedInExactlyOneTrade", "ReservedBag", "FlatHasNoEntry"],
            "spot": ["ActiveReported", "ExecutedInExactlyOneTrade", "NonNegative", "SumsAreActiveSells"]}
    props = ["FinalIsFinal", "FinalOpsAreNoOps"]
    # ---------------------------------------------------------------- M
    for kind, inst in m_instances(ctx):
        r = tlc.run("Futures" if kind == "futures" else "Spot",
                    cfg_text=acct.model_cfg(kind, inst, view="ViewFull", invariants=invs[kind], properties=props),
                    workers=ctx.pick(4, 16), coverage=ctx.quick, timeout=ctx.pick(600, 1500))
        label = "%s Dups syms=%d coc=%s depth=%d maxord=%d" % (kind, len(inst["syms"]), inst["coc"], inst["depth"], inst["maxord"])
        ctx.add_tlc(r, label)
        ctx.log("M %s: %d generated, %d distinct, %.0fs" % (label, r.generated, r.distinct, r.wall))
        if r.violation:
            ctx.violation("%s model %s %s" % (PID, kind, r.violation["name"]),
                          "%s violates %s\n%s" % (label, r.violation["name"], r.violation["trace"][:4000]),
                          {"kind": kind, "model_violation": r.violation["name"], "inst": inst})
        for a in ("Submit", "Cancel", "Execute", "Flush", "CancelAll", "Prune"):
            if r.coverage and r.coverage.get(a, (0, 0))[1] == 0:
                raise Machinery("vacuity: action %s never taken in %s" % (a, label))
    # ---------------------------------------------------------------- R + T per kind
    total = bad_total = n_r = n_t = n_v = n_vev = 0
    vivo_dups, vivo_obs, liq = {}, [0], [0]
    kinds = {}
    for kind in ("futures", "spot"):
        traces, hists, tid = [], {}, 0
        for k2, inst in r_instances(ctx):
            if k2 != kind:
                continue
            edges, r = acct.export_edges(kind, dict(inst), workers=1, timeout=900, view="ViewFull")
            ctx.log("R %s: %d transitions exported (%d distinct states)" % (kind, len(edges), r.distinct))
            trs = acct.replay_edges(kind, inst, edges, first_id=tid + 1)
            for t, e in zip(trs, edges):
                hists[t["id"]] = e["hist"]
            tid += len(trs)
            traces += trs
            ctx.coverage["exhaustive"] = True
        n_r += len(traces)
        specs = (c03.t_specs if kind == "futures" else c04.t_specs)(ctx, rng, tid + 1, dups=0.3)
        specs = specs[:ctx.pick(80, 1500)]
        ttr = acct.random_histories(kind, specs)
        n_t += len(ttr)
        traces += ttr
        from ..drivers import acct_vivo
        vtr = acct_vivo.run_many(acct_vivo.specs(kind, ctx.pick(6, 100), ctx.seed + 1, first_id=tid + len(ttr) + 1,
                                                   minutes=ctx.pick((60, 90), (60, 90, 120)), multi=True))
        if kind == "futures":
            # isolated-margin sessions that reach the liquidation price: the simulator's own liquidation order, with a
            # repeated execute() and a late cancel() injected right after it became final
            ltr = acct_vivo.run_many(acct_vivo.liquidation_specs(ctx.pick(3, 30), ctx.seed, first_id=tid + len(ttr) + len(vtr) + 1,
                                                                 minutes=ctx.pick((60, 90), (90, 120))))
            liq[0] += sum(t.get("liquidations", 0) for t in ltr)
            vtr += ltr
        n_v += len(vtr)
        n_vev += sum(len(t["ev"]) for t in vtr)
        for t in vtr:
            for k in acct.fill_kinds(kind, t):
                if k.startswith("duplicate"):
                    vivo_dups[k] = vivo_dups.get(k, 0) + 1
            vivo_obs[0] += sum(1 for e in t["ev"] if e["k"] == "obs")
        traces += vtr
        ctx.log("V %s: %d backtests, %d order events" % (kind, len(vtr), sum(len(t["ev"]) for t in vtr)))
        verdicts, results, _ = acct.validate(kind, traces, ctx.sub("v-" + kind), parts_total=ctx.pick(8, 14), proj="life")
        # deviations named after a quirk of Spot.tla are account matters (C04); the lifecycle clauses are what is judged here
        bad, _ = acct.report(ctx, PID, kind, traces, verdicts, "life", "R/T", report_known=False,
                             hist_of=lambda t: hists.get(t["id"]))
        bad_total += bad
        total += len(traces)
        for t in traces:
            for k in acct.fill_kinds(kind, t):
                kinds[k] = kinds.get(k, 0) + 1
            pre = hists.get(t["id"])
            ops = pre or acct.ops_of(t)
            w = [o["op"] for o in ops]
            fk = acct.fill_kinds(kind, t)
            if any(k.startswith("duplicate") for k in fk) or "cancelall" in w or "prune" in w:
                ctx.nontrivial.add(json.dumps([kind, t["hdr"]["FeeDen"], ops], sort_keys=True))
        for t in traces:
            pre = hists.get(t["id"])
            if pre and len(samples) < 4 and len(pre) >= 4 and pre[-1]["op"] in ("exec", "cancel", "flush") and \
                    any(k.startswith("duplicate") for k in acct.fill_kinds(kind, t)) and not any(s.get("k2") == kind for s in samples):
                samples.append({"kind": "R: witness ending in a call on a final order (must be a no-op)", "k2": kind,
                                "hdr": t["hdr"], "ops": pre, "logged_pre": t["init"], "logged_post": t["ev"][-1].get("post")})
        if ttr:
            samples.append({"kind": "T: random %s history with duplicate calls (first 14 operations)" % kind,
                            "hdr": ttr[0]["hdr"], "ops": acct.ops_of(ttr[0])[:14]})
    ctx.evaluations = total
    ctx.coverage.update({
        "traces_validated_against_impl": total, "transitions_replayed": n_r, "random_histories": n_t,
        "in_vivo_backtests": n_v, "in_vivo_order_events": n_vev,
        "in_vivo_calls_on_final_orders_by_jesse_itself_and_injected_on_liquidation_orders": vivo_dups,
        "in_vivo_observation_points_between_calls": vivo_obs[0],
        "in_vivo_liquidation_orders_with_injected_duplicate_calls": liq[0],
        "rejected_traces": bad_total, "fill_effects_and_special_cases_seen": kinds, "samples": samples,
        "rule": "R: one trace per transition of the Dups instances of Futures.tla / Spot.tla (shortest witness, last call "
                "judged from the logged pre-state). T: random histories of 30-60 operations with 30% duplicate / late "
                "calls, cancel-all and pruning. V: real research.backtest runs (both simulators, spot and futures): every "
                "Order.__init__/execute/cancel the simulator and the Strategy class make, judged from the state observed "
                "before the call. A case counts when it contains a call on a final order, a cancel-all or "
                "a prune; distinct by (account type, fee, full operation list).",
    })


def replay(ctx, rp):
    p = rp["payload"]
    kind = p["kind"]
    if "ops" not in p:
        r = tlc.run("Futures" if kind == "futures" else "Spot",
                    cfg_text=acct.model_cfg(kind, p["inst"], view="ViewFull", invariants=["ActiveReported", "ExecutedInExactlyOneTrade"],
                                            properties=["FinalIsFinal", "FinalOpsAreNoOps"]), workers=8, timeout=1500)
        if r.violation:
            ctx.violation("%s model %s %s" % (PID, kind, r.violation["name"]), r.violation["trace"][:3000], p)
        return
    if p.get("vivo"):
        from ..drivers import acct_vivo
        tr = acct_vivo.run_one(tuple([1] + list(p["vivo"])))
    else:
        tr = acct.run_history(kind, p["hdr"], p["ops"])
        tr["id"] = 1
    verdicts, _, _ = acct.validate(kind, [tr], ctx.scratch, parts_total=1, proj="life")
    print("replay verdict:", verdicts[1])
    acct.report(ctx, PID, kind, [tr], verdicts, "life", "replay", report_known=False)
