"""C07 - every timeframe is the exact aggregation of the one-minute candles.
M: CandleStore.tla (the store exactly as the two simulators call it, symbolic aggregation, real timeframe counts,
   named deviations) model-checked by TLC: repaired constants must satisfy ReadsAreAggregations, the as-the-code
   constants reproduce the known counter-examples.
R: every transition of the as-the-code model (shortest witness = a pattern of mid-candle fills per minute) is driven
   through a real research.backtest with a scripted strategy; what the strategy reads is validated by TLC.
T: random in-vivo backtests (policy strategies, lattice candles with gaps, trading + data routes 1m..1D, warm-up
   on/off, lengths that are not multiples of anything, both simulators, 1-2 symbols) log every read of every readable
   (symbol, timeframe) at strategy steps, fill hooks and the end; TraceCandles.tla recomputes each window from the
   stored one-minute rows (exact integers).  The research helpers are driven directly."""
import json, random, hashlib, math
from .. import tlc
from ..core import Machinery

META = dict(
    category="model_checking",
    technique="TLA+ model of the candle store as called by the step and the fast simulator (CandleStore.tla, symbolic "
              "aggregation, named deviations) checked exhaustively by TLC; each model transition replayed as a fill "
              "pattern through real backtests; every candle a strategy reads in real backtests validated by TLC against "
              "the value-level aggregation of the stored one-minute rows (TraceCandles.tla)",
    text="TLC explores every interleaving of minutes, mid-candle fills, chunk inserts and timeframe generation for real "
         "timeframe counts and checks that every read (get_candles / get_current_candle at strategy steps, fill hooks, "
         "end of run) is one row per started window built from exactly the stored minutes of that window. The binding is "
         "two-way: the model's transitions are replayed as scripted fill patterns in real research.backtest runs, and in "
         "random real backtests (both simulators, warm-up on/off, trading+data routes from 1m to 1D, lengths that are "
         "not multiples of the timeframe, price gaps) every row a strategy can read is recomputed by TLC from the stored "
         "1m rows with exact integer candles; stored 1m rows must be the input or its jump normalisation. Helpers "
         "_get_generated_candles / generate_candle_from_one_minutes and the two timeframe tables are judged the same way.",
    note="Bounded (model: <= ~130 minutes, <= 2 fills per minute; runs: <= ~3000 minutes). Starts and warm-up lengths are "
         "aligned to every route timeframe (the property's assumption). Large timeframes are read at sampled steps. "
         "Trusted: TLC, the integer encoder, the recorder (public getters inside strategy hooks).",
    design_ref="4/C07")

B, E = 'BTC-USDT', 'ETH-USDT'
INVS = ["NoReadError", "RowsAreAggregations", "CurrentIsAggregation", "NoSimulatorError", "OneMinuteGapless",
        "FullCandlesAtSteps", "TFStrictlyIncreasing", "AllMinutesStored"]
TFNAME = {1: '1m', 3: '3m', 5: '5m', 15: '15m', 30: '30m', 45: '45m', 60: '1h', 120: '2h', 240: '4h'}


def cfg(inst, q, export):
    tfs, trade, warm, n, fast, chunk = inst           # chunk: what the model derives itself (gcd of all route timeframes)
    t = lambda b: "TRUE" if b else "FALSE"
    q = tuple(q) + (False,) * (4 - len(q))
    off, grid = (q[4], q[5]) if len(q) > 4 else (0, True)
    return ("SPECIFICATION %s\nVIEW View\nCHECK_DEADLOCK FALSE\n" % ("Spec" if export else "SpecM") +
            "CONSTANTS TFs = {%s} TradeTF = %d Warm = %d N = %d MaxFills = 2 Fast = %s\n"
            "QStale = %s QEmptyRead = %s QPartialChunk = %s QChunkTrading = %s EpochOffset = %d QEpochGrid = %s Export = %s\n"
            % (",".join(map(str, tfs)), trade, warm, n, t(fast), t(q[0]), t(q[1]), t(q[2]), t(q[3]), off, t(grid), t(export))
            + ("" if export else "".join("INVARIANT %s\n" % i for i in INVS)))


def instances(ctx):
    # (TFs, TradeTF, Warm, N, Fast, Chunk)
    # data routes coarser than / finer than / not a multiple of the trading timeframe, both simulators
    q = [((3, 5), 1, 0, 11, False, 1), ((3, 5), 1, 15, 11, False, 1), ((3, 15), 3, 15, 20, False, 1),
         ((3, 15), 3, 15, 20, True, 3), ((5, 15), 5, 0, 15, True, 5), ((3, 5), 1, 15, 11, True, 1),
         ((3, 15), 15, 15, 33, True, 3), ((3, 5), 5, 15, 17, True, 1), ((3, 15), 15, 0, 33, False, 1),
         ((5, 15), 15, 0, 35, True, 5)]
    t = q + [((5, 15, 60), 1, 60, 130, False, 1), ((5, 15, 60), 5, 0, 127, False, 1), ((15, 60), 15, 60, 200, True, 15),
             ((15, 45), 15, 45, 100, True, 15), ((30, 45), 30, 90, 100, True, 15), ((3, 5, 15), 1, 0, 47, True, 1),
             ((5, 30), 5, 30, 64, True, 5), ((3, 45), 3, 0, 50, True, 3), ((15, 45, 60), 60, 180, 250, True, 15),
             ((30, 45), 45, 90, 200, True, 15), ((5, 15, 30), 30, 30, 64, True, 5), ((3, 5, 15), 15, 15, 47, False, 1)]
    return ctx.pick(q, t)


# ------------------------------------------------------------------ R: model transitions -> fill patterns
def witness_to_case(inst, hist, cid):
    tfs, trade, warm, n, fast, chunk = inst
    fills, minute, i, k = {}, -1, 0, 0
    minutes = 0
    for a in hist:
        if a == 'm':
            minute += 1
            minutes = minute + 1
        elif a == 'b':
            k = 0
        elif a == 'f':
            m = (i + k) if fast else minute
            fills[m] = fills.get(m, 0) + 1
            minutes = max(minutes, m + 1)
        elif a == 'n':
            k += 1
        elif a == 'c':
            minutes = min(i + chunk, n)
            i += chunk
    minutes = max(minutes, 2)
    trading = [(B, TFNAME[trade])]
    data = [(B, TFNAME[t]) for t in tfs if t != trade]
    case = dict(id=cid, fast=fast, syms=[B], trading=trading, data=data, W=warm, N=minutes, seed=0,
                pattern={str(m): f for m, f in sorted(fills.items())}, src='R')
    case['chunk'] = chunk
    return case


def maximal_witnesses(hists):
    """a run along a witness also exercises every prefix: keep the witnesses that are not a prefix of another one"""
    hs = sorted({tuple(h) for h in hists}, key=len, reverse=True)
    keep, seen = [], set()
    for h in hs:
        if h in seen:
            continue
        keep.append(h)
        for j in range(1, len(h) + 1):
            seen.add(h[:j])
    return keep


# ------------------------------------------------------------------ T: random in-vivo cases
ROUTESETS = [
    ('1m', ['5m', '15m']), ('5m', ['15m']), ('3m', ['15m', '1m']), ('15m', ['1h']), ('1m', ['3m']),
    ('1m', ['30m', '45m']), ('5m', ['1h', '4h']), ('3m', ['45m']), ('1m', ['2h', '3h']), ('15m', ['6h']),
    ('1h', ['4h']), ('30m', ['2h']), ('5m', []), ('45m', ['3h']), ('4h', ['8h', '12h']),
    # data routes FINER than the trading timeframe (divisors), not multiples of it, mixed; two trading timeframes
    ('15m', ['5m']), ('1h', ['45m']), ('1h', ['15m']), ('45m', ['30m']), ('5m', ['3m']), ('30m', ['45m']),
    ('15m', ['5m', '1h']), ('4h', ['1h', '45m']), ('15m', [], '5m'), ('1h', ['15m'], '45m'), ('3m', ['1m']),
]
BIGSETS = [('1m', ['4h', '3D']), ('4h', ['3D']), ('1m', ['1D']), ('2h', ['1D']), ('15m', ['12h', '1D']), ('1h', ['1W'])]


def lcm(xs):
    r = 1
    for x in xs:
        r = r * x // math.gcd(r, x)
    return r


def random_cases(ctx, rng, n_cases, first_id):
    from ..drivers.candle_runs import TFMIN, chunk_of
    cases = []
    for c in range(n_cases):
        rs = ROUTESETS[c % len(ROUTESETS)] if c < 4 * len(ROUTESETS) else rng.choice(ROUTESETS)
        if c % 54 in (16, 43):
            rs = BIGSETS[(c // 27) % ctx.pick(4, len(BIGSETS))]
        ttf, dtfs = rs[0], rs[1]
        other = rs[2] if len(rs) > 2 else None            # a second symbol traded on another timeframe
        two = other is None and (c % 5 == 4) and TFMIN[ttf] <= 15
        trading = [(B, ttf)] + ([(E, ttf)] if two else []) + ([(E, other)] if other else [])
        data = [(B, t) for t in dtfs] + ([(E, dtfs[0])] if two and dtfs else [])
        mins = [TFMIN[ttf]] + [TFMIN[t] for t in dtfs] + ([TFMIN[other]] if other else [])
        L = lcm(mins)
        big = max(mins)
        W = 0 if (c + c // len(ROUTESETS)) % 3 == 0 else L * rng.choice([1, 1, 2])
        if big >= 4320:                                            # 3D / 1W: the session start (2021-01-01 + warm-up) is
            W = big * rng.choice([2, 3])                           # NOT on the epoch grid of these timeframes
            N = TFMIN[ttf] * rng.randint(2, 5) + rng.randint(200, 700)
        elif big >= 720:
            N = big + rng.randint(1, 400)
            W = 0 if c % 2 else L
        elif big >= 120:
            N = rng.randint(big, 3 * big) + rng.randint(0, 7)
        else:
            N = rng.randint(max(8, big // 2), 5 * big + 40)
        if c % 4 == 3:
            N = max(TFMIN[ttf], (N // TFMIN[ttf]) * TFMIN[ttf])       # some lengths ARE multiples of the trading timeframe
        fast = ((c // len(ROUTESETS)) % 2 == 1) if c < 4 * len(ROUTESETS) else (c % 2 == 1)   # every route set in both simulators
        every = 1 if (W + N) <= 400 else max(1, (W + N) // 150)
        if TFMIN[ttf] > 1:
            every = 1
        steps = max(1, (N // min(TFMIN[ttf], TFMIN[other] if other else 10 ** 9)))
        case = dict(id=first_id + c, fast=fast, syms=sorted({s for s, _ in trading + data}), trading=trading, data=data,
                    W=W, N=N, seed=ctx.seed * 100003 + c,
                    policy=dict(seed=ctx.seed * 7919 + c, p_edit_on_reduced=0, entry_every=rng.choice([3, 5, 7]),
                                short_phase=rng.choice([2, 4]), p_cancel=rng.choice([0.1, 0.3, 0.6]),
                                qtys=(1, 2), entry_offsets=rng.choice([(0, -1, -2, 1, 2), (-1, -2, -1, 1), (0, 0, -1, 2)])),
                    gen=dict(gap_p=rng.choice([0.1, 0.3, 0.5]), flat_p=rng.choice([0.05, 0.2]), step=rng.choice([2, 3]),
                             wick=rng.choice([1, 2, 3]), start=200, floor=40),
                    obs_every=every, full_samples=sorted(rng.sample(range(1, steps + 1), min(4, steps))), src='T')
        # the session's configured warm-up (`warm_up_candles`, in candles of the biggest timeframe) differs from the length of
        # the passed warm-up series - mostly SHORTER than what is passed (the passed series is aligned to every timeframe)
        if W:
            shorter = [w for w in range(1, 11) if w * big < W]
            case['warm_cfg'] = rng.choice(shorter) if shorter and rng.random() < 0.75 else rng.randint(1, 10)
        if c % 6 == 2:            # price level ~30000 with gaps of 0.125 / 0.25 (below numpy's default closeness tolerance)
            case['unit'] = 0.125
            case['gen'] = dict(gap_p=rng.choice([0.3, 0.5]), flat_p=0.1, step=2, wick=rng.choice([1, 2]), start=240000, floor=1000)
            case['balance'] = 10 ** 7
        case['chunk'] = chunk_of(case)
        cases.append(case)
    return cases


def route_classes(case):
    """combination classes of trading / data timeframes of a case (coverage + vacuity only)"""
    from ..drivers.candle_runs import TFMIN
    cls = set()
    ttfs = {TFMIN[tf] for _, tf in case['trading']}
    if len(ttfs) > 1:
        cls.add('two-trading-timeframes')
    if not case['data']:
        cls.add('no-data-route')
    for s, d in case['data']:
        t = [TFMIN[tf] for x, tf in case['trading'] if x == s][0]
        d = TFMIN[d]
        cls.add('data-coarser-multiple' if d % t == 0 else ('data-finer-divisor' if t % d == 0 else 'data-not-a-multiple'))
    return cls


CLASSES = ['no-data-route', 'data-coarser-multiple', 'data-finer-divisor', 'data-not-a-multiple', 'two-trading-timeframes']


def closefill_cases(first_id):
    """fills exactly at the close of the LAST minute of a bigger-timeframe window, with a wick beyond the close: the forming
    candle stored at the fill and the completed candle then share close and volume and differ only in low / high"""
    from ..drivers.candle_runs import chunk_of
    cases = []
    sets = [('1m', ['5m']), ('5m', ['15m']), ('1m', ['3m', '15m']), ('3m', ['15m']), ('15m', ['5m'])]
    for ttf, dtfs in sets:
        for fast in (False, True):
            for W in (0, 15):
                # minute 14 and 29 are the last minutes of a 3m / 5m / 15m window at once (entry, then take-profit)
                case = dict(id=first_id + len(cases), fast=fast, syms=[B], trading=[(B, ttf)], data=[(B, t) for t in dtfs],
                            W=W, N=47, seed=0, pattern={"14": 3, "29": 3, "34": 3}, src='T-closefill')
                case['chunk'] = chunk_of(case)
                cases.append(case)
    return cases


def longwarm_cases(first_id, seed):
    """warm-up series LONGER than `warm_up_candles x biggest timeframe` (and aligned to every route timeframe) for route
    sets whose timeframes do not divide each other: every stored / readable row is judged against the windows counted
    from the first PASSED warm-up minute"""
    from ..drivers.candle_runs import TFMIN, chunk_of
    cases = []
    sets = [('3m', ['5m']), ('5m', ['3m']), ('45m', ['1h']), ('1h', ['45m']), ('2h', ['3h']), ('1m', ['3m', '5m']), ('30m', ['45m'])]
    for j, (ttf, dtfs) in enumerate(sets):
        mins = [TFMIN[ttf]] + [TFMIN[t] for t in dtfs]
        L, big = lcm(mins), max(mins)
        for fast in (False, True):
            for wc in ((4, 1) if j % 2 == 0 else (2, 7)):
                W = L * (wc * big // L + 1 + (j % 2))                      # aligned, and longer than wc * big
                N = TFMIN[ttf] * 6 + 7 * (j + 1) % 11 + (0 if fast else 2)
                case = dict(id=first_id + len(cases), fast=fast, syms=[B], trading=[(B, ttf)], data=[(B, t) for t in dtfs],
                            W=W, N=N, seed=seed * 31 + len(cases), warm_cfg=wc,
                            policy=dict(seed=seed + len(cases), p_edit_on_reduced=0, entry_every=3),
                            gen=dict(gap_p=0.3, start=200, floor=40), obs_every=1, full_samples=[1, 2], src='T-longwarm')
                case['chunk'] = chunk_of(case)
                cases.append(case)
    return cases


def _run(case):
    from ..drivers.candle_runs import run_case
    return run_case(case)


def run_cases(ctx, cases):
    from .. import session as S
    if ctx.quick or len(cases) < 40:
        return [_run(c) for c in cases]
    import jesse.research, jesse.modes.backtest_mode, jesse.strategies      # fork after import (no session has run here)
    res = S.run_isolated(_run, cases, procs=14, chunk=8)
    for r in res:
        if isinstance(r, tuple) and r and r[0] == 'EXC':
            raise Machinery("driver failed in a child: %s" % (r[1],))
    return res


def strip(tr):
    return {k: v for k, v in tr.items() if k in ('id', 'hdr', 'ev')}


def sample_of(tr, n_ev=6):
    h = tr['hdr']
    rd = [e for e in tr['ev'] if e['k'] == 'read' and e['T'] > 1 and e['n1'] % e['T'] != 0][:n_ev]
    return dict(kind=tr['case'].get('src'), mode=h['mode'], routes=h['routes'], data=h['data'], W=h['W'], N=h['N'],
                exc=h['exc'], fill_minutes=tr['stats']['fill_minutes'][:20], pattern=tr['case'].get('pattern'),
                first_forming_reads=[{k: e[k] for k in ('at', 'T', 'n', 'rows', 'n1', 'm1tail', 'cur', 'part')} for e in rd])


def judge(ctx, traces, label):
    """TLC validates; every distinct rejected clause of every trace becomes a violation with the clause as signature"""
    byid = {t['id']: t for t in traces}
    verdicts, results = {}, []
    group = ctx.pick(10 ** 9, 700)            # thorough: bounded batches (memory: each TLC holds its JSON batch)
    clean = [strip(t) for t in traces]
    for g in range(0, len(clean), group):
        sub = ctx.sub("g%d" % g)
        v, r = tlc.validate_traces("TraceCandles", "TraceCandles.cfg", clean[g:g + group], sub, parts=ctx.pick(8, 7),
                                   timeout=ctx.pick(600, 2400), heap="3g", max_procs=ctx.pick(8, 7))
        verdicts.update(v)
        results += r
        import shutil
        shutil.rmtree(sub, ignore_errors=True)
    nbad = 0
    seen = {}
    for r in results:
        for b in tlc.tagged(r, "BAD"):
            _, tid, l, v = b
            if v.startswith("machinery:"):
                raise Machinery("trace %s event %s: %s" % (tid, l, v))
            seen.setdefault(v, []).append((tid, l))
    for v, occ in sorted(seen.items()):
        nbad += len(occ)
        occ.sort()
        tid, l = occ[0]
        t = byid[tid]
        for (tid2, l2) in occ[:1]:
            payload = {"case": t['case'], "event": l, "clause": v}
            if t['case'].get('src') == 'helper':
                payload["helper_event"] = t['ev'][l - 1]
            ctx.violation(v, "%s: trace %d (%s, %s routes=%s data=%s W=%d N=%d) event %d: %s; %d trace(s) in this run" % (
                label, tid, t['case'].get('src'), t['hdr']['mode'], t['hdr'].get('routes'), t['hdr'].get('data'), t['hdr']['W'],
                t['hdr']['N'], l, json.dumps(t['ev'][l - 1])[:700], len(occ)), payload)
        for (tid2, l2) in occ[1:]:
            ctx.violations.append({"sig": v, "detail": "trace %d event %d" % (tid2, l2), "payload": None})
    return verdicts, results, seen


def run(ctx):
    from ..drivers import candle_runs as CR
    rng = random.Random(ctx.seed)
    ctx.assumptions += ["session starts and warm-up lengths are aligned to every route timeframe (the property's assumption)",
                        "candles are on an integer lattice (exact in float64); timestamps are minute-aligned",
                        "3D is driven in quick (warm-up of 2-3 windows, reads at a stride), 1W in thorough only, 1M not at all",
                        "large timeframes (>= 12h) are read at sampled strategy steps, at every hook and at the end"]
    # ------------------------------------------------------------ M
    insts = instances(ctx)
    jobs, labels = [], []
    for inst in insts:
        fast = inst[4]
        last = -(-inst[3] // inst[5]) * inst[5]               # end of the last (shorter) chunk
        partial = fast and inst[3] % inst[5] != 0 and any(last % T == 0 for T in inst[0])
        variants = [("repaired", (False, False, False)), ("as-code", (True, True, True))]     # "as-code": as before 75ff7bf2/f8ad570d
        variants += [("stale-only", (True, False, False))]
        if inst[2] == 0 and any(T > inst[1] for T in inst[0]):
            variants += [("emptyread-only", (False, True, False))]
        if partial:
            variants += [("partialchunk-only", (False, False, True))]
        if inst in insts[:2] or inst == insts[3]:
            # a session whose first candle is off the epoch grid of the timeframes (3D / 1W): the code's partial-candle
            # update (epoch grid) breaks the property, sizing it from the store does not
            variants += [("epoch-grid-partial-candle", (False, False, False, False, 1, True)),
                         ("repaired-off-the-epoch-grid", (False, False, False, False, 1, False))]
        if fast and any(T % inst[1] != 0 for T in inst[0]):
            variants += [("chunk-of-trading-routes-only", (False, False, False, True))]
        for name, q in variants:
            jobs.append(dict(module="CandleStore", cfg_text=cfg(inst, q, False), workers=1, coverage=name.startswith("repaired"),
                             timeout=900))
            labels.append((inst, name, q))
    results = tlc.run_parallel(jobs, max_procs=12)
    model_ce = []
    for (inst, name, q), r in zip(labels, results):
        lab = "CandleStore %s TFs=%s trade=%d warm=%d N=%d fast=%s chunk=%d" % ((name,) + inst)
        ctx.add_tlc(r, lab)
        if name.startswith("repaired"):
            if r.violation:
                raise Machinery("CandleStore.tla (repaired constants) violates %s for %r\n%s" % (
                    r.violation["name"], inst, r.violation["trace"][:3000]))
            need = (("AddChunk", "BeginChunk", "FFill", "FEndMinute") if inst[4] else ("AddMinute", "Fill", "EndMatch")) + \
                   ("Terminate",) + (("WarmupStart",) if inst[2] else ("BeginSim",))
            unc = [a for a in need if r.coverage.get(a, (0, 0))[1] == 0]
            if unc:
                raise Machinery("vacuity: actions never taken in %s: %s" % (lab, unc))
        else:
            model_ce.append({"instance": lab, "violated": r.violation["name"] if r.violation else None,
                             "states_until_violation": r.generated})
            if name != "as-code" and not r.violation:
                raise Machinery("deviation %s does not show in the model instance %r" % (name, inst))
    ctx.coverage["model_counterexamples_as_the_code"] = model_ce
    ctx.log("M: %d TLC runs, %d distinct states" % (len(jobs), ctx.coverage["states"]))
    # ------------------------------------------------------------ R
    cases = []
    cid = 0
    n_edges = 0
    rinsts = insts if ctx.quick else [i for i in insts if i[3] <= 64]
    ejobs = [dict(module="CandleStore", cfg_text=cfg(inst, (True, True, True), True), workers=1, timeout=900) for inst in rinsts]
    for inst, r in zip(rinsts, tlc.run_parallel(ejobs, max_procs=12)):
        edges = [json.loads(e[1]) for e in tlc.tagged(r, "EDGE")]
        n_edges += len(edges)
        ws = maximal_witnesses([e["hist"] for e in edges])
        cap = ctx.pick(35, 400)
        if len(ws) > cap:
            ws = rng.sample(ws, cap)
        for h in ws:
            cid += 1
            cases.append(witness_to_case(inst, h, cid))
    n_r = len(cases)
    ctx.log("R: %d model transitions, %d maximal witnesses to replay" % (n_edges, n_r))
    # ------------------------------------------------------------ T
    n_t = ctx.pick(100, 1500)
    cases += random_cases(ctx, rng, n_t, first_id=cid + 1)
    cf = closefill_cases(first_id=cid + n_t + 1000)
    cases += cf
    cases += longwarm_cases(first_id=cid + n_t + 2000, seed=ctx.seed)
    traces = run_cases(ctx, cases)
    ctx.log("drivers: %d real backtests done" % len(traces))
    for t in traces:
        if t.get('enc_err'):
            raise Machinery("case %r left the integer lattice: %s" % (t['case'], t['enc_err']))
    hid = cid + n_t + 5000
    helpers = CR.helper_traces(rng, ctx.pick(40, 600), hid)
    for h in helpers:
        h['case'] = dict(src='helper', id=h['id'])
        h['stats'] = dict(fills=0, steps=0, hookreads=0, formingreads=0, fill_minutes=[], reads=0, skipped=0)
    verdicts, results, seen = judge(ctx, traces + helpers, "C07")
    # ------------------------------------------------------------ coverage
    reads = sum(t['stats']['reads'] for t in traces)
    samples = []
    realized = set()
    for t in traces:
        s = t['stats']
        key = (t['hdr']['mode'], tuple(t['hdr']['routes']), tuple(t['hdr']['data']), t['hdr']['W'] > 0,
               hashlib.sha1(json.dumps(s['fill_minutes']).encode()).hexdigest()[:10])
        if s['formingreads'] > 0 and s['fills'] > 0 and any(e['k'] == 'read' and e['T'] > 1 for e in t['ev']):
            ctx.nontrivial.add(key)
        if t['case'].get('src') == 'R':
            realized.add((t['hdr']['mode'], tuple(t['hdr']['routes']), tuple(s['fill_minutes'])))
    from ..drivers.candle_runs import TFMIN as _TF
    lw = {"step": 0, "fast": 0}
    for t in traces:
        cs = t['case']
        tfm = [_TF[tf] for _, tf in cs.get('trading', []) + cs.get('data', [])]
        if cs.get('warm_cfg') and cs['warm_cfg'] * max(tfm) < cs['W'] and any(a % b and b % a for a in tfm for b in tfm):
            lw[t['hdr']['mode']] += 1
    if min(lw.values()) < 5:
        raise Machinery("vacuity: too few runs whose warm-up is longer than warm_up_candles x biggest timeframe with "
                        "non-dividing timeframes: %r" % (lw,))
    ctx.coverage["runs_with_warmup_longer_than_configured_and_non_dividing_timeframes"] = lw
    nclose = sum(1 for t in traces if t['case'].get('src') == 'T-closefill' and
                 any(m % 15 == 14 for m in t['stats']['fill_minutes']))
    if nclose < len(cf) // 2:
        raise Machinery("vacuity: only %d of %d close-fill scenarios produced a fill in the last minute of a window" % (nclose, len(cf)))
    ctx.coverage["runs_with_a_fill_at_the_close_of_a_windows_last_minute"] = nclose
    for src in ('R', 'T'):
        for t in traces:
            if t['case'].get('src') == src and t['stats']['fills'] > 0 and t['stats']['formingreads'] > 0:
                samples.append(sample_of(t))
                break
    samples.append({"kind": "helper", "events": helpers[1]['ev'][:2]})
    tfs_read = sorted({e['T'] for t in traces for e in t['ev'] if e['k'] == 'read'})
    for need in (4320,):
        if need not in tfs_read:
            raise Machinery("vacuity: no run read a %d-minute timeframe" % need)
    if not any(t['case'].get('unit') == 0.125 and t['hdr']['mode'] == 'fast' and t['hdr']['step'] > 1 for t in traces):
        raise Machinery("vacuity: no fast-mode run (chunk > 1) on the 30000-level series with sub-tolerance gaps")
    rclasses = {m: {c: 0 for c in CLASSES} for m in ('step', 'fast')}
    for t in traces:
        for c in route_classes(t['case']):
            rclasses[t['hdr']['mode']][c] += 1
    for m in rclasses:
        for c, k in rclasses[m].items():
            if k == 0:
                raise Machinery("vacuity: no %s-simulator run with route class %s" % (m, c))
    # coverage only (TLC accepts either form): how gapping minutes were stored, per simulator
    gaps = {"step": [0, 0], "fast": [0, 0]}
    for t in traces:
        for sy in t['hdr']['syms']:
            for kk in range(t['hdr']['W'] + 1, min(len(sy['inp']), len(sy['fin']))):      # trading minutes after the first
                if sy['inp'][kk][1] != sy['inp'][kk - 1][2]:
                    gaps[t['hdr']['mode']][0 if sy['fin'][kk] == sy['inp'][kk] else 1] += 1
    ctx.evaluations = len(traces) + len(helpers)
    ctx.coverage.update({
        "traces_validated_against_impl": len(traces) + len(helpers), "model_transitions": n_edges,
        "witnesses_replayed": n_r, "distinct_realized_fill_patterns_R": len(realized), "random_backtests": n_t,
        "helper_traces": len(helpers), "reads_checked_by_tlc": reads,
        "forming_reads": sum(t['stats']['formingreads'] for t in traces),
        "hook_reads": sum(t['stats']['hookreads'] for t in traces),
        "reads_skipped_off_lattice": sum(t['stats'].get('skipped', 0) for t in traces),
        "mid_candle_fills": sum(t['stats']['fills'] for t in traces),
        "fast_runs": sum(1 for t in traces if t['hdr']['mode'] == 'fast'),
        "runs_with_warmup": sum(1 for t in traces if t['hdr']['W'] > 0),
        "runs_with_length_not_multiple_of_trading_tf": sum(
            1 for t in traces if t['hdr']['N'] % CR.TFMIN[t['hdr']['routes'][0].split(':')[1]] != 0),
        "runs_ending_in_exception": sum(1 for t in traces if t['hdr']['exc'] != 'none'),
        "runaway_runs_aborted": sum(1 for t in traces if t['hdr']['exc'] == 'RunawayRun'),
        "timeframes_read_minutes": tfs_read, "runs_per_simulator_and_route_class": rclasses,
        "gapping_minutes_stored_raw_vs_normalised": {m: {"raw": g[0], "normalised": g[1]} for m, g in gaps.items()}, "rejected_clauses": {k: len(v) for k, v in seen.items()},
        "trace_events_checked_by_tlc": sum(r.generated for r in results), "samples": samples,
        "rule": "R: one backtest per maximal shortest witness of the transitions of CandleStore.tla (as-the-code constants), "
                "scripted fill pattern; T: random policy backtests. A case is non-trivial when a timeframe > 1m was read "
                "while forming and at least one mid-candle fill happened; distinct by (simulator, routes, data routes, "
                "warm-up on/off, set of fill minutes). Route sets cycle through every combination class (no data route, data "
                "coarser multiple, data finer divisor, data not a multiple of the trading timeframe, two trading timeframes) "
                "in both simulators.",
        "exhaustive": False,
    })


def replay(ctx, rp):
    from ..drivers import candle_runs as CR
    case = rp["payload"]["case"]
    if case.get('src') == 'helper':
        tr = CR.rerun_helper_event(rp["payload"]["helper_event"])
        tr['case'] = dict(src='helper', id=1)
        verdicts, results, seen = judge(ctx, [tr], "replay")
        print("replay verdicts:", {k: v[:3] for k, v in seen.items()} or "ok")
        return
    case['trading'] = [tuple(x) for x in case['trading']]
    case['data'] = [tuple(x) for x in case['data']]
    tr = CR.run_case(case)
    verdicts, results, seen = judge(ctx, [tr], "replay")
    print("replay verdicts:", {k: v[:3] for k, v in seen.items()} or "ok")
