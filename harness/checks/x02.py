"""X02 (extra, not in the MANIFEST) - the multi-route event layer behind C06's "each reported to the strategy exactly once":
Strategy._broadcast / on_route_* hooks / on_cancel / shared_vars and the order in which routes are executed per candle.
M: RouteEvents.tla (2-3 routes, both simulators' loops, position events and cancellations as environment) checked by TLC.
T: in-vivo sessions with 2-3 trading routes on different timeframes (futures, one wallet, both simulators) recorded by strategy
   callbacks, judged by the monitor TraceRouteEvents.tla.
T2: the same session in both simulators; TLC decides the precondition (at most one resting fill per chunk in the normal run)
   and compares the two event sequences (TraceRouteEquiv.tla)."""
import math
from functools import reduce
from .. import tlc, session as S
from ..core import Machinery
from ..drivers import strat_runs as D, route_runs as RR

META = dict(
    disabled=True,          # extra check: not registered in the MANIFEST (bin/check X02 works with the same evidence format)
    category="model_checking",
    technique="TLA+ model of the multi-route layer (RouteEvents.tla: _broadcast with skip-self, on_route_* dispatch, _execute_cancel, the "
              "route loops of _step_simulator and _execute_routes, shared_vars) model-checked by TLC; recorded sessions with 2-3 routes "
              "judged by the TLC monitor TraceRouteEvents.tla; paired normal/fast sessions compared by TLC (TraceRouteEquiv.tla)",
    text="TLC checks for all timeframe sets of the instances, both simulators, every interleaving of position events and "
         "cancellations up to the horizon that each event of route A reaches every other route's matching on_route_* hook exactly "
         "once and never A, that exactly the routes on a timeframe boundary run, in router order, and that a route sees the "
         "shared_vars written by the route executed before it. The same operators judge recorded sessions of the real code "
         "(deliveries attributed to the fill / cancellation being processed, argument identity, time seen by the receiver, no "
         "candles of the receiver's own symbol from after the event), and paired sessions must produce the same event sequence "
         "in both simulators up to the first chunk with more than one resting fill.",
    note="Trusted: TLC, the recorder (strategy callbacks, wrappers around Order.*, Strategy._execute_cancel, the matching functions). "
         "Routes trade different symbols (jesse allows one route per symbol); futures, cross margin.",
    design_ref="4/C06 (extension), growth list of section 3")

INSTANCES = [((1, 2, 0), False), ((2, 4, 4), True), ((2, 3, 1), False), ((2, 6, 4), True), ((3, 2, 0), True), ((2, 2, 4), False)]
INV = ["DeliveredOnce", "RouterOrderAtBoundaries", "SharedVarsVisible"]
WIT = ["TwoInOneStep", "SkippedRoute", "CloseBroadcast", "CancelBroadcast"]


def cfg(tf, fast, minutes, invs):
    return ("SPECIFICATION Spec\nCHECK_DEADLOCK FALSE\nCONSTANTS T1 = %d T2 = %d T3 = %d Minutes = %d Fast = %s MaxFills = 2\n"
            % (tf[0], tf[1], tf[2], minutes, "TRUE" if fast else "FALSE") + "".join("INVARIANT %s\n" % i for i in invs))


def sig_of(c):
    if c.startswith("machinery:"):
        raise Machinery("trace out of the recorder's protocol: " + c)
    return c


def judge(ctx, module, traces, label, desc):
    verdicts, results = tlc.validate_traces(module, module + ".cfg", traces, ctx.sub("tv-%s-%s" % (module, label)), parts=ctx.pick(6, 12))
    bad = 0
    for i, (l, vs) in sorted(verdicts.items()):
        bad += 1 if vs else 0
        for ll, c in vs:
            ctx.violation(sig_of(c), "%s %d (%s): clause %s at event %d" % (label, i, desc[i][0], c, ll),
                          {"kind": label, "item": desc[i][1], "clause": c, "module": module})
    ctx.coverage["trace_events_checked_by_tlc"] = ctx.coverage.get("trace_events_checked_by_tlc", 0) + sum(r.generated for r in results)
    return bad, [x for r in results for x in tlc.tagged(r, "STATS")]


def run_pairs(ctx, items):
    res = S.run_isolated(RR.run_item, items, procs=ctx.pick(10, 14), chunk=2)
    pairs, desc = [], {}
    for k in range(0, len(items), 2):
        a, b = res[k], res[k + 1]
        for x in (a, b):
            if isinstance(x, tuple):
                raise Machinery("paired run failed in the driver: %s" % x[1][-1200:])
        pid = k // 2 + 1
        pairs.append({"id": pid, "hdr": {"chunk": reduce(math.gcd, a["hdr"]["tf"]), "tf": a["hdr"]["tf"],
                                         "skip": a["hdr"]["exc"] != "none" or b["hdr"]["exc"] != "none"},
                      "a": RR.project(a), "b": RR.project(b)})
        desc[pid] = ("tfs=%s pseed=%s cseed=%s" % (items[k]["tfs"], items[k]["policy"]["seed"], items[k]["cseed"]), items[k])
    return pairs, desc


def run(ctx):
    ctx.assumptions += ["one trading route per symbol (router rule), 2-3 routes, futures, cross margin, one wallet",
                        "a position event of a route = effect of a fill on its position (sizes before/after as reported by Position)",
                        "two-simulator comparison only inside the precondition decided by TLC on the normal run: at most one resting "
                        "fill per chunk (gcd of the route timeframes), no reaction inside on_route_* hooks"]
    samples = []
    # ---------------------------------------------------------------- M
    minutes = ctx.pick(12, 24)
    rs = tlc.run_parallel([dict(module="RouteEvents", cfg_text=cfg(tf, fast, minutes, INV), workers=1, coverage=True, timeout=900)
                           for tf, fast in INSTANCES], max_procs=6)
    for (tf, fast), r in zip(INSTANCES, rs):
        ctx.add_tlc(r, "RouteEvents timeframes=%s fast=%s minutes=%d" % (tf, fast, minutes))
        if r.violation:
            raise Machinery("RouteEvents.tla violates %s for %s fast=%s\n%s" % (r.violation["name"], tf, fast, r.raw[-2000:]))
        never = [a for a in ("Event", "NextSymbol", "Consider") if r.coverage.get(a, (0, 0))[1] == 0]
        if never:
            raise Machinery("vacuity: actions never taken: %s" % never)
    ws = tlc.run_parallel([dict(module="RouteEvents", cfg_text=cfg((2, 4, 4), True, minutes, ["NotW_" + w]), workers=1, timeout=600) for w in WIT],
                          max_procs=4)
    for w, r in zip(WIT, ws):
        if not r.violation:
            raise Machinery("vacuity: situation W_%s unreachable" % w)
    ctx.coverage["non_vacuity_witnesses"] = WIT
    ctx.log("M: %d instances, %d distinct states" % (len(INSTANCES), ctx.coverage["states"]))
    # ---------------------------------------------------------------- T
    D.warm_parent()
    items = RR.gen_items(ctx.seed, ctx.pick(60, 600), n_steps=ctx.pick(50, 80))
    res = S.run_isolated(RR.run_item, items, procs=ctx.pick(10, 14), chunk=3)
    traces, desc = [], {}
    for it, r in zip(items, res):
        if isinstance(r, tuple):
            raise Machinery("in-vivo run failed in the driver: %s" % r[1][-1200:])
        traces.append(r)
        desc[r["id"]] = ("tfs=%s fast=%s pseed=%s cseed=%s exc=%s" % (it["tfs"], it["fast"], it["policy"]["seed"], it["cseed"], r["hdr"]["exc"][:40]), it)
    bad_t, st = judge(ctx, "TraceRouteEvents", traces, "T", desc)
    for t in traces:
        word = tuple((e["s"], e["n"], e["a"]) for e in t["ev"] if e["k"] == "rhook")[:12]
        if len({w[2] for w in word}) >= 2:
            ctx.nontrivial.add((tuple(t["hdr"]["tf"]), t["hdr"]["fast"], word))
    if traces:
        t0 = traces[0]
        samples.append({"kind": "T: multi-route session (first route events)", "timeframes": t0["hdr"]["tf"], "fast": t0["hdr"]["fast"],
                        "events": [e for e in t0["ev"] if e["k"] in ("fillb", "rhook", "xcb", "oncancel", "xce", "step")][:16]})
    # ---------------------------------------------------------------- T2: both simulators
    pitems = RR.gen_items(ctx.seed + 7, ctx.pick(40, 300), n_steps=ctx.pick(50, 80), pairs=True)
    pairs, pdesc = run_pairs(ctx, pitems)
    bad_p, pst = judge(ctx, "TraceRouteEquiv", pairs, "T2", pdesc)
    if pairs:
        samples.append({"kind": "T2: projected event sequence of a normal run (first events; the fast run must produce the same)",
                        "timeframes": pairs[0]["hdr"]["tf"], "events": pairs[0]["a"][:10]})
    ctx.evaluations = sum(x[3] for x in st) + sum(x[3] for x in pst)
    ctx.coverage.update({
        "traces_validated_against_impl": len(traces) + len(pairs), "sessions": len(traces), "paired_sessions": len(pairs),
        "fills_judged": sum(x[2] for x in st), "deliveries_judged": sum(x[3] for x in st), "cancellations_judged": sum(x[4] for x in st),
        "route_executions_judged": sum(x[5] for x in st), "simulated_times_judged": sum(x[6] for x in st),
        "times_with_two_or_more_routes_due": sum(x[7] for x in st),
        "pair_events_total": sum(x[2] for x in pst), "pair_events_compared_inside_precondition": sum(x[3] for x in pst),
        "pairs_entirely_inside_precondition": sum(x[4] for x in pst), "pair_resting_fills_compared": sum(x[5] for x in pst),
        "pairs_skipped_for_exceptions": sum(x[6] for x in pst),
        "runs_ended_by_jesse_exception": sum(1 for t in traces if t["hdr"]["exc"] != "none"),
        "traces_with_clauses": bad_t + bad_p, "samples": samples, "exhaustive": False,
        "rule": "one case = one recorded multi-route session (or one normal/fast pair); evaluations = on_route_* deliveries judged plus "
                "events compared between the simulators; distinct non-trivial = distinct (timeframes, simulator, first 12 deliveries) "
                "with deliveries from >= 2 different senders",
    })


def replay(ctx, rp):
    p = rp["payload"]
    D.warm_parent()
    if p["module"] == "TraceRouteEquiv":
        it = p["item"]
        pairs, desc = run_pairs(ctx, [dict(it, id=1, fast=False), dict(it, id=2, fast=True)])
        judge(ctx, "TraceRouteEquiv", pairs, "T2", desc)
    else:
        r = RR.run_item(p["item"])
        judge(ctx, "TraceRouteEvents", [r], "T", {r["id"]: ("replay", p["item"])})
