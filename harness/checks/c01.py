"""C01 - backtest decisions never depend on future candles (no look-ahead), both simulators.

M: StepSim.tla / FastSim.tla - the feed loops of both simulators composed with a symbolic candle store; the whole
   series is available to the model (as it is to the code) and every subscript/slice is an explicit read recorded in
   the ghost maxRead; TLC checks the horizon invariants exhaustively and, with one index expression skewed, reports
   the violation (non-vacuity).
T: TwoRun.tla - self-composition.  The real research.backtest is run on a series A and on A[:t] + another tail; the
   two recorded observation sequences are loaded into one TLA+ behaviour; TLC decides that everything observed up to
   the cut coincides, and evaluates the horizon/hindsight consequences of the model on every observation."""
import math, random, json
from .. import tlc, session as S
from ..core import Machinery
from ..drivers import simruns as R

META = dict(
    category="model_checking",
    technique="TLA+ feed-loop models of both simulators with a symbolic candle store and a ghost read horizon "
              "(StepSim.tla, FastSim.tla) checked exhaustively by TLC; 2-run self-composition trace spec (TwoRun.tla): "
              "pairs of real research.backtest runs on a series and on the same prefix with a replaced tail are "
              "loaded into one behaviour and TLC decides prefix equality, the read horizon and the no-hindsight-fill rule",
    text="TLC proves on the index-level models (stand-in and real timeframes, 1-2 symbols, warm-up on/off, 0-2 fills per "
         "minute) that no subscript or slice of either simulator reads the input at or beyond the clock (chunk end in "
         "fast mode) and that nothing readable at a hook or strategy step derives from such an index; seeded index skews "
         "are reported. For the code, TLC compares every observation (hooks, strategy steps, order events; candles of "
         "every route and data route, price, position, balance, margin - exact float texts) of paired real runs up to the "
         "cut over {step, fast} x {spot, futures} x {1, 2 symbols} x {1m..15m} x data routes x warm-up. Bounded: finitely "
         "many random pairs; the policy family of make_policy_strategy; lattice candles.",
    note="Trusted: TLC, the JSON encoder, the recorder wrappers (Order.__init__/execute/cancel + strategy callbacks), "
         "jesse's determinism. Fast mode: cuts on a boundary of the trading timeframe, horizon at chunk granularity.",
    design_ref="4/C01")

STEP_INV = ["Causal", "StoreCausal", "MatchedBeforeDecide", "TypeOK"]
FAST_INV = ["ChunkCausal", "StoreChunkCausal", "HookStoreCausal", "ClockAtStep", "MatchedBeforeDecide", "NeverRaises"]


def tla_set(xs):
    return "{" + ", ".join(str(x) for x in sorted(xs)) + "}"


def step_cfg(tfs, rtf, n, w, nsym, fills, feed=0, gen=0, early=False, inv=STEP_INV):
    return ("SPECIFICATION Spec\nCHECK_DEADLOCK FALSE\nCONSTANTS TFs = %s RouteTF = %d N = %d W = %d NSym = %d MaxFills = %d "
            "FeedSkew = %d GenSkew = %d EarlyRoutes = %s\n" % (tla_set(tfs), rtf, n, w, nsym, fills, feed, gen,
                                                               "TRUE" if early else "FALSE")
            + "".join("INVARIANT %s\n" % i for i in inv))


def fast_cfg(rtfs, rtf, n, w, nsym, fills, chunk=0, gen=0, inv=FAST_INV, partial_raises=False):
    return ("SPECIFICATION Spec\nCHECK_DEADLOCK FALSE\nCONSTANTS RouteTFs = %s RouteTF = %d N = %d W = %d NSym = %d "
            "MaxFills = %d ChunkSkew = %d GenSkew = %d PartialChunkRaises = %s\n" % (
                tla_set(rtfs), rtf, n, w, nsym, fills, chunk, gen, "TRUE" if partial_raises else "FALSE")
            + "".join("INVARIANT %s\n" % i for i in inv))


def model_part(ctx):
    """M: exhaustive horizon check + seeded skews that must be reported"""
    q_step = [({2, 3}, 2, 6, 0, 1, 2), ({2, 3}, 3, 6, 6, 2, 2), ({2, 3}, 1, 6, 0, 2, 1), ({3, 5, 15}, 5, 30, 0, 1, 1)]
    t_step = q_step + [({2, 3}, 2, 12, 6, 2, 2), ({3, 5, 15}, 15, 45, 15, 2, 2), ({5, 15}, 5, 60, 30, 2, 2),
                       ({3, 15}, 3, 45, 0, 2, 2)]
    q_fast = [({2}, 2, 6, 0, 2, 2), ({2}, 2, 5, 0, 1, 2), ({3}, 3, 6, 0, 1, 2), ({2, 4}, 4, 8, 4, 2, 2), ({4, 6}, 4, 12, 0, 1, 2),
              ({1, 3}, 3, 6, 0, 1, 1), ({5, 15}, 5, 30, 0, 1, 1)]
    t_fast = q_fast + [({4, 6}, 6, 24, 12, 2, 2), ({3, 15}, 3, 45, 15, 2, 2), ({5, 15}, 15, 60, 30, 2, 2),
                       ({15}, 15, 60, 0, 2, 2)]
    jobs, labels = [], []
    for c in ctx.pick(q_step, t_step):
        jobs.append(dict(module="StepSim", cfg_text=step_cfg(*c), workers=1, coverage=True, timeout=600))
        labels.append("StepSim TFs=%s route=%d N=%d W=%d syms=%d fills=%d" % ((sorted(c[0]),) + c[1:]))
    for c in ctx.pick(q_fast, t_fast):
        jobs.append(dict(module="FastSim", cfg_text=fast_cfg(*c), workers=1, coverage=True, timeout=600))
        labels.append("FastSim routes=%s trading=%d N=%d W=%d syms=%d fills=%d" % ((sorted(c[0]),) + c[1:]))
    res = tlc.run_parallel(jobs, max_procs=8)
    never = {}
    for r, lab in zip(res, labels):
        ctx.add_tlc(r, lab)
        if r.violation:
            # the models are fixed text transcribed from the unchanged code: a violation is a design-level finding
            raise Machinery("%s violates %s\n%s" % (lab, r.violation["name"], r.violation["trace"][:3000]))
        mod = lab.split()[0]
        for a, (d, g) in r.coverage.items():
            if a[0].isupper() and a not in STEP_INV + FAST_INV + ["Init"]:
                never[(mod, a)] = never.get((mod, a), 0) + g
    dead = sorted("%s.%s" % k for k, v in never.items() if v == 0 and k[1] not in ("Early", "RaiseShortWindow"))
    if dead:
        raise Machinery("actions never taken (vacuous model): %s" % dead)
    # seeded skews: each must be reported by the stated invariant (non-vacuity of the invariants)
    seeded = [
        ("StepSim", step_cfg({2, 3}, 2, 6, 0, 1, 1, feed=1), "Causal", "step: candle i+1 fed instead of i"),
        ("StepSim", step_cfg({2, 3}, 2, 6, 0, 1, 1, gen=1), "Causal", "step: generate slice shifted by one"),
        ("StepSim", step_cfg({2, 3}, 2, 6, 0, 1, 1, early=True), "MatchedBeforeDecide", "step: strategy before matching"),
        ("StepSim", step_cfg({2, 3}, 2, 6, 0, 1, 1, feed=1, inv=["StoreCausal"]), "StoreCausal",
         "step: fed candle i+1 is readable at the step"),
        ("FastSim", fast_cfg({2}, 2, 6, 0, 1, 1, chunk=1), "ChunkCausal", "fast: slice reaches into the next chunk"),
        ("FastSim", fast_cfg({2, 4}, 4, 8, 0, 1, 1, gen=1), "ChunkCausal", "fast: generate slice shifted by one"),
        ("FastSim", fast_cfg({2}, 2, 6, 0, 1, 1, chunk=1, inv=["StoreChunkCausal"]), "StoreChunkCausal",
         "fast: next chunk's candle readable"),
        ("FastSim", fast_cfg({2}, 2, 5, 0, 1, 1, partial_raises=True), "NeverRaises",
         "fast: trailing partial chunk treated as a full one (the defect fixed by f8ad570d)"),
    ]
    res = tlc.run_parallel([dict(module=m, cfg_text=c, workers=1, timeout=300) for m, c, _, _ in seeded], max_procs=8)
    caught = []
    for (m, c, inv, what), r in zip(seeded, res):
        if not r.violation or r.violation["name"] != inv:
            raise Machinery("seeded model fault not reported (%s): expected %s, got %r" % (what, inv, r.violation and r.violation["name"]))
        caught.append(what)
    ctx.coverage["seeded_model_faults_reported"] = caught


# ------------------------------------------------------------------------------------------------ T
def lcm(xs):
    r = 1
    for x in xs:
        r = r * x // math.gcd(r, x)
    return r


def gen_pair(rng, idx, quick):
    mode = ['step', 'fast'][idx % 2]
    typ = ['futures', 'spot'][(idx // 2) % 2]
    nsym = 2 if idx % 5 == 3 else 1
    ttf = ['1m', '3m', '5m', '15m'][(idx // 4) % 4] if idx % 7 else rng.choice(['1m', '3m', '5m', '15m'])
    dt_menu = [[], ['15m'], ['5m', '15m'], ['3m'], ['5m'], []]
    dtfs = [d for d in rng.choice(dt_menu) if d != ttf]
    # a second symbol that is ONLY a data route (never traded), on a timeframe larger than the trading one: the strategy can
    # read its candles, so they belong to the observations (and to the horizon clause)
    dsym = []
    if idx % 6 == 5:
        nsym = 1
        bigger = [t for t in ['3m', '5m', '15m', '30m'] if R.TFM[t] > R.TFM[ttf] and R.TFM[t] % R.TFM[ttf] == 0]
        dsym = [[R.SYMS[1], rng.choice(bigger)]]
    mins = [R.TFM[ttf]] + [R.TFM[d] for d in dtfs] + [R.TFM[t] for _, t in dsym]
    L = lcm(mins)
    warm = 60 if rng.random() < 0.5 else 0
    n = L * rng.randint(max(4, 120 // L), max(6, (200 if quick else 360) // L))
    tt = R.TFM[ttf]
    if mode == 'fast':
        lo, hi = max(1, 20 // tt), max(2, (n - 20) // tt)
        cut = tt * rng.randint(lo, hi)
    else:
        cut = rng.randint(15, n - 15)
        if rng.random() < 0.6:          # on a boundary of the largest timeframe: the window that just closed is read
            cut = max(L, cut - cut % L)
    # minutes without trades: flat zero-volume candles (repeating the previous close) followed by a gap, plus some zero-volume
    # candles of ordinary shape; a share of the cuts falls right after such an empty minute (the first replaced candle is
    # the one that opens with the gap, and the tail always differs from it in its open)
    flats = sorted(set(rng.randrange(2, n - 2) for _ in range(max(2, n // 25))))
    if mode == 'fast':
        flats = sorted(set(flats + [tt * rng.randint(1, max(1, (n - 2) // tt)) - 1 for _ in range(3)]))
        flats = [i for i in flats if 2 <= i < n - 2]
    zerovol = [rng.randrange(0, n) for _ in range(max(1, n // 40))]
    if idx % 5 in (1, 2):
        cand = [i + 1 for i in flats if 10 <= i + 1 <= n - 10 and (mode != 'fast' or (i + 1) % tt == 0)]
        if cand:
            cut = rng.choice(cand)
    seed = rng.randrange(1, 10 ** 6)
    pol = {'seed': seed, 'entry_every': rng.choice([3, 4, 5, 7]), 'long_phase': 1, 'short_phase': rng.choice([2, 3]),
           'exits_in': rng.choice(['go', 'on_open', 'mixed']), 'p_cancel': rng.choice([0.0, 0.3, 1.0]),
           'p_edit': rng.choice([0.0, 0.15, 0.4]), 'p_liquidate': rng.choice([0.0, 0.05]),
           'max_entry_rows': rng.choice([1, 2]), 'max_exit_rows': rng.choice([1, 2]),
           'sl_dist': (2, 6), 'tp_dist': (2, 6), 'spot': typ == 'spot'}
    base = dict(mode=mode, typ=typ, nsym=nsym, ttf=ttf, dtfs=dtfs, dsym=dsym, warm=warm, n=n, seed=seed, policy=pol,
                flats=flats, zerovol=zerovol,
                fee=rng.choice([0.0, 1 / 1024, 0.0006]), lev=rng.choice([1, 2, 5]),
                levmode=rng.choice(['cross', 'cross', 'isolated']), cut=cut, tail_seed=rng.randrange(1, 10 ** 6),
                walk=dict(step=rng.choice([1, 2, 3]), wick=rng.choice([1, 2, 3]), gap_p=rng.choice([0.0, 0.1, 0.3])))
    return base


def chunk_of(item):
    if item['mode'] != 'fast':
        return 1
    g = 0
    for tf in [item['ttf']] + list(item.get('dtfs', [])) + [t for _, t in item.get('dsym', [])]:
        g = math.gcd(g, R.TFM[tf])
    return g


def make_trace(tid, base, ra, rb):
    return {"id": tid,
            "hdr": {"cut": base['cut'], "mode": base['mode'], "chunk": chunk_of(base), "names": R.field_names(base)},
            "a": ra['seq'], "b": rb['seq']}


def judge(ctx, traces, bases, parts):
    verdicts, results = tlc.validate_traces("TwoRun", "TwoRun.cfg", traces, ctx.scratch, parts=parts, timeout=1500)
    for r in results:
        ctx.coverage["trace_states_checked_by_tlc"] = ctx.coverage.get("trace_states_checked_by_tlc", 0) + r.generated
    bad = 0
    for tid, (l, v) in sorted(verdicts.items()):
        if v != "ok":
            bad += 1
            b = bases[tid]
            ctx.violation("%s:%s" % (b['mode'], v),
                          "pair %d (%s %s %d symbol(s) %s data=%s data-only=%s warm=%d cut=%d): %s" % (
                              tid, b['mode'], b['typ'], b['nsym'], b['ttf'], b['dtfs'], b.get('dsym'), b['warm'], b['cut'], v),
                          {"base": b})
    return bad


def run_pairs(ctx, bases):
    items = []
    for b in bases:
        items.append(dict(b, side='A'))
        items.append(dict(b, side='B'))
    res = S.run_isolated(R.run_item, items, procs=16)
    for x in res:
        if isinstance(x, tuple) and x and x[0] == 'EXC':
            raise Machinery("driver failed: %s" % x[1])
    slow = sum(1 for x in res if x['exc'] == 'HarnessTimeout')
    ctx.coverage["runs_timed_out"] = ctx.coverage.get("runs_timed_out", 0) + slow
    if slow > len(res) // 10:
        raise Machinery("%d of %d backtests did not finish within %d s" % (slow, len(res), R.RUN_TIMEOUT))
    return [(res[2 * j], res[2 * j + 1]) for j in range(len(bases))]


def run(ctx):
    ctx.assumptions += ["both runs of a pair are bit-deterministic functions of their arguments (same process image, "
                        "PYTHONHASHSEED=0); candle series start aligned to every timeframe; warm-up length is a multiple "
                        "of every timeframe",
                        "fast mode: cut on a boundary of the trading timeframe; the read horizon is checked at chunk "
                        "granularity (the fast simulator's clock is only advanced at fills and chunk ends)"]
    model_part(ctx)
    ctx.log("M done: %d states" % ctx.coverage.get("states", 0))
    R.warm_parent()
    rng = random.Random(ctx.seed)
    n_pairs = ctx.pick(160, 3000)
    bases = [gen_pair(rng, j, ctx.quick) for j in range(n_pairs)]
    samples, total_bad = [], 0
    batch = ctx.pick(160, 500)
    tid = 0
    n_obs = 0
    for off in range(0, n_pairs, batch):
        bs = bases[off:off + batch]
        pairs = run_pairs(ctx, bs)
        traces, bymap = [], {}
        for b, (ra, rb) in zip(bs, pairs):
            tid += 1
            traces.append(make_trace(tid, b, ra, rb))
            bymap[tid] = b
            n_obs += len(ra['seq']) + len(rb['seq'])
            cut = b['cut']
            before = sum(1 for e in ra['seq'] if e['k'] == 'exec' and e['t'] <= cut)
            after = sum(1 for e in ra['seq'] if e['k'] == 'exec' and e['t'] > cut)
            tails_differ = [e for e in ra['seq'] if e['t'] > cut] != [e for e in rb['seq'] if e['t'] > cut]
            if before >= 1 and after >= 1 and tails_differ:
                ctx.nontrivial.add((b['mode'], b['typ'], b['nsym'], b['ttf'], tuple(b['dtfs']), str(b['dsym']), b['warm'], b['seed'], cut))
            if len(samples) < 2 and before >= 2 and b['mode'] == ('step' if not samples else 'fast'):
                samples.append({"config": {k: b[k] for k in ('mode', 'typ', 'nsym', 'ttf', 'dtfs', 'warm', 'n', 'cut', 'seed',
                                                              'tail_seed', 'fee')},
                                "observations_A": len(ra['seq']), "observations_B": len(rb['seq']),
                                "fills_before_cut": before, "fills_after_cut": after,
                                "first_observations": ra['seq'][:3],
                                "last_common_observation": [e for e in ra['seq'] if e['t'] <= cut][-1:]})
        total_bad += judge(ctx, traces, bymap, parts=16)
        ctx.log("T: %d pairs judged, %d rejected" % (tid, total_bad))
    ctx.evaluations = n_pairs
    cfgs = {(b['mode'], b['typ'], b['nsym'], b['ttf'], tuple(b['dtfs']), str(b['dsym']), b['warm'] > 0) for b in bases}
    ctx.coverage.update({
        "traces_validated_against_impl": n_pairs, "real_backtests_run": 2 * n_pairs, "observations_recorded": n_obs,
        "configurations_covered": len(cfgs), "rejected_pairs": total_bad, "samples": samples,
        "rule": "random (policy, configuration, series, cut, tail) from the seed over {step,fast} x {spot,futures} x {1,2 symbols} "
                "x trading 1m..15m x data routes x warm-up; a pair is non-trivial when run A has >= 1 fill up to the cut and "
                ">= 1 after it and the two runs differ after the cut; distinct by configuration x policy seed x cut",
    })


def replay(ctx, rp):
    b = rp["payload"]["base"]
    R.warm_parent()
    (ra, rb), = run_pairs(ctx, [b])
    tr = make_trace(1, b, ra, rb)
    judge(ctx, [tr], {1: b}, parts=1)
    print("replay: %d / %d observations, violations: %d" % (len(ra['seq']), len(rb['seq']), len(ctx.violations)))
