"""C04 - spot balances equal a cash-account model; no overspending or overselling.
M: Spot.tla checked by TLC twice: as the INTENDED cash account (quirk constants FALSE: every property of C04 must hold
   over every operation sequence) and AS THE CODE IS (one named quirk switched on at a time: TLC returns the shortest
   history that breaks the property, which is then executed on the real objects).
R: every transition of small intended instances with a shortest witness replayed on real Order/Position/SpotExchange
   objects; TraceSpot.tla re-applies the intended effect to the logged pre-state and compares.
T: long random histories on the exact lattice (fee 0, 1/16, 1/64; whole and "everything held" quantities) and on a
   decimal lattice with quantities that are not representable in binary (TraceSpotDec.tla, step relations on scaled
   integers with a derived tolerance)."""
import random, json
from .. import tlc
from ..core import Machinery
from ..drivers import acct

PID = "C04"
KIND = "spot"

META = dict(
    category="model_checking",
    technique="TLA+ model of the spot cash account (Spot.tla: reserve on submit, per-kind stop/limit sell sums, settle "
              "on fill with exchange-side clamping, release on cancel, Position qty in spot mode) explored by TLC over "
              "every operation sequence, as intended and as the code is; every model transition replayed on the real "
              "objects and every recorded step re-derived by TLC from the logged pre-state (TraceSpot.tla, "
              "TraceSpotDec.tla for decimal quantities)",
    text="TLC checks, for every submit/cancel/execute/flush/price history up to the stated depth over buy and sell "
         "MARKET/LIMIT/STOP orders (reduce-only or not, whole quantities and 'everything held', with and without the "
         "strategy layer's cancel-on-close), that the intended cash account keeps quote >= 0, base >= 0, position = base "
         "(no short), stop/limit sums = sum of ACTIVE sell orders of that kind, reserves and releases qty x price "
         "exactly, rejects exactly when a buy exceeds the free quote or a sell plus the resting sells of its kind "
         "exceeds the base held, and conserves value in mark-to-market form. The same module with a quirk constant "
         "switched on is the code as it is; TLC's shortest counter-example is executed on the real objects. Binding: "
         "each transition of small instances and long random histories (exact dyadic lattice and a decimal lattice "
         "with non-representable quantities) are run on real Order/Position/SpotExchange objects and judged by TLC "
         "from the logged pre-state. Bounded; not a proof.",
    note="Trusted: TLC, the integer encoders (exact lattice; decimal traces: scaled integers with a derived per-step "
         "tolerance), the object-level session. A deviation that is exactly a named quirk of Spot.tla is reported under "
         "that name and validation continues from the logged state; a short position ends the trace.",
    design_ref="4/C04")

# start = 32: a buy can spend exactly everything (8 + 24, 16 + 16, 8 + 8 + 16) - the boundary of the rejection rule
BASE = dict(syms=["A"], qtys=[1, 2], prices=[8, 12], fee=(1, 16), start=32, maxact=3, dups=False, coc=False)


def m_instances(ctx):
    q = [dict(BASE, depth=5, maxord=5), dict(BASE, coc=True, depth=5, maxord=5),
         dict(BASE, syms=["A", "B"], qtys=[1], depth=4, maxord=4, maxact=2)]
    t = [dict(BASE, depth=6, maxord=6), dict(BASE, coc=True, depth=6, maxord=6),
         dict(BASE, fee=(0, 1), prices=[8, 10, 12], depth=6, maxord=6),
         dict(BASE, syms=["A", "B"], qtys=[1, 2], depth=5, maxord=5),
         dict(BASE, qtys=[1, 2, 3], coc=True, depth=5, maxord=5, maxact=4)]
    return ctx.pick(q, t)


def asis_instances(ctx):
    # (instance, invariant that carries the counter-example printer)
    return [(dict(BASE, depth=6, maxord=6, qdr=True), "CexSums"), (dict(BASE, depth=6, maxord=6, qflip=True), "CexPosition"),
            (dict(BASE, coc=True, depth=6, maxord=6, qdr=True), "CexSums")]


def r_instances(ctx):
    q = [dict(BASE, depth=4, maxord=4), dict(BASE, coc=True, depth=4, maxord=4, qtys=[2])]
    t = [dict(BASE, depth=5, maxord=5), dict(BASE, coc=True, depth=5, maxord=5),
         dict(BASE, syms=["A", "B"], qtys=[1], fee=(0, 1), depth=4, maxord=4)]
    return ctx.pick(q, t)


def t_specs(ctx, rng, first_id, dups=0.0):
    n = ctx.pick(160, 3000)
    confs = [(fee, coc) for fee in ((0, 1), (1, 16), (1, 64)) for coc in (False, True)]
    specs = []
    for i in range(n):
        fee, coc = confs[i % len(confs)]
        nsym = 1 if (i // len(confs)) % 3 else 2
        syms = ["A", "B"][:nsym]
        hdr = {"syms": syms, "FeeNum": fee[0], "FeeDen": fee[1], "Start": rng.choice([200, 500]),
               "CancelOnClose": coc, "cur0": {s: rng.choice([8, 10, 12]) for s in syms}}
        specs.append((first_id + i, hdr, rng.randrange(10 ** 9), rng.randint(30, 60), dups))
    return specs


def run(ctx):
    rng = random.Random(ctx.seed)
    ctx.assumptions += [
        "object-level sessions: real Order/Position/SpotExchange/OrdersState/ClosedTrades/Sandbox objects; the strategy "
        "stub cancels what rests on a close only in the cancel-on-close configurations",
        "exact lattice: fee in {0, 1/16, 1/64}, base quantities in units of 1/FeeDen, money in 1/FeeDen^2, integer "
        "prices; a buy has a whole quantity, a sell a whole quantity, half or all of what is held",
        "reduce-only is only used on sells against a long position (a reduce-only buy has no meaning in spot)"]
    samples = []
    # ---------------------------------------------------------------- M intended
    for inst in m_instances(ctx):
        r = tlc.run("Spot", cfg_text=acct.model_cfg(KIND, inst), workers=ctx.pick(4, 16), coverage=ctx.quick or inst["depth"] <= 5,
                    timeout=ctx.pick(600, 1500))
        label = "Spot intended syms=%d qtys=%s prices=%s fee=%d/%d coc=%s depth=%d" % (
            len(inst["syms"]), inst["qtys"], inst["prices"], inst["fee"][0], inst["fee"][1], inst["coc"], inst["depth"])
        ctx.add_tlc(r, label)
        ctx.log("M %s: %d generated, %d distinct, %.0fs" % (label, r.generated, r.distinct, r.wall))
        if r.violation:
            raise Machinery("the intended cash account of Spot.tla violates %s on %s\n%s" % (
                r.violation["name"], label, r.violation["trace"][:3000]))
        for a in ("Submit", "Cancel", "Execute", "Flush", "SetPrice"):
            if r.coverage and r.coverage.get(a, (0, 0))[1] == 0:
                raise Machinery("vacuity: action %s never taken in %s" % (a, label))
    # ---------------------------------------------------------------- M as the code is -> counter-examples -> real code
    traces, hists = [], {}
    tid = 0
    cex_seen = {}
    for inst, inv in asis_instances(ctx):
        r = tlc.run("Spot", cfg_text=acct.model_cfg(KIND, inst, invariants=[inv], properties=[]), workers=1, timeout=600)
        quirk = "double-release" if inst.get("qdr") else "flip"
        label = "Spot as-is quirk=%s coc=%s depth=%d" % (quirk, inst["coc"], inst["depth"])
        ctx.add_tlc(r, label)
        cex = [json.loads(c[2]) for c in tlc.tagged(r, "CEX")]
        if not r.violation or not cex:
            raise Machinery("as-is model %s: TLC found no counter-example (%s)" % (label, r.violation))
        c = min(cex, key=lambda x: len(x["hist"]))
        ctx.log("M %s: %s violated after %d operations: %s" % (label, r.violation["name"], len(c["hist"]),
                                                               [o["op"] for o in c["hist"]]))
        tr = acct.run_history(KIND, acct.inst_hdr(KIND, inst, c["cur0"]), c["hist"])
        tid += 1
        tr["id"] = tid
        tr["cex"] = label
        hists[tid] = c["hist"]
        traces.append(tr)
        cex_seen[tid] = label
        samples.append({"kind": "TLC counter-example of the as-is model, executed on the real objects", "model": label,
                        "property": r.violation["name"], "ops": c["hist"]})
    n_cex = len(traces)
    # ---------------------------------------------------------------- R
    for inst in r_instances(ctx):
        edges, r = acct.export_edges(KIND, inst, workers=1, timeout=900)
        ctx.log("R: %d transitions exported (%d distinct states)" % (len(edges), r.distinct))
        trs = acct.replay_edges(KIND, inst, edges, first_id=tid + 1)
        for t, e in zip(trs, edges):
            hists[t["id"]] = e["hist"]
        tid += len(trs)
        traces += trs
        ctx.coverage["exhaustive"] = True
    n_r = len(traces) - n_cex
    # ---------------------------------------------------------------- T exact lattice
    ttr = acct.random_histories(KIND, t_specs(ctx, rng, tid + 1))
    tid += len(ttr)
    traces += ttr
    ctx.log("T: %d random histories, %d events" % (len(ttr), sum(len(t["ev"]) for t in ttr)))
    # ---------------------------------------------------------------- V: real backtests (real Strategy, both simulators)
    from ..drivers import acct_vivo
    vtr = acct_vivo.run_many(acct_vivo.specs(KIND, ctx.pick(6, 120), ctx.seed, first_id=tid + 1, minutes=ctx.pick((60, 90), (60, 90, 120))))
    tid += len(vtr)
    traces += vtr
    ctx.log("V: %d backtests, %d order events" % (len(vtr), sum(len(t["ev"]) for t in vtr)))
    verdicts, results, _ = acct.validate(KIND, traces, ctx.scratch, parts_total=ctx.pick(10, 14), proj="acct")
    bad, named = acct.report(ctx, PID, KIND, traces, verdicts, "acct", "CEX/R/T", hist_of=lambda t: hists.get(t["id"]))
    for i, label in cex_seen.items():
        v = verdicts[i]
        if v[1] == "ok" and not v[2]:
            ctx.notes.append("the code does NOT reproduce the counter-example of %s (quirk repaired in the tree)" % label)
        else:
            ctx.notes.append("counter-example of %s reproduced on the real objects: %s %s" % (label, v[1], list(v[2])))
    # ---------------------------------------------------------------- T decimal lattice
    from ..drivers import acct_dec
    dtr = acct_dec.random_histories(ctx.pick(60, 1200), ctx.seed, first_id=tid + 1)
    dtr += acct_dec.split_histories(ctx.pick(60, 800), ctx.seed, first_id=tid + 1 + len(dtr))   # exact-boundary scenarios
    # many small buys at fee 0.0004 / 0.00075 / 0.001, then a sell of exactly position.qty; position.qty == base bit for bit
    dtr += acct_dec.accumulate_histories(ctx.pick(45, 600), ctx.seed, first_id=tid + 1 + len(dtr))
    dverd, dres = acct_dec.validate(dtr, ctx.scratch)
    dbad = acct_dec.report(ctx, PID, dtr, dverd)
    ctx.log("T decimal: %d histories, %d events, %d rejected" % (len(dtr), sum(len(t["ev"]) for t in dtr), dbad))
    # ---------------------------------------------------------------- evidence
    kinds = {}
    for t in traces:
        for k in acct.fill_kinds(KIND, t):
            kinds[k] = kinds.get(k, 0) + 1
        pre = hists.get(t["id"])
        if acct.nontrivial(KIND, t, pre[:-1] if pre else None):
            ctx.nontrivial.add(json.dumps([t["hdr"]["FeeDen"], t["hdr"]["CancelOnClose"], pre or acct.ops_of(t)], sort_keys=True))
    for t in dtr:
        w = acct.word(t)
        if ("X" in w or "F" in w) and ("C" in w or "!" in w):
            ctx.nontrivial.add(json.dumps(["dec", t["hdr"]["fee_hbp"], t["seed"]]))
    if ttr:
        samples.append({"kind": "T: random history, exact lattice (first 10 operations)", "hdr": ttr[0]["hdr"],
                        "ops": acct.ops_of(ttr[0])[:10]})
    if dtr:
        samples.append({"kind": "T: random history, decimal lattice (first 8 events as logged)", "hdr": dtr[0]["hdr"],
                        "ev": dtr[0]["ev"][:8]})
    ctx.evaluations = len(traces) + len(dtr)
    ctx.coverage.update({
        "traces_validated_against_impl": len(traces) + len(dtr), "counterexamples_replayed": n_cex,
        "transitions_replayed": n_r, "random_histories": len(ttr), "decimal_histories": len(dtr),
        "in_vivo_backtests": len(vtr), "in_vivo_order_events": sum(len(t["ev"]) for t in vtr),
        "trace_events_checked_by_tlc": sum(len(t["ev"]) for t in traces) + sum(len(t["ev"]) for t in dtr),
        "rejected_traces": bad + dbad, "named_quirk_deviations": named,
        "fill_effects_and_special_cases_seen": kinds, "samples": samples,
        "rule": "CEX: shortest counter-example of each as-is configuration. R: one trace per transition of the small "
                "intended Spot.tla instances (shortest witness, last operation judged from the logged pre-state). T: "
                "random histories of 30-60 operations judged from the initial state (exact and decimal lattice). V: real "
                "research.backtest runs (spot policy strategies, both simulators), every order call judged from the state "
                "observed before it. A case "
                "counts when it contains >= 1 fill and >= 1 of {cancel, reduce/close, rejection}; distinct by (fee, "
                "cancel-on-close, full operation list with values) / (fee, seed) for decimal histories.",
    })


def replay(ctx, rp):
    p = rp["payload"]
    if p.get("dec"):
        from ..drivers import acct_dec
        tr = acct_dec.replay(p)
        verd, _ = acct_dec.validate([tr], ctx.scratch)
        print("replay verdict:", verd[tr["id"]])
        acct_dec.report(ctx, PID, [tr], verd)
        return
    if p.get("vivo"):
        from ..drivers import acct_vivo
        tr = acct_vivo.run_one(tuple([1] + list(p["vivo"])))
    else:
        tr = acct.run_history(KIND, p["hdr"], p["ops"])
        tr["id"] = 1
    verdicts, _, _ = acct.validate(KIND, [tr], ctx.scratch, parts_total=1, proj=p.get("proj", "acct"))
    print("replay verdict:", verdicts[1])
    acct.report(ctx, PID, KIND, [tr], verdicts, p.get("proj", "acct"), "replay")
