"""C15 - indicators match their definitions, ranges and orderings (partial: no float numerics, see META.note).
T only: the real functions are run on integer-lattice candles; outputs are logged as integers round(v * 10^k);
TLC (TraceDefs.tla / IndicatorDefs.tla) evaluates the textbook definition in exact integer arithmetic at every
position and judges window values, recurrence steps, values once the seed has decayed, relations between
outputs, the ma selector, ranges, band order, channel enclosure, non-negativity and homogeneity."""
import contextlib, io, math, random
from fractions import Fraction
import numpy as np
from .. import tlc
from ..core import Machinery
from ..drivers import indicators as D

META = dict(
    category="exploration",
    technique="TLA+ definitions of the core indicators in exact integer/rational arithmetic (IndicatorDefs.tla: window "
              "definitions, recurrence steps, contraction-bounded fixed-point recursions, linear/quadratic relations, "
              "ranges and orderings); outputs of the real functions on integer-lattice candles are logged as integers and "
              "judged position by position by TLC (TraceDefs.tla)",
    text="TLC judges recorded outputs against definitions it evaluates itself on the same integer candles: exact rational "
         "window values (SMA, WMA, TRIMA, VWMA, MOM, ROC/ROCP/ROCR/ROCR100, typ/med/avg/wcl price, midpoint/midprice, "
         "Donchian, WILLR, STOCHF/STOCH %K, TRANGE, OBV step, VAR, STDDEV squared, CCI, MFI, AROON) compared by long "
         "division within one logging unit; recurrence steps of EMA, Wilders/RMA/SMMA, ATR, DM, ADX and the MACD signal on "
         "consecutive logged outputs; values of EMA/Wilders/SMMA/ATR/DI once a bound on the start-up seed has contracted "
         "below one unit, RSI and DM from Wilder's seed by a fixed-point recursion with a contraction error bound; MACD = "
         "EMA_f - EMA_s, hist = macd - signal, DEMA/TEMA, Bollinger (band - middle)^2 = dev^2 x variance, Keltner band - "
         "middle = m x ATR, %D = SMA(%K); ma(matype=k) token-equal to the named average; RSI/MFI/STOCH/WILLR/AROON/ADX/DI "
         "ranges, upper >= middle >= lower, Donchian enclosure, non-negative ATR/STDDEV/VAR/TRANGE, homogeneity under x2. "
         "Periods 2..60, all source types, lattice series (random, trend, flat, alternating, monotone, spike) and power-of-two "
         "price scales. Exploration: sampled inputs, no statement about float accuracy beyond one logging unit on these inputs.",
    note="Outside (DESIGN section 5): numeric accuracy in general, indicators needing sqrt/exp/log beyond squares, non-"
         "contracting recursions; the value-after-decay clauses only apply where the seed bound reaches one unit inside the "
         "series (small periods). Positions where the textbook value is undefined (warm-up, zero denominator) are not judged. "
         "Trusted: TLC, the integer logging, the case table in this file (which indicator is compared with which definition).",
    design_ref="4/C15, 5")

PMAX = 400            # lattice price bound (IndicatorDefs' overflow budget)
NANV = D.NAN


# ------------------------------------------------------------------------------------------------ lattice series
def lattice(kind, n, seed, lo=40, hi=PMAX, vol=50):
    """integer candles inside [lo, hi] (reflecting random walk); kind-specific shapes; ints exact in float64"""
    rng = random.Random("c15-%s-%d-%d-%d-%d" % (kind, n, seed, lo, hi))
    c = np.zeros((n, 6))
    p = (lo + hi) // 2 if kind != "monotone" else lo + 1
    wick = 2 if hi - lo > 30 else 1
    for i in range(n):
        o = p
        gap = 0
        if kind == "gapped" and rng.random() < 0.35:
            gap = rng.choice([-1, 1]) * rng.randint(4, 15)          # the whole candle lies beyond the previous close
        elif kind == "staircase":
            down = (i // 40) % 2 == 0
            gap = -3 if down else 3
        if gap:
            o = min(max(p + gap, lo + 4), hi - 4)
        if kind == "flat":
            cl = o
            h = l = o
        elif gap:
            cl = o + (rng.randint(-1, 0) if o < p else rng.randint(0, 1))
            h = max(o, cl) + (0 if o < p else rng.randint(0, 1))
            l = min(o, cl) - (rng.randint(0, 1) if o < p else 0)
        else:
            if kind == "alternating":
                cl = o + (3 if i % 2 == 0 else -3)
            elif kind == "monotone":
                cl = o + (1 if o + 1 + wick <= hi else 0)
            elif kind == "trend":
                d = 1 if (i // 50) % 2 == 0 else -1
                cl = o + d + rng.randint(-1, 1)
            else:
                cl = o + rng.randint(-2, 2) if rng.random() > 0.1 else o
            cl = min(max(cl, lo + wick), hi - wick)
            h = max(o, cl) + rng.randint(0, wick)
            l = min(o, cl) - rng.randint(0, wick)
            if kind == "spike" and rng.random() < 0.04:
                if rng.random() < 0.5:
                    h = min(hi, h + rng.randint(10, 60))
                else:
                    l = max(lo, l - rng.randint(10, 60))
            h = min(h, hi)
            l = max(l, lo)
        v = rng.randint(1, vol)
        c[i] = (D.T0 + i * D.MIN, o, cl, h, l, v)
        p = cl
    return c


def ints(col):
    out = []
    for x in col:
        if x != int(x):
            raise Machinery("non-integer lattice value %r" % (x,))
        out.append(int(x))
    return out


def tok(v, k, mult=1.0):
    """round(v * 10^k / mult); NaN/None/inf as sentinels"""
    if v is None:
        return NANV
    v = float(v)
    if math.isnan(v):
        return NANV
    if math.isinf(v):
        return D.PINF if v > 0 else D.NINF
    q = v / mult * (10 ** k)
    if abs(q) > D.CLAMP:
        return D.CLAMP if q > 0 else -D.CLAMP
    return int(round(q))


def toks(arr, k, mult=1.0):
    return [tok(v, k, mult) for v in arr]


HDR0 = dict(p=1, q=0, src="close", k=4, **{"from": 1}, decp=0, tol=0, lo=0, hi=0, ca=0, cb=0, cc=0, cd=1)


def mk(ind, field, de, out, c_int, k, series, params, **h):
    hdr = dict(HDR0)
    hdr["def"] = de
    hdr["k"] = k
    hdr.update({kk: vv for kk, vv in h.items() if kk not in ("xa", "xb", "xc")})
    t = {"hdr": hdr, "out": out, "xa": h.get("xa", []), "xb": h.get("xb", []), "xc": h.get("xc", [])}
    t.update(c_int)
    n = len(c_int["c"])
    for name in ("out", "xa", "xb", "xc"):
        if t[name] and len(t[name]) != n:
            raise Machinery("%s.%s: series %s has %d entries for %d candles" % (ind, field, name, len(t[name]), n))
    return {"t": t, "ind": ind, "field": field, "series": list(series), "params": params}


def fld(res, field):
    return getattr(res, field) if field else res


# ------------------------------------------------------------------------------------------------ case tables
# window definitions: (definition, indicator, field, k, period kwarg (None = no period), takes source_type, degree)
WINDOW = [
    ("typprice", "typprice", None, 4, None, False, 1), ("medprice", "medprice", None, 4, None, False, 1),
    ("avgprice", "avgprice", None, 4, None, False, 1), ("wclprice", "wclprice", None, 4, None, False, 1),
    ("sma", "sma", None, 4, "period", True, 1), ("wma", "wma", None, 4, "period", True, 1),
    ("trima", "trima", None, 4, "period", True, 1), ("vwma", "vwma", None, 4, "period", True, 1),
    ("mom", "mom", None, 4, "period", True, 1), ("roc", "roc", None, 4, "period", True, 0),
    ("rocp", "rocp", None, 6, "period", True, 0), ("rocr", "rocr", None, 6, "period", True, 0),
    ("rocr100", "rocr100", None, 4, "period", True, 0), ("midpoint", "midpoint", None, 4, "period", True, 1),
    ("midprice", "midprice", None, 4, "period", False, 1),
    ("donchian_upper", "donchian", "upperband", 4, "period", False, 1),
    ("donchian_middle", "donchian", "middleband", 4, "period", False, 1),
    ("donchian_lower", "donchian", "lowerband", 4, "period", False, 1),
    ("willr", "willr", None, 4, "period", False, 0), ("stochf_k", "stochf", "k", 4, "fastk_period", False, 0),
    ("trange", "trange", None, 4, None, False, 1), ("cci", "cci", None, 4, "period", False, 0),
    ("mfi", "mfi", None, 4, "period", False, 0), ("aroon_up", "aroon", "up", 4, "period", False, 0),
    ("aroon_down", "aroon", "down", 4, "period", False, 0), ("obv", "obv", None, 0, None, False, 0),
    ("sma", "bollinger_bands", "middleband", 4, "period", True, 1),
]
# small lattice (prices <= 60): squares must fit 31 bits
SQUARES = [("var", "var", None, 4, "period", True), ("stddev", "stddev", None, 3, "period", True)]
# recursive smoothers: (definition, indicator, field, k, period kwarg, takes source, q (1 = step only after decay))
SMOOTH = [
    ("ema", "ema", None, 4, "period", True, 0), ("wilders", "wilders", None, 4, "period", True, 0),
    ("wilders", "rma", None, 4, "length", True, 0), ("wilders", "smma", None, 4, "period", True, 1),
    ("atr", "atr", None, 4, "period", False, 0), ("rsi", "rsi", None, 2, "period", True, 0),
    ("dm_plus", "dm", "plus", 4, "period", False, 0), ("dm_minus", "dm", "minus", 4, "period", False, 0),
    ("di_plus", "di", "plus", 4, "period", False, 0), ("di_minus", "di", "minus", 4, "period", False, 0),
    ("adx", "adx", None, 4, "period", False, 0),
]
RANGES = [  # (indicator, field, kwargs, lo, hi) in natural units
    ("rsi", None, {"period": 14}, 0, 100), ("rsi", None, {"period": 2}, 0, 100), ("mfi", None, {"period": 14}, 0, 100),
    ("mfi", None, {"period": 3}, 0, 100), ("stoch", "k", {}, 0, 100), ("stoch", "d", {}, 0, 100),
    ("stochf", "k", {}, 0, 100), ("stochf", "d", {}, 0, 100), ("willr", None, {"period": 14}, -100, 0),
    ("willr", None, {"period": 2}, -100, 0), ("aroon", "up", {"period": 14}, 0, 100), ("aroon", "down", {"period": 5}, 0, 100),
    ("adx", None, {"period": 14}, 0, 100), ("adx", None, {"period": 5}, 0, 100), ("di", "plus", {"period": 14}, 0, 100),
    ("di", "minus", {"period": 14}, 0, 100), ("di", "plus", {"period": 5}, 0, 100), ("di", "minus", {"period": 5}, 0, 100),
]
NONNEG = [("atr", None, {"period": 14}), ("atr", None, {"period": 3}), ("stddev", None, {"period": 5}),
          ("stddev", None, {"period": 20}), ("var", None, {"period": 14}), ("trange", None, {}),
          ("natr", None, {"period": 14})]
MA_NAMES = {0: "sma", 1: "ema", 2: "wma", 3: "dema", 4: "tema", 5: "trima", 6: "kama", 9: "fwma", 10: "hma", 11: "linearreg",
            12: "wilders", 13: "sinwma", 14: "supersmoother", 15: "supersmoother_3_pole", 16: "gauss", 17: "high_pass",
            18: "high_pass_2_pole", 20: "jma", 21: "reflex", 22: "trendflex", 23: "smma", 24: "vwma", 25: "pwma", 26: "swma",
            27: "alma", 28: "hwma", 29: "vwap", 30: "nma", 31: "edcf", 32: "mwdx", 33: "maaq", 34: "srwma", 35: "sqwma",
            36: "vpwma", 37: "cwma", 38: "jsa", 39: "epma"}
NO_PERIOD = {28, 29, 32}
HOMOG = ["sma", "ema", "wma", "dema", "tema", "trima", "smma", "wilders", "vwma", "kama", "hma", "zlema", "t3", "midpoint"]
# window definitions whose output must not carry a number before the window is complete (the tree's vwma, stochf and the
# non-sequential donchian deliberately use partial windows there and are not held to this)
NAN_WARMUP = ("sma", "wma", "trima", "mom", "roc", "rocp", "rocr", "rocr100", "midpoint", "midprice", "willr", "cci", "mfi",
              "aroon_up", "aroon_down", "var", "stddev")
ALL_SRC = D.SOURCES
PRICE_SRC = [s for s in ALL_SRC if s != "volume"]


def cint(c):
    return {"o": ints(c[:, 1]), "c": ints(c[:, 2]), "h": ints(c[:, 3]), "l": ints(c[:, 4]), "v": ints(c[:, 5])}


def scaled(c, s, level=0.0):
    """prices -> level + s * price (volumes unchanged).  Powers of two keep every value exact; with a level the lattice
    integers are price offsets in ticks of size s (huge / tiny price levels with small ranges relative to the level)"""
    if s == 1.0 and not level:
        return c
    cc = c.copy()
    cc[:, 1:5] = level + cc[:, 1:5] * s
    return cc


# price levels of property C15's "huge and tiny prices": (level, tick).  Definitions that only depend on price
# DIFFERENCES or their ratios (WILLR, STOCH, CCI, AROON, RSI, ADX/DI/DM, TRANGE/ATR) are evaluated by TLC on the offsets.
LEVELS = [(2.0e6, 0.5), (5.0e9, 1.0), (2.0 ** -22, 2.0 ** -30)]      # the tiny level (2.4e-7 on a 9.3e-10 grid) is dyadic so
                                                                    # that the candles themselves are exact, as on the other levels
LEVEL_WINDOW = ("willr", "stochf_k", "cci", "aroon_up", "aroon_down", "trange")
LEVEL_SMOOTH = ("rsi", "adx", "di_plus", "di_minus", "dm_plus", "dm_minus", "atr")


def job(item):
    """item = (group, [case specs]); returns recorded traces"""
    import jesse.indicators as ta
    group, cases = item
    out, stats = [], {"calls": 0, "skipped": []}
    with contextlib.redirect_stdout(io.StringIO()):
        for cs in cases:
            try:
                out += run_case(ta, cs, stats)
            except Machinery:
                raise
            except Exception as ex:
                stats["skipped"].append("%s: %s: %s" % (cs, type(ex).__name__, str(ex)[:80]))
    return group, out, stats


def call(ta, stats, name, c, **kw):
    stats["calls"] += 1
    return getattr(ta, name)(c, sequential=True, **kw)


def run_case(ta, cs, stats):
    kind = cs["kind"]
    sp = cs["series"]
    lo, hi = cs.get("cap", (40, PMAX))
    c = lattice(sp[0], sp[1], sp[2], lo, hi)
    ci = cint(c)
    scale = cs.get("scale", 1.0)
    level = 0.0
    if cs.get("level"):
        level, scale = cs["level"]
    cs_ = scaled(c, scale, level)
    n = len(c)
    series = list(sp) + [lo, hi, scale] + ([level] if level else [])
    if level:
        c_run = cs_           # relations / ranges computed on the levelled candles as well
    else:
        c_run = c
    res = []
    if kind == "window":
        de, ind, field, k, pk, takes_src, deg = cs["row"]
        kw = {}
        if pk:
            kw[pk] = cs["p"]
        if takes_src:
            kw["source_type"] = cs["src"]
        div = cs.get("nbdev", 1)                 # stddev / var scale linearly with nbdev: logged per unit of nbdev
        if div != 1:
            kw["nbdev"] = div
        o = fld(call(ta, stats, ind, cs_, **kw), field)
        if div != 1:
            o = np.asarray(o, dtype=float) / div
        src = cs["src"] if takes_src else "close"
        mult = scale ** deg if not (takes_src and src == "volume") else 1.0
        k = cs.get("k", k)
        res.append(mk(ind, field or "value", de, toks(o, k, mult), ci, k, series, D_params(kw), p=cs["p"], src=src,
                      q=1 if de in NAN_WARMUP else 0))
    elif kind == "window_short":
        # inputs of 1 .. period+4 candles; position j of the trace = the result on the first j candles, sequential (its last
        # entry) and non-sequential; an exception on a too-short input counts as "no value"
        de, ind, field, k, pk, takes_src, deg = cs["row"]
        kw = {pk: cs["p"]}
        if takes_src:
            kw["source_type"] = cs["src"]
        src = cs["src"] if takes_src else "close"
        m = cs["p"] + 4
        ci = {k2: v[:m] for k2, v in ci.items()}
        for seq in (True, False):
            o = []
            for L in range(1, m + 1):
                stats["calls"] += 1
                try:
                    v = fld(getattr(ta, ind)(c[:L], sequential=seq, **kw), field)
                    v = v[-1] if seq else v
                    o.append(float(v) if v is not None and not isinstance(v, np.ndarray) else float("nan"))
                except Exception:
                    o.append(float("nan"))
            res.append(mk(ind, (field or "value") + (":last-of-sequential" if seq else ":non-sequential"), de, toks(o, k), ci, k,
                          series + ["lengths 1..%d" % m], D_params(kw), p=cs["p"], src=src, q=1 if de in NAN_WARMUP else 0))
    elif kind == "osc":
        # oscillators defined as the difference of two moving averages of the periods THE CALLER PASSED (also fast > slow)
        ind, f, sl, mt, src = cs["ind"], cs["f"], cs["s"], cs["matype"], cs["src"]
        if ind == "vwmacd":
            r = call(ta, stats, "vwmacd", c, fast_period=f, slow_period=sl, signal_period=cs["g"])
            a = call(ta, stats, "vwma", c, period=f)
            b = call(ta, stats, "vwma", c, period=sl)
            kw = dict(fast_period=f, slow_period=sl, signal_period=cs["g"])
            m4, s4, h4 = toks(r.macd, 4), toks(r.signal, 4), toks(r.hist, 4)
            res.append(mk("vwmacd", "macd", "lin", m4, ci, 4, series, D_params(kw), xa=toks(a, 4), xb=toks(b, 4), ca=1, cb=-1, cd=1))
            res.append(mk("vwmacd", "hist", "lin", h4, ci, 4, series, D_params(kw), xa=m4, xb=s4, ca=1, cb=-1, cd=1))
        else:
            kw = dict(fast_period=f, slow_period=sl, matype=mt, source_type=src)
            o = call(ta, stats, ind, c, **kw)
            a = call(ta, stats, MA_NAMES[mt], c, period=f, source_type=src)
            b = call(ta, stats, MA_NAMES[mt], c, period=sl, source_type=src)
            if ind == "ppo":                          # ppo * slow / 100 = fast - slow (the product is formed from logged outputs)
                o = np.asarray(o, dtype=float) * np.asarray(b, dtype=float) / 100.0
            res.append(mk(ind, "value", "lin", toks(o, 4), ci, 4, series, D_params(kw), xa=toks(a, 4), xb=toks(b, 4),
                          ca=1, cb=-1, cd=1, tol=1 if ind == "ppo" else 0))
    elif kind == "stoch":
        p, q, dd = cs["p"], cs["q"], cs["d"]
        c = c_run
        r = call(ta, stats, "stoch", c, fastk_period=p, slowk_period=q, slowd_period=dd)
        kw = {"fastk_period": p, "slowk_period": q, "slowd_period": dd}
        res.append(mk("stoch", "k", "stoch_k", toks(r.k, 4), ci, 4, series, D_params(kw), p=p, q=q))
        res.append(mk("stoch", "d", "sma_of_a", toks(r.d, 4), ci, 4, series, D_params(kw), p=dd, xa=toks(r.k, 4)))
        rf = call(ta, stats, "stochf", c, fastk_period=p, fastd_period=dd)
        res.append(mk("stochf", "d", "sma_of_a", toks(rf.d, 4), ci, 4, series, D_params({"fastk_period": p, "fastd_period": dd}),
                      p=dd, xa=toks(rf.k, 4)))
    elif kind == "smooth":
        de, ind, field, k, pk, takes_src, q = cs["row"]
        kw = {pk: cs["p"]}
        if takes_src:
            kw["source_type"] = cs["src"]
        o = fld(call(ta, stats, ind, cs_, **kw), field)
        src = cs["src"] if takes_src else "close"
        deg = 0 if de in ("rsi", "adx", "di_plus", "di_minus") else 1
        if de == "rsi":
            x = {"close": c[:, 2], "high": c[:, 3], "low": c[:, 4], "open": c[:, 1], "volume": c[:, 5], "hl2": c[:, 3] + c[:, 4],
                 "hlc3": c[:, 3] + c[:, 4] + c[:, 2], "ohlc4": c[:, 1] + c[:, 3] + c[:, 4] + c[:, 2]}[src]
            if len(x) > 1 and np.max(np.abs(np.diff(x))) * cs["p"] * 100000 > 2 ** 31 - 1:
                return []               # outside the 31-bit budget of the RSI recursion: not judged, not logged
        mult = scale ** deg if src != "volume" else 1.0
        res.append(mk(ind, field or "value", de, toks(o, k, mult), ci, k, series, D_params(kw), p=cs["p"], src=src, q=q))
    elif kind == "macd":
        f, s, g, src = cs["f"], cs["s"], cs["g"], cs["src"]
        kw = dict(fast_period=f, slow_period=s, signal_period=g, source_type=src)
        r = call(ta, stats, "macd", c, **kw)
        m, sg, hs = toks(r.macd, 4), toks(r.signal, 4), toks(r.hist, 4)
        res.append(mk("macd", "signal", "ema_of_a", sg, ci, 4, series, D_params(kw), p=g, xa=m))
        res.append(mk("macd", "hist", "lin", hs, ci, 4, series, D_params(kw), xa=m, xb=sg, ca=1, cb=-1, cd=1))
        ef = call(ta, stats, "ema", c, period=f, source_type=src)
        es = call(ta, stats, "ema", c, period=s, source_type=src)
        res.append(mk("macd", "macd", "lin", m, ci, 4, series, D_params(kw), xa=toks(ef, 4), xb=toks(es, 4), ca=1, cb=-1, cd=1,
                      decp=max(f, s), q=1, src=src))
    elif kind == "dema":
        p, src = cs["p"], cs["src"]
        kw = dict(period=p, source_type=src)
        e1 = call(ta, stats, "ema", c, **kw)
        v1 = e1[p - 1:]
        e2 = np.concatenate((np.full(p - 1, np.nan), call(ta, stats, "ema", v1, period=p)))
        v2 = e2[2 * p - 2:]
        e3 = np.concatenate((np.full(2 * p - 2, np.nan), call(ta, stats, "ema", v2, period=p)))
        de_ = call(ta, stats, "dema", c, **kw)
        te_ = call(ta, stats, "tema", c, **kw)
        res.append(mk("dema", "value", "lin", toks(de_, 4), ci, 4, series, D_params(kw), xa=toks(e1, 4), xb=toks(e2, 4),
                      ca=2, cb=-1, cd=1, decp=p, q=2, src=src))
        res.append(mk("tema", "value", "lin", toks(te_, 4), ci, 4, series, D_params(kw), xa=toks(e1, 4), xb=toks(e2, 4),
                      xc=toks(e3, 4), ca=3, cb=-3, cc=1, cd=1, decp=p, q=3, src=src))
    elif kind == "bollinger":
        p, up, dn, src = cs["p"], cs["up"], cs["dn"], cs["src"]
        mt, dt = cs.get("matype", 0), cs.get("devtype", 0)
        kw = dict(period=p, devup=up, devdn=dn, matype=mt, devtype=dt, source_type=src)
        r = call(ta, stats, "bollinger_bands", c, **kw)
        u, m, l = toks(r.upperband, 2), toks(r.middleband, 2), toks(r.lowerband, 2)
        if dt == 0:
            # whatever the middle band is, the bands are k standard deviations of the trailing WINDOW away from it
            res.append(mk("bollinger_bands", "upperband", "sq", m, ci, 2, series, D_params(kw), p=p, src=src, xa=u, ca=up))
            res.append(mk("bollinger_bands", "lowerband", "sq", m, ci, 2, series, D_params(kw), p=p, src=src, xa=l, ca=dn))
        else:
            dev = call(ta, stats, "mean_ad" if dt == 1 else "median_ad", c, period=p, source_type=src)
            u4, m4, l4, d4 = toks(r.upperband, 4), toks(r.middleband, 4), toks(r.lowerband, 4), toks(dev, 4)
            res.append(mk("bollinger_bands", "upperband", "lin", u4, ci, 4, series, D_params(kw), xa=m4, xb=d4, ca=1, cb=up, cd=1))
            res.append(mk("bollinger_bands", "lowerband", "lin", l4, ci, 4, series, D_params(kw), xa=m4, xb=d4, ca=1, cb=-dn, cd=1))
        res.append(mk("bollinger_bands", "middleband", "order", toks(r.middleband, 4), ci, 4, series, D_params(kw),
                      xa=toks(r.upperband, 4), xb=toks(r.lowerband, 4)))
        named = named_ma(ta, stats, mt, c, p, src)
        res.append(mk("bollinger_bands", "middleband", "eq", toks(r.middleband, 4), ci, 4, series, D_params(kw),
                      xa=toks(named, 4), tol=0))
    elif kind == "keltner":
        p, mlt, src, mt = cs["p"], cs["m"], cs["src"], cs["matype"]
        kw = dict(period=p, multiplier=mlt, matype=mt, source_type=src)
        r = call(ta, stats, "keltner", c, **kw)
        a = call(ta, stats, "atr", c, period=p)
        fr = Fraction(mlt).limit_denominator(8)
        u, m, l, at = toks(r.upperband, 4), toks(r.middleband, 4), toks(r.lowerband, 4), toks(a, 4)
        res.append(mk("keltner", "upperband", "lin", u, ci, 4, series, D_params(kw), xa=m, xb=at,
                      ca=fr.denominator, cb=fr.numerator, cd=fr.denominator))
        res.append(mk("keltner", "lowerband", "lin", l, ci, 4, series, D_params(kw), xa=m, xb=at,
                      ca=fr.denominator, cb=-fr.numerator, cd=fr.denominator))
        res.append(mk("keltner", "middleband", "order", m, ci, 4, series, D_params(kw), xa=u, xb=l))
        named = named_ma(ta, stats, mt, c, p, src)
        res.append(mk("keltner", "middleband", "eq", m, ci, 4, series, D_params(kw), xa=toks(named, 4), tol=0))
    elif kind == "donchian":
        p = cs["p"]
        r = call(ta, stats, "donchian", c, period=p)
        u, m, l = toks(r.upperband, 4), toks(r.middleband, 4), toks(r.lowerband, 4)
        res.append(mk("donchian", "upperband", "encl", m, ci, 4, series, "period=%d" % p, xa=u, xb=l))
        res.append(mk("donchian", "middleband", "order", m, ci, 4, series, "period=%d" % p, xa=u, xb=l))
    elif kind == "ma":
        mt, p, src = cs["matype"], cs["p"], cs["src"]
        o = call(ta, stats, "ma", c, period=p, matype=mt, source_type=src)
        kw = {"source_type": src}
        if mt not in NO_PERIOD:
            kw["period"] = p
        named = call(ta, stats, MA_NAMES[mt], c, **kw)
        unit_k = 4
        res.append(mk("ma", "matype=%d" % mt, "eq", toks(o, unit_k), ci, unit_k, series,
                      "matype=%d,period=%d,source_type=%s" % (mt, p, src), xa=toks(named, unit_k), tol=0))
    elif kind == "ma_single":
        # the selector called non-sequentially on inputs of growing length (beyond the 240-candle warm-up window) against
        # the selected moving average called the same way; position j of the trace = the j-th input length
        mt, p, src, lens = cs["matype"], cs["p"], cs["src"], cs["lens"]
        kw = {"source_type": src}
        if mt not in NO_PERIOD:
            kw["period"] = p
        o, named = [], []
        for L in lens:
            stats["calls"] += 2
            o.append(ta.ma(c[:L], period=p, matype=mt, source_type=src, sequential=False))
            named.append(getattr(ta, MA_NAMES[mt])(c[:L], sequential=False, **kw))
        ci2 = {k2: [v[L - 1] for L in lens] for k2, v in ci.items()}
        res.append(mk("ma", "matype=%d:single" % mt, "eq", toks(o, 6), ci2, 6, series + [list(lens)],
                      "matype=%d,period=%d,source_type=%s,sequential=False" % (mt, p, src), xa=toks(named, 6), tol=0))
    elif kind == "range":
        ind, field, kw, lo_, hi_ = cs["row"]
        o = fld(call(ta, stats, ind, c_run, **kw), field)
        res.append(mk(ind, field or "value", "range", toks(o, 4), ci, 4, series, D_params(kw), lo=lo_ * 10000, hi=hi_ * 10000))
    elif kind == "nonneg":
        ind, field, kw = cs["row"]
        o = fld(call(ta, stats, ind, c, **kw), field)
        res.append(mk(ind, field or "value", "nonneg", toks(o, 4), ci, 4, series, D_params(kw)))
    elif kind == "homog":
        ind, p, src = cs["ind"], cs["p"], cs["src"]
        kw = dict(period=p, source_type=src)
        o1 = call(ta, stats, ind, c, **kw)
        o2 = call(ta, stats, ind, scaled(c, 2.0), **kw)
        res.append(mk(ind, "value", "eq", toks(o2, 4, 2.0), ci, 4, series, D_params(kw) + ",x2", xa=toks(o1, 4), tol=1))
    else:
        raise Machinery("unknown case kind %r" % kind)
    for r in res:
        r["case"] = cs
    return res


def named_ma(ta, stats, mt, c, p, src):
    kw = {"source_type": src}
    if mt not in NO_PERIOD:
        kw["period"] = p
    return call(ta, stats, MA_NAMES[mt], c, **kw)


def D_params(kw):
    return ",".join("%s=%s" % (k, kw[k]) for k in sorted(kw)) or "defaults"


# ------------------------------------------------------------------------------------------------ plan
def plan(ctx):
    rng = random.Random(ctx.seed + 15)
    quick = ctx.quick
    n = ctx.pick(150, 240)
    kinds = ["random", "trend", "spike", "flat", "alternating", "monotone", "gapped"]
    periods_all = list(range(2, 61))
    cases = []

    def periods(m):
        base = [2, 3, 14, 60]
        extra = rng.sample([p for p in periods_all if p not in base], m)
        return (base + extra) if quick else periods_all

    def pick_series(j):
        return (kinds[j % len(kinds)], n, 1 + j // len(kinds))
    j = 0
    for row in WINDOW:
        de, ind, field, k, pk, takes_src, deg = row
        ps = periods(3) if pk else [1]
        for p in ps:
            srcs = (ALL_SRC if not quick else rng.sample(ALL_SRC, 2)) if takes_src else ["close"]
            if de in ("roc", "rocp", "rocr", "rocr100", "mom", "midpoint", "trima", "wma", "sma", "vwma") and not quick:
                srcs = ALL_SRC if p % 7 == 0 else rng.sample(ALL_SRC, 2)
            for src in srcs:
                for rep in range(ctx.pick(1, 2)):
                    j += 1
                    cs = {"kind": "window", "row": row, "p": p, "src": src, "series": pick_series(j)}
                    if deg == 1 and j % 5 == 0:
                        cs["scale"] = 2.0 ** rng.choice([20, -20, 1])
                    cases.append(cs)
    for row in SQUARES:
        for p in periods(2):
            for src in (PRICE_SRC if not quick else rng.sample(PRICE_SRC, 2)):
                j += 1
                cases.append({"kind": "window", "row": row + (0,), "p": p, "src": src, "series": pick_series(j), "cap": (5, 60)})
    nlong = ctx.pick(300, 600)
    for row in SMOOTH:
        de = row[0]
        for p in periods(3):
            srcs = (rng.sample(PRICE_SRC, 2) if quick else rng.sample(PRICE_SRC, 3)) if row[5] else ["close"]
            for src in srcs:
                j += 1
                kd = ["random", "trend", "alternating", "monotone", "spike"][j % (4 if de == "rsi" else 5)]
                if de in ("di_plus", "di_minus", "dm_plus", "dm_minus", "adx", "atr") and j % 2 == 0:
                    kd = ["gapped", "staircase"][(j // 2) % 2]      # true range decided by the distance to the previous close
                # definitions judged only after the seed bound has decayed need room for the decay
                nn = ctx.pick(700, 1200) if (de in ("di_plus", "di_minus") or row[6] == 1) else nlong
                cs = {"kind": "smooth", "row": row, "p": p, "src": src, "series": (kd, nn, 1 + j % 3)}
                if de in ("ema", "wilders", "atr") and j % 4 == 0:
                    cs["scale"] = 2.0 ** rng.choice([20, -20])
                cases.append(cs)
    for p, q, dd in ([(14, 3, 3), (5, 2, 4), (2, 2, 2), (30, 5, 3)] if quick else
                     [(p, q, dd) for p in (2, 3, 5, 9, 14, 21, 30, 45, 60) for q in (1, 2, 3, 5) for dd in (2, 3, 5)]):
        j += 1
        cases.append({"kind": "stoch", "p": p, "q": q, "d": dd, "series": pick_series(j)})
    for f, s, g in ([(12, 26, 9), (3, 10, 4), (5, 8, 2)] if quick else
                    [(f, s, g) for f in (2, 3, 5, 8, 12) for s in (6, 10, 13, 26) for g in (2, 4, 9) if f < s]):
        for src in rng.sample(PRICE_SRC, 2):
            j += 1
            cases.append({"kind": "macd", "f": f, "s": s, "g": g, "src": src, "series": (kinds[j % 3], nlong, 1 + j % 4)})
    # fast > slow is a legal call: the relations hold for the periods the caller passed
    for f, s, g in ([(26, 12, 9), (14, 3, 5)] if quick else [(26, 12, 9), (30, 7, 4), (14, 3, 5), (9, 8, 2), (20, 5, 9)]):
        j += 1
        cases.append({"kind": "macd", "f": f, "s": s, "g": g, "src": rng.choice(PRICE_SRC), "series": (kinds[j % 3], 600, 1 + j % 4)})
    for ind in ("apo", "ppo", "vwmacd"):
        for f, s in ([(12, 26), (26, 12), (5, 2)] if quick else [(12, 26), (26, 12), (5, 2), (3, 10), (30, 7), (60, 2)]):
            for mt in ([1] if ind == "vwmacd" else ([0, 1] if quick else [0, 1, 2, 12])):
                j += 1
                cases.append({"kind": "osc", "ind": ind, "f": f, "s": s, "g": 4, "matype": mt, "src": rng.choice(PRICE_SRC),
                              "series": pick_series(j)})
    # inputs shorter than the window, sequential and non-sequential
    for row in WINDOW + [r + (0,) for r in SQUARES]:
        if row[4] and row[1] != "bollinger_bands":
            for p in ([3, 10] if quick else [2, 3, 5, 10, 14, 30]):
                j += 1
                cs = {"kind": "window_short", "row": row, "p": p, "src": rng.choice(PRICE_SRC) if row[5] else "close",
                      "series": (["random", "trend", "spike"][j % 3], 80, 1 + j % 3)}
                if row[0] in ("var", "stddev"):
                    cs["cap"] = (5, 60)
                cases.append(cs)
    for p in ([3, 5, 9] if quick else [2, 3, 4, 5, 6, 8, 9, 10, 12]):
        for src in rng.sample(PRICE_SRC, 2):
            j += 1
            cases.append({"kind": "dema", "p": p, "src": src, "series": (kinds[j % 3], nlong, 1 + j % 4)})
    for p in ([5, 20, 33] if quick else [2, 3, 5, 8, 13, 20, 21, 34, 55, 60]):
        for up, dn in ([(2, 2), (1, 3)]):
            j += 1
            cases.append({"kind": "bollinger", "p": p, "up": up, "dn": dn, "src": rng.choice(PRICE_SRC),
                          "series": pick_series(j), "cap": (5, 60)})
    # non-default middle band / deviation type: the band distance is still k deviations of the trailing window
    for p in ([5, 20] if quick else [3, 5, 8, 13, 20, 34, 55]):
        for mt in ([1, 2, 12, 23] if quick else [1, 2, 3, 5, 12, 23, 10]):
            j += 1
            cases.append({"kind": "bollinger", "p": p, "up": rng.choice([1, 2, 3]), "dn": rng.choice([1, 2, 3]), "matype": mt,
                          "src": rng.choice(PRICE_SRC), "series": (["trend", "random", "monotone"][j % 3], n, 1 + j % 3),
                          "cap": (5, 60)})
        for dt in (1, 2):
            j += 1
            cases.append({"kind": "bollinger", "p": p, "up": 2, "dn": 1, "matype": rng.choice([0, 1]), "devtype": dt,
                          "src": rng.choice(PRICE_SRC), "series": pick_series(j), "cap": (5, 60)})
    for row in SQUARES:
        for p in ([5, 14] if quick else [2, 5, 14, 30, 60]):
            j += 1
            cases.append({"kind": "window", "row": row + (0,), "p": p, "src": rng.choice(PRICE_SRC), "series": pick_series(j),
                          "cap": (5, 60), "nbdev": 2})
    # huge and tiny price levels with small ranges relative to the level (offset lattice in ticks)
    for li, (lvl, tick) in enumerate(LEVELS):
        for row in WINDOW:
            if row[0] in LEVEL_WINDOW:
                for p in ([14, 3] if row[4] else [1]):
                    j += 1
                    cs = {"kind": "window", "row": row, "p": p, "src": "close", "series": (["random", "trend", "spike"][j % 3], n, 1 + j % 3),
                          "level": [lvl, tick]}
                    if row[0] == "cci":
                        cs["k"] = 2       # at 5e9 the typical price itself carries ~1e-6 of rounding
                    cases.append(cs)
        for row in SMOOTH:
            if row[0] in LEVEL_SMOOTH:
                for p in [14, 3]:
                    j += 1
                    cases.append({"kind": "smooth", "row": row, "p": p, "src": "close",
                                  "series": (["random", "trend", "alternating"][j % 3], 300, 1 + j % 3),
                                  "level": [lvl, tick]})
        for p, q, dd in [(14, 3, 3), (3, 2, 2)]:
            j += 1
            cases.append({"kind": "stoch", "p": p, "q": q, "d": dd, "series": pick_series(j), "level": [lvl, tick]})
        for row in RANGES:
            j += 1
            cases.append({"kind": "range", "row": row, "series": (["random", "spike", "trend"][j % 3], n, 1 + j % 3),
                          "level": [lvl, tick]})
    for p in ([5, 20] if quick else [2, 3, 5, 10, 20, 40, 60]):
        for mlt, mt in ([(2, 1), (1.5, 0), (2.5, 2), (1, 12)]):
            j += 1
            cases.append({"kind": "keltner", "p": p, "m": mlt, "matype": mt, "src": rng.choice(PRICE_SRC), "series": pick_series(j)})
    # the product matype x source type, in particular the volume-weighted types (24 vwma, 29 vwap), which take the candles
    # instead of the extracted source and must still honour source_type
    for mt in ([24, 29, 1] if quick else [24, 29, 0, 1, 2, 12, 23]):
        for src in (["hl2", "hlc3", "ohlc4", "high", "low"] if quick or mt in (24, 29) else ["hl2", "low"]):
            j += 1
            cases.append({"kind": "keltner", "p": rng.choice([5, 14, 20]), "m": rng.choice([1, 2, 1.5]), "matype": mt, "src": src,
                          "series": pick_series(j)})
            if quick and mt == 1:
                continue
            j += 1
            cases.append({"kind": "bollinger", "p": rng.choice([5, 14, 20]), "up": 2, "dn": 2, "matype": mt, "src": src,
                          "series": pick_series(j), "cap": (5, 60)})
            if mt in (24, 29):
                j += 1
                cases.append({"kind": "ma", "matype": mt, "p": rng.choice([5, 14, 30]), "src": src,
                              "series": (kinds[j % 3], 200, 1 + j % 3)})
                j += 1
                cases.append({"kind": "ma_single", "matype": mt, "p": 14, "src": src,
                              "lens": [200, 240, 241, 300, 400, 700, 1000], "series": (["random", "trend"][j % 2], 1000, 1 + j % 3)})
    for p in ([2, 20] if quick else [2, 3, 5, 10, 20, 40, 60]):
        j += 1
        cases.append({"kind": "donchian", "p": p, "series": pick_series(j)})
    for mt in sorted(MA_NAMES):
        for rep in range(ctx.pick(1, 3)):
            j += 1
            cases.append({"kind": "ma", "matype": mt, "p": rng.choice([5, 9, 14, 30, 120]), "src": rng.choice(PRICE_SRC),
                          "series": (kinds[j % 3], 200, 1 + j % 3)})
    for mt in sorted(MA_NAMES):
        for p in ([14, 120] if quick else [5, 14, 60, 120, 200]):
            j += 1
            cases.append({"kind": "ma_single", "matype": mt, "p": p, "src": rng.choice(PRICE_SRC),
                          "lens": [200, 240, 241, 300, 400, 700, 1000], "series": (["random", "trend"][j % 2], 1000, 1 + j % 3)})
    for row in RANGES:
        for kd in (["random", "spike", "flat", "monotone", "gapped", "staircase"] if quick else kinds + ["staircase"]):
            j += 1
            cases.append({"kind": "range", "row": row, "series": (kd, n, 1 + j % 3)})
    for row in NONNEG:
        for kd in (["random", "flat"] if quick else kinds):
            j += 1
            cases.append({"kind": "nonneg", "row": row, "series": (kd, n, 1 + j % 3)})
    for ind in HOMOG:
        for p in ([5, 14] if quick else [2, 5, 14, 30]):
            j += 1
            cases.append({"kind": "homog", "ind": ind, "p": p, "src": rng.choice(PRICE_SRC), "series": pick_series(j)})
    return cases


def sig_of(t, verdict):
    clause = verdict.split("@")[0].split(":")
    cl = clause[0] if clause[0] not in ("value",) or len(clause) == 1 or clause[1] not in ("not-finite", "square") else ":".join(clause[:2])
    return "%s.%s:%s:%s" % (t["ind"], t["field"], t["t"]["hdr"]["def"], cl)


def corrupt(t):
    """a copy of a recorded trace with ONE logged token falsified by a few logging units at the last judged-looking
    position; TLC must reject it (sensitivity / non-vacuity of the definition it is compared with)"""
    h = t["hdr"]
    d = h["def"]
    c = dict(t)
    out = list(t["out"])
    fin = [j for j, v in enumerate(out) if abs(v) <= D.CLAMP]
    if not fin:
        return None
    j = fin[-1]
    delta = {"rsi": 30, "adx": 60, "di_plus": 600, "di_minus": 600}.get(d, 8)
    if d == "range":
        out[j] = h["hi"] + delta
    elif d == "nonneg":
        out[j] = -delta
    elif d == "order":
        out[j] = t["xa"][j] + delta
    elif d == "encl":
        xa = list(t["xa"])
        xa[j] = t["h"][j] * 10 ** h["k"] - delta
        c["xa"] = xa
    elif d == "obv":
        out[j] += 1
    else:
        out[j] += delta
    c["out"] = out
    return c


def judge(ctx, recs, parts, sensitivity=None):
    traces = []
    for i, r in enumerate(recs):
        r["id"] = i + 1
        t = dict(r["t"])
        t["id"] = r["id"]
        traces.append(t)
    falsified = {}
    if sensitivity is not None:
        for r in recs:
            c = corrupt(r["t"])
            if c is not None:
                c["id"] = len(recs) + r["id"]
                falsified[c["id"]] = r
                traces.append(c)
    verdicts, results = tlc.validate_traces("TraceDefs", "TraceDefs.cfg", traces, ctx.scratch, parts=parts, timeout=2400,
                                             heap=ctx.pick("1g", "2g"), max_procs=ctx.pick(16, 12))
    for cid, r in falsified.items():
        d = r["t"]["hdr"]["def"]
        st = sensitivity.setdefault(d, [0, 0])
        st[1] += 1
        if verdicts[cid][1] != "ok":
            st[0] += 1
    bad = 0
    for r in recs:
        l, v = verdicts[r["id"]]
        if v.startswith("trace:"):
            raise Machinery("malformed trace %s.%s: %s" % (r["ind"], r["field"], v))
        if v != "ok":
            bad += 1
            ctx.violation(sig_of(r, v), "%s(%s).%s vs definition '%s' on lattice series %s: %s" % (
                r["ind"], r["params"], r["field"], r["t"]["hdr"]["def"], r["series"], v), {"case": r["case"]})
    return verdicts, results, bad


def self_test(ctx):
    """the arithmetic core (long division, token acceptance, triangular weights, folds) as ASSUMEs and the contraction
    error bound of the fixed-point smoother as an invariant over all input sequences of a tiny instance"""
    for wn, wd, xs, steps in [(2, 5, "{0, 1, 3}", ctx.pick(6, 9)), (1, 3, "{0, 2, 5}", ctx.pick(6, 10)), (2, 15, "{0, 7}", ctx.pick(5, 6))]:
        cfg = ("SPECIFICATION Spec\nCHECK_DEADLOCK FALSE\nINVARIANT ErrorBound\n"
               "CONSTANTS Wn = %d Wd = %d Xs = %s Steps = %d Scale = 10\n" % (wn, wd, xs, steps))
        r = tlc.run("IndicatorDefsSelfTest", cfg_text=cfg, workers=1, timeout=300)
        if r.violation:
            raise Machinery("IndicatorDefsSelfTest: %s violated\n%s" % (r.violation["name"], r.violation["trace"][:1500]))
        ctx.add_tlc(r, "IndicatorDefsSelfTest weight %d/%d" % (wn, wd))


def run(ctx):
    ctx.level = META["category"]
    self_test(ctx)
    cases = plan(ctx)
    groups = {}
    for i, cs in enumerate(cases):
        key = cs["row"][1] if "row" in cs and cs["kind"] in ("window", "smooth") else cs["kind"]
        groups.setdefault(key, []).append(cs)
    items = []
    for g, cl in sorted(groups.items()):
        for a in range(0, len(cl), 60):
            items.append((g, cl[a:a + 60]))
    ctx.log("%d cases in %d groups" % (len(cases), len(items)))
    res = D.pmap(job, items)
    recs, calls, skipped = [], 0, []
    for it, r in zip(items, res):
        if r[0] in ("EXC", "CRASH"):
            raise Machinery("worker for %s failed: %s" % (it[0], r[1]))
        recs += r[1]
        calls += r[2]["calls"]
        skipped += r[2]["skipped"]
    if len(skipped) > len(cases) // 10:
        raise Machinery("too many cases raised (%d of %d): %s" % (len(skipped), len(cases), skipped[:5]))
    ctx.log("%d traces from %d indicator calls (%d cases raised)" % (len(recs), calls, len(skipped)))
    sens = {}
    verdicts, results, bad = judge(ctx, recs, parts=ctx.pick(16, 64), sensitivity=sens)
    blind = sorted(d for d, (rej, tot) in sens.items() if rej == 0)
    if blind:
        raise Machinery("TLC accepted every falsified trace of definition(s) %s: the comparison is vacuous" % blind)
    defs = {}
    for r in recs:
        h = r["t"]["hdr"]
        fin = sum(1 for v in r["t"]["out"] if abs(v) <= D.CLAMP)
        defs[h["def"]] = defs.get(h["def"], 0) + 1
        if fin >= 30:
            ctx.nontrivial.add((r["ind"], r["field"], h["def"], r["params"], tuple(r["series"])))
    ctx.evaluations = len(recs)
    samples = []
    for r in recs[:: max(1, len(recs) // 4)][:4]:
        t = r["t"]
        samples.append({"indicator": r["ind"], "field": r["field"], "definition": t["hdr"]["def"], "params": r["params"],
                        "series": r["series"], "hdr": t["hdr"], "close_first": t["c"][:8], "out_tokens_20_27": t["out"][20:28]})
    ctx.coverage.update({
        "traces_validated_against_impl": len(recs), "indicator_calls": calls, "cases_raised": skipped[:40],
        "positions_judged_by_tlc": sum(r.generated for r in results), "rejected_traces": bad,
        "traces_per_definition": defs, "samples": samples,
        "falsified_copies_rejected_by_tlc": {d: "%d of %d" % (a, b) for d, (a, b) in sorted(sens.items())},
        "rule": "one case = (indicator field, definition/relation, parameters, lattice series incl. bounds and power-of-two "
                "scale). Non-trivial = the logged output has >= 30 finite entries; distinct by that tuple. Periods 2..60 "
                "(quick: 2, 3, 14, 60 + random ones), sources close/high/low/open/volume/hl2/hlc3/ohlc4.",
    })
    ctx.assumptions += [
        "lattice: integer prices in [40, 400] (variance family [5, 60]), integer volumes 1..50, optionally multiplied by "
        "2^20 / 2^-20 / 2 (exact in binary floating point); logged token = round(value x 10^k / scale)",
        "a position is judged only where the textbook value is defined (full window, non-zero denominator)",
        "value-after-decay clauses apply from the position where TLC's bound on the seed difference is <= 1 unit"]


def replay(ctx, rp):
    ctx.level = META["category"]
    r = job(("replay", [rp["payload"]["case"]]))
    if r[0] in ("EXC", "CRASH") or not r[1]:
        raise Machinery("replay produced no trace: %r" % (r,))
    verdicts, results, bad = judge(ctx, r[1], parts=1)
    for x in r[1]:
        print("replay verdict:", x["ind"], x["field"], x["t"]["hdr"]["def"], verdicts[x["id"]])
