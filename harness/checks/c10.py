"""C10 - smart order routing and declarative exit orders.
M: StrategyLayer.tla (implementation-shaped transcription of Strategy.py / broker.py / the order store) checked by
   TLC against the C10 invariants written with the property vocabulary of StrategyProps.tla.
R: TLC-simulated behaviours and TLC counter-examples of that model replayed on the real Strategy / Broker / Order
   objects; the recorded run is judged by the monitor TraceRouting.tla, the projected model state is compared by TLC.
T: in-vivo backtests (research.backtest) with policy strategies using only the declarative API, judged by the same
   monitor: routing per submission, exit/declaration correspondence at after(), no exit when flat, entry-cancellation."""
from .. import tlc
from ..core import Machinery
from ..drivers import strat_check as K

META = dict(
    category="model_checking",
    technique="TLA+ model of the strategy layer (StrategyLayer.tla: _check/_execute, _submit_*_orders, Broker.reduce_position_at, "
              "_on_open_position incl. the wrong-side market replacement as a named deviation, "
              "_detect_and_handle_entry_and_exit_modifications, cancel-all on close, liquidate, _terminate) model-checked by TLC "
              "against routing / exit-correspondence / entry-cancellation invariants; model behaviours replayed on the real "
              "Strategy objects and in-vivo backtests recorded and judged by the TLC monitor TraceRouting.tla",
    text="TLC explores every interleaving of user decisions (entry menus with market/limit/stop and two-point entries, exits "
         "declared in go_long/go_short or hooks, edits in update_position/on_open/on_increased/on_reduced, liquidate(), "
         "should_cancel_entry answers), fills and price moves up to the stated depth around price 20000 (2 ticks = near, 4 = "
         "far) and checks after every action that each submission carries a declared row's quantity and price with the type "
         "given by the 0.015 % rule, that exits are reduce-only on the closing side, that active stop-loss/take-profit orders "
         "map injectively onto the latest declaration (and every declared row has an order) at after() - in recorded runs also at the next before() -, that nothing exit-like "
         "survives a close and that resting entries are cancelled iff should_cancel_entry(). The same operators judge recorded "
         "executions of the real code: model behaviours replayed action by action (state projection compared by TLC) and "
         "backtests with random policies incl. prices within +-4 ticks of the boundary. Bounded scope; the boundary itself "
         "(exactly 0.015 %) is a float knife edge and is skipped and counted.",
    note="Trusted: TLC, the recorder (wrappers around Order.__init__/execute/cancel, strategy callbacks), the JSON encoder. "
         "Futures (cross and isolated margin incl. the simulator's liquidation orders, which are exempt from routing), fee-free spot; "
         "trading routes 1m/5m/15m/1h with data routes, both simulators; balances large enough that no entry is rejected; strategies use only the "
         "declarative API. Market entries carry the price of the moment (not the declared one) - matched by quantity and the "
         "near rule.",
    design_ref="4/C10")

KINDS_Q = ["near", "ladder", "sized", "two", "half", "wrong", "tf5", "spot", "big", "fast", "fast2", "iso", "tf15", "tf60", "over", "tiny", "near", "pyramid", "pyramid"]


def run(ctx):
    ctx.assumptions += ["futures (cross margin) and fee-free spot accounts, 1m and 5m trading routes, 1-2 symbols, both simulators, no order rejected for margin",
                        "declarations are edited only in go_long/go_short, on_open/increased/reduced_position, update_position "
                        "(the hooks the property quantifies over); after() is the observation point",
                        "price exactly 0.015 % away from the current price: knife edge, skipped and counted"]
    samples = []
    # ---------------------------------------------------------------- M
    depth = ctx.pick(9, 12)
    FULL = dict(multi=True, oversize=True, wrong=True, maxord=8)
    jobs = [("model of the tree (reduce-only replacement 5ca726f8, clamped reduce-only fills eed2d42c), full menus: two-point entries, "
             "partial take-profits, oversize and wrong-side rows, edits in every hook; all C10 invariants",
             dict(depth=ctx.pick(9, 11), edit=ctx.pick(1, 2), invariants=K.INV_C10, **FULL)),
            ("model of the tree, one-point entries, deeper; all C10 invariants", dict(depth=ctx.pick(10, 13), edit=1, invariants=K.INV_C10)),
            # the model of the tree BEFORE the two repairs: its counter-examples are replayed below and must NOT be reproduced any more
            ("pre-fix model, wrong-side rows: ExitsReduceOnly", dict(depth=8, wrong=True, edit=0, rrepl=False, rclamp=False, invariants=["ExitsReduceOnly"])),
            ("pre-fix model, wrong-side oversize rows (flip ping-pong): NoLivelock",
             dict(depth=8, multi=True, wrong=True, edit=0, maxord=20, rrepl=False, rclamp=False, invariants=["NoLivelock"]))]
    rs = tlc.run_parallel([dict(module="StrategyLayer", cfg_text=K.model_cfg(**kw), workers=ctx.pick(2, 4), coverage=(i == 0),
                                timeout=ctx.pick(600, 1500)) for i, (lab, kw) in enumerate(jobs)], max_procs=5)
    cex = []
    for (lab, kw), r in zip(jobs, rs):
        ctx.add_tlc(r, lab)
        expected = lab.startswith("pre-fix model")
        if r.violation and not expected:
            raise Machinery("StrategyLayer.tla violates %s in the instance '%s' (model and intended design disagree)\n%s"
                            % (r.violation["name"], lab, r.raw[-2500:]))
        if r.violation:
            cex.append((lab, r.violation["name"], K.hist_of_violation(r)))
        ctx.log("M %s: %d distinct states, %s" % (lab, r.distinct, ("violates " + r.violation["name"]) if r.violation else "holds"))
    never = [a for a, (d, g) in rs[0].coverage.items() if g == 0 and a in ("Move", "Fill", "StepA", "StepB", "FlushOne", "Term1", "Term2", "Term3")]
    if never:
        raise Machinery("vacuity: actions never taken in the clean instance: %s" % never)
    ctx.coverage["non_vacuity_witnesses_shortest_history"] = K.witnesses(ctx, K.WIT_C10 + ["LongCycle3", "Reduced"],
                                                                         **{k: v for k, v in jobs[0][1].items() if k != "invariants"})
    # ---------------------------------------------------------------- R
    items = []
    for j, (lab, inv, h) in enumerate(cex):
        items.append({"id": 100000 + j, "hist": h, "B": K.BASE, "src": "counter-example to %s" % inv, "compare": False})
    cex_traces, cex_ids = K.run_replays(ctx, items, compare=False)
    before = len(ctx.violations)
    K.judge(ctx, "TraceRouting", cex_traces, "R-cex", cex_ids, parts=2)
    reproduced = len(ctx.violations) > before
    ctx.coverage["model_counterexamples"] = [{"instance": lab, "invariant": inv, "actions": [a["a"] for a in h]} for lab, inv, h in cex]
    ctx.coverage["model_counterexamples_reproduced_by_the_code"] = reproduced
    hists, rsim = K.simulated_histories(ctx, ctx.pick(80, 700), ctx.pick(12, 16), ctx.seed, edit=ctx.pick(1, 2), **FULL)
    sim_items = [{"id": 200000 + j, "hist": h, "B": K.BASE, "src": "simulated behaviour", "compare": True} for j, h in enumerate(hists)]
    sim_traces, sim_ids = K.run_replays(ctx, sim_items, compare=True)
    bad_r, st_r = K.judge(ctx, "TraceRouting", sim_traces, "R-sim", sim_ids, parts=ctx.pick(4, 12))
    ncmp = sum(1 for t in sim_traces for e in t["ev"] if e["k"] == "proj" and e["cmp"])
    ctx.log("R: %d simulated behaviours replayed (%d state comparisons), %d counter-examples" % (len(sim_traces), ncmp, len(cex)))
    if sim_traces:
        t0 = max(sim_traces, key=lambda t: len(t["ev"]))
        samples.append({"kind": "R: model behaviour replayed on the real Strategy", "actions": [a["a"] for a in sim_items[t0["id"] - 200000]["hist"]],
                        "events": [{k: v for k, v in e.items() if k != "act"} for e in t0["ev"][:14]]})
    # ---------------------------------------------------------------- T
    items = K.vivo_items(ctx, ctx.pick(152, 1500), KINDS_Q, ctx.pick(240, 400))
    traces, by_id = K.run_vivo(ctx, items)
    bad_t, st_t = K.judge(ctx, "TraceRouting", traces, "T", by_id, parts=ctx.pick(8, 14))
    nsub = sum(x[2] for x in st_t)
    knife = sum(x[3] for x in st_t)
    for t in traces:
        for w in K.edit_words(t):
            if len(w) >= 2:
                ctx.nontrivial.add(w)
    for t in sim_traces:
        for w in K.edit_words(t):
            if len(w) >= 2:
                ctx.nontrivial.add(("R",) + w)
    if traces:
        t0 = traces[0]
        samples.append({"kind": "T: in-vivo run (first events)", "item": {k: v for k, v in by_id[t0["id"]]["item"].items() if k != "config"},
                        "events": [{k: v for k, v in e.items() if k != "act"} for e in t0["ev"][:12]]})
    ctx.evaluations = nsub + sum(x[2] for x in st_r)
    ctx.coverage.update({
        "traces_validated_against_impl": len(traces) + len(sim_traces) + len(cex_traces),
        "in_vivo_runs": len(traces), "model_behaviours_replayed": len(sim_traces), "replay_state_comparisons": ncmp,
        "submissions_judged": nsub + sum(x[2] for x in st_r), "entry_submissions": sum(x[5] for x in st_t + st_r),
        "exit_submissions": sum(x[6] for x in st_t + st_r), "market_replacements_seen": sum(x[7] for x in st_t + st_r),
        "after_steps_judged": sum(x[4] for x in st_t + st_r), "knife_edge_skips": knife,
        "runs_ended_by_jesse_exception": sum(1 for t in traces if t["hdr"]["exc"] != "none"),
        "traces_with_clauses": bad_t + bad_r, "samples": samples, "exhaustive": False,
        "rule": "one case = one recorded run (backtest with a seeded policy, or a replayed model behaviour); evaluations = "
                "order submissions judged against the routing rule; distinct non-trivial = distinct words of hooks in which the "
                "declaration changed within one position cycle, with >= 2 edits (C10 quantifies over repeated modifications)",
    })


def replay(ctx, rp):
    K.replay_payload(ctx, rp["payload"], "TraceRouting")
