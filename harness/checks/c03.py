"""C03 - the futures account always equals an average-cost margin account.
M: Futures.tla (implementation-shaped model of Order/Position/FuturesExchange/OrdersState + every legal operation
   sequence as environment) checked by TLC against the independently stated reference-account properties.
R: every transition of a small instance, with a shortest witness history, replayed on the real objects; TLC
   (TraceFutures.tla) re-applies the model's effect to the state logged before the call and compares.
T: long random legal histories (30-60 operations, 1-2 symbols on one wallet, six leverages, three fee rates)
   recorded from the real objects and validated by TLC step by step from the initial state; decimal histories of
   100-300 operations (prices with cents, 3-decimal quantities, fee 0.0004/0.00075/0.001, leverage up to 125, 2-3
   symbols, cross and isolated) judged by step relations on scaled integers (TraceFuturesDec.tla), rejection judged
   exactly (also at equality) where the float arithmetic is exact.
V: real research.backtest runs with every order call judged from the state observed before it."""
import random, json
from .. import tlc
from ..core import Machinery
from ..drivers import acct

PID = "C03"
KIND = "futures"

META = dict(
    category="model_checking",
    technique="TLA+ model of the futures account (Futures.tla: Order.execute/cancel guards, FuturesExchange reserve/"
              "release tables and margin formula, Position open/increase/reduce/close/flip with reduce-only clamping, "
              "average entry) explored by TLC over every legal operation sequence; each model transition replayed on "
              "the real objects and each recorded step re-derived by TLC from the logged pre-state (TraceFutures.tla)",
    text="TLC checks on the implementation-shaped model, for every legal submit/cancel/execute/flush/price history up to "
         "the stated depth (1-2 symbols on one wallet, market/limit/stop, reduce-only, oversize reduce-only, flips), "
         "the independently stated reference-account properties: mark-to-market identity in delta form (fee on every "
         "fill, PnL realised on reductions/closes/flips), average-cost entry update, reduce-only never increases or "
         "flips, reserved tables = bag of ACTIVE non-reduce-only orders, margin = wallet - sum(cost/L - pnl) - "
         "sum_sym max(buy, sell)/L, rejection iff notional/L > that margin, submit-then-cancel restores the margin. "
         "The binding to the code is two-way: every transition of a small instance is executed on real Order/Position/"
         "FuturesExchange objects along a shortest witness, and these runs plus long random histories are accepted or "
         "rejected by TLC, which recomputes wallet, position, entry (exact rationals), available margin, PnL and the "
         "accept/reject decision from the logged pre-state. Bounded (depth, lattice); not a proof.",
    note="Trusted: TLC, the encoder (floats -> nearest small rational), the object-level session (a stub strategy that "
         "cancels what rests when the position closes, as the quantifier says), process-state hygiene between sessions. "
         "Exact traces: integer prices, quantities 1/2/3 or 0.1/0.2/0.3, fees 0, 1/16, 1/64, |position| <= 6 (32-bit "
         "rationals). Decimal traces: scaled integers with per-step tolerances derived from the coefficients; a margin "
         "comparison inside the tolerance band is not judged (counted) unless all values are binary-exact. Liquidation "
         "is not part of object-level sessions (C09).",
    design_ref="4/C03")


def m_instances(ctx):
    base = dict(syms=["A"], qtys=[1, 2], prices=[8, 12], lev=2, fee=(1, 16), start=30, maxact=3, dups=False, coc=True)
    q = [dict(base, depth=4, maxord=4),
         dict(base, syms=["A", "B"], qtys=[1], lev=4, start=8, depth=4, maxord=4, maxact=2),
         dict(base, lev=10, fee=(0, 1), start=2, prices=[10, 16], maxact=2, depth=4, maxord=4)]
    t = [dict(base, depth=6, maxord=6),
         dict(base, prices=[8, 10, 12], depth=5, maxord=5, start=50),
         dict(base, syms=["A", "B"], qtys=[1, 2], lev=4, start=12, depth=4, maxord=4, maxact=2),
         dict(base, qtys=[1, 2, 3], lev=1, fee=(0, 1), start=40, depth=5, maxord=5)]
    return ctx.pick(q, t)


def r_instances(ctx):
    base = dict(syms=["A"], qtys=[1, 2], prices=[8, 12], lev=2, fee=(1, 16), start=30, maxact=3, dups=False, coc=True)
    # look-alike: one price, one quantity - a reduce-only and a regular order with the same (side, qty, price) rest
    # together and are cancelled / filled in either order (the reserved tables hold anonymous rows);
    # windfall: leverage 10 and a tiny wallet - a price move makes the available margin exceed the wallet balance and
    # orders sized between the two must be accepted
    look = dict(base, qtys=[1], prices=[8], mode="isolated")
    wind = dict(base, lev=10, fee=(0, 1), start=2, prices=[10, 16], maxact=2)
    q = [dict(base, depth=3, maxord=3, maxact=2), dict(look, depth=5, maxord=5), dict(wind, depth=4, maxord=4)]
    t = [dict(base, depth=4, maxord=4), dict(look, depth=6, maxord=6), dict(wind, depth=5, maxord=5),
         dict(base, syms=["A", "B"], qtys=[1], lev=4, start=14, depth=3, maxord=3, mode="isolated"),
         dict(base, qtys=[1, 3], prices=[8, 10, 12], lev=1, fee=(0, 1), start=60, depth=3, maxord=3, maxact=2)]
    return ctx.pick(q, t)


def t_specs(ctx, rng, first_id, dups=0.0):
    n = ctx.pick(120, 1500)
    confs = []
    for lev in (1, 2, 3, 4, 5, 10):
        for fee in ((0, 1), (1, 16), (1, 64)):
            confs.append((lev, fee))
    rng.shuffle(confs)
    confs = confs[:ctx.pick(6, 18)]
    specs = []
    for i in range(n):
        lev, fee = confs[i % len(confs)]
        nsym = 1 if (i // len(confs)) % 2 == 0 else 2
        syms = ["A", "B"][:nsym]
        # every third history uses decimal quantities 0.1 / 0.2 / 0.3 (QD = 10: not representable in binary; the
        # account is homogeneous in the quantity scale, so TLC sees quantity x 10 and money x 10)
        qd = 10 if i % 3 == 2 else 1
        start = rng.choice([60, 100, 200]) // qd
        if i % 4 == 1:
            # windfall family: leverage 5/10/20 and a small wallet, so that unrealised profit lifts the available margin
            # above the wallet balance and orders are sized between the two
            lev, start, qd = rng.choice([5, 10, 20]), rng.choice([5, 6, 8]), 1
        hdr = {"syms": syms, "FeeNum": fee[0], "FeeDen": fee[1], "Lev": lev, "Start": start,
               "CancelOnClose": True, "cur0": {s: rng.choice([8, 10, 12]) for s in syms}, "QD": qd,
               # margin formula and rejection do not depend on the leverage mode (FuturesExchange.available_margin never
               # reads it); liquidation is the simulator's business (C09): the same account equations must hold
               "mode": "isolated" if i % 2 else "cross"}
        specs.append((first_id + i, hdr, rng.randrange(10 ** 9), rng.randint(30, 60), dups))
    return specs


def run(ctx):
    rng = random.Random(ctx.seed)
    ctx.assumptions += [
        "object-level sessions: real Order/Position/FuturesExchange/OrdersState/ClosedTrades/Sandbox objects, the "
        "position's strategy is a stub that cancels everything resting when the position closes (quantifier of C03)",
        "exact lattice: integer prices, quantities 1/2/3 or 0.1/0.2/0.3 (logged x 10), fee in {0, 1/16, 1/64}; cross and "
        "isolated leverage mode at object level (liquidation is not part of these sessions: C09)",
        "random histories keep |position| + resting same-side quantity <= 6 and entry denominators dividing 60 "
        "(32-bit rationals in TLC); at most 7 simultaneously resting orders per symbol"]
    samples = []
    # ---------------------------------------------------------------- M
    for inst in m_instances(ctx):
        r = tlc.run("Futures", cfg_text=acct.model_cfg(KIND, inst), workers=ctx.pick(8, 16), coverage=ctx.quick,
                    timeout=ctx.pick(600, 1500))
        label = "Futures syms=%d qtys=%s prices=%s L=%d fee=%d/%d start=%d depth=%d" % (
            len(inst["syms"]), inst["qtys"], inst["prices"], inst["lev"], inst["fee"][0], inst["fee"][1], inst["start"], inst["depth"])
        ctx.add_tlc(r, label)
        ctx.log("M %s: %d generated, %d distinct, %.0fs" % (label, r.generated, r.distinct, r.wall))
        if r.violation:
            # the model is a transcription of the code: a property violated in the model is a candidate defect;
            # it is reported (with TLC's trace) - the replay below decides whether the code really does it
            ctx.violation("%s model %s" % (PID, r.violation["name"]),
                          "Futures.tla violates %s on %s\n%s" % (r.violation["name"], label, r.violation["trace"][:4000]),
                          {"kind": KIND, "model_violation": r.violation["name"], "inst": inst})
        for a in ("Submit", "Cancel", "Execute", "Flush", "SetPrice"):
            if r.coverage and r.coverage.get(a, (0, 0))[1] == 0:
                raise Machinery("vacuity: action %s never taken in %s" % (a, label))
    # ---------------------------------------------------------------- R
    traces, hists = [], {}
    tid = 0
    for inst in r_instances(ctx):
        edges, r = acct.export_edges(KIND, inst, workers=1, timeout=900)
        if len(edges) != r.generated - len(inst["prices"]) ** len(inst["syms"]):
            ctx.notes.append("edge export: %d edges vs %d generated states" % (len(edges), r.generated))
        ctx.log("R: %d transitions exported (%d distinct states)" % (len(edges), r.distinct))
        trs = acct.replay_edges(KIND, inst, edges, first_id=tid + 1)
        for t, e in zip(trs, edges):
            hists[t["id"]] = e["hist"]
        tid += len(trs)
        traces += trs
        ctx.coverage["exhaustive"] = True
    n_r = len(traces)
    # ---------------------------------------------------------------- T
    specs = t_specs(ctx, rng, tid + 1)
    ttr = acct.random_histories(KIND, specs)
    traces += ttr
    ctx.log("T: %d random histories, %d events" % (len(ttr), sum(len(t["ev"]) for t in ttr)))
    # ---------------------------------------------------------------- V: real backtests (real Strategy, both simulators)
    from ..drivers import acct_vivo
    vtr = acct_vivo.run_many(acct_vivo.specs(KIND, ctx.pick(6, 120), ctx.seed, first_id=tid + len(specs) + 1,
                                                minutes=ctx.pick((60, 90), (60, 90, 120))))
    traces += vtr
    ctx.log("V: %d backtests, %d order events" % (len(vtr), sum(len(t["ev"]) for t in vtr)))
    # ---------------------------------------------------------------- TLC decides
    verdicts, results, knife = acct.validate(KIND, traces, ctx.scratch, parts_total=ctx.pick(10, 14), proj="acct")
    bad, named = acct.report(ctx, PID, KIND, traces, verdicts, "acct", "R/T",
                             hist_of=lambda t: hists.get(t["id"]))
    # ---------------------------------------------------------------- T decimal lattice (step relations, scaled integers)
    from ..drivers import acct_fdec
    dtr = acct_fdec.histories(ctx.pick(10, 200), ctx.pick(60, 1500), ctx.seed, first_id=len(traces) + 1)
    dverd, dres, dknife, (dexact, dexacteq) = acct_fdec.validate(dtr, ctx.scratch)
    dbad = acct_fdec.report(ctx, PID, dtr, dverd)
    ctx.log("T decimal: %d histories, %d events, %d rejected; %d knife-edge, %d exact-zone submissions (%d at equality)" % (
        len(dtr), sum(len(t["ev"]) for t in dtr), dbad, dknife, dexact, dexacteq))
    for t in dtr:
        w = acct.word(t)
        if "X" in w and ("C" in w or "!" in w):
            ctx.nontrivial.add(json.dumps(["dec", t["hdr"]["lev"], t["hdr"]["fee_u"], t["seed"]]))
    kinds = {}
    for t in traces:
        for k in acct.fill_kinds(KIND, t):
            kinds[k] = kinds.get(k, 0) + 1
        pre = hists.get(t["id"])
        if acct.nontrivial(KIND, t, pre[:-1] if pre else None):
            ctx.nontrivial.add(json.dumps([t["hdr"].get("Lev"), t["hdr"]["FeeDen"], pre or acct.ops_of(t)], sort_keys=True))
    for t in traces[:n_r]:
        if len(samples) < 2 and len(hists[t["id"]]) >= 3 and "exec" in [o["op"] for o in hists[t["id"]]]:
            samples.append({"kind": "R: TLC witness replayed on real objects, last step judged", "hdr": t["hdr"],
                            "ops": hists[t["id"]], "logged_post": t["ev"][-1].get("post")})
    if ttr:
        samples.append({"kind": "T: random history (first 10 operations)", "hdr": ttr[0]["hdr"], "ops": acct.ops_of(ttr[0])[:10]})
    if dtr:
        longest = max(dtr, key=lambda t: len(t["ev"]))
        samples.append({"kind": "T decimal: longest history of this run (first 8 events as logged, scaled integers)",
                        "hdr": longest["hdr"], "operations": len(longest["ev"]), "ev": longest["ev"][:8]})
    ctx.evaluations = len(traces) + len(dtr)
    ctx.coverage.update({
        "traces_validated_against_impl": len(traces) + len(dtr), "transitions_replayed": n_r, "random_histories": len(ttr),
        "decimal_histories": len(dtr), "decimal_events": sum(len(t["ev"]) for t in dtr),
        "decimal_longest_history": max([len(t["ev"]) for t in dtr] or [0]),
        "decimal_knife_edge_skipped": dknife, "decimal_exact_zone_rejections_judged_strictly": dexact,
        "decimal_exact_zone_at_equality": dexacteq,
        "in_vivo_backtests": len(vtr), "in_vivo_order_events": sum(len(t["ev"]) for t in vtr),
        "trace_events_checked_by_tlc": sum(len(t["ev"]) for t in traces) + sum(len(t["ev"]) for t in dtr),
        "rejected_traces": bad + dbad,
        "knife_edge_margin_comparisons_skipped": sum(len(v) for v in knife.values()),
        "fill_effects_and_special_cases_seen": kinds, "samples": samples,
        "rule": "R: one trace per transition of the small Futures.tla instance (shortest witness, prefix driven on the "
                "real objects, last operation judged from the logged pre-state). T: random legal histories of 30-60 "
                "operations judged from the initial state. V: real research.backtest runs (policy strategies, step and fast "
                "simulator), every Order.__init__/execute/cancel judged from the state observed before the call. A case counts when it contains >= 1 fill and >= 1 of "
                "{cancel, reduce/close/flip, rejection}; distinct by (leverage, fee, full operation list with values).",
    })


def replay(ctx, rp):
    p = rp["payload"]
    if p.get("fdec"):
        from ..drivers import acct_fdec
        tr = acct_fdec.replay(p)
        verd = acct_fdec.validate([tr], ctx.scratch)[0]
        print("replay verdict:", verd[1])
        acct_fdec.report(ctx, PID, [tr], verd)
        return
    if p.get("vivo"):
        from ..drivers import acct_vivo
        tr = acct_vivo.run_one(tuple([1] + list(p["vivo"])))
        verdicts, _, _ = acct.validate(KIND, [tr], ctx.scratch, parts_total=1, proj=p.get("proj", "acct"))
        print("replay verdict:", verdicts[1])
        acct.report(ctx, PID, KIND, [tr], verdicts, p.get("proj", "acct"), "replay")
        return
    if "ops" not in p:
        print("model-level violation: re-run the model instance", p)
        r = tlc.run("Futures", cfg_text=acct.model_cfg(KIND, p["inst"]), workers=8, timeout=1500)
        if r.violation:
            ctx.violation("%s model %s" % (PID, r.violation["name"]), r.violation["trace"][:3000], p)
        return
    tr = acct.run_history(KIND, p["hdr"], p["ops"])
    tr["id"] = 1
    verdicts, _, _ = acct.validate(KIND, [tr], ctx.scratch, parts_total=1, proj=p.get("proj", "acct"))
    print("replay verdict:", verdicts[1])
    acct.report(ctx, PID, KIND, [tr], verdicts, p.get("proj", "acct"), "replay")
