"""C20 - candle series handed to the store are gapless and strictly ordered.
M: FillAbsentMC.tla (every presence pattern of every interval <= 7..9 minutes through the implementation-shaped gap
   filling function, property FillVerdict) and AddCandle.tla (add_candle's append / replace / look-back loop and
   add_multiple_1m_candles under every order of new / repeated / older timestamps; look-back 2 exhaustively and the
   real 20 with 22 stored rows) checked by TLC.
R: every exported pattern is run through the real _fill_absent_candles, every transition of AddCandle.tla (shortest
   witness) through a real CandlesState (1m and 5m series); TLC validates the recorded outputs against the property
   (TraceCandleSeries.tla).
T: random long gap patterns, random long add sequences (>= 22 rows, stored-older at every index incl. 0/1/2, unknown
   older, bulk inserts), and research.backtest on inputs whose leading candles are not 60 000 ms apart."""
import json, random
import numpy as np
from .. import tlc
from ..core import Machinery

META = dict(
    category="model_checking",
    technique="TLA+ models of the gap-filling function (FillAbsentMC.tla, all presence patterns) and of the store's "
              "append/replace/look-back rules (AddCandle.tla, all orders of new/repeated/older candles) checked by TLC; "
              "every exported pattern and every model transition replayed into the real _fill_absent_candles / "
              "CandlesState; recorded outputs and random long sequences validated by TLC against the property "
              "(TraceCandleSeries.tla); research.backtest spacing validation judged the same way",
    text="TLC enumerates every pattern of missing minutes for intervals up to 7 (thorough 9) minutes and every sequence of "
         "new / equal / stored-older / unknown-older single adds and bulk inserts up to depth 6 (look-back 2) and depth 2-3 "
         "on 22 stored rows (real look-back 20); the properties are: one candle per minute, strictly increasing, provided "
         "candles unchanged, missing minutes flat at the previous close (first known open before any candle), zero volume; "
         "append on newer, replace on equal-to-stored, otherwise unchanged. All patterns and all model transitions are "
         "executed on the real functions/objects and TLC accepts or rejects what they returned; random long patterns, "
         "random add sequences on 1m and 5m series and research.backtest spacing cases are judged by the same spec.",
    note="Given candles are passed sorted by timestamp with unique timestamps inside or after the interval; interval "
         "bounds are minute-aligned. An exception on an unknown older timestamp (or a bulk insert that neither is all new "
         "nor repeats the stored tail) is tolerated when the series stays unchanged. Live-mode branches of add_candle are "
         "not driven.",
    design_ref="4/C20")

B = 'BTC-USDT'
T0 = 1609459200000


def fa_cfg(maxlen, export, variant="code"):
    return ("SPECIFICATION Spec\nCHECK_DEADLOCK FALSE\nCONSTANTS MaxLen = %d Starts = {3} Export = %s Variant = \"%s\"\n"
            "INVARIANT FillIsGaplessAndFaithful\n" % (maxlen, "TRUE" if export else "FALSE", variant))


def ac_cfg(lb, prefill, depth, maxlen, multi, batch=0, q=False, export=False):
    t = lambda b: "TRUE" if b else "FALSE"
    return ("SPECIFICATION %s\nVIEW View\nCONSTRAINT Depth\nCHECK_DEADLOCK FALSE\n" % ("Spec" if export else "SpecM") +
            "CONSTANTS LB = %d Prefill = %d MaxDepth = %d MaxLen = %d MaxMulti = %d MaxBatch = %d QLookback = %s Export = %s\n"
            % (lb, prefill, depth, maxlen, multi, batch, t(q), t(export))
            + ("" if export else "INVARIANT StrictlyIncreasing\nINVARIANT AddOK\nINVARIANT MultiOK\nINVARIANT BatchOK\nINVARIANT NoErrorOnStored\n"))


# ------------------------------------------------------------------ real code drivers
def real_fill(given, start, end, unit=1.0, negzero=False, ints=False):
    """given: list of 7-tuples (minute ts, o, c, h, l, v, id) in integer price units; the real candles carry
    value * unit (unit = 2**-40 makes every non-zero price a tiny positive float; zeros stay exactly 0 - or -0.0 with
    negzero, or the int 0 with ints).  Returns the event for TraceCandleSeries (prices back in units, exact)."""
    from jesse.modes.import_candles_mode import _fill_absent_candles

    def val(n):
        if n == 0:
            return 0 if ints else (-0.0 if negzero else 0.0)
        return (n if ints and unit == 1.0 else n * unit)
    tmp = [{'id': g[6], 'exchange': 'Sandbox', 'symbol': B, 'timeframe': '1m', 'timestamp': T0 + g[0] * 60000,
            'open': val(g[1]), 'close': val(g[2]), 'high': val(g[3]), 'low': val(g[4]), 'volume': float(g[5])}
           for g in given]
    snapshot = [dict(d) for d in tmp]
    e = dict(k='fill', start=start, end=end, given=[list(g) for g in given], ok=True, exc='none', out=[],
             unit_log2=int(__import__('math').log2(unit)), negzero=bool(negzero), ints=bool(ints))
    try:
        out = _fill_absent_candles(tmp, T0 + start * 60000, T0 + end * 60000)
    except Exception as ex:
        e['ok'] = False
        e['exc'] = type(ex).__name__
        return e
    if tmp != snapshot:
        raise Machinery("input list mutated by _fill_absent_candles")       # would make `given` meaningless
    rows = []
    for c in out:
        ts = (c['timestamp'] - T0)
        if ts % 60000:
            rows.append([-1, 0, 0, 0, 0, 0, 0])
            continue
        vals = [float(c['open']) / unit, float(c['close']) / unit, float(c['high']) / unit, float(c['low']) / unit,
                float(c['volume'])]                     # unit is a power of two: the division is exact
        if any(v != int(v) for v in vals):
            rows.append([ts // 60000, -1, -1, -1, -1, -1, 0])
            continue
        rows.append([ts // 60000] + [int(v) for v in vals] + [c['id'] if isinstance(c['id'], int) else 0])
    e['out'] = rows
    return e


class Store:
    """a real CandlesState with a 1m route and a 5m data route"""
    PERIOD = {'1m': 60000, '5m': 300000}

    def __init__(self, bucket):
        from .. import session as S
        from jesse.strategies import Strategy
        from jesse.config import config as jc, set_config
        from jesse.routes import router
        from jesse.store import store
        from jesse.research.backtest import _format_config
        S.reset_process_state()

        class _P(Strategy):
            def should_long(self):
                return False

            def go_long(self):
                pass
        jc['app']['trading_mode'] = 'backtest'
        set_config(_format_config(S.futures_config()))
        router.initiate([{'exchange': S.FUT, 'strategy': _P, 'symbol': B, 'timeframe': '1m'}],
                        [{'exchange': S.FUT, 'symbol': B, 'timeframe': '5m'}])
        self.store, self.ex, self.bucket = store, S.FUT, bucket
        self.fresh()

    def fresh(self):
        self.store.candles.storage = {}
        self.store.candles.init_storage(self.bucket)

    def candle(self, tf, ts, v):
        # model timestamps advance by 2 per candle period; odd ones fall between two candles
        return np.array([T0 + ts * (self.PERIOD[tf] // 2), float(v), float(v), float(v), float(v), float(v)])

    def series(self, tf):
        a = self.store.candles.get_candles(self.ex, B, tf)
        half = self.PERIOD[tf] // 2
        return [[int((r[0] - T0) // half), int(r[1])] for r in a]

    def add(self, tf, ts, v):
        e = dict(k='add', ts=ts, v=v, exc='none')
        try:
            self.store.candles.add_candle(self.candle(tf, ts, v), self.ex, B, tf, with_execution=False, with_generation=False)
        except Exception as ex:
            e['exc'] = type(ex).__name__
        e['post'] = self.series(tf)
        return e

    def series6(self, tf):
        a = self.store.candles.get_candles(self.ex, B, tf)
        half = self.PERIOD[tf] // 2
        return [[int((r[0] - T0) // half)] + [int(x) for x in r[1:6]] for r in a]

    def addrow(self, tf, ts, fields):
        """add_candle of a whole candle (o, c, h, l, v given separately: re-sent candles that differ in a subset of fields)"""
        e = dict(k='add', ts=ts, v=0, row=[ts] + [int(x) for x in fields], exc='none')
        try:
            self.store.candles.add_candle(np.array([T0 + ts * (self.PERIOD[tf] // 2)] + [float(x) for x in fields]), self.ex, B, tf,
                                          with_execution=False, with_generation=False)
        except Exception as ex:
            e['exc'] = type(ex).__name__
        e['post'] = self.series6(tf)
        return e

    def batch(self, tf, tss, v):
        """batch_add_candle with rows (tss[j], version v + j)"""
        rows = np.array([self.candle(tf, t, v + j) for j, t in enumerate(tss)])
        e = dict(k='batch', chunk=[[t, v + j] for j, t in enumerate(tss)], exc='none')
        try:
            self.store.candles.batch_add_candle(rows, self.ex, B, tf, with_generation=False)
        except Exception as ex:
            e['exc'] = type(ex).__name__
        e['post'] = self.series(tf)
        return e

    def multi(self, ts, n, v):
        rows = np.array([self.candle('1m', ts + 2 * j, v) for j in range(n)])
        e = dict(k='multi', chunk=[[ts + 2 * j, v] for j in range(n)], exc='none')
        try:
            self.store.candles.add_multiple_1m_candles(rows, self.ex, B)
        except Exception as ex:
            e['exc'] = type(ex).__name__
        e['post'] = self.series('1m')
        return e


def spacing_event(d, layout, bad, later_gap=False):
    """research.backtest on candle sets whose leading candles are d ms apart.  layout: '1' one traded symbol, '2t' two
    traded symbols, 't+d' a traded symbol and a symbol that is only a DATA route; bad: which set is badly spaced
    ('first' | 'second' | 'both' | 'none')"""
    from .. import session as S
    from jesse.strategies import Strategy

    class Idle(Strategy):
        def should_long(self):
            return False

        def go_long(self):
            pass

    def mk(dd):
        c = np.zeros((12, 6))
        for i in range(12):
            c[i] = [T0 + i * 60000, 100, 100, 100, 100, 5]
        c[1:, 0] += dd - 60000                     # only the first gap differs
        if later_gap:
            c[6:, 0] += 120000
        return c
    syms = [B] if layout == '1' else [B, 'ETH-USDT']
    isbad = [bad in ('first', 'both'), bad in ('second', 'both')][:len(syms)]
    candles = {s: mk(d if isbad[j] else 60000) for j, s in enumerate(syms)}
    routes = [{'symbol': s, 'timeframe': '1m'} for s in (syms if layout != 't+d' else syms[:1])]
    data = [{'symbol': syms[1], 'timeframe': '5m'}] if layout == 't+d' else []
    out = S.run_backtest({}, S.futures_config(), candles, routes=routes, data_routes=data, strategy_cls=Idle)
    raised = out['exc'] is not None
    anybad = bool(d != 60000 and any(isbad))
    return dict(k='spacing', d=int(d), raised=raised, exc=(out['exc'] or 'none').split(':')[0], layout=layout, bad=bad,
                later_gap=bool(later_gap), anybad=anybad, clean=bool(not anybad and not later_gap))


def warmup_event(minutes):
    """research.backtest whose warm-up batch holds the rows `minutes` (minute indices, in this order: repeated or
    older rows after the first one = overlapping exchange pages); post = the 1m series the strategy reads at its first
    step (warm-up rows + the first trading minute)"""
    from .. import session as S
    from jesse.strategies import Strategy
    got = {}

    class Reader(Strategy):
        def should_long(self):
            return False

        def go_long(self):
            pass

        def before(self):
            if self.index == 0:
                got['rows'] = [[int((r[0] - T0) // 30000), int(r[1])] for r in self.candles]
    W = max(minutes) + 1
    warm = np.array([[T0 + m * 60000, 100 + j, 100 + j, 100 + j, 100 + j, 1.0] for j, m in enumerate(minutes)])
    trade = np.array([[T0 + (W + i) * 60000, 500 + i, 500 + i, 500 + i, 500 + i, 1.0] for i in range(4)])
    out = S.run_backtest({}, S.futures_config(), {B: trade}, routes=[{'symbol': B, 'timeframe': '1m'}], strategy_cls=Reader,
                         warmup={B: warm})
    chunk = [[2 * m, 100 + j] for j, m in enumerate(minutes)] + [[2 * W, 500]]
    return dict(k='batch', chunk=chunk, exc=(out['exc'] or 'none').split(':')[0], post=got.get('rows', []), via='research.backtest')


def sig_of(v):
    """stable class: drop the timeframe from add_candle(<tf>)"""
    if v.startswith("add_candle("):
        return "add_candle" + v[v.index(")") + 1:]
    return v


def run(ctx):
    rng = random.Random(ctx.seed)
    ctx.assumptions += ["given candles are sorted by timestamp, unique, inside (or after) the requested interval",
                        "interval bounds and candle timestamps are minute-aligned",
                        "add_candle is driven in backtest mode (with_execution=False, with_generation=False)",
                        "an exception on an unknown older timestamp is tolerated when the series stays unchanged"]
    traces, samples = [], []
    tid = 0
    # ------------------------------------------------------------ M + pattern export: gap filling
    maxlen = ctx.pick(7, 8)
    r, rdev, rcur = tlc.run_parallel([
        dict(module="FillAbsentMC", cfg_text=fa_cfg(maxlen, True), workers=1, coverage=True, timeout=900),
        dict(module="FillAbsentMC", cfg_text=fa_cfg(maxlen, False, "truthy"), workers=1, timeout=900),
        dict(module="FillAbsentMC", cfg_text=fa_cfg(maxlen, False, "cursor"), workers=1, timeout=900)])
    if not rcur.violation:
        raise Machinery("the cursor deviation (ascending batch assumed) does not show in FillAbsentMC")
    ctx.add_tlc(r, "FillAbsentMC MaxLen=%d (presence patterns x close=0 subsets x first open 0 x flat market)" % maxlen)
    if r.violation:
        raise Machinery("FillAbsentMC violates %s\n%s" % (r.violation["name"], r.violation["trace"][:2000]))
    if not rdev.violation:
        raise Machinery("the truthiness deviation (last_close or first_open) does not show in FillAbsentMC")
    ctx.coverage["fill_model_deviation_truthy_close"] = {"violated": rdev.violation["name"]}
    pats = [json.loads(p[1]) for p in tlc.tagged(r, "PATTERN")]
    if len(pats) != r.distinct // 2:
        ctx.notes.append("pattern export: %d patterns vs %d distinct states" % (len(pats), r.distinct))
    ev = []
    nz = 0
    for j, p in enumerate(pats):
        given = [tuple(g) for g in p["given"]]
        haszero = any(g[2] == 0 or g[1] == 0 for g in given)
        nz += haszero
        # zeros as 0.0 / -0.0 / int 0; every 3rd case with tiny positive prices (unit 2^-40)
        ev.append(real_fill(given, p["start"], p["end"], unit=(2.0 ** -40 if j % 3 == 2 else 1.0),
                            negzero=(j % 4 == 1), ints=(j % 4 == 3 and j % 3 != 2)))
        n = p["end"] - p["start"] + 1
        inside = [g for g in p["given"] if g[0] <= p["end"]]
        if 0 < len(inside) < n:
            ctx.nontrivial.add(("fill", p["start"], p["end"], tuple((g[0], g[1], g[2]) for g in p["given"])))
    tid += 1
    traces.append({"id": tid, "hdr": {"src": "R-fill", "tf": "1m", "init": []}, "ev": ev})
    samples.append({"kind": "R: TLC pattern through the real _fill_absent_candles", "event": ev[len(ev) // 2]})
    n_pat = len(pats)
    ctx.log("fill: %d TLC patterns replayed" % n_pat)
    # random long patterns
    ev = []
    n_long = ctx.pick(150, 3000)
    for c in range(n_long):
        n = rng.choice([1, 2, 8, 30, 60, rng.randint(9, 300)])
        start = rng.randint(0, 5000)
        style = c % 6
        if style == 0:
            pres = {rng.randrange(n)}                                  # everything but one missing
        elif style == 1:
            pres = set(range(rng.randint(1, n), n))                    # missing at the start
            pres = pres or {n - 1}
        elif style == 2:
            pres = set(range(0, rng.randint(1, n)))                    # missing at the end
        elif style == 3:
            a = rng.randint(0, n - 1)
            b2 = rng.randint(a, n - 1)
            pres = set(range(n)) - set(range(a, b2 + 1)) or {0}        # one hole in the middle
        else:
            p = rng.choice([0.1, 0.5, 0.9])
            pres = {m for m in range(n) if rng.random() < p} or {rng.randrange(n)}
        vstyle = c % 5           # value corner cases: ordinary / closes hitting 0 / first open 0 / equal prices / tiny
        given, price = [], (rng.randint(50, 500) if vstyle in (0, 4) else rng.randint(1, 6))
        for m in sorted(pres):
            o = price + (rng.randint(-3, 3) if vstyle != 3 else 0)
            cl = o + (rng.randint(-3, 3) if vstyle != 3 else 0)
            if vstyle == 1 and rng.random() < 0.4:
                cl = 0
            if vstyle == 2 and not given:
                o = 0
            o, cl = max(o, 0), max(cl, 0)
            given.append((start + m, o, cl, max(o, cl) + (rng.randint(0, 2) if vstyle != 3 else 0),
                          max(min(o, cl) - (rng.randint(0, 2) if vstyle != 3 else 0), 0), rng.randint(0, 90), len(given) + 1))
            price = cl if cl else rng.randint(1, 6)
        if rng.random() < 0.2:
            given.append((start + n + rng.randint(0, 3), price, price, price, price, 1, len(given) + 1))
        # batch shapes: unsorted (newest first / shuffled pages), a minute delivered twice, candles before the start
        bshape = (c // 5) % 5
        if bshape == 1:
            given.reverse()
        elif bshape == 2 and len(given) > 1:
            k = rng.randrange(1, len(given))
            given = given[k:] + given[:k]
        elif bshape == 3:
            g = rng.choice(given)
            given.insert(rng.randint(0, len(given)), (g[0], g[1] + 1, g[2] + 1, g[3] + 1, g[4] + 1, g[5] + 1, len(given) + 1))
        elif bshape == 4 and start > 3:
            given.insert(rng.randint(0, len(given)), (start - rng.randint(1, 3), price + 2, price + 2, price + 2, price + 2, 1, len(given) + 1))
        ev.append(real_fill(given, start, start + n - 1, unit=(2.0 ** -40 if vstyle == 4 else 1.0),
                            negzero=(c % 7 == 3), ints=(c % 7 == 5 and vstyle != 4)))
        if len(pres) < n:
            ctx.nontrivial.add(("fill-long", c))
    tid += 1
    traces.append({"id": tid, "hdr": {"src": "T-fill", "tf": "1m", "init": []}, "ev": ev})
    # ------------------------------------------------------------ M: add_candle
    # (LB, prefill, depth, maxlen, bulk inserts up to, batches of batch_add_candle up to)
    insts = ctx.pick([(2, 0, 6, 5, 3, 0), (20, 22, 2, 26, 2, 0), (2, 0, 3, 4, 0, 3), (20, 22, 1, 26, 0, 3)],
                     [(2, 0, 7, 6, 3, 0), (3, 0, 6, 6, 2, 0), (20, 22, 2, 26, 3, 0), (20, 22, 3, 26, 0, 0), (2, 0, 3, 5, 1, 4),
                      (20, 22, 1, 26, 0, 4)])
    jobs, labels = [], []
    for inst in insts:
        for q in (False, True):
            jobs.append(dict(module="AddCandle", cfg_text=ac_cfg(*inst, q=q, export=False), workers=(1 if q else 4), coverage=not q, timeout=1200))
            labels.append((inst, q))
        jobs.append(dict(module="AddCandle", cfg_text=ac_cfg(*inst, q=True, export=True), workers=1, timeout=1200))
        labels.append((inst, "export"))
    results = tlc.run_parallel(jobs, max_procs=6)
    model_ce = []
    exports = []
    for (inst, q), r in zip(labels, results):
        lab = "AddCandle LB=%d prefill=%d depth=%d maxlen=%d multi=%d batch=%d %s" % (inst + ({False: "repaired", True: "as-code", "export": "export"}[q],))
        if q == "export":
            exports.append((inst, r))
            continue
        ctx.add_tlc(r, lab)
        if q is False and not r.violation:
            for a in ("AddAny",) + (("MultiAny",) if inst[4] else ()) + (("BatchAny",) if inst[5] else ()):
                if r.coverage.get(a, (0, 0))[1] == 0:
                    raise Machinery("vacuity: action %s never taken in %s" % (a, lab))
        if q is False and r.violation:
            raise Machinery("AddCandle.tla (repaired) violates %s for %r\n%s" % (r.violation["name"], inst, r.violation["trace"][:2500]))
        if q is True:
            model_ce.append({"instance": lab, "violated": r.violation["name"] if r.violation else None})
            if not r.violation:
                raise Machinery("the look-back deviation does not show in the model instance %r" % (inst,))
    ctx.coverage["model_counterexamples_as_the_code"] = model_ce
    # ------------------------------------------------------------ R: every transition into a real CandlesState
    st = Store(bucket=8)
    n_edges = 0
    for inst, r in exports:
        lb, prefill = inst[0], inst[1]
        edges = [json.loads(e[1]) for e in tlc.tagged(r, "EDGE")]
        n_edges += len(edges)
        ctx.log("AddCandle %r: %d transitions" % (inst, len(edges)))
        cap = ctx.pick(2500 if inst[5] else 6000, 25000)
        if len(edges) > cap:
            edges = rng.sample(edges, cap)
        for idx, e in enumerate(edges):
            hist = e["hist"]
            for tf in (("1m", "5m") if idx % 4 == 0 and not any(h["k"] == "multi" for h in hist) else ("1m",)):
                st.fresh()
                for j in range(1, prefill + 1):
                    st.add(tf, 2 * j, 0)
                init = st.series(tf)
                evs = []
                for h in hist:
                    evs.append(st.add(tf, h["ts"], h["v"]) if h["k"] == "add" else
                               (st.multi(h["ts"], h["n"], h["v"]) if h["k"] == "multi" else st.batch(tf, h["tss"], h["v"])))
                tid += 1
                traces.append({"id": tid, "hdr": {"src": "R-add", "tf": tf, "init": init, "lb": lb}, "ev": evs})
                if len(hist) >= 2 or prefill:
                    ctx.nontrivial.add(("R-add", tf, prefill, json.dumps(hist)))
        if edges:
            samples.append({"kind": "R: AddCandle.tla witness on a real CandlesState (prefill %d rows)" % prefill,
                            "hist": edges[len(edges) // 2]["hist"], "expected_post_tail": edges[len(edges) // 2]["post"]})
    n_r = tid - 2
    ctx.log("add: %d model transitions, %d replays" % (n_edges, n_r))
    # ------------------------------------------------------------ T: random add sequences (>= 22 rows)
    n_seq = ctx.pick(40, 600)
    for s in range(n_seq):
        tf = "1m" if s % 3 else "5m"
        st.bucket = rng.choice([4, 8, 50, 1000])
        st.fresh()
        nrows = rng.randint(22, 60)
        ts = 0
        for j in range(nrows):
            ts += 2 if (tf == "1m" or rng.random() < 0.85) else 4
            st.add(tf, ts, 0)
        init = st.series(tf)
        evs, v = [], 1
        for step in range(ctx.pick(60, 150)):
            cur = st.series(tf)
            last = cur[-1][0] if cur else 0
            x = rng.random()
            if x < 0.25:
                evs.append(st.add(tf, last + 2, v))
            elif x < 0.4:
                evs.append(st.add(tf, last, v))
            elif x < 0.8:
                k = rng.choice([0, 1, 2, 3, len(cur) - 2, len(cur) - 3, rng.randrange(len(cur))])
                evs.append(st.add(tf, cur[max(0, min(k, len(cur) - 1))][0], v))
            elif x < 0.86:
                # batch_add_candle: a walk that may repeat / step back inside the batch (overlapping exchange pages)
                t0 = rng.choice([last + 2, last + 2, last, last - 2 * rng.randint(1, 4)] + ([last + 4] if tf != "1m" else []))
                tss = [max(t0, 2)]
                for _ in range(rng.randint(1, 6)):          # 1m series stay gapless (forward steps of one minute only)
                    tss.append(max(tss[-1] + rng.choice([2, 2, 2, 0, -2, -4]), 2))
                evs.append(st.batch(tf, tss, v))
                v += len(tss)
            elif x < 0.93 or tf != "1m":
                evs.append(st.add(tf, rng.choice([c[0] for c in cur[:-1]] or [3]) - 1, v))      # odd = unknown older
            else:
                n = rng.randint(1, 5)
                kind = rng.random()
                start = last + 2 if kind < 0.5 else (last - 2 * (n - 1) if kind < 0.85 else last - 2 * rng.randint(0, n))
                evs.append(st.multi(max(start, 2), n, v))
            v += 1
        tid += 1
        traces.append({"id": tid, "hdr": {"src": "T-add", "tf": tf, "init": init, "lb": 20}, "ev": evs})
        ctx.nontrivial.add(("T-add", s))
        if s == 0:
            samples.append({"kind": "T: random add sequence on %d stored rows (first 6 events)" % nrows, "tf": tf,
                            "init_tail": init[-3:], "events": [{k: (x[-3:] if k == "post" else x) for k, x in e.items()} for e in evs[:6]]})
    # ------------------------------------------------------------ T: re-sent candles that differ in a SUBSET of the fields
    import itertools
    n_fld = 0
    subsets = [()] + [c for r in (1, 2) for c in itertools.combinations(range(5), r)] + [(0, 1, 2, 3, 4)]
    for tf in ("1m", "5m"):
        for where in ("last", "older"):
            st.fresh()
            nrows = 24
            for j in range(1, nrows + 1):
                st.addrow(tf, 2 * j, [100, 101, 110, 90, 50])
            init = st.series6(tf)
            evs = []
            for sub in subsets:
                k = nrows if where == "last" else rng.choice([1, 2, 3, nrows - 1, nrows - 5])
                cur = st.series6(tf)[k - 1][1:]
                new = [x + (3 if i in sub else 0) for i, x in enumerate(cur)]      # o, c, h, l, v: only `sub` changes
                evs.append(st.addrow(tf, 2 * k, new))
                evs[-1]["changed"] = ["ochlv"[i] for i in sub]
                n_fld += 1
                if sub:
                    ctx.nontrivial.add(("T-fields", tf, where, sub))
            tid += 1
            traces.append({"id": tid, "hdr": {"src": "T-fields", "tf": tf, "init": init, "lb": 20}, "ev": evs})
    samples.append({"kind": "T: re-sent 5m candle differing only in high", "event": {k: (v[-2:] if k == "post" else v) for k, v in
                    next(e for e in traces[-2]["ev"] if e.get("changed") == ["h"]).items()}})
    # ------------------------------------------------------------ T: warm-up injection of a real research.backtest
    n_wu = 0
    for c in range(ctx.pick(10, 60)):
        n = rng.randint(6, 40)
        mins = list(range(n))
        for _ in range(rng.randint(1, 3)):                      # overlapping pages: re-send 1-3 rows somewhere after row 0
            at = rng.randint(1, len(mins))
            back = rng.randint(1, min(3, at))
            mins[at:at] = [mins[at - 1] - b for b in range(back - 1, -1, -1)] if c % 2 else [mins[at - 1]]
        if c == 0:
            mins = list(range(n))                               # control: a clean batch
        tid += 1
        traces.append({"id": tid, "hdr": {"src": "T-warmup", "tf": "1m", "init": []}, "ev": [warmup_event(mins)]})
        n_wu += 1
        if c:
            ctx.nontrivial.add(("T-warmup", tuple(mins)))
    samples.append({"kind": "T: warm-up batch with re-sent rows through research.backtest", "event": traces[-1]["ev"][0]})
    # ------------------------------------------------------------ T: research.backtest spacing validation
    ev = []
    for d in [60000, 120000, 30000, 0, 59999, 60001, 300000, -60000, 3600000, 61000]:
        combos = [('1', 'first', False), ('2t', 'first', False), ('2t', 'second', False), ('2t', 'both', False),
                  ('t+d', 'first', False), ('t+d', 'second', False), ('t+d', 'both', False), ('1', 'first', True)]
        if d == 60000:
            combos = [('1', 'none', False), ('2t', 'none', False), ('t+d', 'none', False), ('1', 'none', True)]
        elif d in (30000, 3600000, 61000):
            combos = [('1', 'first', False), ('t+d', 'second', False), ('2t', 'second', False)]
        for (layout, bad, later) in combos:
            ev.append(spacing_event(d, layout, bad, later))
            if d != 60000:
                ctx.nontrivial.add(("spacing", d, layout, bad, later))
    tid += 1
    traces.append({"id": tid, "hdr": {"src": "T-spacing", "tf": "1m", "init": []}, "ev": ev})
    accepted = sum(1 for e in ev if not e["raised"])
    samples.append({"kind": "T: research.backtest spacing", "events": ev[:5]})
    # ------------------------------------------------------------ TLC decides
    verdicts, results = tlc.validate_traces("TraceCandleSeries", "TraceCandleSeries.cfg", traces, ctx.scratch,
                                            parts=ctx.pick(8, 10), timeout=1800, heap="3g", max_procs=10)
    byid = {t["id"]: t for t in traces}
    seen = {}
    for r in results:
        for b in tlc.tagged(r, "BAD"):
            _, i, l, v = b
            if v.startswith("machinery:"):
                raise Machinery("trace %s event %s: %s" % (i, l, v))
            seen.setdefault(sig_of(v), []).append((i, l, v))
    for sig, occ in sorted(seen.items()):
        occ.sort()
        i, l, v = occ[0]
        t = byid[i]
        e = t["ev"][l - 1]
        pre = t["ev"][l - 2]["post"] if l >= 2 and "post" in t["ev"][l - 2] else t["hdr"]["init"]
        ctx.violation(sig, "%s trace %d (%s) event %d: %s; series before: ...%s ; %d trace(s)" % (
            v, i, t["hdr"]["src"], l, json.dumps(e)[:500], json.dumps(pre[-4:] if e["k"] in ("add", "multi") else []), len(occ)),
                      {"hdr": t["hdr"], "ev": t["ev"][:l]})
        for o in occ[1:]:
            ctx.violations.append({"sig": sig, "detail": "trace %d event %d" % (o[0], o[1]), "payload": None})
    ctx.evaluations = sum(len(t["ev"]) for t in traces)
    ctx.coverage.update({
        "traces_validated_against_impl": len(traces), "fill_patterns_from_tlc": n_pat,
        "fill_patterns_with_a_zero_price": nz, "fill_patterns_random": n_long,
        "add_model_transitions": n_edges, "add_transitions_replayed": n_r, "add_random_sequences": n_seq,
        "warmup_batches_through_research_backtest": n_wu, "field_subset_replacements": n_fld, "spacing_cases": len(ev), "spacing_cases_accepted": accepted,
        "trace_events_checked_by_tlc": sum(r.generated for r in results),
        "rejected_clauses": {k: len(v) for k, v in seen.items()}, "samples": samples,
        "rule": "fill: every presence pattern of every interval <= MaxLen exported by TLC (non-trivial: at least one and "
                "not every minute provided) + random long patterns; add: one replay per transition of AddCandle.tla "
                "(shortest witness, 1m and 5m series; non-trivial: >= 2 operations or 22 prefilled rows; distinct by "
                "witness) + random sequences on >= 22 rows; spacing: leading gap != 60000 ms.",
        "exhaustive": True,
    })


def replay(ctx, rp):
    p = rp["payload"]
    src = p["hdr"]["src"]
    evs = []
    if src.endswith("fill"):
        for e in p["ev"]:
            evs.append(real_fill([tuple(g) for g in e["given"]], e["start"], e["end"], unit=2.0 ** e.get("unit_log2", 0),
                                 negzero=e.get("negzero", False), ints=e.get("ints", False)))
        init = []
    elif src == "T-warmup":
        e = p["ev"][-1]
        evs.append(warmup_event([c[0] // 2 for c in e["chunk"][:-1]]))
        init = []
    elif src.endswith("add") or src == "T-fields":
        st = Store(bucket=8)
        tf = p["hdr"]["tf"]
        six = p["hdr"]["src"] == "T-fields"
        for c in p["hdr"]["init"]:
            st.addrow(tf, c[0], c[1:]) if six else st.add(tf, c[0], c[1])
        init = st.series6(tf) if six else st.series(tf)
        for e in p["ev"]:
            if "row" in e:
                evs.append(st.addrow(tf, e["ts"], e["row"][1:]))
                continue
            evs.append(st.add(tf, e["ts"], e["v"]) if e["k"] == "add" else
                       (st.multi(e["chunk"][0][0], len(e["chunk"]), e["chunk"][0][1]) if e["k"] == "multi" else
                        st.batch(tf, [c[0] for c in e["chunk"]], e["chunk"][0][1])))
    else:
        for e in p["ev"]:
            evs.append(spacing_event(e["d"], e["layout"], e["bad"], e["later_gap"]))
        init = []
    tr = [{"id": 1, "hdr": dict(p["hdr"], init=init), "ev": evs}]
    verdicts, results = tlc.validate_traces("TraceCandleSeries", "TraceCandleSeries.cfg", tr, ctx.scratch, parts=1)
    bad = [b for r in results for b in tlc.tagged(r, "BAD")]
    print("replay verdicts:", bad or "ok")
    for b in bad:
        ctx.violation(sig_of(b[3]), "replay rejected at event %d: %s" % (b[2], b[3]), p)
