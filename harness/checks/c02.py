"""C02 - resting orders fill exactly when and where the price reaches them; market orders at once.
M: Matching.tla (normal simulator, canonical-path properties) and FastMatching.tla (chunk loop; the repaired design
   satisfies the minute-form property, the loop as it stands does not - TLC exports every violating scenario).
R: every counter-example of the as-is fast model is replayed into the real function.
T: (a) exhaustive scenario families executed against the real _simulate_price_change_effect[_multiple_candles]
   with real Order objects and a reaction-scripting strategy stub, completeness decided by TLC (ScenarioCount.tla),
   fills judged by the monitor TraceMatching.tla; (b) in-vivo backtests (both simulators, spot and futures,
   ladders, edits, market orders) recorded with harness.session.Recorder and judged by the same monitor."""
import json, random, time
from concurrent.futures import ThreadPoolExecutor
from .. import tlc, encode
from ..core import Machinery
from ..session import run_isolated, futures_config, spot_config
from ..drivers import matching as mt

META = dict(
    category="model_checking",
    technique="TLA+ models of both matching loops (Matching.tla, FastMatching.tla) checked exhaustively by TLC against "
              "properties stated on the canonical price path / in minute form; every counter-example of the as-is fast "
              "model replayed into the real function; complete scenario families (completeness decided by TLC) and "
              "recorded real backtests validated by TLC with the monitor trace spec TraceMatching.tla",
    text="TLC proves for every candle of the lattice, every arrangement of up to 3 resting orders (ties included) and up "
         "to 2 hook reactions that the normal simulator's loop (candidate selection, doubled on-open entry, stable sorts, "
         "14-branch split, re-selection) fills each order at the first point of the canonical path, from its creation "
         "on, that reaches its price, misses none and never fills a cancelled one; and that the repaired chunk loop "
         "satisfies the minute-form rule while the loop as it stands does not. The same scenario space is executed "
         "against the real functions with real Order objects (TLC decides that the executed set is complete) and, "
         "together with recorded backtests of both simulators on spot and futures, judged by TLC with a monitor that "
         "knows only the price path, the minute ranges and the market-order rule.",
    note="Bounded (lattice 3-5, <= 3 resting orders, <= 2 reactions, chunks of 2-3 minutes for the model; the monitor "
         "itself is unbounded). Trusted: TLC, the rank encoder, the setattr recorder, the 40-line reaction stub. "
         "Position/wallet effects of a fill are C03/C04; only 'position changed by the order quantity' is checked here.",
    design_ref="4/C02")

FILL = ['fill', 'market', 'path']


def matching_cfg(K, N, R, liq=False, props=None):
    inv = ["NoMissedFill", "NoMissedInRange", "TempFollowsPath", "SkipBranchesDead", "MarketFilledInMinute", "TypeOK"] + (["LiqEffect"] if liq else [])
    prop = ["FillAtFirstReach", "NeverBeforeSubmit", "FinalIsFinal", "PathOrder", "ReactionAfterFill"] + \
           (["LiqIff", "LiqOnlyInCheck"] if liq else [])
    if props is not None:
        inv = [x for x in inv if x in props]
        prop = [x for x in prop if x in props]
    return ("SPECIFICATION Spec\nCHECK_DEADLOCK FALSE\nCONSTANTS K = %d MaxOrders = %d MaxReact = %d Liq = %s\n" % (
        K, N, R, "TRUE" if liq else "FALSE") + "".join("INVARIANT %s\n" % i for i in inv)
            + "".join("PROPERTY %s\n" % i for i in prop))


def fast_cfg(K, N, m, R, variant, export=False):
    inv = ["ExportCEX"] if export else ["NoMissedFill", "NoFillOutsideRange", "TypeOK"]
    return ("SPECIFICATION Spec\nCHECK_DEADLOCK FALSE\nCONSTANTS K = %d MaxOrders = %d ChunkLen = %d MaxReact = %d "
            "Variant = \"%s\" Export = %s\n" % (K, N, m, R, variant, "TRUE" if export else "FALSE")
            + "".join("INVARIANT %s\n" % i for i in inv) + ("" if export else "PROPERTY FinalIsFinal\n"))


def nontrivial_scn(s):
    lo = min(cd[3] for cd in s['mins'])
    hi = max(cd[2] for cd in s['mins'])
    return sum(1 for p in s['prices'] if lo <= p <= hi) >= 2 or len(s['script']) > 0


def report(ctx, verdicts, payload_of, label):
    """turn TLC's verdict lines into violations (signature = the clause TLC printed)"""
    n = 0
    for tid, v in sorted(verdicts.items()):
        for clause, l in (v[3] if len(v) > 3 else []):
            if clause.startswith("machinery:"):
                raise Machinery("%s trace %s: %s at event %s" % (label, tid, clause, l))
            n += 1
            ctx.violation(clause, "%s, trace %s, event %s: %s" % (label, tid, l, clause), payload_of(tid))
    return n


def run_family(ctx, fam, label, check, count_doc=None, vmode='mix', batch=800):
    """execute scenarios against the real code (forked workers), let TLC judge them and (count_doc) decide that the
    executed set is exactly the environment set of the model"""
    t0 = time.time()
    items = [(fam[i:i + batch], i + 1, check, vmode, ctx.seed * 7919 + i) for i in range(0, len(fam), batch)]
    res = run_isolated(mt.run_scenario_batch, items)
    traces, fills = [], 0
    for it, r in zip(items, res):
        if r[0] == 'EXC':
            raise Machinery("scenario worker failed: %s" % r[1])
        traces += r[0]
        fills += r[2]
        for scn, cls, msg in r[1]:
            ctx.violation("%s:raises:%s" % (scn['kind'], cls), "%s scenario raised %s: %s" % (label, cls, msg),
                          {'kind': 'scenario', 'scn': scn, 'vmode': 'id', 'seed': 0, 'check': check})
    seeds = {}
    for it in items:
        for j in range(len(it[0])):
            seeds[it[1] + j] = it[4] + j
    verdicts, results = tlc.validate_traces("TraceMatching", "TraceMatching.cfg", traces, ctx.sub("tv-" + label), parts=14)

    def payload(tid):
        sd = seeds[tid]
        vm = vmode if vmode != 'mix' else ('id' if sd % 2 else 'real')
        return {'kind': 'scenario', 'scn': fam[tid - 1], 'vmode': vm, 'seed': sd, 'check': check}
    nb = report(ctx, verdicts, payload, label)
    complete = None
    if count_doc is not None:
        doc = dict(count_doc, keys=[mt.scen_key(s) for s in fam])
        path = ctx.sub("count-" + label) + "/keys.json"
        encode.dump(doc, path)
        r = tlc.run("ScenarioCount", cfg_file="ScenarioCount.cfg", env={"TRACE_FILE": path}, timeout=900,
                    scratch=ctx.sub("count-" + label))
        line = tlc.tagged(r, "SCENARIOS")
        if not line:
            raise Machinery("ScenarioCount printed nothing\n" + r.raw[-1500:])
        complete = line[0]
        if complete[4] != "complete":
            raise Machinery("scenario enumeration of %s is not the model's environment set: %r" % (label, complete))
    nt = 0
    for s in fam:
        if nontrivial_scn(s):
            nt += 1
            ctx.nontrivial.add((label,) + tuple(mt.scen_key(s)))
    ctx.evaluations += len(fam)
    ctx.log("%s: %d scenarios, %d fills, %d rejected clauses, complete=%s, %.0fs" % (
        label, len(fam), fills, nb, complete, time.time() - t0))
    return {'label': label, 'scenarios': len(fam), 'fills': fills, 'nontrivial': nt, 'violating_clauses': nb,
            'tlc_states': sum(r.generated for r in results),
            'completeness_by_tlc': {'expected': complete[1], 'seen': complete[2], 'verdict': complete[4]} if complete else None}, traces


def random_scenarios(rng, n, K, N, R, F, kind, m=1):
    cds = mt.candles_on(K)
    out = []
    for _ in range(n):
        mins = [list(rng.choice(cds)) for _ in range(m)]
        k = rng.randint(0 if kind == 'step' else 1, N)
        prices = [rng.randint(1, K) for _ in range(k)]
        r = rng.randint(0, R)
        fs = sorted(rng.randint(1, F) for _ in range(r))
        script = []
        for f in fs:
            x = rng.random()
            if x < 0.5:
                script.append([f, 's', rng.randint(1, K)])
            elif x < 0.75:
                script.append([f, 'm', 0])
            else:
                script.append([f, 'c', rng.randint(1, N + R)])
        out.append({'kind': kind, 'mins': mins, 'prices': prices, 'script': script})
    return out


def vivo_items(ctx, n, check, sims=('step', 'fast'), id0=1, hooks_bias=False):
    items = []
    for i in range(n):
        r = random.Random(ctx.seed * 100003 + i)
        fast = sims[i % len(sims)] == 'fast'
        spot = (i // len(sims)) % 3 == 2
        tfm = r.choice([1, 1, 1, 3, 5])
        n_min = r.choice([150, 240, 300])
        real = r.random() < 0.25
        fee = r.choice([0.0, 0.0, 1 / 1024])
        if spot:
            cfg = spot_config(fee=fee, balance=100000)
        else:
            cfg = futures_config(lev=r.choice([1, 2, 5]), fee=fee, balance=100000,
                                 mode='cross' if r.random() < 0.8 else 'isolated')
        pol = dict(seed=ctx.seed * 1000 + i, spot=spot, max_entry_rows=r.choice([1, 2, 3]), max_exit_rows=r.choice([1, 2, 3]),
                   p_edit=r.choice([0.0, 0.15, 0.4]), p_cancel=r.choice([0.1, 0.3]), entry_every=r.choice([5, 7, 11]),
                   p_liquidate=r.choice([0.0, 0.03]), p_edit_on_reduced=r.choice([0.0, 0.3, 0.8]),
                   exits_in=r.choice(['on_open', 'mixed'] if hooks_bias else ['go', 'on_open', 'mixed']),
                   tick=1.0 if not real else r.choice([0.37, 0.37, 0.012]))      # 0.012: exits within 0.015 % of the price
        # exits declared together with the entries must lie beyond every entry row (rows are within 2 ticks of the
        # price): an exit on the wrong side of the fill makes the strategy layer flip the position endlessly
        far = pol['exits_in'] != 'on_open'
        pol['sl_dist'] = r.choice([(3, 6), (4, 5)] if far else [(1, 3), (3, 6)])
        pol['tp_dist'] = r.choice([(3, 5), (4, 7)] if far else [(1, 3), (2, 5)])
        if real:
            walk = dict(kind='real', n=n_min, seed=ctx.seed * 31 + i, vol=0.004)
        else:
            walk = dict(kind='lattice', n=n_min, seed=ctx.seed * 31 + i, step=r.choice([2, 3]), wick=r.choice([1, 3]),
                        gap_p=r.choice([0.1, 0.3]), flat_p=r.choice([0.05, 0.2]))
        it = dict(id=id0 + i, policy=pol, cfg=cfg, walk=walk, fast=fast, tf={1: '1m', 3: '3m', 5: '5m'}[tfm], check=check)
        if i % 16 in (6, 7):    # orders cancelled while queued / half-filled ladders cancelled
            it['strategy'] = 'cancel_race'
            it['cfg'] = futures_config(lev=2, fee=0.0, balance=100000)
        if i % 16 in (14, 15):  # market orders submitted while a market order is being filled
            it['strategy'] = 'nested_market'
            it['cfg'] = futures_config(lev=2, fee=0.0, balance=100000)
        if i % 16 in (2, 3):    # a market order created by the fill hook of one entry while other entries rest further on
            it['strategy'] = 'hook_market'
            it['cfg'] = futures_config(lev=2, fee=0.0, balance=100000)
        if i % 16 in (10, 11):  # orders created in on_close_position after a mid-minute close (order store reset)
            it['strategy'] = 'close_hook'
            it['cfg'] = futures_config(lev=2, fee=0.0, balance=100000)
            it['walk'] = dict(kind='lattice', n=n_min, seed=ctx.seed * 31 + i, step=3, wick=3, gap_p=0.1, flat_p=0.05)
        if i % 8 in (4, 5):     # two routes on one exchange: matching must stay per symbol
            it['symbols'] = ['BTC-USDT', 'ETH-USDT']
            it['id'] = 100000 + i
        items.append(it)
    return items


def run_vivo(ctx, items, label):
    t0 = time.time()
    res = run_isolated(mt.run_vivo, items)
    traces, stats = [], []
    for it, r in zip(items, res):
        if r[0] == 'EXC':
            raise Machinery("in-vivo worker failed: %s" % r[1])
        stats.append(r[1])
        if isinstance(r[0], list):
            traces += r[0]
        elif r[0] is not None:
            traces.append(r[0])
    verdicts, results = tlc.validate_traces("TraceMatching", "TraceMatching.cfg", traces, ctx.sub("tv-" + label), parts=14)
    by = {it['id']: it for it in items}
    for it in items:
        for k in range(len(it.get('symbols') or [])):
            by[it['id'] * 4 + k] = it
    nb = report(ctx, verdicts, lambda tid: {'kind': 'vivo', 'item': by[tid]}, label)
    agg = {'runs': len(items), 'fills': sum(s['fills'] for s in stats), 'cancels': sum(s['cancels'] for s in stats),
           'market_orders': sum(s['markets'] for s in stats), 'minutes_or_chunks': sum(s['minutes'] for s in stats),
           'runs_ending_in_a_jesse_exception': sum(1 for s in stats if s['exc'] and not s.get('hang')),
           'runs_dropped_because_the_strategy_livelocked_jesse': sum(1 for s in stats if s.get('hang')),
           'jesse_exceptions': {c: sum(1 for s in stats if s['exc'] and s['exc'].split(':')[0] == c)
                                for c in sorted({s['exc'].split(':')[0] for s in stats if s['exc']})},
           'liquidations': sum(s['liq'] for s in stats), 'violating_clauses': nb,
           'tlc_states': sum(r.generated for r in results),
           'events_consumed': sum(v[0] for v in verdicts.values())}
    agg['runs'] = len(traces)
    for it, s in zip(items, stats):
        if s['fills'] >= 3 and s['cancels'] >= 1:
            ctx.nontrivial.add((label, it['policy']['seed'], it['cfg']['type'], it['fast'], it['tf']))
    ctx.evaluations += len(items)
    ctx.log("%s: %s %.0fs" % (label, agg, time.time() - t0))
    return agg, traces


def replay_cex(ctx, cex_lines, check):
    """R: the counter-examples TLC found in the as-is fast model, replayed into the real function"""
    seen, fam, classes = set(), [], {}
    for t in cex_lines:
        key = t[1]
        if key in seen:
            continue
        seen.add(key)
        sc = json.loads(t[1])
        fam.append({'kind': 'fast', 'mins': [list(x) for x in sc['mins']], 'prices': list(sc['prices']), 'script': []})
        classes[len(fam)] = (t[3], t[4], t[5])
    return fam, classes


def run(ctx):
    ctx.assumptions += [
        "object-level scenarios: the strategy is a stub whose hook runs the scripted reaction (submit one order / "
        "cancel one order) inside Order.execute(); sides and types of the orders vary, quantities are 1",
        "in-vivo: single route, candle series whose length is a multiple of the fast-mode chunk (the ValueError for "
        "other lengths belongs to C07/C12)",
        "fast mode: an order created by a hook inside minute k is owed a fill from minute k+1 on (weakest reading)"]
    cov = ctx.coverage
    mt.preimport()
    pool = ThreadPoolExecutor(max_workers=4)
    W = ctx.pick(6, 14)
    Km, Nm, Rm = ctx.pick((4, 3, 1), (5, 3, 2))
    jobs = {
        'matching': pool.submit(tlc.run, "Matching", cfg_text=matching_cfg(Km, Nm, Rm), workers=W, coverage=ctx.quick,
                                timeout=ctx.pick(600, 2400), heap="12g"),
        'fast_fixed': pool.submit(tlc.run, "FastMatching", cfg_text=fast_cfg(3, ctx.pick(2, 3), 2, 1, "fixed"),
                                  workers=ctx.pick(3, 8), coverage=ctx.quick, timeout=ctx.pick(600, 1800)),
        'fast_tree': pool.submit(tlc.run, "FastMatching", cfg_text=fast_cfg(3, 3, 2, 0, "tree", export=True), workers=2,
                                 coverage=ctx.quick, timeout=900),
    }
    if not ctx.quick:
        jobs['fast_fixed_3min'] = pool.submit(tlc.run, "FastMatching", cfg_text=fast_cfg(3, 2, 3, 1, "fixed"), workers=6,
                                              timeout=1800)
        jobs['fast_tree_k4'] = pool.submit(tlc.run, "FastMatching", cfg_text=fast_cfg(4, 3, 2, 0, "tree", export=True),
                                           workers=4, timeout=1800)
    fams = []
    # ---------------- (a) exhaustive scenario families against the real functions
    if ctx.quick:
        plan = [('step', (3, 2, 1, 2), 1), ('step', (4, 2, 1, 1), 1), ('fast', (3, 2, 0, 2), 2)]
    else:
        plan = [('step', (4, 3, 1, 2), 1), ('step', (3, 3, 1, 3), 1), ('step', (3, 2, 2, 2), 1), ('fast', (3, 3, 0, 2), 2),
                ('fast', (3, 2, 1, 2), 2)]
    samples = []
    for kind, (K, N, R, F), m in plan:
        fam = list(mt.step_family(K, N, R, F)) if kind == 'step' else list(mt.fast_family(K, N, m, R, F))
        doc = {'K': K, 'MaxOrders': N, 'MinOrders': 0 if kind == 'step' else 1, 'MaxReact': R, 'MaxF': F, 'ChunkLen': m}
        label = "%s-K%dN%dR%dF%dm%d" % (kind, K, N, R, F, m)
        st, traces = run_family(ctx, fam, label, FILL, count_doc=doc)
        fams.append(st)
        if len(samples) < 2:
            j = next((i for i, s in enumerate(fam) if len(s['prices']) >= 2 and (s['script'] or kind == 'fast')), 0)
            samples.append({'kind': 'scenario executed against the real function', 'scenario': fam[j], 'trace': traces[j]})
    # sampled scenarios from a larger family (no completeness claim)
    rng = random.Random(ctx.seed)
    big = random_scenarios(rng, ctx.pick(1200, 30000), 5, 3, 2, 3, 'step') + \
          random_scenarios(rng, ctx.pick(800, 20000), 4, 3, 1, 2, 'fast', m=3)
    st, _ = run_family(ctx, big, "sampled-K5", FILL)
    fams.append(st)
    # ---------------- (b) in vivo
    agg, vtr = run_vivo(ctx, vivo_items(ctx, ctx.pick(64, 1600), FILL), "in-vivo")
    k = next((i for i, t in enumerate(vtr) if len(t['ev']) > 40), 0)
    samples.append({'kind': 'in-vivo backtest (first 30 events of the encoded trace)', 'hdr': dict(vtr[k]['hdr'], raw=vtr[k]['hdr']['raw'][:5]),
                    'ev': vtr[k]['ev'][:30]})
    # ---------------- M results, R replay of the model's counter-examples
    model = {}
    for name, fut in jobs.items():
        r = fut.result()
        ctx.add_tlc(r, name)
        model[name] = r
        if r.violation:
            raise Machinery("%s: the model violates %s\n%s" % (name, r.violation["name"], r.violation["trace"][:3000]))
    cex_stats = []
    for name in [n for n in jobs if n.startswith('fast_tree')]:
        fam, classes = replay_cex(ctx, tlc.tagged(model[name], "CEX"), ['fill'])
        st, traces = run_family(ctx, fam, "R-" + name, ['fill'], vmode='id')
        cex_stats.append({'model': name, 'model_counter_examples': len(fam), 'reproduced_on_the_real_function':
                          st['violating_clauses'], 'classes': sorted({"/".join(map(str, c)) for c in classes.values()})})
        if fam:
            samples.append({'kind': 'TLC counter-example of the as-is fast model replayed on the real function',
                            'scenario': fam[0], 'trace': traces[0]})
    pool.shutdown()
    cov.update({
        "traces_validated_against_impl": sum(f['scenarios'] for f in fams) + agg['runs'] +
                                         sum(c['model_counter_examples'] for c in cex_stats),
        "scenario_families": fams, "in_vivo": agg, "fast_model_counter_examples": cex_stats, "samples": samples,
        "rule": "scenario = (candle(s) of the lattice, sequence of resting order prices, reaction script); families are "
                "complete products (TLC compares the executed key set with the set built from the model constants); a "
                "scenario is non-trivial when >= 2 resting orders lie inside the range or a reaction is scripted, distinct "
                "by its key. In-vivo run = (policy seed, account type, simulator, timeframe); non-trivial with >= 3 fills "
                "and >= 1 cancellation.",
        "exhaustive": True,
    })


def replay(ctx, rp):
    p = rp["payload"]
    if p['kind'] == 'scenario':
        r = mt.ScenRunner()
        try:
            ev, raw = r.run(p['scn'], p['vmode'], p['seed'])
        finally:
            r.close()
        traces = [mt.scenario_trace(1, p['scn'], ev, raw, p['check'])]
    elif p['kind'] == 'vivo':
        res = run_isolated(mt.run_vivo, [dict(p['item'], id=1)])
        if res[0][0] == 'EXC':
            raise Machinery(res[0][1])
        traces = res[0][0] if isinstance(res[0][0], list) else [res[0][0]]
    else:
        raise Machinery("unknown replay kind %r" % p['kind'])
    verdicts, _ = tlc.validate_traces("TraceMatching", "TraceMatching.cfg", traces, ctx.scratch, parts=1)
    print("replay verdict:", sorted(verdicts.items()))
    report(ctx, verdicts, lambda tid: p, "replay")
