"""C06 - position events/hooks and the trade log are a faithful record of the fills.
M: StrategyLayer.tla (transcription of Position._on_executed_order, Strategy._on_updated_position, ClosedTrades /
   ClosedTrade formulas, _terminate) checked by TLC against the C06 invariants (hook word, one trade per cycle, trade
   fields = fills of the cycle, trade PnL = wallet change of the cycle, flat at the end).
R: TLC counter-examples and TLC-simulated behaviours replayed on the real objects, judged by TraceHooksTrades.tla.
T: in-vivo backtests with policy strategies (multi-point entries, partial take-profits, moved stops, liquidate(),
   wrong-side exits, open position at session end), judged by the same monitor incl. metrics net_profit /
   finishing_balance against the wallet."""
from .. import tlc
from ..core import Machinery
from ..drivers import strat_check as K

META = dict(
    category="model_checking",
    technique="TLA+ model of the strategy layer and trade bookkeeping (StrategyLayer.tla: Position._on_executed_order with "
              "open/increase/reduce/close/flip and reduce-only handling, previous_qty-based hook dispatch, "
              "ClosedTrades.open_trade/close_trade/add_executed_order, ClosedTrade qty/entry/exit/pnl) model-checked by TLC; "
              "model behaviours replayed on the real objects and in-vivo backtests judged by the TLC monitor "
              "TraceHooksTrades.tla (exact rational arithmetic on a price/fee lattice)",
    text="TLC explores all fill orders, user edits and price moves up to the stated depth and checks that every fill fires "
         "exactly the hook its before/after sizes imply, in the order open (inc|red)* close, that every closed cycle yields one "
         "trade whose side, quantity, weighted entry/exit (rationals) and order count are those of the cycle's fills and whose "
         "PnL equals the wallet change of the cycle, and that termination leaves the position flat. The same operators judge "
         "recorded runs of the real code: replayed model behaviours and backtests with random policies on integer price / "
         "dyadic fee lattices, where trade PnL, wallet, metrics net_profit and finishing_balance are compared exactly on the "
         "money lattice and average prices within half a logging unit. Bounded scope; position sizes before/after a fill are "
         "taken as the account reports them (their arithmetic is C03's).",
    note="Trusted: TLC, the recorder (wrappers around Order.__init__/execute/cancel, strategy callbacks), the JSON encoder. "
         "Futures with cross and isolated margin (liquidation orders are fills like any other: hook, trade, wallet), spot with the fee "
         "taken from the base asset (hooks and trade fields; the wallet identity is claimed for futures only), routes 1m/5m/15m/1h with data "
         "routes, both simulators, fee in {0, 1/1024, 1/2048}, prices on a tick lattice (1/20 tick with liquidations); fill times are "
         "judged against the minute of the 1m candle being matched; a run "
         "ended by a jesse exception is judged as a prefix. Model: fee 0, one symbol, wallet relative to the cycle start.",
    design_ref="4/C06")

KINDS_Q = ["ladder", "over", "sized", "fast2", "near", "wrong", "tf5", "fast", "two", "iso", "half", "fast2", "spotfee", "tf15", "tf60", "spotover",
           "spotover", "allin", "isoallin", "flipper"]


def run(ctx):
    ctx.assumptions += ["futures account, cross margin (no liquidations), 1m and 5m trading routes, 1-2 symbols sharing one wallet, both simulators",
                        "prices on a tick lattice, integer quantities, dyadic fee rates: trade PnL and wallet are exact multiples of "
                        "tick/fee-denominator and are compared exactly after rounding to that lattice",
                        "position size before/after each fill as reported by Position (C03 covers its arithmetic)",
                        "fill time = minute of the 1m candle being matched when the order filled (timestamp of the partial candle, "
                        "checked to lie in the candles handed to the matching function with a range that contains the fill price); "
                        "market orders: end of the last matched minute/chunk"]
    samples = []
    # ---------------------------------------------------------------- M
    FULL = dict(multi=True, oversize=True, wrong=True, maxord=8)
    PRE = dict(rrepl=False, rclamp=False)
    jobs = [("model of the tree (reduce-only replacement 5ca726f8, clamped reduce-only fills eed2d42c), full menus: two-point entries, "
             "partial take-profits, oversize and wrong-side rows, edits in every hook; all C06 invariants",
             dict(depth=ctx.pick(9, 11), edit=ctx.pick(1, 2), invariants=K.INV_C06, **FULL)),
            ("model of the tree, one-point entries, deeper; all C06 invariants", dict(depth=ctx.pick(10, 13), edit=1, invariants=K.INV_C06)),
            # the model of the tree BEFORE the two repairs: its counter-examples are replayed below and must NOT be reproduced any more
            ("pre-fix model, oversize reduce-only stop after a partial take-profit: TradeFaithful",
             dict(depth=8, multi=True, oversize=True, edit=0, maxord=8, invariants=["TradeFaithful"], **PRE)),
            ("pre-fix model, oversize reduce-only stop after a partial take-profit: WalletIdentity",
             dict(depth=8, multi=True, oversize=True, edit=0, maxord=8, invariants=["WalletIdentity"], **PRE)),
            ("pre-fix model, wrong-side oversize rows (flip): HooksFaithful",
             dict(depth=8, multi=True, wrong=True, edit=0, maxord=8, invariants=["HooksFaithful"], **PRE)),
            ("pre-fix model, wrong-side oversize rows (flip): NoLivelock",
             dict(depth=8, multi=True, wrong=True, edit=0, maxord=20, invariants=["NoLivelock"], **PRE))]
    rs = tlc.run_parallel([dict(module="StrategyLayer", cfg_text=K.model_cfg(**kw), workers=ctx.pick(2, 4), coverage=(i == 0),
                                timeout=ctx.pick(600, 1500)) for i, (lab, kw) in enumerate(jobs)], max_procs=6)
    cex = []
    for i, ((lab, kw), r) in enumerate(zip(jobs, rs)):
        ctx.add_tlc(r, lab)
        if r.violation and i < 2:
            raise Machinery("StrategyLayer.tla violates %s in the instance '%s' (model and intended design disagree)\n%s"
                            % (r.violation["name"], lab, r.raw[-2500:]))
        if r.violation:
            cex.append((lab, r.violation["name"], K.hist_of_violation(r)))
        ctx.log("M %s: %d distinct states, %s" % (lab, r.distinct, ("violates " + r.violation["name"]) if r.violation else "holds"))
    never = [a for a, (d, g) in rs[0].coverage.items() if g == 0 and a in ("Move", "Fill", "StepA", "StepB", "FlushOne", "Term1", "Term2", "Term3")]
    if never:
        raise Machinery("vacuity: actions never taken in the clean instance: %s" % never)
    ctx.coverage["non_vacuity_witnesses_shortest_history"] = K.witnesses(ctx, K.WIT_C06, **{k: v for k, v in jobs[0][1].items() if k != "invariants"})
    # ---------------------------------------------------------------- R
    items = [{"id": 100000 + j, "hist": h, "B": K.BASE, "src": "counter-example to %s" % inv, "compare": False}
             for j, (lab, inv, h) in enumerate(cex)]
    cex_traces, cex_ids = K.run_replays(ctx, items, compare=False)
    before = len(ctx.violations)
    K.judge(ctx, "TraceHooksTrades", cex_traces, "R-cex", cex_ids, parts=2)
    reproduced = len(ctx.violations) - before
    ctx.coverage["model_counterexamples"] = [{"instance": lab, "invariant": inv, "actions": [a["a"] for a in h]} for lab, inv, h in cex]
    ctx.coverage["model_counterexample_clauses_reproduced_by_the_code"] = reproduced
    hists, rsim = K.simulated_histories(ctx, ctx.pick(80, 700), ctx.pick(12, 16), ctx.seed + 1, edit=ctx.pick(1, 2), **FULL)
    sim_items = [{"id": 200000 + j, "hist": h, "B": K.BASE, "src": "simulated behaviour", "compare": True} for j, h in enumerate(hists)]
    sim_traces, sim_ids = K.run_replays(ctx, sim_items, compare=True)
    bad_r, st_r = K.judge(ctx, "TraceHooksTrades", sim_traces, "R-sim", sim_ids, parts=ctx.pick(4, 12))
    ctx.log("R: %d simulated behaviours replayed, %d counter-examples (%d clauses reproduced)" % (len(sim_traces), len(cex), reproduced))
    if cex_traces:
        t0 = cex_traces[0]
        samples.append({"kind": "R: TLC counter-example (%s) replayed on the real objects" % cex[0][1],
                        "actions": [a["a"] for a in cex[0][2]],
                        "events": [{k: v for k, v in e.items() if k != "act"} for e in t0["ev"] if e["k"] in ("fillb", "hook", "fille", "end")][:16]})
    # ---------------------------------------------------------------- T
    items = K.vivo_items(ctx, ctx.pick(180, 1500), KINDS_Q, ctx.pick(240, 400))
    traces, by_id = K.run_vivo(ctx, items)
    bad_t, st_t = K.judge(ctx, "TraceHooksTrades", traces, "T", by_id, parts=ctx.pick(8, 14))
    for t in traces + sim_traces:
        for w in K.hook_words(t):
            if len(w) >= 3:
                ctx.nontrivial.add(w)
    if traces:
        t0 = traces[0]
        samples.append({"kind": "T: in-vivo run (fills, hooks, end record)", "item": {k: v for k, v in by_id[t0["id"]]["item"].items() if k != "config"},
                        "events": [{k: v for k, v in e.items() if k != "act"} for e in t0["ev"] if e["k"] in ("fillb", "hook", "fille")][:12]
                                  + [{k: (v[:2] if k == "trades" else v) for k, v in t0["ev"][-1].items()}]})
    st = st_t + st_r
    ctx.evaluations = sum(x[4] for x in st)
    ctx.coverage.update({
        "traces_validated_against_impl": len(traces) + len(sim_traces) + len(cex_traces),
        "in_vivo_runs": len(traces), "model_behaviours_replayed": len(sim_traces),
        "fills_judged": sum(x[2] for x in st), "hooks_judged": sum(x[3] for x in st), "cycles_judged": sum(x[4] for x in st),
        "max_fills_in_a_cycle": max([x[5] for x in st] or [0]),
        "runs_with_a_flip": sum(x[6] for x in st), "runs_with_an_oversize_reduce_only_close": sum(x[7] for x in st),
        "runs_ended_by_jesse_exception": sum(1 for t in traces if t["hdr"]["exc"] != "none"),
        "runs_with_metrics_compared": sum(1 for t in traces if t["ev"][-1].get("has_metrics")),
        "traces_with_clauses": bad_t + bad_r, "samples": samples, "exhaustive": False,
        "rule": "one case = one recorded run (backtest with a seeded policy, or a replayed model behaviour); evaluations = closed "
                "position cycles whose trade record was compared with the fills; distinct non-trivial = distinct hook words of "
                "complete cycles with >= 3 fills",
    })


def replay(ctx, rp):
    K.replay_payload(ctx, rp["payload"], "TraceHooksTrades")
